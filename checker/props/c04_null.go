package props

import (
	"go/ast"
	"go/types"
	"strconv"
	"strings"

	"siotcheck/kit"
)

// C04/R8: a row the store inserts can be read back by the store.
//
// An INSERT that omits a column (or binds NULL to it) leaves NULL in the row
// until a later statement fills the column in.  Outside a transaction the two
// statements are separate commits, so a process death between them leaves the
// row as inserted, and it stays like that.  If a reader of the table scans the
// column into a Go type that database/sql cannot assign NULL to (string, bool,
// numbers, time.Time, …) every later read of that row fails; for the meta row
// that read is part of opening the store.
//
// Decided from the SQL model of package store:
//   - the column definitions of every table (CREATE TABLE / ALTER TABLE ADD
//     COLUMN): which columns have a DEFAULT, which are NOT NULL;
//   - per INSERT the columns that hold NULL in the inserted row;
//   - per reader (Query/QueryRow followed to its Scan, directly or through a
//     row-scanning helper) the destination each selected column lands in.
//
// Not decided: whether a transaction that inserts the row also fills the column
// on every path, beyond the simple shape "an UPDATE of that column (without
// WHERE, or WHERE k = ? bound like the INSERT's k) on the same *sql.Tx, in the
// same function, on every path to Commit".

const (
	qRowsScan = "database/sql.(*Rows).Scan"
	qRowScan  = "database/sql.(*Row).Scan"
)

// c04ColDef is one column of a table as declared by the DDL.
type c04ColDef struct {
	name       string
	decl       string // declaration text after the name
	notNull    bool   // NOT NULL, or INTEGER PRIMARY KEY (rowid alias)
	hasDefault bool   // DEFAULT other than NULL, or a generated column
}

// c04TableDefs parses the column definitions out of the DDL statements.  The
// SQL model keeps only the column names, so the declaration text is read from
// the statement itself.
func c04TableDefs(m *storeModel) map[string][]*c04ColDef {
	tables := map[string][]*c04ColDef{}
	find := func(tbl, col string) *c04ColDef {
		for _, d := range tables[tbl] {
			if d.name == col {
				return d
			}
		}
		return nil
	}
	parse := func(item string) *c04ColDef {
		fs := strings.Fields(item)
		if len(fs) == 0 {
			return nil
		}
		name := strings.ToLower(strings.Trim(fs[0], "\"`[]"))
		switch name {
		case "primary", "unique", "foreign", "check", "constraint":
			return nil // table constraint
		}
		d := &c04ColDef{name: name, decl: strings.Join(fs[1:], " ")}
		up := " " + strings.ToUpper(d.decl) + " "
		d.notNull = strings.Contains(up, " NOT NULL ") ||
			(len(fs) > 1 && strings.EqualFold(fs[1], "INTEGER") && strings.Contains(up, " PRIMARY KEY "))
		if i := strings.Index(up, " DEFAULT "); i >= 0 {
			d.hasDefault = !strings.HasPrefix(strings.TrimSpace(up[i+len(" DEFAULT "):]), "NULL")
		}
		if strings.Contains(up, " GENERATED ") || strings.Contains(up, " AS (") {
			d.hasDefault = true
		}
		return d
	}
	for _, s := range m.sql.Sites {
		for _, st := range s.Stmts {
			if st.Verb != "CREATE-TABLE" || tables[st.Table] != nil {
				continue
			}
			open := strings.Index(st.Raw, "(")
			if open < 0 {
				continue
			}
			for _, item := range c04SplitTop(st.Raw[open+1:], true) {
				if d := parse(item); d != nil {
					tables[st.Table] = append(tables[st.Table], d)
				}
			}
		}
	}
	// ALTER TABLE t ADD [COLUMN] <definition>: a file created by an older version
	// gets the column this way, so the weaker of the two declarations counts
	for _, s := range m.sql.Sites {
		for _, st := range s.Stmts {
			if st.Verb != "ALTER" {
				continue
			}
			fs := strings.Fields(st.Raw)
			i := 0
			for i < len(fs) && !strings.EqualFold(fs[i], "ADD") {
				i++
			}
			i++
			if i < len(fs) && strings.EqualFold(fs[i], "COLUMN") {
				i++
			}
			if i >= len(fs) {
				continue
			}
			d := parse(strings.Join(fs[i:], " "))
			if d == nil {
				continue
			}
			if old := find(st.Table, d.name); old != nil {
				old.notNull = old.notNull && d.notNull
				old.hasDefault = old.hasDefault && d.hasDefault
			} else {
				tables[st.Table] = append(tables[st.Table], d)
			}
		}
	}
	return tables
}

// c04SplitTop splits s at the commas outside parentheses and quotes.  With
// closing set, s is the text after an opening parenthesis and the split ends at
// the matching closing one.
func c04SplitTop(s string, closing bool) []string {
	var out []string
	depth, start := 0, 0
	quote := byte(0)
	for i := 0; i < len(s); i++ {
		ch := s[i]
		switch {
		case quote != 0:
			if ch == quote {
				quote = 0
			}
		case ch == '\'' || ch == '"' || ch == '`':
			quote = ch
		case ch == '(':
			depth++
		case ch == ')':
			if depth == 0 && closing {
				if t := strings.TrimSpace(s[start:i]); t != "" {
					out = append(out, t)
				}
				return out
			}
			depth--
		case ch == ',' && depth == 0:
			out = append(out, strings.TrimSpace(s[start:i]))
			start = i + 1
		}
	}
	if t := strings.TrimSpace(s[start:]); t != "" {
		out = append(out, t)
	}
	return out
}

// c04SelItem is one item of a SELECT list.
type c04SelItem struct {
	col string // plain column (lower case), "" for an expression
	raw string
}

// c04SelectList resolves the select list of a statement to the table columns it
// delivers, `*` expanded in declaration order.  ok=false when the list cannot be
// read (text built at run time, no FROM).
func c04SelectList(raw string, defs []*c04ColDef) (items []c04SelItem, ok bool) {
	if len(raw) < 7 || !strings.EqualFold(raw[:7], "SELECT ") {
		return nil, false
	}
	body := raw[7:]
	// the list ends at the first FROM outside parentheses and quotes
	end := -1
	depth := 0
	quote := byte(0)
	for i := 0; i < len(body) && end < 0; i++ {
		ch := body[i]
		switch {
		case quote != 0:
			if ch == quote {
				quote = 0
			}
		case ch == '\'' || ch == '"' || ch == '`':
			quote = ch
		case ch == '(':
			depth++
		case ch == ')':
			depth--
		case depth == 0 && (ch == ' ') && i+6 <= len(body) && strings.EqualFold(body[i:i+6], " FROM "):
			end = i
		}
	}
	if end < 0 {
		return nil, false
	}
	list := strings.TrimSpace(body[:end])
	for _, kw := range []string{"DISTINCT ", "ALL "} {
		if len(list) > len(kw) && strings.EqualFold(list[:len(kw)], kw) {
			list = strings.TrimSpace(list[len(kw):])
		}
	}
	for _, it := range c04SplitTop(list, false) {
		if strings.Contains(it, "§") {
			return nil, false
		}
		fs := strings.Fields(it)
		// `col`, `col AS alias`, `col alias`, each possibly `tbl.col`
		plain := len(fs) == 1 || (len(fs) == 3 && strings.EqualFold(fs[1], "AS")) || len(fs) == 2
		name := ""
		if plain {
			name = strings.ToLower(fs[0])
			if i := strings.LastIndex(name, "."); i >= 0 {
				name = name[i+1:]
			}
			name = strings.Trim(name, "\"`[]")
		}
		switch {
		case plain && name == "*":
			for _, d := range defs {
				items = append(items, c04SelItem{col: d.name, raw: d.name})
			}
		case plain && c04IsWord(name):
			items = append(items, c04SelItem{col: name, raw: it})
		default:
			items = append(items, c04SelItem{raw: it})
		}
	}
	return items, true
}

func c04IsWord(s string) bool {
	if s == "" || (s[0] >= '0' && s[0] <= '9') {
		return false
	}
	for i := 0; i < len(s); i++ {
		ch := s[i]
		if !(ch == '_' || (ch >= 'a' && ch <= 'z') || (ch >= 'A' && ch <= 'Z') || (ch >= '0' && ch <= '9')) {
			return false
		}
	}
	return true
}

// c04Mentions reports whether the expression text names the column as a word.
func c04Mentions(expr, col string) bool {
	low := strings.ToLower(expr)
	for i := 0; i+len(col) <= len(low); i++ {
		if low[i:i+len(col)] != col {
			continue
		}
		before := i == 0 || !c04IsWord(low[i-1:i])
		after := i+len(col) == len(low) || !c04IsWord(low[i+len(col):i+len(col)+1])
		if before && after {
			return true
		}
	}
	return false
}

// c04NeverNull recognises select expressions that deliver a value even when
// the column is NULL: count(…), and coalesce/ifnull ending in a literal.
func c04NeverNull(expr string) bool {
	low := strings.ToLower(strings.TrimSpace(expr))
	if i := strings.LastIndex(low, ")"); i >= 0 {
		low = low[:i+1] // drop an alias
	}
	if strings.HasPrefix(low, "count(") || strings.HasPrefix(low, "count (") {
		return true
	}
	for _, fn := range []string{"coalesce", "ifnull"} {
		if !strings.HasPrefix(low, fn) {
			continue
		}
		open := strings.Index(low, "(")
		if open < 0 {
			return false
		}
		args := c04SplitTop(low[open+1:], true)
		if len(args) < 2 {
			return false
		}
		last := args[len(args)-1]
		if strings.HasPrefix(last, "'") {
			return true
		}
		_, err := strconv.ParseFloat(last, 64)
		return err == nil
	}
	return false
}

// c04Reader is one (statement, Scan) pair: the rows of st are scanned by scan.
// scan is nil when the result of the query is not followed to a Scan call.
type c04Reader struct {
	site *kit.SQLSite
	st   kit.SQLStmt
	f    *kit.Func // function that holds the Scan
	scan *ast.CallExpr
}

// c04ScansOn lists the Scan calls executed on the rows/row value v of f:
// directly (closures included), or in a same-package helper that receives it.
func c04ScansOn(f *kit.Func, v types.Object, depth int) []scanRef {
	info := f.Info()
	var out []scanRef
	for _, call := range f.AllCalls(true) {
		if kit.CallIs(info, call, qRowsScan, qRowScan) {
			if sel, ok := ast.Unparen(call.Fun).(*ast.SelectorExpr); ok && kit.ObjOf(info, sel.X) == v {
				out = append(out, scanRef{f, call})
			}
			continue
		}
		if depth >= 2 {
			continue
		}
		for i, a := range call.Args {
			if kit.ObjOf(info, a) != v {
				continue
			}
			cf := f.CalleeFunc(call)
			if cf == nil || cf.Body == nil || cf.PkgRel() != f.PkgRel() {
				continue
			}
			if ps := cf.Params(); i < len(ps) {
				out = append(out, c04ScansOn(cf, ps[i], depth+1)...)
			}
		}
	}
	return out
}

// c04Readers builds the readers of package store per table, and the set of
// Scan calls that belong to some query of the model.
func c04Readers(c *kit.Ctx, m *storeModel) (map[string][]*c04Reader, map[*ast.CallExpr]bool) {
	readers := map[string][]*c04Reader{}
	attributed := map[*ast.CallExpr]bool{}
	for _, s := range m.sql.Sites {
		if s.Method != "Query" && s.Method != "QueryRow" {
			continue
		}
		// statements: own templates, or for a wrapper body those of its callers
		var stmts []kit.SQLStmt
		if s.QueryParam {
			for _, cs := range m.sql.Sites {
				if cs.Recv == "wrapper" && cs.F.CalleeFunc(cs.Call) == s.F.Root() {
					stmts = append(stmts, cs.Stmts...)
				}
			}
		} else {
			stmts = s.Stmts
		}
		// the Scan calls fed by this query
		root := s.F.Root()
		info := s.F.Info()
		var scans []scanRef
		var res types.Object
		switch p := c.P.Parent(s.F.File, s.Call).(type) {
		case *ast.AssignStmt:
			if len(p.Rhs) == 1 && len(p.Lhs) > 0 {
				res = kit.ObjOf(info, p.Lhs[0])
			}
		case *ast.ValueSpec:
			if len(p.Values) == 1 && len(p.Names) > 0 {
				res = kit.ObjOf(info, p.Names[0])
			}
		case *ast.SelectorExpr:
			// tx.QueryRow(…).Scan(…)
			if call, ok := c.P.Parent(s.F.File, p).(*ast.CallExpr); ok && call.Fun == ast.Expr(p) && kit.CallIs(info, call, qRowScan, qRowsScan) {
				scans = append(scans, scanRef{s.F, call})
			}
		}
		if res != nil {
			scans = c04ScansOn(root, res, 0)
		}
		for _, sc := range scans {
			attributed[sc.call] = true
		}
		seen := map[string]bool{}
		for _, st := range stmts {
			if st.Verb != "SELECT" || seen[st.Raw] {
				continue
			}
			seen[st.Raw] = true
			if len(scans) == 0 {
				readers[st.Table] = append(readers[st.Table], &c04Reader{site: s, st: st})
			}
			for _, sc := range scans {
				readers[st.Table] = append(readers[st.Table], &c04Reader{site: s, st: st, f: sc.f, scan: sc.call})
			}
		}
	}
	return readers, attributed
}

// c04ScannerIface finds database/sql.Scanner through the imports of the package.
func c04ScannerIface(f *kit.Func) *types.Interface {
	for _, imp := range f.Pkg.Types.Imports() {
		if imp.Path() != "database/sql" {
			continue
		}
		if o := imp.Scope().Lookup("Scanner"); o != nil {
			if it, ok := o.Type().Underlying().(*types.Interface); ok {
				return it
			}
		}
	}
	return nil
}

// c04AcceptsNULL classifies a Scan destination for a NULL column, following
// database/sql's convertAssign: "yes" for *[]byte, *sql.RawBytes, *any, a
// pointer to a pointer and the sql.Null* scanners; "no" for every other
// pointer destination (string, bool, numbers, time.Time, structs, named
// slices); "?" for a Scanner defined elsewhere or a destination whose static
// type is not a pointer.
func c04AcceptsNULL(f *kit.Func, dest ast.Expr) (verdict, typ string) {
	t := f.Info().TypeOf(dest)
	if t == nil {
		return "?", "?"
	}
	typ = types.TypeString(t, func(p *types.Package) string { return p.Name() })
	pt, ok := t.Underlying().(*types.Pointer)
	if !ok {
		return "?", typ
	}
	d := pt.Elem()
	typ = types.TypeString(d, func(p *types.Package) string { return p.Name() })
	if types.Identical(d, types.NewSlice(types.Typ[types.Byte])) || types.Identical(d, types.NewInterfaceType(nil, nil)) ||
		kit.IsNamedType(d, "database/sql", "RawBytes") {
		return "yes", typ
	}
	if sc := c04ScannerIface(f); sc != nil && types.Implements(t, sc) {
		if n, ok := types.Unalias(d).(*types.Named); ok && n.Obj().Pkg() != nil && n.Obj().Pkg().Path() == "database/sql" {
			return "yes", typ
		}
		return "?", typ
	}
	if _, ok := d.Underlying().(*types.Pointer); ok {
		return "yes", typ
	}
	return "no", typ
}

// c04ColumnReaders classifies the readers of table tbl for a NULL in column col.
func c04ColumnReaders(readers []*c04Reader, defs []*c04ColDef, col string) (no, unknown, yes []string) {
	add := func(xs []string, s string) []string {
		if !contains(xs, s) {
			xs = append(xs, s)
		}
		return xs
	}
	for _, rd := range readers {
		where := rd.site.F.Root().Name + " (" + rd.site.F.At(rd.site.Call) + ")"
		items, ok := c04SelectList(rd.st.Raw, defs)
		if !ok {
			unknown = add(unknown, "the select list of `"+rd.st.Raw+"` in "+where+" cannot be read")
			continue
		}
		idx, viaExpr := -1, ""
		for i, it := range items {
			switch {
			case it.col == col:
				idx = i
			case it.col == "" && c04Mentions(it.raw, col) && !c04NeverNull(it.raw):
				viaExpr = it.raw
			}
		}
		if idx < 0 && viaExpr == "" {
			continue // the statement does not deliver the column
		}
		if strings.Contains(strings.ToUpper(rd.st.Raw), " JOIN ") {
			unknown = add(unknown, "`"+rd.st.Raw+"` in "+where+" joins tables")
			continue
		}
		if rd.scan == nil {
			unknown = add(unknown, "the rows of `"+rd.st.Raw+"` in "+where+" are not followed to a Scan call")
			continue
		}
		at := rd.f.Name + " (" + rd.f.At(rd.scan) + ")"
		if idx < 0 {
			unknown = add(unknown, "Scan in "+at+" receives the expression `"+viaExpr+"`")
			continue
		}
		if rd.scan.Ellipsis.IsValid() || len(rd.scan.Args) != len(items) {
			unknown = add(unknown, "Scan in "+at+" has "+strconv.Itoa(len(rd.scan.Args))+" destinations for "+strconv.Itoa(len(items))+" selected columns")
			continue
		}
		dest := rd.scan.Args[idx]
		verdict, typ := c04AcceptsNULL(rd.f, dest)
		desc := "Scan in " + at + " reads " + col + " into `" + rd.f.Str(dest) + "` (" + typ + ")"
		switch verdict {
		case "yes":
			yes = add(yes, desc)
		case "no":
			no = add(no, desc)
		default:
			unknown = add(unknown, desc)
		}
	}
	return no, unknown, yes
}

// c04Insert is one INSERT statement of package store.
type c04Insert struct {
	site  *kit.SQLSite // the call that carries the statement text (Exec, Prepare or wrapper)
	st    kit.SQLStmt
	execs []*kit.SQLSite // the calls that bind arguments (site itself, or the Exec calls of the prepared statement)
	tx    types.Object   // the *sql.Tx it runs on, nil = database handle
	onTx  bool
}

// c04Inserts collects the INSERT statements with the handle they run on.
func c04Inserts(m *storeModel) []*c04Insert {
	var out []*c04Insert
	for _, s := range m.sql.Sites {
		if s.Recv == "stmt" {
			continue // reported at its Prepare site
		}
		for _, st := range s.Stmts {
			if st.Verb != "INSERT" {
				continue
			}
			in := &c04Insert{site: s, st: st}
			info := s.F.Info()
			switch s.Recv {
			case "tx":
				in.onTx = true
				if sel, ok := ast.Unparen(s.Call.Fun).(*ast.SelectorExpr); ok {
					in.tx = kit.ObjOf(info, sel.X)
				}
			case "wrapper":
				if s.TxArg != nil && !kit.IsNilIdent(info, s.TxArg) {
					in.onTx = true
					in.tx = kit.ObjOf(info, s.TxArg)
				}
			}
			if s.Method == "Prepare" {
				for _, e := range m.sql.Sites {
					if e.Recv == "stmt" && e.Prepared == s {
						in.execs = append(in.execs, e)
					}
				}
			} else {
				in.execs = []*kit.SQLSite{s}
			}
			out = append(out, in)
		}
	}
	return out
}

// bindings gives, for the columns whose VALUES item is a single placeholder,
// the number of the bind argument (1-based; `?` takes the next free number,
// `?N` is N).
func (in *c04Insert) bindings(cols []string) map[string]int {
	out := map[string]int{}
	next := 0 // highest placeholder number so far
	for i, col := range cols {
		if i >= len(in.st.Values) {
			break
		}
		fs := strings.Fields(in.st.Values[i])
		for _, tok := range fs {
			if !strings.HasPrefix(tok, "?") {
				continue
			}
			n := next + 1
			if v, err := strconv.Atoi(tok[1:]); err == nil {
				n = v
			}
			if n > next {
				next = n
			}
			if len(fs) == 1 {
				out[col] = n
			}
		}
	}
	return out
}

// nullColumns lists the columns that hold NULL in the inserted row, with the
// reason; failing lists omitted NOT NULL columns (the INSERT is rejected, no
// row is stored).
func (in *c04Insert) nullColumns(defs []*c04ColDef) (null map[string]string, order []string, failing []string) {
	null = map[string]string{}
	cols := in.st.Cols
	if len(cols) == 0 {
		// no column list: values by position
		for _, d := range defs {
			cols = append(cols, d.name)
		}
	}
	named := map[string]bool{}
	bound := in.bindings(cols)
	for i, col := range cols {
		named[col] = true
		if i >= len(in.st.Values) {
			continue
		}
		switch n, isParam := bound[col]; {
		case strings.EqualFold(strings.TrimSpace(in.st.Values[i]), "NULL"):
			null[col] = "VALUES gives NULL"
			order = append(order, col)
		case isParam:
			// a placeholder bound to the untyped nil
			for _, e := range in.execs {
				if e.Call.Ellipsis.IsValid() || n > len(e.Args) {
					continue
				}
				if kit.IsNilIdent(e.F.Info(), e.Args[n-1]) && null[col] == "" {
					null[col] = "bound to nil"
					order = append(order, col)
				}
			}
		}
	}
	for _, d := range defs {
		if named[d.name] || d.hasDefault {
			continue
		}
		if d.notNull {
			failing = append(failing, d.name)
			continue
		}
		null[d.name] = "omitted, declared `" + d.name + " " + d.decl + "` without DEFAULT"
		order = append(order, d.name)
	}
	return null, order, failing
}

// reachesInsertedRow reports whether an UPDATE executed in the function of the
// INSERT applies to the inserted row: it has no WHERE, or its WHERE is `k = ?`
// bound to the very expression (a variable or field that is not assigned in
// between) the INSERT binds to column k.
func (in *c04Insert) reachesInsertedRow(s *kit.SQLSite, st kit.SQLStmt) bool {
	if st.WhereRaw == "" {
		return true
	}
	root := in.site.F.Root()
	if s.F.Root() != root || s.Recv != "tx" || len(in.execs) != 1 || in.execs[0].F.Root() != root {
		return false
	}
	fs := strings.Fields(st.WhereRaw)
	if len(fs) != 3 || fs[1] != "=" || fs[2] != "?" || len(st.Where) != 1 || strings.ToLower(fs[0]) != st.Where[0] {
		return false
	}
	if strings.Contains(st.Raw, "?1") || s.Call.Ellipsis.IsValid() || len(s.Args) != st.Params || st.Params == 0 {
		return false
	}
	ins := in.execs[0]
	n, ok := in.bindings(in.st.Cols)[st.Where[0]]
	if !ok || ins.Call.Ellipsis.IsValid() || n > len(ins.Args) {
		return false
	}
	info := root.Info()
	a, b := ast.Unparen(ins.Args[n-1]), ast.Unparen(s.Args[st.Params-1])
	if !kit.SameExpr(info, a, b) {
		return false
	}
	// a variable or a field path, whose variable is not written between the two statements
	base := a
	for {
		sel, ok := base.(*ast.SelectorExpr)
		if !ok {
			break
		}
		base = ast.Unparen(sel.X)
	}
	id, ok := base.(*ast.Ident)
	if !ok {
		return false
	}
	v := kit.ObjOf(info, id)
	lo, hi := ins.Call.Pos(), s.Call.End()
	if lo > hi {
		return false
	}
	written := false
	ast.Inspect(root.Body, func(x ast.Node) bool {
		if x == nil || x.End() < lo || x.Pos() > hi {
			return x != nil && x.Pos() <= hi
		}
		baseOf := func(e ast.Expr) types.Object {
			for {
				switch y := ast.Unparen(e).(type) {
				case *ast.SelectorExpr:
					e = y.X
				case *ast.IndexExpr:
					e = y.X
				case *ast.StarExpr:
					e = y.X
				case *ast.Ident:
					return kit.ObjOf(info, y)
				default:
					return nil
				}
			}
		}
		switch y := x.(type) {
		case *ast.AssignStmt:
			for _, l := range y.Lhs {
				if y.Pos() >= lo && baseOf(l) == v {
					written = true
				}
			}
		case *ast.IncDecStmt:
			if y.Pos() >= lo && baseOf(y.X) == v {
				written = true
			}
		case *ast.UnaryExpr:
			// &v handed to somebody
			if y.Op.String() == "&" && y.Pos() >= lo && baseOf(y.X) == v {
				written = true
			}
		}
		return true
	})
	return !written
}

// filledInTx looks for the statement that gives col its value in the
// transaction of the INSERT.  "proved": an UPDATE of the column that reaches the
// inserted row (reachesInsertedRow), on the same *sql.Tx in the same function,
// lies on every path from the INSERT to Commit.  "maybe": such an UPDATE exists (here or in a helper that receives the
// transaction) but not in that shape.  "": there is none.
func (in *c04Insert) filledInTx(c *kit.Ctx, m *storeModel, col string) (verdict, what string) {
	if !in.onTx || in.tx == nil {
		return "", ""
	}
	root := in.site.F.Root()
	table := in.st.Table
	sets := func(s *kit.SQLSite) (hit, where bool) {
		for _, st := range s.Stmts {
			if st.Verb == "UPDATE" && st.Table == table && contains(st.Cols, col) {
				hit = true
				if len(s.Stmts) != 1 || !in.reachesInsertedRow(s, st) {
					where = true
				}
			}
		}
		return
	}
	onTx := func(s *kit.SQLSite, tx types.Object) bool {
		info := s.F.Info()
		switch s.Recv {
		case "tx":
			sel, ok := ast.Unparen(s.Call.Fun).(*ast.SelectorExpr)
			return ok && kit.ObjOf(info, sel.X) == tx
		case "wrapper":
			return s.TxArg != nil && kit.ObjOf(info, s.TxArg) == tx
		case "stmt":
			if s.Prepared != nil && s.Prepared.Recv == "tx" {
				sel, ok := ast.Unparen(s.Prepared.Call.Fun).(*ast.SelectorExpr)
				return ok && kit.ObjOf(s.Prepared.F.Info(), sel.X) == tx
			}
		}
		return false
	}
	// candidates in the function itself
	fills := map[*ast.CallExpr]bool{}
	maybe := ""
	for _, s := range m.sql.Sites {
		if s.F.Root() != root || s.Method == "Prepare" || !onTx(s, in.tx) {
			continue
		}
		if hit, where := sets(s); hit {
			if where || s.Recv != "tx" {
				maybe = "`" + s.Stmts[0].Raw + "` in " + root.Name
			} else {
				fills[s.Call] = true
			}
		}
	}
	// … and in the helpers the transaction is handed to
	var inHelper func(f *kit.Func, tx types.Object, depth int)
	inHelper = func(f *kit.Func, tx types.Object, depth int) {
		for _, call := range f.AllCalls(true) {
			cf := f.CalleeFunc(call)
			if cf == nil || cf.Body == nil || cf.PkgRel() != "store" || cf.Root() == f.Root() {
				continue
			}
			for i, a := range call.Args {
				if kit.ObjOf(f.Info(), a) != tx {
					continue
				}
				ps := cf.Params()
				if i >= len(ps) {
					continue
				}
				for _, s := range m.sql.Sites {
					if s.F.Root() == cf && s.Method != "Prepare" && onTx(s, ps[i]) {
						if hit, _ := sets(s); hit {
							maybe = "`" + s.Stmts[0].Raw + "` in " + cf.Name
						}
					}
				}
				if depth < 2 {
					inHelper(cf, ps[i], depth+1)
				}
			}
		}
	}
	inHelper(root, in.tx, 0)
	if len(fills) == 0 {
		if maybe != "" {
			return "maybe", maybe
		}
		return "", ""
	}
	// every path from the INSERT to Commit on this transaction passes a fill
	inserts := map[*ast.CallExpr]bool{}
	for _, e := range in.execs {
		if e.F.Root() == root {
			inserts[e.Call] = true
		}
	}
	commits, open := 0, false
	g := c.P.Graph(root)
	st := &kit.Std{F: root}
	st.OnCall = func(call *ast.CallExpr, n ast.Node, s kit.S) []kit.S {
		switch {
		case inserts[call]:
			return []kit.S{s.Set("row", "null")}
		case fills[call]:
			return []kit.S{s.Del("row")}
		case kit.CallIs(root.Info(), call, qCommit):
			if sel, ok := ast.Unparen(call.Fun).(*ast.SelectorExpr); ok && kit.ObjOf(root.Info(), sel.X) == in.tx {
				commits++
				if s.Get("row") == "null" {
					open = true
				}
			}
		}
		return nil
	}
	g.Run(kit.NewS(), st.Client())
	if len(inserts) == 0 || commits == 0 || open {
		return "maybe", "an UPDATE of " + col + " on the same transaction in " + root.Name + " that does not lie on every path from the INSERT to Commit"
	}
	return "proved", "UPDATE " + table + " SET " + col + " on the same transaction on every path to Commit"
}

// c04Nullability is rule R8.
func c04Nullability(c *kit.Ctx, m *storeModel, r8 *kit.Rule) {
	tables := c04TableDefs(m)
	readers, attributed := c04Readers(c, m)
	// a Scan that belongs to no query of the model reads an unknown table
	var stray []string
	for _, f := range c.P.Funcs("store") {
		if f.Body == nil || f.Lit != nil {
			continue
		}
		for _, call := range f.AllCalls(true) {
			if !kit.CallIs(f.Info(), call, qRowsScan, qRowScan) || attributed[call] {
				continue
			}
			for _, a := range call.Args {
				if v, _ := c04AcceptsNULL(f, a); v != "yes" {
					stray = append(stray, "Scan in "+f.Name+" ("+f.At(call)+") is not linked to a query")
					break
				}
			}
		}
	}
	ordinal := map[string]int{}
	for _, in := range c04Inserts(m) {
		root := in.site.F.Root()
		c.Analysed(root)
		key := in.st.Table + ": INSERT in " + root.Name
		ordinal[key]++
		if n := ordinal[key]; n > 1 {
			key += " #" + strconv.Itoa(n)
		}
		o := r8.Ob(root, in.site.Call, key, "every column the inserted row holds NULL in is read into a destination that accepts NULL, or is filled in by the same transaction")
		defs := tables[in.st.Table]
		if len(defs) == 0 {
			o.Undecided("CREATE TABLE %s not found", in.st.Table)
			continue
		}
		null, order, failing := in.nullColumns(defs)
		if len(order) == 0 {
			note := ""
			if len(failing) > 0 {
				note = "; omits NOT NULL " + strings.Join(failing, ", ") + " (the statement is rejected, no row is stored)"
			}
			o.OK("no column of the inserted row is NULL%s", note)
			continue
		}
		handle := "the database handle"
		if in.onTx {
			handle = "a transaction"
		}
		var good []string
		for _, col := range order {
			no, unknown, yes := c04ColumnReaders(readers[in.st.Table], defs, col)
			if len(stray) > 0 {
				unknown = append(unknown, stray...)
			}
			switch {
			case len(no) == 0 && len(unknown) == 0:
				how := "no reader selects it"
				if len(yes) > 0 {
					how = strings.Join(yes, "; ")
				}
				good = append(good, col+" ("+null[col]+"): "+how)
				continue
			case len(no) == 0:
				o.Undecided("column %s is NULL in the inserted row (%s) and a reader cannot be classified: %s", col, null[col], strings.Join(unknown, "; "))
				continue
			}
			filled, what := in.filledInTx(c, m, col)
			switch filled {
			case "proved":
				good = append(good, col+" ("+null[col]+"): "+what)
			case "maybe":
				o.Undecided("column %s is NULL in the inserted row (%s); it may be filled in by %s; that every committed row has it set is not proved; reader that needs it: %s",
					col, null[col], what, no[0])
			default:
				if in.onTx {
					o.Violation("`%s` runs on %s and leaves %s NULL (%s); no statement of that transaction in %s sets it, so the committed row cannot be read back: %s, which fails with \"converting NULL to … is unsupported\"%s",
						in.st.Raw, handle, col, null[col], root.Name, no[0], c04More(no))
				} else {
					o.Violation("`%s` runs on %s and leaves %s NULL (%s); a crash between this INSERT and the statement that fills %s leaves a row that the store cannot scan: %s, which fails with \"converting NULL to … is unsupported\" on every later read (for the meta row: the store does not start)%s",
						in.st.Raw, handle, col, null[col], col, no[0], c04More(no))
				}
			}
		}
		o.OK("%s", strings.Join(good, "; "))
	}
}

func c04More(xs []string) string {
	if len(xs) <= 1 {
		return ""
	}
	return "; also " + strings.Join(xs[1:], "; ")
}
