package props

import (
	"fmt"
	"go/ast"
	"go/constant"
	"go/token"
	"go/types"
	"strings"

	"siotcheck/kit"
)

// C07/R9 — a restart point below a client's node stops the client, whoever
// wrote it and wherever it stands in the batch.
//
// "Adding or removing a child of a client's node restarts that client" rests on
// the per-client subscription handler: an edge message (four-token subject
// up.<own>.<node>.<parent>) that holds a tombstone point (value 0 or 1) or a
// node-type point must reach the client state's stop.  Nothing else heals a
// missed restart — the scan compares placement keys only.  Whether the handler
// stops depends on nothing but the kind of the points: not on their author
// (the owning client creates children itself and stamps them with its own id),
// not on the other points of the batch, not on their order.
//
// The handler is evaluated (K4, finite domain) on concrete messages: every
// point has a kind (ordinary, tombstone 1, tombstone 0, node type) and an
// author (no origin, the client's own node, another node); batches of one
// point, and of two points with an ordinary edge point before or after the
// restart point; the subject node is the client's own node or a descendant.
// Conditions over these atoms are decided, all others are explored on both
// edges and remembered: a missed stop that passes a condition on the message
// the checker does not understand is undecided, not a violation.

// c07Sub is a subscription handler of package client that works on a client state.
type c07Sub struct {
	f      *kit.Func
	info   *types.Info
	msg    *types.Var
	points types.Object
	decode *ast.CallExpr
	chunks types.Object
	cs     types.Object
	funcs  []*kit.Func
}

// c07SubHandlers finds the message handlers (functions with a *nats.Msg
// parameter) that refer to exactly one client-state variable, decode the
// message's points and split its subject.
func c07SubHandlers(c *kit.Ctx, m *cmModel) (hs []*c07Sub, undec string) {
	funcs := c.P.Funcs("client")
	for _, f := range funcs {
		if f.Body == nil || msgParam(f) == nil {
			continue
		}
		info := f.Info()
		css := map[types.Object]bool{}
		ast.Inspect(f.Body, func(n ast.Node) bool {
			if id, ok := n.(*ast.Ident); ok {
				if o, isVar := kit.ObjOf(info, id).(*types.Var); isVar && !o.IsField() && cmIsPointer(o.Type()) && m.isCS(o.Type()) {
					css[o] = true
				}
			}
			return true
		})
		if len(css) == 0 {
			continue
		}
		if len(css) > 1 {
			undec = f.Name + " refers to more than one client-state variable"
			continue
		}
		h := &c07Sub{f: f, info: info, msg: msgParam(f), funcs: funcs}
		for o := range css {
			h.cs = o
		}
		cmOwn(f.Body, func(n ast.Node) bool {
			as, ok := n.(*ast.AssignStmt)
			if !ok || len(as.Rhs) != 1 {
				return true
			}
			call, ok := ast.Unparen(as.Rhs[0]).(*ast.CallExpr)
			if !ok {
				return true
			}
			switch {
			case kit.CallIs(info, call, "strings.Split") && len(call.Args) == 2 && isMsgField(f, call.Args[0], h.msg, "Subject") && len(as.Lhs) == 1:
				if s, ok := kit.ConstString(info, call.Args[1]); ok && s == "." {
					h.chunks = kit.ObjOf(info, as.Lhs[0])
				}
			case len(call.Args) == 1 && isMsgField(f, call.Args[0], h.msg, "Data") && len(as.Lhs) == 2:
				if t := info.TypeOf(as.Lhs[0]); t != nil {
					if sl, ok := t.Underlying().(*types.Slice); ok && kit.IsNamedType(sl.Elem(), dataPkg, "Point") {
						h.points = kit.ObjOf(info, as.Lhs[0])
						h.decode = call
					}
				}
			}
			return true
		})
		if h.chunks == nil || h.points == nil {
			if undec == "" {
				undec = fmt.Sprintf("%s works on client state `%s`, but its subject split (found: %v) or point decode (found: %v) is not in the handler itself", f.Name, h.cs.Name(), h.chunks != nil, h.points != nil)
			}
			continue
		}
		hs = append(hs, h)
	}
	if len(hs) > 0 {
		undec = ""
	} else if undec == "" {
		undec = "no message handler of package client refers to a client state"
	}
	return hs, undec
}

// defFunc returns the innermost function of package client whose source range holds o's declaration.
func (h *c07Sub) defFunc(o types.Object) *kit.Func {
	if o == nil {
		return nil
	}
	var best *kit.Func
	for _, f := range h.funcs {
		if f.Body == nil {
			continue
		}
		n := f.Node()
		if n.Pos() <= o.Pos() && o.Pos() < n.End() {
			if best == nil || (best.Node().Pos() <= n.Pos() && n.End() <= best.Node().End()) {
				best = f
			}
		}
	}
	return best
}

// ownNodeVar: v is the node handed to the constructor of the handler's client
// state and belongs to the iteration that built it, so `v.ID` is the client's
// own node id when the handler runs.
func (h *c07Sub) ownNodeVar(m *cmModel, v types.Object) bool {
	root := h.f.Root()
	info := root.Info()
	if !cmIsLocal(v) || !kit.IsNamedType(v.Type(), dataPkg, "NodeEdge") {
		return false
	}
	if n := h.f.Node(); n.Pos() <= v.Pos() && v.Pos() < n.End() {
		return false
	}
	var at *ast.CallExpr
	cmOwn(root.Body, func(n ast.Node) bool {
		as, ok := n.(*ast.AssignStmt)
		if !ok || len(as.Rhs) != 1 || len(as.Lhs) != 2 || kit.ObjOf(info, as.Lhs[0]) != h.cs {
			return true
		}
		call, ok := ast.Unparen(as.Rhs[0]).(*ast.CallExpr)
		if !ok {
			return true
		}
		cf := root.CalleeFunc(call)
		for _, x := range m.ctors {
			if x == cf && cf != nil {
				for _, a := range call.Args {
					if _, isID := ast.Unparen(a).(*ast.Ident); isID && kit.ObjOf(info, a) == v {
						at = call
					}
				}
			}
		}
		return true
	})
	if at == nil || cmAssignCount(root, v) != 1 {
		return false
	}
	loop := cmEnclosingRange(root, at)
	switch {
	case loop == nil:
		return true
	case loop.Body.Pos() <= v.Pos() && v.Pos() < loop.Body.End():
		return true
	case loop.Pos() <= v.Pos() && v.Pos() < loop.End():
		return cmPerIterationLoopVars(root)
	}
	return false
}

// c07Pt is one point of a scenario message.
type c07Pt struct {
	kind   string // "ordinary", "tomb1", "tomb0", "ntype"
	author string // "empty" (no origin), "own" (the client's node), "foreign" (another node)
}

func (p c07Pt) String() string {
	k := map[string]string{"ordinary": "ordinary edge point", "tomb1": "tombstone point (value 1)", "tomb0": "tombstone point (value 0)", "ntype": "node-type point"}[p.kind]
	a := map[string]string{"empty": "without origin", "own": "written by the client's own node", "foreign": "written by another node"}[p.author]
	return k + " " + a
}

func c07PtsStr(pts []c07Pt) string {
	var ps []string
	for _, p := range pts {
		ps = append(ps, p.String())
	}
	return "[" + strings.Join(ps, ", ") + "]"
}

// c07Val is the value of an expression in a scenario: a string constant, a
// number, or a node id known only by its role ("own", "foreign", "node").
type c07Val struct {
	kind byte // 's', 'n', 'i'
	s    string
	f    float64
}

type c07RsOut struct {
	exits    int
	noStop   []kit.Exit // return exits reached without a stop of the client state
	unkOther []string   // not-understood conditions that do not depend on the message or the client state
	overflow bool
	res      *kit.Result
	desc     map[string]string // "unk:<id>" -> source text
}

// unknowns lists what the path to e passed that depends on the message or the
// client state and was not evaluated: conditions (explored on both edges) and
// calls that were handed the client state.
func (o *c07RsOut) unknowns(e kit.Exit) []string {
	var out []string
	for _, k := range e.State.Keys() {
		switch {
		case strings.HasPrefix(k, "unk:"):
			out = append(out, o.desc[k])
		case strings.HasPrefix(k, "a:u"):
			out = append(out, o.desc["unk:"+k[3:]])
		}
	}
	return uniqStrings(out)
}

// judged returns an exit without a stop whose path is fully understood, or, if
// there is none, one that is not together with what was not understood on it.
func (o *c07RsOut) judged() (bad *kit.Exit, und *kit.Exit, why []string) {
	for i := range o.noStop {
		if u := o.unknowns(o.noStop[i]); len(u) == 0 {
			return &o.noStop[i], nil, nil
		} else if und == nil {
			und, why = &o.noStop[i], u
		}
	}
	return nil, und, why
}

// c07RestartRun evaluates the handler on the message pts published on
// up.<own>.<node>.<parent> (subjOwn: node is the client's own node).
func c07RestartRun(c *kit.Ctx, m *cmModel, h *c07Sub, pts []c07Pt, subjOwn bool, tomb, ntype string) *c07RsOut {
	f, info := h.f, h.info
	out := &c07RsOut{desc: map[string]string{}}
	const nChunks = 4
	st := &kit.Std{F: f}
	// norm resolves parameters of helpers evaluated inline to the caller's arguments and
	// single-assignment locals to their definition (`nodeID := chunks[2]`, `clientID := cs.node.ID`).
	var norm func(e ast.Expr, depth int) ast.Expr
	norm = func(e ast.Expr, depth int) ast.Expr {
		e = ast.Unparen(st.Resolve(ast.Unparen(e)))
		id, ok := e.(*ast.Ident)
		if !ok || depth > 6 {
			return e
		}
		o := kit.ObjOf(info, id)
		if o == nil || !cmIsLocal(o) || o == h.points || o == h.chunks || o == h.cs || o == types.Object(h.msg) {
			return e
		}
		df := h.defFunc(o)
		if df == nil || c07ParamOf(df, o) != nil {
			return e
		}
		def := cmSingleDef(df.Root(), o)
		if def == nil {
			return e
		}
		switch d := ast.Unparen(def).(type) {
		case *ast.Ident, *ast.SelectorExpr, *ast.IndexExpr:
			return norm(def, depth+1)
		case *ast.UnaryExpr:
			// `p := &points[i]` names the same point
			if _, isIx := ast.Unparen(d.X).(*ast.IndexExpr); isIx && d.Op == token.AND {
				return norm(d.X, depth+1)
			}
		}
		return e
	}
	normObj := func(e ast.Expr) types.Object {
		x := norm(e, 0)
		if _, isID := x.(*ast.Ident); !isID {
			return nil
		}
		return kit.ObjOf(info, x)
	}
	itKey := func(l *ast.RangeStmt) string { return fmt.Sprintf("it%d", l.Pos()) }
	// loopOf: the loop over the decoded batch that o is the value (or key) variable of
	loopOf := func(o types.Object, asKey bool) *ast.RangeStmt {
		df := h.defFunc(o)
		if o == nil || df == nil {
			return nil
		}
		for _, l := range df.SliceLoops(df.Node()) {
			e := l.Value
			if asKey {
				e = l.Key
			}
			if e != nil && kit.ObjOf(info, e) == o && normObj(l.X) == h.points {
				return l
			}
		}
		return nil
	}
	cur := func(l *ast.RangeStmt, s kit.S) (int, bool) {
		n := 0
		if _, err := fmt.Sscanf(s.Get(itKey(l)), "%d", &n); err != nil || n < 1 || n > len(pts) {
			return 0, false
		}
		return n - 1, true
	}
	// elemIdx: which point of the batch e denotes in state s
	elemIdx := func(e ast.Expr, s kit.S) (int, bool) {
		switch y := norm(e, 0).(type) {
		case *ast.IndexExpr:
			if normObj(y.X) != h.points {
				return 0, false
			}
			if k, ok := kit.ConstInt(info, y.Index); ok {
				return int(k), k >= 0 && int(k) < len(pts)
			}
			if id, ok := ast.Unparen(y.Index).(*ast.Ident); ok {
				if l := loopOf(kit.ObjOf(info, id), true); l != nil {
					return cur(l, s)
				}
			}
		case *ast.Ident:
			if l := loopOf(kit.ObjOf(info, y), false); l != nil {
				return cur(l, s)
			}
		}
		return 0, false
	}
	ownID := func(x ast.Expr) bool {
		sel, ok := x.(*ast.SelectorExpr)
		if !ok {
			return false
		}
		if fv := cmField(info, sel); fv == nil || fv.Name() != "ID" {
			return false
		}
		if inner, ok := ast.Unparen(sel.X).(*ast.SelectorExpr); ok {
			return cmField(info, inner) == m.csNode && normObj(inner.X) == h.cs
		}
		if v := normObj(sel.X); v != nil {
			return h.ownNodeVar(m, v)
		}
		return false
	}
	valueOf := func(e ast.Expr, s kit.S) (c07Val, bool) {
		e = ast.Unparen(e)
		if e == ast.Expr(kit.EmptyStringLit) {
			return c07Val{kind: 's'}, true
		}
		if tv, ok := info.Types[e]; ok && tv.Value != nil {
			switch tv.Value.Kind() {
			case constant.String:
				return c07Val{kind: 's', s: constant.StringVal(tv.Value)}, true
			case constant.Int, constant.Float:
				fv, _ := constant.Float64Val(tv.Value)
				return c07Val{kind: 'n', f: fv}, true
			}
			return c07Val{}, false
		}
		if call, ok := e.(*ast.CallExpr); ok && cmIsBuiltin(info, call, "len") && len(call.Args) == 1 {
			switch normObj(call.Args[0]) {
			case nil:
			case h.chunks:
				return c07Val{kind: 'n', f: nChunks}, true
			case h.points:
				return c07Val{kind: 'n', f: float64(len(pts))}, true
			}
			return c07Val{}, false
		}
		switch x := norm(e, 0).(type) {
		case *ast.SelectorExpr:
			fv := cmField(info, x)
			if fv == nil {
				return c07Val{}, false
			}
			if i, ok := elemIdx(x.X, s); ok && kit.IsNamedType(info.TypeOf(x.X), dataPkg, "Point") {
				p := pts[i]
				switch fv.Name() {
				case "Origin":
					if p.author == "empty" {
						return c07Val{kind: 's'}, true
					}
					return c07Val{kind: 'i', s: p.author}, true
				case "Type":
					switch p.kind {
					case "tomb1", "tomb0":
						return c07Val{kind: 's', s: tomb}, true
					case "ntype":
						return c07Val{kind: 's', s: ntype}, true
					}
					return c07Val{kind: 's', s: "\x00ordinary"}, true
				case "Value":
					switch p.kind {
					case "tomb1":
						return c07Val{kind: 'n', f: 1}, true
					case "tomb0":
						return c07Val{kind: 'n', f: 0}, true
					}
				}
				return c07Val{}, false
			}
			if ownID(x) {
				return c07Val{kind: 'i', s: "own"}, true
			}
		case *ast.IndexExpr:
			if normObj(x.X) == h.chunks {
				if k, ok := kit.ConstInt(info, x.Index); ok {
					switch {
					case k == 1, k == 2 && subjOwn:
						return c07Val{kind: 'i', s: "own"}, true // the subscription subject is up.<own id>.>
					case k == 2:
						return c07Val{kind: 'i', s: "node"}, true
					}
				}
			}
		}
		return c07Val{}, false
	}
	st.ShouldInline = func(cf *kit.Func, _ *ast.CallExpr) bool { return !c07BusHelper(cf) }
	st.MaxInline = 6
	st.Fold = func(e ast.Expr, s kit.S) (bool, bool) {
		x, y, op, ok := kit.CmpAtom(e)
		if !ok {
			return false, false
		}
		// a constructed client state has a client
		if op == token.EQL || op == token.NEQ {
			for _, pr := range [][2]ast.Expr{{x, y}, {y, x}} {
				if kit.IsNilIdent(info, pr[1]) {
					if sel, ok := ast.Unparen(pr[0]).(*ast.SelectorExpr); ok && cmField(info, sel) == m.csClient && normObj(sel.X) == h.cs {
						return op == token.NEQ, true
					}
				}
			}
		}
		a, ok1 := valueOf(x, s)
		b, ok2 := valueOf(y, s)
		if !ok1 || !ok2 {
			return false, false
		}
		eq, known := false, false
		switch {
		case a.kind == 'n' && b.kind == 'n':
			return constant.Compare(constant.MakeFloat64(a.f), op, constant.MakeFloat64(b.f)), true
		case a.kind == 's' && b.kind == 's':
			eq, known = a.s == b.s, true
		case a.kind == 'i' && b.kind == 'i':
			switch {
			case a.s == b.s:
				eq, known = true, true
			case a.s == "own" || b.s == "own":
				eq, known = false, true // "foreign" and "node" are by definition other nodes than the client's
			}
		case a.kind == 'i' && b.kind == 's', a.kind == 's' && b.kind == 'i':
			if a.s == "" || b.s == "" {
				eq, known = false, true // node ids are not empty
			}
		}
		if known {
			switch op {
			case token.EQL:
				return eq, true
			case token.NEQ:
				return !eq, true
			}
		}
		return false, false
	}
	// related: the expression depends on the message or on the client state.  Decided
	// conservatively: by the type of the variables it mentions, by the roles the
	// evaluation knows, and through the assignments of the locals it reads.
	typeRelated := func(t types.Type) bool {
		if t == nil {
			return false
		}
		if p, ok := t.Underlying().(*types.Pointer); ok {
			t = p.Elem()
		}
		if sl, ok := t.Underlying().(*types.Slice); ok {
			t = sl.Elem()
		}
		return kit.IsNamedType(t, dataPkg, "Point") || kit.IsNamedType(t, natsPkg, "Msg") || m.isCS(t)
	}
	var related func(e ast.Expr, depth int) bool
	related = func(e ast.Expr, depth int) bool {
		rel := false
		ast.Inspect(e, func(n ast.Node) bool {
			id, ok := n.(*ast.Ident)
			if !ok || rel {
				return !rel
			}
			v, isVar := kit.ObjOf(info, id).(*types.Var)
			if !isVar || v.IsField() {
				return true
			}
			o := types.Object(v)
			if o == h.points || o == h.chunks || o == h.cs || o == types.Object(h.msg) || typeRelated(v.Type()) {
				rel = true
				return false
			}
			if !cmIsLocal(o) {
				return true
			}
			if depth >= 4 {
				rel = true // too deep to tell: take it to depend on the message
				return false
			}
			if x := norm(id, 0); x != ast.Expr(id) {
				if _, isID := x.(*ast.Ident); !isID || kit.ObjOf(info, x) != o {
					rel = related(x, depth+1)
					return !rel
				}
			}
			// every value the local is given
			if df := h.defFunc(o); df != nil {
				ast.Inspect(df.Root().Body, func(y ast.Node) bool {
					switch z := y.(type) {
					case *ast.AssignStmt:
						for i, l := range z.Lhs {
							if _, isID := ast.Unparen(l).(*ast.Ident); !isID || kit.ObjOf(info, l) != o {
								continue
							}
							rhs := z.Rhs[0]
							if len(z.Lhs) == len(z.Rhs) {
								rhs = z.Rhs[i]
							}
							if related(rhs, depth+1) {
								rel = true
							}
						}
					case *ast.RangeStmt:
						for _, kv := range []ast.Expr{z.Key, z.Value} {
							if kv != nil && kit.ObjOf(info, kv) == o && related(z.X, depth+1) {
								rel = true
							}
						}
					}
					return !rel
				})
			}
			return !rel
		})
		return rel
	}
	// a condition that depends on the message or the client state and is not decided by the
	// scenario is an atom: both edges are explored and the path remembers that it passed it
	st.Eval.Atom = func(e ast.Expr) (string, bool, bool) {
		if !related(e, 0) {
			return "", false, false
		}
		id := fmt.Sprintf("u%d", e.Pos())
		out.desc["unk:"+id[1:]] = "`" + f.Str(e) + "`"
		return id, false, true
	}
	st.Eval.OnUnknown = func(e ast.Expr) { out.unkOther = append(out.unkOther, f.Str(e)) }
	opaque := func(s kit.S, n ast.Node, what string) kit.S {
		k := fmt.Sprintf("unk:c%d", n.Pos())
		out.desc[k] = what
		return s.Set(k, "1")
	}
	st.ErrTag = func(call *ast.CallExpr, s kit.S) string {
		if call == h.decode {
			return "dec"
		}
		return ""
	}
	st.OnErrEdge = func(tag string, isErr bool, s kit.S) (kit.S, bool) {
		if tag == "dec" && isErr {
			return s, false // the scenario is a decodable message
		}
		return s, true
	}
	relevantType := func(t types.Type) bool {
		if t == nil {
			return false
		}
		if m.isCS(t) || kit.IsNamedType(t, natsPkg, "Msg") {
			return true
		}
		if _, isFn := t.Underlying().(*types.Signature); isFn {
			return true
		}
		return false
	}
	st.OnCall = func(call *ast.CallExpr, n ast.Node, s kit.S) []kit.S {
		if _, isGo := n.(*ast.GoStmt); isGo {
			return nil
		}
		if rx, ok := m.isStopCall(st.Cur(), call); ok && normObj(rx) == h.cs {
			return []kit.S{s.Set("stopped", "1")}
		}
		// a call that could stop the client state but is not evaluated inline
		if !cmIsLibraryCall(info, call) {
			cf := st.Cur().CalleeFunc(call)
			if cf == nil || cf.Body == nil || cf.Pkg != f.Pkg || c07BusHelper(cf) {
				rel := cf == nil // a function value
				for _, a := range call.Args {
					if relevantType(info.TypeOf(a)) {
						rel = true
					}
				}
				if sel, ok := ast.Unparen(call.Fun).(*ast.SelectorExpr); ok {
					if sn := info.Selections[sel]; sn != nil && relevantType(info.TypeOf(sel.X)) {
						rel = true
					}
				}
				if rel {
					return []kit.S{opaque(s, call, "call of `"+st.Cur().Str(call.Fun)+"` (not evaluated)")}
				}
			}
		}
		return nil
	}
	st.OnNode = func(n ast.Node, s kit.S) []kit.S {
		// the answer to a not-understood condition holds for that evaluation only: the next
		// evaluation (another iteration of a polling loop) forks again; the path keeps the fact
		for _, k := range s.Keys() {
			if strings.HasPrefix(k, "a:u") {
				s = s.Del(k).Set("unk:"+k[3:], "1")
			}
		}
		// a helper that returns from inside its loop over the batch starts that loop afresh
		// the next time it is called
		if _, isRet := n.(*ast.ReturnStmt); isRet && st.Cur() != f {
			lo, hi := st.Cur().Node().Pos(), st.Cur().Node().End()
			for _, k := range s.Keys() {
				var p int
				if _, err := fmt.Sscanf(k, "it%d", &p); err == nil && lo <= token.Pos(p) && token.Pos(p) < hi {
					s = s.Del(k)
				}
			}
		}
		// `defer cs.stop(nil)` / `go cs.stop(nil)` stop the client state as well; any other
		// deferred or spawned call that is handed the client state is not followed
		var spawned *ast.CallExpr
		switch x := n.(type) {
		case *ast.GoStmt:
			spawned = x.Call
		case *ast.DeferStmt:
			spawned = x.Call
		}
		if spawned != nil {
			if rx, ok := m.isStopCall(st.Cur(), spawned); ok && normObj(rx) == h.cs {
				return []kit.S{s.Set("stopped", "1")}
			}
			if related(spawned, 0) {
				s = opaque(s, n, "`"+st.Cur().Str(n)+"` (not evaluated)")
			}
			return []kit.S{s}
		}
		// boolean locals assigned from a condition over the atoms (`ownNode := nodeID == clientID`)
		if as, ok := n.(*ast.AssignStmt); ok && len(as.Lhs) == 1 && len(as.Rhs) == 1 {
			if o := kit.ObjOf(info, as.Lhs[0]); o != nil && cmIsLocal(o) {
				if b, ok := o.Type().Underlying().(*types.Basic); ok && b.Info()&types.IsBoolean != 0 {
					if _, isCall := ast.Unparen(as.Rhs[0]).(*ast.CallExpr); !isCall && !s.Has("v:"+kit.VarID(o)) {
						ts, fs := st.Eval.Eval(as.Rhs[0], s)
						var res []kit.S
						for _, x := range ts {
							res = append(res, x.Set("v:"+kit.VarID(o), "true"))
						}
						for _, x := range fs {
							res = append(res, x.Set("v:"+kit.VarID(o), "false"))
						}
						if len(res) > 0 {
							return res
						}
					}
				}
			}
		}
		return []kit.S{s}
	}
	st.OnBranch = func(br kit.Branch, s kit.S) (t, fl []kit.S, handled bool) {
		if br.Kind == kit.BrCase {
			return cmTagCase(st, br, s)
		}
		if br.Kind != kit.BrRange || br.Range == nil {
			return nil, nil, false
		}
		if normObj(br.Range.X) != h.points {
			// a loop over a part or a copy of the batch is not followed point by point
			if related(br.Range.X, 0) {
				s2 := opaque(s, br.Range, "the loop over `"+st.Cur().Str(br.Range.X)+"` (not followed point by point)")
				return []kit.S{s2}, []kit.S{s2}, true
			}
			return nil, nil, false
		}
		// the loop visits the points of the scenario in order
		k := itKey(br.Range)
		cnt := 0
		fmt.Sscanf(s.Get(k), "%d", &cnt)
		if cnt < len(pts) {
			return []kit.S{s.Set(k, fmt.Sprint(cnt+1))}, nil, true
		}
		return nil, []kit.S{s.Del(k)}, true
	}
	res := c.P.Graph(f).Run(kit.NewS(), st.Client())
	out.res = res
	out.overflow = res.Overflow
	c.AddValuations(1)
	for _, e := range res.Exits {
		if e.Return == nil {
			continue
		}
		out.exits++
		if e.State.Get("stopped") != "1" {
			out.noStop = append(out.noStop, e)
		}
	}
	out.unkOther = uniqStrings(out.unkOther)
	return out
}

// c07BusHelper: a function that talks to the bus (takes a *nats.Conn); it is
// not handed the client state and is not evaluated inline.
func c07BusHelper(cf *kit.Func) bool {
	for _, p := range cf.Params() {
		if kit.IsNamedType(p.Type(), natsPkg, "Conn") {
			return true
		}
	}
	return false
}

func c07R9(c *kit.Ctx, m *cmModel, r *kit.Rule) {
	hs, undec := c07SubHandlers(c, m)
	if len(hs) == 0 {
		r.Ob(m.mainF, nil, "subscription handler of a client state", "found").Undecided("%s", undec)
		return
	}
	tomb, ntype := dataConst(c, "PointTypeTombstone"), dataConst(c, "PointTypeNodeType")
	authors := []string{"empty", "own", "foreign"}
	kinds := []string{"tomb1", "tomb0", "ntype"}
	kindDesc := map[string]string{"tomb1": "tombstone point with value 1", "tomb0": "tombstone point with value 0", "ntype": "node-type point"}
	effect := map[string]string{
		"tomb1": "a child removed from the client's node leaves the client running with the child still in its configuration",
		"tomb0": "a child added or undeleted below the client's node never enters the client's configuration",
		"ntype": "a child created below the client's node never enters the client's configuration",
	}
	for _, h := range hs {
		c.Analysed(h.f)
		if n := cmAssignCount(h.f, h.points); n != 1 {
			r.Ob(h.f, h.f.Node(), "decoded batch", "the handler examines the batch it decoded").Undecided("`%s` is assigned %d times in %s; the scenarios assume it holds the decoded message", h.points.Name(), n, h.f.Name)
			continue
		}
		for _, kind := range kinds {
			for si, shape := range []string{"alone", "before an ordinary edge point", "after an ordinary edge point"} {
				o := r.Ob(h.f, h.f.Node(), kindDesc[kind]+", "+shape,
					"an edge message below the client's node that holds this point reaches the client state's stop on every path, for every author of its points (none, the client's own node, another node), on the client's own edge and on a descendant's")
				var msgs [][]c07Pt
				for _, a := range authors {
					if si == 0 {
						msgs = append(msgs, []c07Pt{{kind, a}})
						continue
					}
					for _, a2 := range authors {
						if si == 1 {
							msgs = append(msgs, []c07Pt{{kind, a}, {"ordinary", a2}})
						} else {
							msgs = append(msgs, []c07Pt{{"ordinary", a2}, {kind, a}})
						}
					}
				}
				n, bad, und := 0, "", ""
				var badPath []string
				for _, pts := range msgs {
					for _, subjOwn := range []bool{false, true} {
						if bad != "" {
							break
						}
						out := c07RestartRun(c, m, h, pts, subjOwn, tomb, ntype)
						n++
						subj := "up.<own id>.<descendant>.<parent>"
						if subjOwn {
							subj = "up.<own id>.<own id>.<parent>"
						}
						badExit, undExit, why := out.judged()
						switch {
						case out.overflow:
							und = "state overflow"
						case out.exits == 0:
							und = "no return of the handler is reached for " + c07PtsStr(pts)
						case len(out.noStop) == 0:
						case badExit == nil:
							und = fmt.Sprintf("the batch %s on %s can be handled without stopping the client state (return at %s), but the path depends on something the checker does not evaluate: %s",
								c07PtsStr(pts), subj, c07ExitAt(h.f, *undExit), strings.Join(why, "; "))
						default:
							e := *badExit
							more := ""
							if len(out.unkOther) > 0 {
								more = " (paths also fork on the unrelated condition(s) " + strings.Join(out.unkOther, "; ") + ")"
							}
							bad = fmt.Sprintf("the batch %s on %s is handled without stopping client state `%s`: the handler returns at %s%s; %s, and nothing restarts it later (the scan compares placement keys only)",
								c07PtsStr(pts), subj, h.cs.Name(), c07ExitAt(h.f, e), more, effect[kind])
							badPath = out.res.PathTo(e)
						}
					}
				}
				switch {
				case bad != "":
					o.Violation("%s", bad).WithPath(badPath)
				case und != "":
					o.Undecided("%s", und)
				default:
					o.OK("stop on every path of %d messages", n)
				}
			}
		}
	}
}
