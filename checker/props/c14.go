package props

import (
	"fmt"
	"go/ast"
	"go/token"
	"go/types"
	"sort"
	"strings"

	"siotcheck/kit"
)

func init() {
	kit.Register(&kit.Prop{
		ID:    "C14",
		Title: "Schedule windows: UTC, midnight wrap, qualified by the start day",
		Explanation: "Structural necessary conditions of C14 decided on the schedule code reached from the rule client's schedule condition (DESIGN.md §3/C14): " +
			"R1 every calendar accessor is applied to a value that is UTC by construction (.UTC(), time.Date(…, time.UTC), AddDate/Add of such, window fields all of whose stores are such) and every time.Date uses time.UTC; " +
			"R2 the window membership method, evaluated under the 13 weak orderings of (t, start, end) through its Before/After/Equal/Compare atoms, is true iff start ≤ t < end; " +
			"R3 the predicate's window list, tracked symbolically (instants as start/end ± whole days), is {[start,end)} when end is after start and {[start,end+1d), [start−1d,end)} otherwise, for the 3 orderings of start/end; " +
			"R4 both filters are applied before membership, read only the window start, and keep a window iff some weekday equals / some date's (year, month, day) equal the start's; an empty filter keeps everything; " +
			"every window is decided (the window loop ranges over the whole list and no successful exit is reached from inside a pass: break / goto / return out of the window loop); " +
			"a weekday kept in a field of the window may stand for the start's weekday if, for the 7 UTC weekdays of t × 3 orderings of start/end, every window reaching the filters holds the weekday of its own start (integer expressions over the weekday evaluated with Go's arithmetic, -1 % 7 == -1); " +
			"R5 the any-window method is the disjunction of the membership of every window and the predicate returns exactly its result. " +
			"Not decided: time package arithmetic, the HH:MM / YYYY-MM-DD regular expressions, which minute values are configured.",
		Assumptions: []string{
			"package time: UTC() yields the same instant in UTC; AddDate/Add keep the location; Date normalises day overflow; Before/After/Equal/Compare order instants",
			"regexp group order of the HH:MM and YYYY-MM-DD patterns is as written (group k is read with matches[k])",
			"the chain from the condition's `start`/`end` points to the window fields is followed through one constructor and one predicate method",
			"configured times of day lie within one day (HH < 24), so an instant shifted by whole days orders by its day offset",
		},
		Run: runC14,
	})
}

// c14Model: anchors of the schedule code.
type c14Model struct {
	c     *kit.Ctx
	m     *ruModel
	ch    *c14Chain
	tr    *types.Named // window struct: exactly two time.Time fields (fields of other types may accompany them)
	trF   [2]*types.Var
	trIdx [2]int // positions of trF in the struct (unkeyed literals)
	// wdCache: the one field of type time.Weekday the window carries besides its
	// two instants, nil if there is none.  R4 accepts it in place of
	// <start>.Weekday() when every window reaching the filters holds the
	// weekday of its own start in it (c14WeekdayCache).
	wdCache *types.Var
	in      *kit.Func // (window).in(time.Time) bool
	any     *kit.Func // (list).in(time.Time) bool
	fw      *kit.Func // (list).filter([]time.Weekday)
	fd      *kit.Func // (list).filter([]string)
	list    types.Type
	funcs   []*kit.Func // schedule code: methods of schedule / window / list, constructor
	// roles decided by R3 (index into trF), -1 unknown
	startIdx, endIdx int
}

func c14RecvNamed(f *kit.Func) *types.Named {
	if f.Obj == nil {
		return nil
	}
	sig := f.Obj.Type().(*types.Signature)
	if sig.Recv() == nil {
		return nil
	}
	t := sig.Recv().Type()
	if p, ok := t.(*types.Pointer); ok {
		t = p.Elem()
	}
	n, _ := types.Unalias(t).(*types.Named)
	return n
}

func c14RecvVar(f *kit.Func) *types.Var {
	if f.Decl == nil || f.Decl.Recv == nil || len(f.Decl.Recv.List) == 0 || len(f.Decl.Recv.List[0].Names) == 0 {
		return nil
	}
	v, _ := f.Info().Defs[f.Decl.Recv.List[0].Names[0]].(*types.Var)
	return v
}

func newC14Model(c *kit.Ctx) *c14Model {
	m := newRuModel(c)
	ch := newC14Chain(c, m)
	cm := &c14Model{c: c, m: m, ch: ch, startIdx: -1, endIdx: -1}
	// window struct: the struct type with exactly two time.Time fields whose
	// literals are built in the predicate; it may carry further fields of other
	// types (values derived from the instants and kept with the window)
	info := ch.aft.Info()
	// the predicate and the same-package helpers it calls (two levels)
	bodies := []*kit.Func{ch.aft}
	for level := 0; level < 2; level++ {
		for _, g := range append([]*kit.Func(nil), bodies...) {
			for _, call := range g.AllCalls(true) {
				h := g.CalleeFunc(call)
				if h == nil || h.Body == nil || h.Pkg != ch.aft.Pkg {
					continue
				}
				dup := false
				for _, b := range bodies {
					dup = dup || b == h
				}
				if !dup {
					bodies = append(bodies, h)
				}
			}
		}
	}
	var allBodies ast.Node = &ast.BlockStmt{}
	for _, g := range bodies {
		allBodies.(*ast.BlockStmt).List = append(allBodies.(*ast.BlockStmt).List, g.Body)
	}
	ast.Inspect(allBodies, func(n ast.Node) bool {
		cl, ok := n.(*ast.CompositeLit)
		if !ok {
			return true
		}
		named, ok := types.Unalias(info.TypeOf(cl)).(*types.Named)
		if !ok {
			return true
		}
		st, ok := named.Underlying().(*types.Struct)
		if !ok {
			return true
		}
		var tf, wf []int
		for i := 0; i < st.NumFields(); i++ {
			switch ft := st.Field(i).Type(); {
			case c14IsTime(ft):
				tf = append(tf, i)
			case kit.IsNamedType(ft, "time", "Weekday"):
				wf = append(wf, i)
			}
		}
		if len(tf) != 2 {
			return true
		}
		if cm.tr != nil && cm.tr != named {
			c.Fatalf("two window struct types built in %s", ch.aft.Name)
		}
		cm.tr = named
		cm.trF = [2]*types.Var{st.Field(tf[0]), st.Field(tf[1])}
		cm.trIdx = [2]int{tf[0], tf[1]}
		cm.wdCache = nil
		if len(wf) == 1 {
			cm.wdCache = st.Field(wf[0])
		}
		return true
	})
	if cm.tr == nil {
		c.Fatalf("%s builds no struct with exactly two time.Time fields (window type not found)", ch.aft.Name)
	}
	for _, f := range c.P.Funcs(ruClientPkg) {
		if f.Obj == nil || f.Body == nil {
			continue
		}
		rn := c14RecvNamed(f)
		sig := f.Obj.Type().(*types.Signature)
		if f == ch.ctor || (rn != nil && (rn == ch.sched || rn == cm.tr)) {
			cm.funcs = append(cm.funcs, f)
		}
		if rn == nil {
			continue
		}
		isList := false
		if el := ruSliceElem(rn); el != nil && types.Identical(el, cm.tr) {
			isList = true
			cm.funcs = append(cm.funcs, f)
			cm.list = rn
		}
		p, r := sig.Params(), sig.Results()
		switch {
		case rn == cm.tr && p.Len() == 1 && c14IsTime(p.At(0).Type()) && r.Len() == 1 && kit.IsBoolType(r.At(0).Type()):
			if cm.in != nil {
				c.Fatalf("two membership methods (time.Time) bool on %s", cm.tr.Obj().Name())
			}
			cm.in = f
		case isList && p.Len() == 1 && c14IsTime(p.At(0).Type()) && r.Len() == 1 && kit.IsBoolType(r.At(0).Type()):
			if cm.any != nil {
				c.Fatalf("two any-window methods on the window list")
			}
			cm.any = f
		case isList && p.Len() == 1 && c14IsWeekdaySlice(p.At(0).Type()):
			cm.fw = f
		case isList && p.Len() == 1 && c14IsStringSlice(p.At(0).Type()):
			cm.fd = f
		}
	}
	if cm.in == nil || cm.any == nil || cm.fw == nil || cm.fd == nil {
		c.Fatalf("schedule anchors missing: membership=%v any-window=%v weekday-filter=%v date-filter=%v", cm.in != nil, cm.any != nil, cm.fw != nil, cm.fd != nil)
	}
	return cm
}

func runC14(c *kit.Ctx) {
	cm := newC14Model(c)
	// floor: the two time.Date calls and the calendar reads of the predicate and
	// of the date filter; the weekday filter has calendar reads of its own only
	// when it does not compare a weekday kept with the window
	r1 := c.Rule("R1", "calendar accessors only on UTC values; time.Date only with time.UTC", 4)
	r2 := c.Rule("R2", "window membership is start <= t < end over the 13 weak orderings", 1)
	r3 := c.Rule("R3", "wrap: one window if end is after start, else two shifted by a day", 1)
	r4 := c.Rule("R4", "filters qualify the window start only and keep iff it matches", 5)
	r5 := c.Rule("R5", "any-window is the disjunction of memberships and is what the predicate returns", 2)
	c.Analysed(cm.funcs...)
	c14R1(c, cm, r1)
	c14R3(c, cm, r3, r4, r5)
	c14R2(c, cm, r2)
	c14R5(c, cm, r5)
	c14R4(c, cm, r4)
}

// ---------------------------------------------------------------------------
// R1 UTC-only dataflow (flow-insensitive, coinductive over definitions)

var c14Accessors = map[string]bool{"Year": true, "Month": true, "Day": true, "Weekday": true, "Date": true, "Clock": true,
	"Hour": true, "Minute": true, "YearDay": true, "ISOWeek": true}

// tri-state answer of the UTC analysis
const (
	c14No      = -1 // carries a zone that is not fixed to UTC (parameter, time.Now, Local, In, time.Date with another location)
	c14Unknown = 0  // not derivable
	c14Yes     = 1  // UTC by construction
)

type c14UTC struct {
	cm    *c14Model
	vars  map[types.Object]int // memo: 0 unvisited, 1 yes / in progress, 2 unknown, 3 no
	field map[*types.Var]int
	why   map[types.Object]string
	fwhy  map[*types.Var]string
}

func c14IsTimeUTCVar(info *types.Info, e ast.Expr) bool {
	o := kit.ObjOf(info, e)
	return o != nil && o.Pkg() != nil && o.Pkg().Path() == "time" && o.Name() == "UTC"
}

func c14TimeMethod(info *types.Info, call *ast.CallExpr) (name string, recv ast.Expr, ok bool) {
	fn, isFn := kit.Callee(info, call).(*types.Func)
	if !isFn {
		return "", nil, false
	}
	q := kit.QualName(fn)
	if !strings.HasPrefix(q, "time.(Time).") {
		return "", nil, false
	}
	sel, isSel := ast.Unparen(call.Fun).(*ast.SelectorExpr)
	if !isSel {
		return "", nil, false
	}
	return fn.Name(), sel.X, true
}

func c14Memo(v int) int {
	switch v {
	case 1:
		return c14Yes
	case 3:
		return c14No
	}
	return c14Unknown
}

func c14ToMemo(v int) int {
	switch v {
	case c14Yes:
		return 1
	case c14No:
		return 3
	}
	return 2
}

func (u *c14UTC) isUTC(f *kit.Func, e ast.Expr) (int, string) {
	info := f.Info()
	e = ast.Unparen(e)
	switch x := e.(type) {
	case *ast.CallExpr:
		if kit.CallIs(info, x, "time.Date") {
			if len(x.Args) == 8 && c14IsTimeUTCVar(info, x.Args[7]) {
				return c14Yes, ""
			}
			return c14No, fmt.Sprintf("time.Date at %s uses location `%s`", f.At(x), f.Str(x.Args[len(x.Args)-1]))
		}
		if kit.CallIs(info, x, "time.Now", "time.Unix", "time.UnixMilli", "time.UnixMicro") {
			return c14No, fmt.Sprintf("`%s` at %s is in the process's local zone", f.Str(x), f.At(x))
		}
		if name, recv, ok := c14TimeMethod(info, x); ok {
			switch name {
			case "UTC":
				return c14Yes, ""
			case "AddDate", "Add", "Truncate", "Round":
				return u.isUTC(f, recv)
			case "Local":
				return c14No, fmt.Sprintf("`%s` at %s is in the process's local zone", f.Str(x), f.At(x))
			case "In":
				if len(x.Args) == 1 && c14IsTimeUTCVar(info, x.Args[0]) {
					return c14Yes, ""
				}
				return c14No, fmt.Sprintf("`%s` at %s is in another zone", f.Str(x), f.At(x))
			}
		}
		return c14Unknown, fmt.Sprintf("the zone of `%s` at %s is not derivable", f.Str(x), f.At(x))
	case *ast.Ident:
		o := kit.ObjOf(info, x)
		v, isVar := o.(*types.Var)
		if !isVar {
			return c14Unknown, fmt.Sprintf("`%s` is not a variable", x.Name)
		}
		if m := u.vars[o]; m != 0 {
			return c14Memo(m), u.why[o]
		}
		set := func(r int, w string) (int, string) {
			u.vars[o], u.why[o] = c14ToMemo(r), w
			return r, w
		}
		for pi, p := range f.Root().Params() {
			if p != v {
				continue
			}
			root := f.Root()
			if root == u.cm.ch.aft || root.Obj == nil {
				return set(c14No, fmt.Sprintf("parameter `%s` of %s carries the caller's time zone", v.Name(), root.Name))
			}
			// a helper of the schedule code: what do its callers pass?
			u.vars[o] = 1
			res, why := c14Yes, ""
			nsites, outside := 0, false
			for _, g := range u.cm.c.P.Funcs(ruClientPkg) {
				if g.Body == nil || g.Outer != nil {
					continue
				}
				inSched := false
				for _, sf := range u.cm.funcs {
					inSched = inSched || sf == g
				}
				for _, call := range g.AllCalls(true) {
					if g.CalleeFunc(call) != root || pi >= len(call.Args) {
						continue
					}
					nsites++
					if !inSched {
						outside = true
						continue
					}
					r, w := u.isUTC(g, call.Args[pi])
					if r < res {
						res, why = r, fmt.Sprintf("`%s` passed to %s at %s: %s", g.Str(call.Args[pi]), root.Name, g.At(call), w)
					}
				}
			}
			switch {
			case nsites == 0 || outside:
				return set(c14Unknown, fmt.Sprintf("parameter `%s` of %s: not every caller is part of the schedule code", v.Name(), root.Name))
			}
			return set(res, why)
		}
		u.vars[o] = 1 // coinductive assumption while the definitions are visited
		ndef := 0
		res, why := c14Yes, ""
		meet := func(r int, w string) {
			if r < res {
				res, why = r, w
			}
		}
		ast.Inspect(f.Root().Body, func(n ast.Node) bool {
			switch s := n.(type) {
			case *ast.AssignStmt:
				for i, l := range s.Lhs {
					if kit.ObjOf(info, l) != o {
						continue
					}
					if _, isId := ast.Unparen(l).(*ast.Ident); !isId {
						continue
					}
					ndef++
					if len(s.Lhs) != len(s.Rhs) || (s.Tok != token.ASSIGN && s.Tok != token.DEFINE) {
						meet(c14Unknown, fmt.Sprintf("`%s` is assigned from a multi-value expression at %s", v.Name(), f.At(s)))
						continue
					}
					r, w := u.isUTC(f, s.Rhs[i])
					meet(r, fmt.Sprintf("`%s` = `%s` at %s: %s", v.Name(), f.Str(s.Rhs[i]), f.At(s), w))
				}
			case *ast.ValueSpec:
				for i, nm := range s.Names {
					if info.Defs[nm] != o {
						continue
					}
					ndef++
					if len(s.Values) == 0 {
						continue // zero time: UTC
					}
					if len(s.Values) != len(s.Names) {
						meet(c14Unknown, fmt.Sprintf("`%s` is declared from a multi-value expression at %s", v.Name(), f.At(s)))
						continue
					}
					r, w := u.isUTC(f, s.Values[i])
					meet(r, w)
				}
			case *ast.RangeStmt:
				if (s.Key != nil && kit.ObjOf(info, s.Key) == o) || (s.Value != nil && kit.ObjOf(info, s.Value) == o) {
					ndef++
					meet(c14Unknown, fmt.Sprintf("`%s` is a range variable at %s", v.Name(), f.At(s)))
				}
			}
			return true
		})
		if ndef == 0 {
			return set(c14Unknown, fmt.Sprintf("no definition of `%s` found in %s", v.Name(), f.Root().Name))
		}
		return set(res, why)
	case *ast.SelectorExpr:
		_, fv, ok := kit.FieldSel(info, x)
		if !ok || (fv != u.cm.trF[0] && fv != u.cm.trF[1]) {
			return c14Unknown, fmt.Sprintf("`%s` at %s is not a window field", f.Str(x), f.At(x))
		}
		return u.fieldUTC(fv)
	}
	return c14Unknown, fmt.Sprintf("the zone of `%s` at %s is not derivable", f.Str(e), f.At(e))
}

// fieldUTC: every store into the window field, anywhere in the package, is UTC.
func (u *c14UTC) fieldUTC(fv *types.Var) (int, string) {
	if m := u.field[fv]; m != 0 {
		return c14Memo(m), u.fwhy[fv]
	}
	u.field[fv] = 1
	idx := u.cm.trIdx[0]
	if fv == u.cm.trF[1] {
		idx = u.cm.trIdx[1]
	}
	res, why := c14Yes, ""
	meet := func(r int, w string) {
		if r < res {
			res, why = r, w
		}
	}
	for _, f := range u.cm.c.P.Funcs(ruClientPkg) {
		if f.Body == nil || f.Outer != nil {
			continue // literals are visited through their root
		}
		info := f.Info()
		ast.Inspect(f.Body, func(n ast.Node) bool {
			switch x := n.(type) {
			case *ast.CompositeLit:
				t := info.TypeOf(x)
				if t == nil || !types.Identical(types.Unalias(t), u.cm.tr) {
					return true
				}
				for i, el := range x.Elts {
					var val ast.Expr
					if kv, ok := el.(*ast.KeyValueExpr); ok {
						if kid, ok := kv.Key.(*ast.Ident); ok && info.Uses[kid] == fv {
							val = kv.Value
						}
					} else if i == idx {
						val = el
					}
					if val != nil {
						r, w := u.isUTC(f, val)
						meet(r, fmt.Sprintf("window field `%s` receives `%s` at %s: %s", fv.Name(), f.Str(val), f.At(val), w))
					}
				}
			case *ast.AssignStmt:
				for i, l := range x.Lhs {
					if _, lf, ok := kit.FieldSel(info, l); ok && lf == fv {
						if len(x.Lhs) != len(x.Rhs) {
							meet(c14Unknown, fmt.Sprintf("window field `%s` assigned from a multi-value expression at %s", fv.Name(), f.At(x)))
							continue
						}
						r, w := u.isUTC(f, x.Rhs[i])
						meet(r, fmt.Sprintf("window field `%s` receives `%s` at %s: %s", fv.Name(), f.Str(x.Rhs[i]), f.At(x), w))
					}
				}
			}
			return true
		})
	}
	u.field[fv], u.fwhy[fv] = c14ToMemo(res), why
	return res, why
}

func (u *c14UTC) nonYes() int {
	n := 0
	for _, v := range u.vars {
		if v > 1 {
			n++
		}
	}
	for _, v := range u.field {
		if v > 1 {
			n++
		}
	}
	return n
}

// reset forgets the "yes" answers (they may rest on an assumption that
// failed later) and keeps the others.
func (u *c14UTC) reset() {
	for k, v := range u.vars {
		if v == 1 {
			delete(u.vars, k)
		}
	}
	for k, v := range u.field {
		if v == 1 {
			delete(u.field, k)
		}
	}
}

func c14R1(c *kit.Ctx, cm *c14Model, r1 *kit.Rule) {
	u := &c14UTC{cm: cm, vars: map[types.Object]int{}, field: map[*types.Var]int{}, why: map[types.Object]string{}, fwhy: map[*types.Var]string{}}
	seenFn := map[*kit.Func]bool{}
	var all []*kit.Func
	for _, f := range cm.funcs {
		if !seenFn[f] {
			seenFn[f] = true
			all = append(all, f)
		}
	}
	// greatest fixpoint: "yes" answers obtained under a coinductive assumption
	// are recomputed until the set of non-yes variables/fields is stable
	for round := 0; round < 20; round++ {
		before := u.nonYes()
		u.reset()
		for _, f := range all {
			for _, call := range f.AllCalls(true) {
				if name, recv, ok := c14TimeMethod(f.Info(), call); ok && c14Accessors[name] {
					u.isUTC(f, recv)
				}
			}
		}
		if u.nonYes() == before && round > 0 {
			break
		}
	}
	u.reset()
	for _, f := range all {
		info := f.Info()
		nDate := 0
		var good, bad, unk []string
		var first ast.Node
		for _, call := range f.AllCalls(true) {
			if kit.CallIs(info, call, "time.Date") {
				nDate++
				o := r1.Ob(f, call, fmt.Sprintf("time.Date #%d", nDate), "instants of the schedule are built with location time.UTC")
				if len(call.Args) == 8 && c14IsTimeUTCVar(info, call.Args[7]) {
					o.OK("location argument is time.UTC")
				} else {
					o.Violation("witness: a process whose local zone is not UTC (or t in another zone): time.Date at %s uses location `%s`, the window moves with the zone", f.At(call), f.Str(call.Args[len(call.Args)-1]))
				}
				continue
			}
			name, recv, ok := c14TimeMethod(info, call)
			if !ok || !c14Accessors[name] {
				continue
			}
			if first == nil {
				first = call
			}
			switch r, why := u.isUTC(f, recv); r {
			case c14Yes:
				good = append(good, fmt.Sprintf("`%s`", f.Str(call)))
			case c14No:
				bad = append(bad, fmt.Sprintf("`%s` at %s — %s", f.Str(call), f.At(call), why))
			default:
				unk = append(unk, fmt.Sprintf("`%s` at %s — %s", f.Str(call), f.At(call), why))
			}
		}
		if len(good)+len(bad)+len(unk) == 0 {
			continue
		}
		o := r1.Ob(f, first, "calendar reads", "every calendar accessor (Year, Month, Day, Weekday, Date, Clock, Hour, Minute, YearDay, ISOWeek) in the function reads a value that is in UTC by construction")
		if len(bad) > 0 {
			o.Violation("witness: the same instant expressed in a zone where the calendar day/weekday differs (e.g. 23:30 UTC read as UTC+2): %s", strings.Join(bad, "; "))
		} else if len(unk) > 0 {
			o.Undecided("the zone of a value read by a calendar accessor is not derivable: %s", strings.Join(unk, "; "))
		} else {
			o.OK("%d accessor call(s) on UTC values: %s", len(good), strings.Join(good, ", "))
		}
	}
}

// ---------------------------------------------------------------------------
// R2 membership over the 13 weak orderings

func c14WeakOrderings() [][3]int {
	var out [][3]int
	for a := 0; a < 3; a++ {
		for b := 0; b < 3; b++ {
			for d := 0; d < 3; d++ {
				r := [3]int{a, b, d}
				used := map[int]bool{a: true, b: true, d: true}
				ok := true
				for k := 0; k < len(used); k++ {
					if !used[k] {
						ok = false
					}
				}
				if ok {
					out = append(out, r)
				}
			}
		}
	}
	return out
}

// c14TimeCmp recognises X.Before(Y) / After / Equal and X.Compare(Y) OP 0;
// it returns the operands and the relation as a token on (X, Y).
func c14TimeCmp(info *types.Info, e ast.Expr) (x, y ast.Expr, op token.Token, ok bool) {
	e = ast.Unparen(e)
	if call, isCall := e.(*ast.CallExpr); isCall && len(call.Args) == 1 {
		if name, recv, isT := c14TimeMethod(info, call); isT {
			switch name {
			case "Before":
				return recv, call.Args[0], token.LSS, true
			case "After":
				return recv, call.Args[0], token.GTR, true
			case "Equal":
				return recv, call.Args[0], token.EQL, true
			}
		}
		return nil, nil, 0, false
	}
	if a, b, o, isCmp := kit.CmpAtom(e); isCmp {
		for _, sw := range [2]struct {
			l, r ast.Expr
			o    token.Token
		}{{a, b, o}, {b, a, ruFlip(o)}} {
			call, isCall := ast.Unparen(sw.l).(*ast.CallExpr)
			if !isCall || len(call.Args) != 1 {
				continue
			}
			if name, recv, isT := c14TimeMethod(info, call); isT && name == "Compare" {
				if k, isC := kit.ConstInt(info, sw.r); isC && k == 0 {
					return recv, call.Args[0], sw.o, true
				}
			}
		}
	}
	return nil, nil, 0, false
}

func c14RankHolds(a, b int, op token.Token) bool {
	switch op {
	case token.LSS:
		return a < b
	case token.LEQ:
		return a <= b
	case token.GTR:
		return a > b
	case token.GEQ:
		return a >= b
	case token.EQL:
		return a == b
	case token.NEQ:
		return a != b
	}
	return false
}

func c14R2(c *kit.Ctx, cm *c14Model, r2 *kit.Rule) {
	f := cm.in
	info := f.Info()
	o := r2.Ob(f, nil, "window membership", "for each of the 13 weak orderings of (t, start, end) every exit returns (start <= t && t < end)")
	if cm.startIdx < 0 {
		o.Undecided("the roles of the two window fields could not be derived from the predicate (see R3)")
		return
	}
	recv := c14RecvVar(f)
	params := f.Params()
	if recv == nil || len(params) != 1 {
		o.Undecided("membership method without named receiver / parameter")
		return
	}
	var sym func(e ast.Expr) string
	sym = func(e ast.Expr) string {
		e = ast.Unparen(e)
		if id, isId := e.(*ast.Ident); isId && kit.ObjOf(info, id) == types.Object(params[0]) {
			return "t"
		}
		if base, fv, ok := kit.FieldSel(info, e); ok && kit.ObjOf(info, base) == types.Object(recv) {
			switch fv {
			case cm.trF[cm.startIdx]:
				return "s"
			case cm.trF[cm.endIdx]:
				return "e"
			}
		}
		// x.UTC() / x.Local() denote the same instant
		if call, ok := e.(*ast.CallExpr); ok {
			if name, rx, isT := c14TimeMethod(info, call); isT && (name == "UTC" || name == "Local") {
				return sym(rx)
			}
		}
		return ""
	}
	modified := ""
	ast.Inspect(f.Body, func(n ast.Node) bool {
		switch x := n.(type) {
		case *ast.AssignStmt:
			for _, l := range x.Lhs {
				if kit.ObjOf(info, l) == types.Object(params[0]) {
					modified = f.At(x)
				}
				if base, _, ok := kit.FieldSel(info, l); ok && kit.ObjOf(info, base) == types.Object(recv) {
					modified = f.At(x)
				}
			}
		case *ast.UnaryExpr:
			if x.Op == token.AND && kit.ObjOf(info, x.X) == types.Object(params[0]) {
				modified = f.At(x)
			}
		}
		return true
	})
	if modified != "" {
		o.Undecided("t or a window field is modified inside the membership method at %s", modified)
		return
	}
	okN := 0
	bad := false
	for _, rk := range c14WeakOrderings() {
		ranks := map[string]int{"t": rk[0], "s": rk[1], "e": rk[2]}
		st := &kit.Std{F: f}
		bf := &kit.BoolFlow{Std: st}
		bf.Fold = func(e ast.Expr, s kit.S) (bool, bool) {
			x, y, op, ok := c14TimeCmp(info, e)
			if !ok {
				return false, false
			}
			a, b := sym(x), sym(y)
			if a == "" || b == "" {
				return false, false
			}
			return c14RankHolds(ranks[a], ranks[b], op), true
		}
		corr := &ruCorr{f: f, pred: func(x ast.Expr) bool {
			id, ok := x.(*ast.Ident)
			if !ok {
				return false
			}
			o := kit.ObjOf(info, id)
			return o != nil && (o == types.Object(params[0]) || o == types.Object(recv))
		}}
		corr.hook(st)
		res := c.P.Graph(f).Run(kit.NewS(), bf.Client())
		c.AddValuations(1)
		if corr.any() {
			o.Undecided("the membership depends on a condition over t / the window that is not a Before/After/Equal/Compare atom: %s", corr.String())
			return
		}
		want := rk[1] <= rk[0] && rk[0] < rk[2]
		desc := c14DescribeOrdering(rk)
		n := 0
		for _, ex := range res.Exits {
			if ex.Return == nil || len(ex.Return.Results) != 1 {
				continue
			}
			n++
			v, det := bf.DetEval(ex.Return.Results[0], ex.State)
			switch {
			case !det:
				o.Undecided("the result at %s is not determined by Before/After/Equal/Compare atoms over (t, start, end) for %s", f.At(ex.Return), desc)
				bad = true
			case v != want:
				o.Violation("witness: %s → membership returns %v at %s, specification (start <= t < end) is %v", desc, v, f.At(ex.Return), want).WithPath(res.PathTo(ex))
				bad = true
			}
		}
		if n == 0 {
			o.Undecided("no return reached for %s", desc)
			bad = true
		}
		okN++
	}
	if !bad {
		o.OK("%d weak orderings agree with start <= t < end", okN)
	}
}

func c14DescribeOrdering(rk [3]int) string {
	names := []string{"t", "start", "end"}
	type pr struct {
		n string
		r int
	}
	ps := []pr{{names[0], rk[0]}, {names[1], rk[1]}, {names[2], rk[2]}}
	sort.SliceStable(ps, func(i, j int) bool { return ps[i].r < ps[j].r })
	s := ps[0].n
	for i := 1; i < 3; i++ {
		if ps[i].r == ps[i-1].r {
			s += " = " + ps[i].n
		} else {
			s += " < " + ps[i].n
		}
	}
	return s
}
