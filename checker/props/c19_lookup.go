package props

import (
	"fmt"
	"go/ast"
	"go/constant"
	"go/token"
	"go/types"
	"sort"
	"strings"

	"siotcheck/kit"
)

// C19/R7 "the values the client returns equal what the server holds",
// register-file side: a lookup by address may hand back the value field of a
// stored register only if the address field of that very element was compared
// equal to (something computed from) the requested address.  The register list
// is kept in the order the registers were added, so the position of an element
// says nothing about its address; a value picked by position (next to a
// matching element, between two matching end points, at an offset from the
// first register) belongs to whatever register happens to sit there.
//
// Decided per read of an integer field of a stored register in a function that
// takes an integer (the address): under the valuation "the element read does
// not match", no exit that reports success may be reachable once the field was
// read.  The element is identified the way C18/R4 identifies the target of a
// store (range variable, list[key], pointer or index from a verified lookup
// helper) or, failing that, by the expression itself (list[<expr>] compared
// and read with the same <expr>).  Which address the element is compared with
// (address+i for output position i) is not judged, nor is the coil arithmetic.

type lookupRead struct {
	f    *kit.Func
	sel  *ast.SelectorExpr // <element>.<integer field>
	base ast.Expr
}

func c19R7(c *kit.Ctx, m *c19Model) {
	r := c.Rule("R7", "register file: a lookup returns the value of the element whose address was compared", 1)
	sc := &storeCtx{c: c, m: m.mbModel, r: r, helpers: map[*kit.Func]*lookupHelper{}}
	sc.slice, sc.elem = m.regElem()
	if sc.slice == nil {
		r.Ob(nil, nil, "register list", "the register file keeps its registers in a slice of structs").Undecided("no slice-of-struct field in %s", m.ProvImpl.Obj().Name())
		return
	}
	// the methods of the register file and what they call in the package
	reach := map[*kit.Func]bool{}
	var work []*kit.Func
	for _, f := range c.P.Funcs("modbus") {
		if f.Decl == nil || f.Obj == nil {
			continue
		}
		sig := f.Obj.Type().(*types.Signature)
		if sig.Recv() == nil {
			continue
		}
		rt := sig.Recv().Type()
		if p, ok := rt.(*types.Pointer); ok {
			rt = p.Elem()
		}
		if types.Identical(rt, m.ProvImpl) {
			reach[f] = true
			work = append(work, f)
		}
	}
	for len(work) > 0 {
		f := work[0]
		work = work[1:]
		for _, call := range f.AllCalls(true) {
			if cf := f.CalleeFunc(call); cf != nil && cf.Decl != nil && cf.Pkg == f.Pkg && !reach[cf] {
				reach[cf] = true
				work = append(work, cf)
			}
		}
	}
	var fs []*kit.Func
	for f := range reach {
		fs = append(fs, f)
	}
	sort.Slice(fs, func(i, j int) bool { return fs[i].Pos() < fs[j].Pos() })
	// the value fields are the integer fields that writes change (the address
	// field is set when the register is added and only compared afterwards)
	valueFields := map[types.Object]bool{}
	for _, f := range fs {
		for _, st := range sc.storesIn(f) {
			if sel, ok := ast.Unparen(lhsOfStore(st)).(*ast.SelectorExpr); ok {
				if s, ok := f.Info().Selections[sel]; ok {
					valueFields[s.Obj()] = true
				}
			}
		}
	}
	if len(valueFields) == 0 {
		r.Ob(nil, nil, "register lookup", "the register file reads stored values by address").Undecided("no integer field of a stored register is ever assigned in %s: cannot tell the value field from the address field", m.ProvImpl.Obj().Name())
		return
	}
	n := 0
	for _, f := range fs {
		hasInt := false
		for _, p := range f.Params() {
			if mbBasicInt(p.Type()) != nil {
				hasInt = true
			}
		}
		if !hasInt {
			continue
		}
		for _, rd := range sc.valueReads(f, valueFields) {
			n++
			sc.checkRead(rd)
		}
	}
	if n == 0 {
		r.Ob(nil, nil, "register lookup", "the register file reads stored values by address").Undecided("no read of an integer field of a stored register found in the address-taking methods of %s", m.ProvImpl.Obj().Name())
	}
}

// valueReads lists the reads of value fields of stored registers in f that are
// not part of a comparison.
func (sc *storeCtx) valueReads(f *kit.Func, valueFields map[types.Object]bool) []*lookupRead {
	info := f.Info()
	skip := map[ast.Expr]bool{}
	ast.Inspect(f.Body, func(n ast.Node) bool {
		switch y := n.(type) {
		case *ast.BinaryExpr:
			switch y.Op {
			case token.EQL, token.NEQ, token.LSS, token.LEQ, token.GTR, token.GEQ:
				// everything a comparison is computed from (reg.addr-want == 0)
				ast.Inspect(y, func(z ast.Node) bool {
					if e, ok := z.(ast.Expr); ok {
						skip[e] = true
					}
					return true
				})
			}
		case *ast.AssignStmt:
			for _, l := range y.Lhs {
				skip[ast.Unparen(l)] = true
			}
		case *ast.IncDecStmt:
			skip[ast.Unparen(y.X)] = true
		case *ast.CaseClause:
			for _, e := range y.List {
				skip[ast.Unparen(e)] = true
			}
		case *ast.SwitchStmt:
			if y.Tag != nil {
				skip[ast.Unparen(y.Tag)] = true
			}
		}
		return true
	})
	var out []*lookupRead
	ast.Inspect(f.Body, func(n ast.Node) bool {
		if _, isLit := n.(*ast.FuncLit); isLit {
			return false
		}
		sel, ok := n.(*ast.SelectorExpr)
		if !ok || skip[sel] || mbBasicInt(info.TypeOf(sel)) == nil {
			return true
		}
		if s, ok := info.Selections[sel]; !ok || s.Kind() != types.FieldVal || !valueFields[s.Obj()] {
			return true
		}
		base := ast.Unparen(sel.X)
		if _, isElem := sc.isElemType(info.TypeOf(base)); !isElem {
			return true
		}
		out = append(out, &lookupRead{f: f, sel: sel, base: base})
		return true
	})
	return out
}

// lhsOfStore returns the assigned expression <element>.<field> of a store.
func lhsOfStore(st *regStore) ast.Expr {
	var found ast.Expr
	consider := func(l ast.Expr) {
		if sel, ok := ast.Unparen(l).(*ast.SelectorExpr); ok && ast.Unparen(sel.X) == st.base {
			found = l
		}
	}
	switch y := st.stmt.(type) {
	case *ast.AssignStmt:
		for _, l := range y.Lhs {
			consider(l)
		}
	case *ast.IncDecStmt:
		consider(y.X)
	}
	if found == nil {
		return st.base
	}
	return found
}

// bindRead identifies the stored register a read looks at.  skip: the struct
// is not a stored register (a literal, a parameter); positional: the element
// is named by an index expression that no rule of identity covers.
func (sc *storeCtx) bindRead(rd *lookupRead) (b elemBinding, skip, positional bool) {
	f := rd.f
	info := f.Info()
	base := rd.base
	if se, ok := base.(*ast.StarExpr); ok {
		base = ast.Unparen(se.X)
	}
	switch x := base.(type) {
	case *ast.Ident:
		o := kit.ObjOf(info, x)
		// the value variable (or a once-defined copy of the element) of a range over the list
		for _, l := range f.SliceLoops(f.Body) {
			if l.Body.Pos() <= rd.sel.Pos() && rd.sel.End() <= l.Body.End() && sc.isSlice(f, l.X) && kit.ElemAliases(info, l)[o] {
				return elemBinding{rs: l}, false, false
			}
		}
		if ptr, _ := sc.isElemType(o.Type()); ptr {
			if def := uniqueDef(f, o); def == nil {
				for _, p := range f.Params() {
					if p == o {
						return elemBinding{}, true, false
					}
				}
			}
			return sc.bind(&regStore{f: f, stmt: rd.sel, base: rd.base}), false, false
		}
		// a struct copy: stands for the element it was copied from
		def := uniqueDef(f, o)
		if def == nil {
			for _, p := range f.Params() {
				if p == o {
					return elemBinding{}, true, false
				}
			}
			return elemBinding{why: fmt.Sprintf("the register copy %s has no single definition", x.Name)}, false, false
		}
		switch d := ast.Unparen(def).(type) {
		case *ast.CompositeLit:
			return elemBinding{}, true, false
		case *ast.IndexExpr:
			if sc.isSlice(f, d.X) {
				return sc.bindRead(&lookupRead{f: f, sel: rd.sel, base: d})
			}
		case *ast.StarExpr:
			return sc.bindRead(&lookupRead{f: f, sel: rd.sel, base: d})
		}
		return elemBinding{why: fmt.Sprintf("cannot tell which register %s = %s is a copy of", x.Name, f.Str(def))}, false, false
	case *ast.IndexExpr:
		if !sc.isSlice(f, x.X) {
			return elemBinding{why: fmt.Sprintf("`%s` does not index the register list directly", f.Str(x))}, false, false
		}
		b := sc.bind(&regStore{f: f, stmt: rd.sel, base: x})
		if b.why == "" {
			return b, false, false
		}
		switch d := ast.Unparen(mbResolve(f, x.Index)).(type) {
		case *ast.CallExpr:
			if kit.ObjOf(info, x.Index) != nil {
				return b, false, false // an index from a helper that could not be verified
			}
		case *ast.Ident:
			for _, p := range f.Params() {
				if kit.ObjOf(info, d) == types.Object(p) {
					return elemBinding{why: fmt.Sprintf("`%s` is indexed by the parameter %s: which register that is depends on the callers of %s", f.Str(x), d.Name, f.Name)}, false, false
				}
			}
		}
		return elemBinding{}, false, true
	}
	return elemBinding{why: fmt.Sprintf("cannot tell which register `%s` denotes", f.Str(rd.base))}, false, false
}

// listOrder tells how the register list is built: "insertion" when every
// assignment to it appends to itself and nothing hands it to a sorting
// function; otherwise the reason why its order is unknown.
func (sc *storeCtx) listOrder() (order, why string) {
	order = "insertion"
	for _, f := range sc.c.P.Funcs("modbus") {
		if f.Body == nil {
			continue
		}
		info := f.Info()
		ast.Inspect(f.Body, func(n ast.Node) bool {
			switch y := n.(type) {
			case *ast.AssignStmt:
				for i, l := range y.Lhs {
					if !sc.isSlice(f, l) {
						continue
					}
					okAppend := false
					if len(y.Lhs) == len(y.Rhs) {
						if call, ok := ast.Unparen(y.Rhs[i]).(*ast.CallExpr); ok && len(call.Args) >= 1 {
							if b, ok := kit.Callee(info, call).(*types.Builtin); ok && b.Name() == "append" && kit.SameExpr(info, call.Args[0], l) {
								okAppend = true
							}
						}
					}
					if !okAppend && why == "" {
						order, why = "", fmt.Sprintf("`%s` in %s rebuilds the list", f.Str(y), f.Name)
					}
				}
			case *ast.CallExpr:
				q := kit.QualName(kit.Callee(info, y))
				if strings.HasPrefix(q, "sort.") || strings.HasPrefix(q, "slices.") {
					for _, a := range y.Args {
						mentions := false
						ast.Inspect(a, func(z ast.Node) bool {
							if e, ok := z.(ast.Expr); ok && sc.isSlice(f, e) {
								mentions = true
							}
							return !mentions
						})
						if mentions && why == "" {
							order, why = "", fmt.Sprintf("%s passes the list to %s", f.Name, q)
						}
					}
				}
			}
			return true
		})
	}
	return order, why
}

// stableIndex: the variables of an index expression change only in loop
// headers (range key, for post statement) or are defined once, so the same
// text denotes the same element in a test and in the read it guards.
func stableIndex(f *kit.Func, e ast.Expr) (bool, string) {
	info := f.Info()
	vars := map[types.Object]bool{}
	ast.Inspect(e, func(n ast.Node) bool {
		if id, ok := n.(*ast.Ident); ok {
			if v, isVar := kit.ObjOf(info, id).(*types.Var); isVar && !v.IsField() {
				vars[v] = true
			}
		}
		if _, isCall := n.(*ast.CallExpr); isCall {
			vars[nil] = true
		}
		return true
	})
	if vars[nil] {
		return false, "the index contains a call"
	}
	bad := ""
	post := map[ast.Stmt]bool{}
	ast.Inspect(f.Body, func(n ast.Node) bool {
		if fs, ok := n.(*ast.ForStmt); ok && fs.Post != nil {
			post[fs.Post] = true
		}
		return true
	})
	defs := map[types.Object]int{}
	ast.Inspect(f.Body, func(n ast.Node) bool {
		switch y := n.(type) {
		case *ast.AssignStmt:
			if post[y] {
				return true
			}
			for _, l := range y.Lhs {
				if o := kit.ObjOf(info, l); vars[o] {
					defs[o]++
				}
			}
		case *ast.IncDecStmt:
			if post[y] {
				return true
			}
			if o := kit.ObjOf(info, y.X); vars[o] {
				defs[o] += 2
			}
		case *ast.UnaryExpr:
			if y.Op == token.AND {
				if o := kit.ObjOf(info, y.X); vars[o] {
					defs[o] += 2
				}
			}
		}
		return true
	})
	for o, n := range defs {
		if n > 1 && bad == "" {
			bad = fmt.Sprintf("%s is assigned in several places", o.Name())
		}
	}
	return bad == "", bad
}

func (sc *storeCtx) checkRead(rd *lookupRead) {
	f, c := rd.f, sc.c
	info := f.Info()
	c.Analysed(f)
	o := sc.r.Ob(f, rd.sel, "value read `"+f.Str(rd.sel)+"`", "a successful lookup returns this field only for the element whose address field was compared equal to the requested address")
	b, skip, positional := sc.bindRead(rd)
	if skip {
		o.OK("`%s` is not a stored register (a literal or a parameter)", f.Str(rd.base))
		return
	}
	if b.why != "" {
		o.Undecided("%s", b.why)
		return
	}
	params := map[types.Object]bool{}
	for _, p := range f.Params() {
		params[p] = true
	}
	var atom kit.Atomizer
	var others []string
	if positional {
		ix := rd.base.(*ast.IndexExpr)
		if ok, why := stableIndex(f, ix.Index); !ok {
			o.Undecided("`%s` names its element by a computed position and %s: cannot tell whether a test on the same text looks at the same element", f.Str(ix), why)
			return
		}
		mentionsParam := func(e ast.Expr) bool {
			hit := false
			ast.Inspect(e, func(n ast.Node) bool {
				if id, ok := n.(*ast.Ident); ok {
					ob := kit.ObjOf(info, id)
					if params[ob] {
						hit = true
					} else if ob != nil {
						if def := uniqueDef(f, ob); def != nil {
							ast.Inspect(def, func(z ast.Node) bool {
								if id2, ok := z.(*ast.Ident); ok && params[kit.ObjOf(info, id2)] {
									hit = true
								}
								return !hit
							})
						}
					}
				}
				return !hit
			})
			return hit
		}
		// address tests on other elements of the list (for the message)
		ast.Inspect(f.Body, func(n ast.Node) bool {
			be, ok := n.(*ast.BinaryExpr)
			if !ok || (be.Op != token.EQL && be.Op != token.NEQ) {
				return true
			}
			for _, side := range []ast.Expr{be.X, be.Y} {
				if sel, ok := ast.Unparen(side).(*ast.SelectorExpr); ok {
					if ie, ok := ast.Unparen(sel.X).(*ast.IndexExpr); ok && sc.isSlice(f, ie.X) && !kit.SameExpr(info, ie, ix) {
						others = append(others, f.Str(ie))
					}
				}
			}
			return true
		})
		atom = func(e ast.Expr) (string, bool, bool) {
			e = ast.Unparen(mbCond(f, e))
			x, y, op, ok := kit.CmpAtom(e)
			if !ok || (op != token.EQL && op != token.NEQ) {
				return "", false, false
			}
			for _, pr := range [][2]ast.Expr{{x, y}, {y, x}} {
				sel, ok := ast.Unparen(pr[0]).(*ast.SelectorExpr)
				if !ok || mbBasicInt(info.TypeOf(sel)) == nil {
					continue
				}
				if s, ok := info.Selections[sel]; !ok || s.Kind() != types.FieldVal {
					continue
				}
				if kit.SameExpr(info, sel.X, ix) && mentionsParam(pr[1]) {
					return "match", op == token.NEQ, true
				}
			}
			return "", false, false
		}
	} else {
		atom = sc.atoms(f, b, nil)
	}
	// `a-b == 0` and `a^b == 0` are spellings of `a == b`
	inner := atom
	atom = func(e ast.Expr) (string, bool, bool) {
		if x, y, op, ok := kit.CmpAtom(ast.Unparen(mbCond(f, e))); ok && (op == token.EQL || op == token.NEQ) {
			for _, pr := range [][2]ast.Expr{{x, y}, {y, x}} {
				be, isBin := ast.Unparen(pr[0]).(*ast.BinaryExpr)
				if z, isC := kit.ConstInt(info, pr[1]); isBin && isC && z == 0 && (be.Op == token.SUB || be.Op == token.XOR) {
					return inner(&ast.BinaryExpr{X: be.X, OpPos: be.OpPos, Op: op, Y: be.Y})
				}
			}
		}
		return inner(e)
	}
	type outcome struct {
		read, success, unknown bool
		at                     *ast.ReturnStmt
	}
	run := func(init kit.S) (out outcome, overflow bool) {
		sd := &kit.Std{F: f}
		sd.Eval.Atom = atom
		sd.OnBranch = func(br kit.Branch, s kit.S) (t, ff []kit.S, handled bool) {
			if b.rs != nil && br.Kind == kit.BrRange && br.Range == b.rs && s.Get("a:match") == "T" && !s.Has("it") {
				return []kit.S{s.Set("it", "1")}, nil, true
			}
			// `switch elem.addr { case want: … }` is the comparison elem.addr == want
			if br.Kind == kit.BrCase && br.Tag != nil && br.Case != nil {
				if id, neg, ok := atom(&ast.BinaryExpr{X: br.Tag, OpPos: br.Case.Pos(), Op: token.EQL, Y: br.Case}); ok {
					switch v := s.Get("a:" + id); {
					case v == "":
					case (v == "T") != neg:
						return []kit.S{s}, nil, true
					default:
						return nil, []kit.S{s}, true
					}
				}
			}
			return nil, nil, false
		}
		mark := func(n ast.Node, s kit.S) kit.S {
			if n != nil && n.Pos() <= rd.sel.Pos() && rd.sel.End() <= n.End() {
				return s.Set("rd", "1")
			}
			return s
		}
		sd.OnNode = func(n ast.Node, s kit.S) []kit.S { return []kit.S{mark(n, s)} }
		cl := sd.Client()
		cond := cl.Cond
		cl.Cond = func(e ast.Expr, s kit.S) (t, ff []kit.S) {
			// a read inside a condition counts on both edges
			return cond(e, mark(e, s))
		}
		res := c.P.Graph(f).Run(init, cl)
		c.AddValuations(1)
		if res.Overflow {
			return out, true
		}
		for _, e := range res.Exits {
			if e.State.Get("rd") != "1" {
				continue
			}
			out.read = true
			switch lookupSuccess(sd, f, e.Return, e.State) {
			case "yes":
				if !out.success {
					out.at = e.Return
				}
				out.success = true
			case "unknown":
				out.unknown = true
			}
		}
		return out, false
	}
	miss, ov1 := run(kit.NewS().Set("a:match", "F"))
	hit, ov2 := run(kit.NewS().Set("a:match", "T"))
	if ov1 || ov2 {
		o.Undecided("too many paths in %s", f.Name)
		return
	}
	if !hit.read {
		o.Undecided("`%s` is not reached when the element matches the requested address: the lookup has a shape the rule does not follow", f.Str(rd.sel))
		return
	}
	switch {
	case miss.success && positional:
		order, why := sc.listOrder()
		if order != "insertion" {
			o.Undecided("`%s` picks its element by position without comparing that element's address; whether positions follow addresses depends on how the list is ordered (%s), which is not judged", f.Str(rd.sel), why)
			return
		}
		tested := "no address test on this path looks at that element"
		if len(others) > 0 {
			tested = "the address tests look at other elements (" + strings.Join(uniqStrings(others), ", ") + ")"
		}
		o.Violation("%s returns successfully (%s) after reading `%s`, an element picked by position whose own address is never compared with the requested one; %s. The register list is in the order the registers were added (every assignment appends, nothing sorts it), so position says nothing about address: a map added out of address order returns the values of other registers with the right count", f.Name, f.At(miss.at), f.Str(rd.sel), tested)
	case miss.success:
		o.Violation("%s returns successfully (%s) after reading `%s` although the address of that element does not equal the requested address: the client receives the value of another register", f.Name, f.At(miss.at), f.Str(rd.sel))
	case miss.unknown:
		o.Undecided("after reading `%s` of an element that does not match, %s returns through an error value whose nil-ness is not known", f.Str(rd.sel), f.Name)
	default:
		how := "address comparison on the element"
		if b.helper != nil {
			how = "result of the verified lookup helper " + b.helper.Name
		}
		o.OK("element does not match: no successful return after the read (%s)", how)
	}
}

// lookupSuccess classifies an exit: "yes" when it reports success (nil
// error, true, or no status result at all), "no", or "unknown".
func lookupSuccess(sd *kit.Std, f *kit.Func, ret *ast.ReturnStmt, s kit.S) string {
	res := f.Type.Results
	if res == nil || len(res.List) == 0 {
		return "yes"
	}
	lastT := f.Info().TypeOf(res.List[len(res.List)-1].Type)
	switch {
	case isErrorType(lastT):
		if ret == nil {
			return "unknown"
		}
		switch sd.ReturnsNil(ret, s) {
		case "nil":
			return "yes"
		case "nonnil":
			return "no"
		}
		// a value of a concrete type (an exception code constant) in the error
		// result is never the nil interface
		if len(ret.Results) > 0 {
			last := ret.Results[len(ret.Results)-1]
			if tv, ok := f.Info().Types[last]; ok && tv.Type != nil && !tv.IsNil() {
				if _, isIface := tv.Type.Underlying().(*types.Interface); !isIface {
					if _, isPtr := tv.Type.Underlying().(*types.Pointer); !isPtr {
						return "no"
					}
				}
			}
		}
		return "unknown"
	case lastT != nil && isBoolType(lastT):
		if ret == nil || len(ret.Results) == 0 {
			return "unknown"
		}
		if v, ok := sd.FoldExpr(ret.Results[len(ret.Results)-1], s); ok && v.Kind() == constant.Bool {
			if constant.BoolVal(v) {
				return "yes"
			}
			return "no"
		}
		return "unknown"
	}
	return "yes"
}

func isBoolType(t types.Type) bool {
	b, ok := t.Underlying().(*types.Basic)
	return ok && b.Info()&types.IsBoolean != 0
}
