package props

import (
	"fmt"
	"go/ast"
	"go/constant"
	"go/token"
	"go/types"
	"reflect"
	"sort"
	"strings"
	"sync"

	"siotcheck/kit"
)

func init() {
	kit.Register(&kit.Prop{
		ID:    "C10",
		Title: "Typed configuration survives Encode/Decode and Diff/Merge",
		Explanation: "Writer/reader table agreement decided over the reflection code of package data (DESIGN.md §3/C10): " +
			"R1 every reflect.Kind the scalar encoder turns into a point is accepted by the scalar decoder with the same value family and is in the nil-pointer tombstone list; " +
			"every container kind the point appender handles is handled by the group setter and by the differ, and all three treat pointer-to-struct; " +
			"R2 every site that derives a point key from a struct field evaluates the fallback chain point tag, edgepoint tag, camel-cased field name, in that order, on every path; " +
			"R3 every size refusal of the appender and differ admits the documented 1000 elements, the setter and differ admit whatever the appender admits, " +
			"and the integer refusal of the scalar encoder admits exactly a range between ±(2^53−1) and ±2^53; " +
			"R4 the struct-tag dispatch orders of Encode, Decode, DiffPoints and the node finder are pairwise order-consistent, producers skip no higher-precedence tag of Decode, " +
			"and Encode's tags and node sub-keys are a subset of Decode's; " +
			"R9 for a slice field whose length differs between before and after — also when both share their backing array — every path through the differ's field loop emits the live points / tombstones of the length difference or fails (scenario evaluation, plain helpers in line); " +
			"R10 every working container of the codec is fresh per call, or, when taken from a sync.Pool or a package-level variable, empty when first read (emptied after Get, or every hand-back on every return path hands back an emptied container). " +
			"Decided: these tables, exhaustively over switch arms / sites / CFG paths; not decided: slice growth and trimming, tombstone semantics, map and pointer handling, Diff∘Merge = identity, numeric conversion results.",
		Assumptions: []string{
			"round-trip equality over values is not statically decided; only the agreement of the tables both directions are driven by",
			"the documented limits (1000 elements, integers within ±2^53) are taken from the property statement",
			"reflect.StructTag.Get returns \"\" for an absent tag",
		},
		Run: runC10,
	})
}

// ---- discovery -------------------------------------------------------------

type c10Clause struct {
	cc     *ast.CaseClause
	kinds  []reflect.Kind
	isDef  bool
	nested []*c10Switch
}

type c10Switch struct {
	f       *kit.Func
	sw      *ast.SwitchStmt
	clauses []*c10Clause
	inner   bool // sits inside a clause of another kind switch
}

func (s *c10Switch) labels() map[reflect.Kind]*c10Clause {
	out := map[reflect.Kind]*c10Clause{}
	for _, c := range s.clauses {
		for _, k := range c.kinds {
			out[k] = c
		}
	}
	return out
}

func c10KindSwitches(f *kit.Func) []*c10Switch {
	info := f.Info()
	var all []*c10Switch
	byStmt := map[*ast.SwitchStmt]*c10Switch{}
	ast.Inspect(f.Body, func(n ast.Node) bool {
		if _, ok := n.(*ast.FuncLit); ok {
			return false
		}
		sw, ok := n.(*ast.SwitchStmt)
		if !ok {
			return true
		}
		s := &c10Switch{f: f, sw: sw}
		switch {
		case sw.Tag != nil && kit.RType(info.TypeOf(sw.Tag)) == "Kind":
			for _, st := range sw.Body.List {
				cc := st.(*ast.CaseClause)
				cl := &c10Clause{cc: cc, isDef: cc.List == nil}
				for _, e := range cc.List {
					if v, ok := kit.ConstInt(info, e); ok && v >= 0 && v <= 26 {
						cl.kinds = append(cl.kinds, reflect.Kind(v))
					}
				}
				s.clauses = append(s.clauses, cl)
			}
		case sw.Tag == nil:
			// switch { case k == reflect.Bool: …; case k == reflect.Int || k == reflect.Int8: … }
			// on one and the same kind expression k
			var subject ast.Expr
			good := len(sw.Body.List) > 0
			for _, st := range sw.Body.List {
				cc := st.(*ast.CaseClause)
				cl := &c10Clause{cc: cc, isDef: cc.List == nil}
				for _, e := range cc.List {
					for _, leaf := range c10Leaves(e, token.LOR) {
						be, ok := leaf.(*ast.BinaryExpr)
						if !ok || be.Op != token.EQL {
							good = false
							continue
						}
						x, k := be.X, be.Y
						if _, isC := kit.ConstInt(info, x); isC && kit.RType(info.TypeOf(x)) == "Kind" {
							x, k = k, x
						}
						v, isC := kit.ConstInt(info, k)
						if !isC || kit.RType(info.TypeOf(k)) != "Kind" || v < 0 || v > 26 || kit.RType(info.TypeOf(x)) != "Kind" {
							good = false
							continue
						}
						if subject == nil {
							subject = x
						} else if !kit.SameExpr(info, subject, x) {
							good = false
						}
						cl.kinds = append(cl.kinds, reflect.Kind(v))
					}
				}
				s.clauses = append(s.clauses, cl)
			}
			if !good || subject == nil {
				return true
			}
		default:
			return true
		}
		byStmt[sw] = s
		all = append(all, s)
		return true
	})
	for _, s := range all {
		for _, cl := range s.clauses {
			ast.Inspect(cl.cc, func(n ast.Node) bool {
				if sw, ok := n.(*ast.SwitchStmt); ok && byStmt[sw] != nil && sw != s.sw {
					byStmt[sw].inner = true
					cl.nested = append(cl.nested, byStmt[sw])
				}
				return true
			})
		}
	}
	return all
}

// clauseCalls lists the reflect call names and in-package callees of a clause body.
func c10ClauseCalls(f *kit.Func, cc *ast.CaseClause) (refl map[string]bool, fns map[*kit.Func]bool) {
	refl, fns = map[string]bool{}, map[*kit.Func]bool{}
	for _, st := range cc.Body {
		c10CallsOf(f, st, refl, fns, 0)
	}
	return
}

// c10IsPlainHelper: an unexported function of the same package without a kind
// switch of its own; what it does is attributed to the arm that calls it.
func c10IsPlainHelper(f, g *kit.Func) bool {
	if g == nil || g.Decl == nil || g.Body == nil || g.Pkg != f.Pkg || ast.IsExported(g.Decl.Name.Name) {
		return false
	}
	memo := g.Prog.Aux("c10.hasKindSwitch", func() any { return &sync.Map{} }).(*sync.Map)
	if v, ok := memo.Load(g); ok {
		return !v.(bool)
	}
	has := len(c10KindSwitches(g)) > 0
	memo.Store(g, has)
	return !has
}

func c10CallsOf(f *kit.Func, n ast.Node, refl map[string]bool, fns map[*kit.Func]bool, depth int) {
	ast.Inspect(n, func(x ast.Node) bool {
		if call, ok := x.(*ast.CallExpr); ok {
			if nm := kit.RCallName(f.Info(), call); nm != "" {
				refl[nm] = true
			} else if g := f.CalleeFunc(call); g != nil && !fns[g] {
				fns[g] = true
				if depth < 3 && c10IsPlainHelper(f, g) {
					c10CallsOf(g, g.Body, refl, fns, depth+1)
				}
			}
		}
		return true
	})
}

// c10HelperClosure lists the plain helpers reachable from node n of f.
func c10HelperClosure(f *kit.Func, n ast.Node) []*kit.Func {
	fns := map[*kit.Func]bool{}
	c10CallsOf(f, n, map[string]bool{}, fns, 0)
	var out []*kit.Func
	for _, g := range f.Prog.Funcs(f.PkgRel()) {
		if fns[g] && c10IsPlainHelper(f, g) {
			out = append(out, g)
		}
	}
	return out
}

var c10Getters = map[string]string{"Value.Bool": "bool", "Value.Int": "int", "Value.Uint": "uint", "Value.Float": "float", "Value.String": "string"}
var c10Setters = map[string]string{"Value.SetBool": "bool", "Value.SetInt": "int", "Value.SetUint": "uint", "Value.SetFloat": "float", "Value.SetString": "string"}

// scalarTable reads kind -> family from the switch whose arms call the given
// accessor family; nil when the switch is not such a table.
func c10ScalarTable(s *c10Switch, acc map[string]string) (map[reflect.Kind]string, map[reflect.Kind]*c10Clause) {
	tab := map[reflect.Kind]string{}
	cls := map[reflect.Kind]*c10Clause{}
	fams := map[string]bool{}
	for _, cl := range s.clauses {
		refl, _ := c10ClauseCalls(s.f, cl.cc)
		var fam []string
		for nm := range refl {
			if a, ok := acc[nm]; ok {
				fam = append(fam, a)
			}
		}
		if len(fam) == 0 {
			continue
		}
		sort.Strings(fam)
		for _, k := range cl.kinds {
			tab[k] = strings.Join(fam, "+")
			cls[k] = cl
		}
		fams[strings.Join(fam, "+")] = true
	}
	if len(fams) < 3 {
		return nil, nil
	}
	return tab, cls
}

type c10Model struct {
	c                   *kit.Ctx
	encSw, decSw, tomSw *c10Switch
	enc, dec            map[reflect.Kind]string
	encCl               map[reflect.Kind]*c10Clause
	tomb                map[reflect.Kind]bool
	tombClause          *c10Clause
	encF, decF          *kit.Func
	appender, setter    *c10Switch
	differ              *c10Switch
}

func c10Discover(c *kit.Ctx) *c10Model {
	m := &c10Model{c: c}
	fs := c.P.Funcs("data")
	sws := map[*kit.Func][]*c10Switch{}
	for _, f := range fs {
		if f.Body == nil {
			continue
		}
		if s := c10KindSwitches(f); len(s) > 0 {
			sws[f] = s
		}
	}
	one := func(what string, cur, nw *c10Switch) *c10Switch {
		if cur != nil && cur != nw {
			c.Fatalf("two candidates for the %s: %s and %s", what, cur.f.Name, nw.f.Name)
		}
		return nw
	}
	for _, f := range fs {
		for _, s := range sws[f] {
			if t, cls := c10ScalarTable(s, c10Getters); t != nil {
				m.encSw, m.enc, m.encCl, m.encF = one("scalar encoder", m.encSw, s), t, cls, f
			}
			if t, _ := c10ScalarTable(s, c10Setters); t != nil {
				m.decSw, m.dec, m.decF = one("scalar decoder", m.decSw, s), t, f
			}
		}
	}
	if m.encSw == nil || m.decSw == nil {
		c.Fatalf("scalar encoder / decoder kind tables not found (encoder: %v, decoder: %v)", m.encSw != nil, m.decSw != nil)
	}
	pointT := c.P.MustPkg("data").Types.Scope().Lookup("Point")
	if pointT == nil {
		c.Fatalf("type data.Point not found")
	}
	for _, f := range fs {
		for _, s := range sws[f] {
			// tombstone list: an arm that appends a keyless Point{Tombstone: 1}
			for _, cl := range s.clauses {
				found := false
				for _, st := range cl.cc.Body {
					switch st.(type) {
					case *ast.ForStmt, *ast.SwitchStmt, *ast.RangeStmt:
						continue
					}
					ast.Inspect(st, func(n ast.Node) bool {
						switch n.(type) {
						case *ast.ForStmt, *ast.SwitchStmt, *ast.RangeStmt:
							return false // keyed points of a struct / a nested table
						}
						lit, ok := n.(*ast.CompositeLit)
						if !ok || !types.Identical(f.Info().TypeOf(lit), pointT.Type()) {
							return true
						}
						tomb, key := false, false
						for _, el := range lit.Elts {
							if kv, ok := el.(*ast.KeyValueExpr); ok {
								switch kit.ExprStr(c.P.Fset, kv.Key) {
								case "Tombstone":
									if v, ok := kit.ConstInt(f.Info(), kv.Value); ok && v%2 == 1 {
										tomb = true
									}
								case "Key":
									key = true
								}
							}
						}
						if tomb && !key {
							found = true
						}
						return true
					})
				}
				if found && len(cl.kinds) > 0 {
					if m.tombClause != nil && m.tombClause != cl {
						c.Fatalf("two candidates for the nil-pointer tombstone list in %s", f.Name)
					}
					m.tomSw, m.tombClause = s, cl
					m.tomb = map[reflect.Kind]bool{}
					for _, k := range cl.kinds {
						m.tomb[k] = true
					}
				}
			}
			if s.inner || s == m.encSw || s == m.decSw {
				continue
			}
			callsEnc, callsDec, equal := false, false, false
			for _, cl := range s.clauses {
				refl, fns := c10ClauseCalls(f, cl.cc)
				callsEnc = callsEnc || fns[m.encF]
				callsDec = callsDec || fns[m.decF]
				equal = equal || refl["Value.Equal"]
			}
			switch {
			case callsEnc && equal:
				m.differ = one("differ", m.differ, s)
			case callsEnc:
				m.appender = one("point appender", m.appender, s)
			case callsDec:
				m.setter = one("group setter", m.setter, s)
			}
		}
	}
	if m.tombClause == nil {
		c.Fatalf("nil-pointer tombstone list (arm appending Point{Tombstone: 1} without key) not found")
	}
	if m.appender == nil || m.setter == nil || m.differ == nil {
		c.Fatalf("container kind switches not found (appender: %v, setter: %v, differ: %v)", m.appender != nil, m.setter != nil, m.differ != nil)
	}
	c.Analysed(m.encF, m.decF, m.appender.f, m.setter.f, m.differ.f)
	return m
}

// ptrStructCond finds a condition `K == Pointer && X.Elem().Kind() == Struct`
// (either order, any nesting of &&) in f.
func c10PtrStructCond(f *kit.Func) ast.Expr {
	info := f.Info()
	var found ast.Expr
	isCmp := func(e ast.Expr, k reflect.Kind, viaElem bool) bool {
		be, ok := ast.Unparen(e).(*ast.BinaryExpr)
		if !ok || be.Op != token.EQL {
			return false
		}
		a, b := be.X, be.Y
		if v, ok := kit.ConstInt(info, a); ok && kit.RType(info.TypeOf(a)) == "Kind" && reflect.Kind(v) == k {
			a, b = b, a
		}
		v, ok := kit.ConstInt(info, b)
		if !ok || kit.RType(info.TypeOf(b)) != "Kind" || reflect.Kind(v) != k {
			return false
		}
		hasElem := false
		ast.Inspect(a, func(n ast.Node) bool {
			if call, ok := n.(*ast.CallExpr); ok {
				if nm := kit.RCallName(info, call); nm == "Type.Elem" {
					hasElem = true
				}
			}
			return true
		})
		return hasElem == viaElem
	}
	var leaves func(e ast.Expr) []ast.Expr
	leaves = func(e ast.Expr) []ast.Expr {
		if be, ok := ast.Unparen(e).(*ast.BinaryExpr); ok && be.Op == token.LAND {
			return append(leaves(be.X), leaves(be.Y)...)
		}
		return []ast.Expr{e}
	}
	ast.Inspect(f.Body, func(n ast.Node) bool {
		e, ok := n.(ast.Expr)
		if !ok || found != nil {
			return found == nil
		}
		if be, ok := e.(*ast.BinaryExpr); ok && be.Op == token.LAND {
			p, s := false, false
			for _, l := range leaves(be) {
				p = p || isCmp(l, reflect.Pointer, false)
				s = s || isCmp(l, reflect.Struct, true)
			}
			if p && s {
				found = e
			}
			return false
		}
		return true
	})
	return found
}

func runC10(c *kit.Ctx) {
	m := c10Discover(c)
	c10R1(c, m)
	c10R3(c, m)
	c10TagRules(c, m)
	c10R5(c, m)
	c10R6(c, m)
	c10R8(c, m)
	c10R9(c, m)
	c10R10(c, m)
}

// ---- R1 --------------------------------------------------------------------

func c10R1(c *kit.Ctx, m *c10Model) {
	r1 := c.Rule("R1", "kind tables of encoder, decoder, tombstone list and container switches agree", 19)
	var kinds []reflect.Kind
	for k := range m.enc {
		kinds = append(kinds, k)
	}
	sort.Slice(kinds, func(i, j int) bool { return kinds[i] < kinds[j] })
	if len(kinds) < 14 {
		c.Fatalf("scalar encoder %s handles %d kinds, expected at least 14", m.encF.Name, len(kinds))
	}
	for _, k := range kinds {
		o := r1.Ob(m.encF, m.encCl[k].cc, "scalar kind "+k.String(),
			"a kind the scalar encoder emits is decoded with the same value family and can be tombstoned as a nil pointer")
		switch {
		case m.dec[k] == "":
			o.Violation("%s encodes %s (as %s) but the scalar decoder %s has no arm for it: decoding the encoded point fails", m.encF.Name, k, m.enc[k], m.decF.Name)
		case m.dec[k] != m.enc[k]:
			o.Violation("%s reads %s through %s but %s writes it through %s", m.encF.Name, k, m.enc[k], m.decF.Name, m.dec[k])
		case !m.tomb[k]:
			o.Violation("%s encodes %s but the nil-pointer tombstone list at %s lacks it: a nil *%s cannot be encoded", m.encF.Name, k, m.tomSw.f.At(m.tombClause.cc), k)
		default:
			o.OK("decoder arm %s (%s), tombstone list %s", m.decF.At(m.decSw.labels()[k].cc), m.dec[k], m.tomSw.f.At(m.tombClause.cc))
		}
	}
	// containers
	app, set, dif := m.appender.labels(), m.setter.labels(), m.differ.labels()
	var cont []reflect.Kind
	for k := range app {
		if k != reflect.Pointer {
			cont = append(cont, k)
		}
	}
	sort.Slice(cont, func(i, j int) bool { return cont[i] < cont[j] })
	if len(cont) < 4 {
		c.Fatalf("point appender %s handles %d container kinds, expected at least 4", m.appender.f.Name, len(cont))
	}
	for _, k := range cont {
		o := r1.Ob(m.appender.f, app[k].cc, "container kind "+k.String(), "a container kind the appender encodes is handled by the group setter and by the differ")
		switch {
		case set[k] == nil:
			o.Violation("%s encodes %s element-wise but %s has no %s arm: the points fall into its scalar default", m.appender.f.Name, k, m.setter.f.Name, k)
		case dif[k] == nil:
			o.Violation("%s encodes %s element-wise but %s has no %s arm: the diff is computed as if it were a scalar", m.appender.f.Name, k, m.differ.f.Name, k)
		default:
			o.OK("setter arm %s, differ arm %s", m.setter.f.At(set[k].cc), m.differ.f.At(dif[k].cc))
		}
	}
	o := r1.Ob(m.appender.f, m.appender.sw, "pointer to struct", "appender, group setter and differ all treat pointer-to-struct")
	pa := app[reflect.Pointer]
	okApp := false
	if pa != nil {
		for _, n := range pa.nested {
			if n.labels()[reflect.Struct] != nil {
				okApp = true
			}
		}
	}
	cs, cd := c10PtrStructCond(m.setter.f), c10PtrStructCond(m.differ.f)
	switch {
	case !okApp:
		o.Violation("%s has no Pointer arm whose nil case enumerates the fields of a pointed-to struct", m.appender.f.Name)
	case cs == nil:
		o.Violation("%s has no `kind == Pointer && Elem().Kind() == Struct` case although %s encodes pointer-to-struct", m.setter.f.Name, m.appender.f.Name)
	case cd == nil:
		o.Violation("%s has no `kind == Pointer && Elem().Kind() == Struct` case although %s encodes pointer-to-struct", m.differ.f.Name, m.appender.f.Name)
	default:
		o.OK("appender Pointer arm %s, setter %s, differ %s", m.appender.f.At(pa.cc), m.setter.f.At(cs), m.differ.f.At(cd))
	}
}

// ---- R3 --------------------------------------------------------------------

const c10DocLimit = 1000

var c10SafeInt = constant.MakeInt64(1<<53 - 1)
var c10MaxExact = constant.MakeInt64(1 << 53)

type c10Limit struct {
	f      *kit.Func
	ifs    *ast.IfStmt
	x      ast.Expr
	accept int64 // largest accepted size
	role   string
	why    string
}

// returnsError: the if body ends in a return whose last result is a non-nil error construction.
func c10ReturnsError(f *kit.Func, body *ast.BlockStmt) bool {
	if len(body.List) == 0 {
		return false
	}
	ret, ok := body.List[len(body.List)-1].(*ast.ReturnStmt)
	if !ok || len(ret.Results) == 0 {
		return false
	}
	call, ok := ast.Unparen(ret.Results[len(ret.Results)-1]).(*ast.CallExpr)
	if !ok {
		return false
	}
	q := kit.QualName(kit.Callee(f.Info(), call))
	return q == "fmt.Errorf" || q == "errors.New"
}

func c10LenLike(f *kit.Func, e ast.Expr) bool {
	info := f.Info()
	e = ast.Unparen(e)
	if call, ok := e.(*ast.CallExpr); ok {
		switch kit.RCallName(info, call) {
		case "Value.Len", "Type.NumField", "Value.NumField", "Type.Len":
			return true
		}
		if b, ok := kit.Callee(info, call).(*types.Builtin); ok && b.Name() == "len" {
			return true
		}
		return false
	}
	if id, ok := e.(*ast.Ident); ok {
		obj := kit.ObjOf(info, id)
		n, lenlike := 0, false
		ast.Inspect(f.Body, func(x ast.Node) bool {
			if as, ok := x.(*ast.AssignStmt); ok && len(as.Lhs) == len(as.Rhs) {
				for i, l := range as.Lhs {
					if kit.ObjOf(info, l) == obj {
						n++
						lenlike = c10LenLike(f, as.Rhs[i])
					}
				}
			}
			return true
		})
		return n == 1 && lenlike
	}
	return false
}

// indexLike: the function also compares e against <length> - 1 (or e + 1
// against <length>), possibly through a local such as `minLen := e + 1`.
func c10IndexLike(f *kit.Func, e ast.Expr) bool {
	info := f.Info()
	found := false
	norm := func(x ast.Expr) (ast.Expr, int64) {
		t, c := c10PlusConst(info, x)
		if r := c10ResolveLocal(f, t); r != t {
			t2, c2 := c10PlusConst(info, r)
			return t2, c + c2
		}
		return t, c
	}
	ast.Inspect(f.Body, func(n ast.Node) bool {
		be, ok := n.(*ast.BinaryExpr)
		if !ok {
			return true
		}
		switch be.Op {
		case token.LSS, token.LEQ, token.GTR, token.GEQ, token.EQL, token.NEQ:
		default:
			return true
		}
		for side, p := range [][2]ast.Expr{{be.X, be.Y}, {be.Y, be.X}} {
			t1, c1 := norm(p[0])
			t2, c2 := norm(p[1])
			if !kit.SameExpr(info, t1, e) || !c10LenLike(f, t2) {
				continue
			}
			op := be.Op
			if side == 1 { // length on the left: mirror
				op = map[token.Token]token.Token{token.LSS: token.GTR, token.GTR: token.LSS, token.LEQ: token.GEQ, token.GEQ: token.LEQ}[op]
			}
			// the test separates e <= length + b from e > length + b;
			// an index is compared with length - 1
			var b int64
			switch op {
			case token.GTR, token.LEQ:
				b = c2 - c1
			case token.GEQ, token.LSS:
				b = c2 - c1 - 1
			default:
				continue
			}
			if b == -1 {
				found = true
			}
		}
		return true
	})
	return found
}

func c10Limits(c *kit.Ctx, f *kit.Func, role string) (out []*c10Limit, undecided []string) {
	info := f.Info()
	ast.Inspect(f.Body, func(n ast.Node) bool {
		ifs, ok := n.(*ast.IfStmt)
		if !ok || !c10ReturnsError(f, ifs.Body) {
			return true
		}
		be, ok := ast.Unparen(c10ResolveLocal(f, ifs.Cond)).(*ast.BinaryExpr)
		if !ok {
			return true
		}
		x, cst, op := be.X, be.Y, be.Op
		if _, isC := kit.ConstInt(info, x); isC {
			x, cst = cst, x
			switch op {
			case token.LSS:
				op = token.GTR
			case token.LEQ:
				op = token.GEQ
			case token.GTR:
				op = token.LSS
			case token.GEQ:
				op = token.LEQ
			}
		}
		L, ok := kit.ConstInt(info, cst)
		if !ok || L < 2 {
			return true
		}
		if bt, ok := info.TypeOf(x).Underlying().(*types.Basic); !ok || bt.Info()&types.IsInteger == 0 {
			return true
		}
		var accept int64
		switch op {
		case token.GTR:
			accept = L
		case token.GEQ:
			accept = L - 1
		default:
			return true // refuses small values: not a size limit
		}
		lim := &c10Limit{f: f, ifs: ifs, x: x, role: role}
		switch {
		case c10LenLike(f, x):
			lim.accept, lim.why = accept, "length "+f.Str(x)
		case c10IndexLike(f, x):
			lim.accept, lim.why = accept+1, "largest index "+f.Str(x)+" (compared with length-1 elsewhere)"
		default:
			return true
		}
		out = append(out, lim)
		return true
	})
	return
}

func c10R3(c *kit.Ctx, m *c10Model) {
	r3 := c.Rule("R3", "size and integer limits agree between the directions", 12)
	withHelpers := func(sw *c10Switch, role string) []*c10Limit {
		out, _ := c10Limits(c, sw.f, role)
		for _, h := range c10HelperClosure(sw.f, sw.sw) {
			if h == m.encF || h == m.decF {
				continue
			}
			more, _ := c10Limits(c, h, role)
			out = append(out, more...)
		}
		return out
	}
	app := withHelpers(m.appender, "appender")
	set := withHelpers(m.setter, "setter")
	dif := withHelpers(m.differ, "differ")
	if len(app) < 4 || len(set) < 2 || len(dif) < 4 {
		c.Fatalf("size refusals found: appender %d (expected >= 4), setter %d (>= 2), differ %d (>= 4)", len(app), len(set), len(dif))
	}
	var E int64
	for _, l := range app {
		if l.accept > E {
			E = l.accept
		}
	}
	ord := map[string]int{}
	for _, l := range append(append(app, set...), dif...) {
		ord[l.role]++
		o := r3.Ob(l.f, l.ifs, fmt.Sprintf("%s size refusal #%d (%s)", l.role, ord[l.role], l.f.Str(l.x)), "")
		need, what := int64(c10DocLimit), "the documented 1000 elements"
		if l.role != "appender" {
			need, what = E, fmt.Sprintf("the %d elements the appender emits", E)
		}
		if l.role == "differ" && need < c10DocLimit {
			need, what = c10DocLimit, "the documented 1000 elements"
		}
		o.Obligation = "admits " + what
		if l.accept < need {
			o.Violation("`%s` refuses sizes above %d (%s) but must admit %s", l.f.Str(c10ResolveLocal(l.f, l.ifs.Cond)), l.accept, l.why, what)
		} else {
			o.OK("admits up to %d (%s)", l.accept, l.why)
		}
	}
	// integer limits in the scalar encoder
	info := m.encF.Info()
	for _, fam := range []string{"int", "uint"} {
		var cl *c10Clause
		for k, f := range m.enc {
			if f == fam {
				cl = m.encCl[k]
			}
		}
		if cl == nil {
			c.Fatalf("scalar encoder has no %s arm", fam)
		}
		o := r3.Ob(m.encF, cl.cc, fam+" precision refusal", "integers within ±(2^53−1) are encoded, integers beyond ±2^53 are refused")
		var lo, hi constant.Value // accepted interval [lo, hi]
		nIf := 0
		for _, st := range cl.cc.Body {
			ifs, ok := st.(*ast.IfStmt)
			if !ok || !c10ReturnsError(m.encF, ifs.Body) {
				continue
			}
			nIf++
			var leaves func(e ast.Expr) []ast.Expr
			leaves = func(e ast.Expr) []ast.Expr {
				if be, ok := ast.Unparen(e).(*ast.BinaryExpr); ok && be.Op == token.LOR {
					return append(leaves(be.X), leaves(be.Y)...)
				}
				return []ast.Expr{e}
			}
			for _, l := range leaves(ifs.Cond) {
				be, ok := ast.Unparen(l).(*ast.BinaryExpr)
				if !ok {
					o.Undecided("refusal condition leaf %s is not a comparison", m.encF.Str(l))
					continue
				}
				x, cst, op := be.X, be.Y, be.Op
				if tv := info.Types[x]; tv.Value != nil {
					x, cst = cst, x
					op = map[token.Token]token.Token{token.LSS: token.GTR, token.GTR: token.LSS, token.LEQ: token.GEQ, token.GEQ: token.LEQ}[op]
				}
				tv := info.Types[cst]
				if tv.Value == nil {
					o.Undecided("refusal condition leaf %s compares with a non-constant", m.encF.Str(l))
					continue
				}
				v := constant.ToInt(tv.Value)
				switch op {
				case token.GTR: // refuse x > v: accept x <= v
					hi = v
				case token.GEQ:
					hi = constant.BinaryOp(v, token.SUB, constant.MakeInt64(1))
				case token.LSS:
					lo = v
				case token.LEQ:
					lo = constant.BinaryOp(v, token.ADD, constant.MakeInt64(1))
				default:
					o.Undecided("refusal condition leaf %s uses operator %s", m.encF.Str(l), op)
				}
			}
		}
		if fam == "uint" && lo == nil {
			lo = constant.MakeInt64(0)
		}
		negSafe := constant.UnaryOp(token.SUB, c10SafeInt, 0)
		negMax := constant.UnaryOp(token.SUB, c10MaxExact, 0)
		switch {
		case o.Status == "undecided":
		case nIf == 0 || hi == nil || lo == nil:
			o.Violation("the %s arm of %s has no refusal bounding the value on both sides: integers beyond 2^53 lose precision in a float64 point value", fam, m.encF.Name)
		case constant.Compare(hi, token.GTR, c10MaxExact) || constant.Compare(lo, token.LSS, negMax) && fam == "int":
			o.Violation("the %s arm accepts [%s, %s], beyond ±2^53: such integers are not exactly representable in the float64 point value", fam, lo, hi)
		case constant.Compare(hi, token.LSS, c10SafeInt) || fam == "int" && constant.Compare(lo, token.GTR, negSafe):
			o.Violation("the %s arm accepts only [%s, %s]; the documented range ±(2^53−1) must be encodable", fam, lo, hi)
		default:
			o.OK("accepts [%s, %s]", lo, hi)
		}
	}
}
