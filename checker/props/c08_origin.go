package props

import (
	"fmt"
	"go/ast"
	"go/token"
	"go/types"

	"siotcheck/kit"
)

// c08Trace follows an expression back to where its value (or, with values ==
// false, the storage behind it) comes from: through the assignments of local
// variables (all of them, in any order: the trace is flow-insensitive),
// through range clauses, append, slicing and conversions, down into the return
// statements of functions of the module (their parameters bound to the
// arguments of that call) and up from a parameter to the corresponding
// argument of every call site of the function in its package.  What the trace
// ends in is classified by the hooks of the rule that runs it; everything the
// tracer has no reading for ends in an "undecided" leaf.
type c08Trace struct {
	c *kit.Ctx
	// onCall classifies a call the rule has a reading for (a fetch, an
	// allocation); not handled = the callee's body is followed.
	onCall func(f *kit.Func, call *ast.CallExpr, idx int) (c08Leaf, bool)
	// onField classifies `<x>.<field>`; not handled = x is followed.
	onField func(f *kit.Func, sel *ast.SelectorExpr, fv *types.Var) (c08Leaf, bool)
	// onLocal classifies a local variable before its assignments are followed.
	onLocal func(f *kit.Func, id *ast.Ident, o types.Object) (c08Leaf, bool)
	// onLit classifies a composite literal; not handled = its elements are followed.
	onLit func(f *kit.Func, lit *ast.CompositeLit) (c08Leaf, bool)
	// nilLeaf is what `nil` (and the zero value of a slice, map or pointer
	// variable) ends in; nil = contributes nothing.
	nilLeaf *c08Leaf
	// values: elements appended to or stored into a slice count as origins
	// (provenance of the values); false = only the storage is followed.
	values bool

	leaves  []c08Leaf
	seenVar map[string]bool
	stack   map[*kit.Func]int
}

type c08Leaf struct {
	kind string // "good", "bad", "undecided"
	why  string
}

// c08Bind binds the parameters of callee to the arguments of one call.
type c08Bind struct {
	f      *kit.Func // function the arguments are evaluated in
	call   *ast.CallExpr
	callee *kit.Func
	up     *c08Bind // binding of f's own parameters (nil: every call site of f)
}

func (t *c08Trace) add(kind, format string, a ...any) {
	t.leaves = append(t.leaves, c08Leaf{kind, fmt.Sprintf(format, a...)})
}

// verdict folds the leaves: one bad leaf makes the traced value bad, otherwise
// one undecided leaf (or no leaf at all) leaves it undecided.
func (t *c08Trace) verdict() (string, string) {
	good, undec := "", ""
	for _, l := range t.leaves {
		switch l.kind {
		case "bad":
			return "bad", l.why
		case "undecided":
			if undec == "" {
				undec = l.why
			}
		default:
			if good == "" {
				good = l.why
			}
		}
	}
	switch {
	case undec != "":
		return "undecided", undec
	case good == "":
		return "undecided", "no origin found"
	}
	return "good", good
}

func (t *c08Trace) expr(f *kit.Func, e ast.Expr, b *c08Bind, depth int) {
	info := f.Info()
	e = ast.Unparen(e)
	if depth > 40 {
		t.add("undecided", "the origin of `%s` is too deep to trace", f.Str(e))
		return
	}
	switch x := e.(type) {
	case *ast.Ident:
		if kit.IsNilIdent(info, x) {
			if t.nilLeaf != nil {
				t.leaves = append(t.leaves, *t.nilLeaf)
			}
			return
		}
		o := kit.ObjOf(info, x)
		v, ok := o.(*types.Var)
		switch {
		case !ok || v.IsField():
			t.add("undecided", "cannot tell what `%s` in %s denotes", x.Name, f.Name)
		case !cmIsLocal(o):
			t.add("bad", "`%s` is a package variable: one value for the whole process", x.Name)
		default:
			t.variable(f, x, o, b, depth)
		}
	case *ast.IndexExpr:
		if tv, ok := info.Types[x.Index]; ok && tv.IsType() {
			t.add("undecided", "cannot trace the instantiation `%s`", f.Str(x))
			return
		}
		t.expr(f, x.X, b, depth+1)
	case *ast.SliceExpr:
		t.expr(f, x.X, b, depth+1)
	case *ast.StarExpr:
		t.expr(f, x.X, b, depth+1)
	case *ast.TypeAssertExpr:
		t.expr(f, x.X, b, depth+1)
	case *ast.UnaryExpr:
		switch x.Op {
		case token.AND:
			t.expr(f, x.X, b, depth+1)
		case token.ARROW:
			t.add("undecided", "`%s` is received from a channel in %s; the sender is not traced", f.Str(x), f.Name)
		default:
			t.add("undecided", "cannot trace `%s`", f.Str(x))
		}
	case *ast.SelectorExpr:
		if fv := cmField(info, x); fv != nil {
			if t.onField != nil {
				if l, ok := t.onField(f, x, fv); ok {
					t.leaves = append(t.leaves, l)
					return
				}
			}
			t.expr(f, x.X, b, depth+1)
			return
		}
		if v, ok := kit.ObjOf(info, x.Sel).(*types.Var); ok && !v.IsField() && !cmIsLocal(v) {
			t.add("bad", "`%s` is a package variable: one value for the whole process", f.Str(x))
			return
		}
		t.add("undecided", "cannot trace `%s`", f.Str(x))
	case *ast.CompositeLit:
		if t.onLit != nil {
			if l, ok := t.onLit(f, x); ok {
				t.leaves = append(t.leaves, l)
				return
			}
		}
		for _, el := range x.Elts {
			if kv, ok := el.(*ast.KeyValueExpr); ok {
				el = kv.Value
			}
			t.expr(f, el, b, depth+1)
		}
	case *ast.CallExpr:
		t.call(f, x, 0, b, depth)
	default:
		t.add("undecided", "cannot trace `%s`", f.Str(e))
	}
}

// paramOwner: the function (f or one enclosing it) that declares o as a parameter.
func c08ParamOwner(f *kit.Func, o types.Object) (*kit.Func, int) {
	for g := f; g != nil; g = g.Outer {
		if g.Type == nil {
			continue
		}
		for i, p := range g.Params() {
			if types.Object(p) == o {
				return g, i
			}
		}
	}
	return nil, 0
}

// c08CallSites lists the calls of g in its package; value = g is also used
// other than as the function of a call (stored, passed on).
func c08CallSites(c *kit.Ctx, g *kit.Func) (sites []c08Bind, value bool) {
	for _, f := range c.P.Funcs(g.PkgRel()) {
		if f.Body == nil {
			continue
		}
		for _, call := range f.AllCalls(false) {
			if f.CalleeFunc(call) == g {
				sites = append(sites, c08Bind{f: f, call: call, callee: g})
			}
		}
	}
	uses := 0
	for id, o := range g.Info().Uses {
		if fn, ok := o.(*types.Func); ok && g.Obj != nil && fn.Origin() == g.Obj && id != nil {
			uses++
		}
	}
	return sites, g.Obj == nil || uses != len(sites)
}

func (t *c08Trace) variable(f *kit.Func, id *ast.Ident, o types.Object, b *c08Bind, depth int) {
	if t.onLocal != nil {
		if l, ok := t.onLocal(f, id, o); ok {
			t.leaves = append(t.leaves, l)
			return
		}
	}
	key := fmt.Sprintf("%p|%p", o, b)
	if t.seenVar[key] {
		return
	}
	t.seenVar[key] = true
	info := f.Info()
	found := false
	if owner, i := c08ParamOwner(f, o); owner != nil {
		found = true
		switch {
		case b != nil && b.callee == owner:
			if sig, ok := info.TypeOf(b.call.Fun).(*types.Signature); i >= len(b.call.Args) || (ok && sig.Variadic() && i >= sig.Params().Len()-1) || b.call.Ellipsis.IsValid() {
				t.add("undecided", "cannot match parameter `%s` of %s with an argument of `%s`", o.Name(), owner.Name, b.f.Str(b.call))
			} else {
				t.expr(b.f, b.call.Args[i], b.up, depth+1)
			}
		case owner.Decl == nil:
			t.add("undecided", "`%s` is a parameter of the function literal %s", o.Name(), owner.Name)
		default:
			sites, value := c08CallSites(t.c, owner)
			if value {
				t.add("undecided", "`%s` is a parameter of %s, which is also used as a function value", o.Name(), owner.Name)
			}
			if owner.Obj != nil && owner.Obj.Exported() {
				t.add("undecided", "`%s` is a parameter of the exported %s; its callers outside the package are not traced", o.Name(), owner.Name)
			}
			if len(sites) == 0 {
				t.add("undecided", "`%s` is a parameter of %s, which is not called in its package", o.Name(), owner.Name)
			}
			for _, s := range sites {
				if sig, ok := s.f.Info().TypeOf(s.call.Fun).(*types.Signature); i >= len(s.call.Args) || (ok && sig.Variadic() && i >= sig.Params().Len()-1) || s.call.Ellipsis.IsValid() {
					t.add("undecided", "cannot match parameter `%s` of %s with an argument of `%s`", o.Name(), owner.Name, s.f.Str(s.call))
					continue
				}
				t.expr(s.f, s.call.Args[i], nil, depth+1)
			}
		}
	}
	root := f.Root()
	if root.Body == nil {
		if !found {
			t.add("undecided", "cannot find the assignments of `%s`", o.Name())
		}
		return
	}
	zero := func() {
		switch o.Type().Underlying().(type) {
		case *types.Slice, *types.Map, *types.Pointer:
			if t.nilLeaf != nil {
				t.leaves = append(t.leaves, *t.nilLeaf)
			}
		default:
			t.add("undecided", "`%s` starts as the zero value of its type", o.Name())
		}
	}
	// the function the statement sits in, for the bindings: a statement of a
	// literal nested in f's root is evaluated with the bindings of f
	ast.Inspect(root.Body, func(n ast.Node) bool {
		switch s := n.(type) {
		case *ast.AssignStmt:
			for i, l := range s.Lhs {
				l = ast.Unparen(l)
				if ix, ok := l.(*ast.IndexExpr); ok && t.values && len(s.Lhs) == len(s.Rhs) {
					// an element stored into the slice
					if _, isID := ast.Unparen(ix.X).(*ast.Ident); isID && kit.ObjOf(info, ix.X) == o {
						found = true
						t.expr(f, s.Rhs[i], b, depth+1)
					}
					continue
				}
				if _, isID := l.(*ast.Ident); !isID || kit.ObjOf(info, l) != o {
					continue
				}
				found = true
				switch {
				case s.Tok != token.ASSIGN && s.Tok != token.DEFINE:
					t.add("undecided", "`%s` is updated by `%s`", o.Name(), f.Str(s))
				case len(s.Lhs) == len(s.Rhs):
					t.expr(f, s.Rhs[i], b, depth+1)
				case len(s.Rhs) == 1:
					if call, ok := ast.Unparen(s.Rhs[0]).(*ast.CallExpr); ok {
						t.call(f, call, i, b, depth+1)
					} else if i == 0 {
						t.expr(f, s.Rhs[0], b, depth+1) // v, ok := m[k] / x.(T) / <-ch
					}
				}
			}
		case *ast.ValueSpec:
			for i, nm := range s.Names {
				if info.Defs[nm] != o {
					continue
				}
				found = true
				switch {
				case len(s.Values) == 0:
					zero()
				case len(s.Values) == len(s.Names):
					t.expr(f, s.Values[i], b, depth+1)
				case len(s.Values) == 1:
					if call, ok := ast.Unparen(s.Values[0]).(*ast.CallExpr); ok {
						t.call(f, call, i, b, depth+1)
					} else if i == 0 {
						t.expr(f, s.Values[0], b, depth+1)
					}
				}
			}
		case *ast.RangeStmt:
			if s.Value != nil && kit.ObjOf(info, s.Value) == o {
				found = true
				if _, isChan := info.TypeOf(s.X).Underlying().(*types.Chan); isChan {
					t.add("undecided", "`%s` is received from the channel `%s`; the sender is not traced", o.Name(), f.Str(s.X))
				} else {
					t.expr(f, s.X, b, depth+1)
				}
			}
			if s.Key != nil && kit.ObjOf(info, s.Key) == o {
				found = true
				if _, isChan := info.TypeOf(s.X).Underlying().(*types.Chan); isChan {
					t.add("undecided", "`%s` is received from the channel `%s`; the sender is not traced", o.Name(), f.Str(s.X))
				} else {
					t.add("undecided", "`%s` is the key of the range over `%s`", o.Name(), f.Str(s.X))
				}
			}
		case *ast.UnaryExpr:
			if s.Op == token.AND {
				if _, isID := ast.Unparen(s.X).(*ast.Ident); isID && kit.ObjOf(info, s.X) == o {
					t.add("undecided", "the address of `%s` is taken; writes through the pointer are not traced", o.Name())
				}
			}
		}
		return true
	})
	if !found {
		// a named result that is never assigned, a receiver
		if _, isRes := c08ResultIndex(root, o); isRes {
			zero()
			return
		}
		t.add("undecided", "cannot find the assignments of `%s` in %s", o.Name(), root.Name)
	}
}

// c08ResultIndex: o is the idx-th named result of f.
func c08ResultIndex(f *kit.Func, o types.Object) (int, bool) {
	if f.Type == nil || f.Type.Results == nil {
		return 0, false
	}
	i := 0
	for _, fl := range f.Type.Results.List {
		for _, nm := range fl.Names {
			if f.Info().Defs[nm] == o {
				return i, true
			}
			i++
		}
		if len(fl.Names) == 0 {
			i++
		}
	}
	return 0, false
}

// call traces result idx of a call.
func (t *c08Trace) call(f *kit.Func, call *ast.CallExpr, idx int, b *c08Bind, depth int) {
	info := f.Info()
	if tv, ok := info.Types[call.Fun]; ok && tv.IsType() && len(call.Args) == 1 {
		t.expr(f, call.Args[0], b, depth+1) // conversion
		return
	}
	if cmIsBuiltin(info, call, "append") && len(call.Args) > 0 {
		// append keeps the storage of its first argument when it is large enough
		t.expr(f, call.Args[0], b, depth+1)
		if t.values {
			for _, a := range call.Args[1:] {
				t.expr(f, a, b, depth+1)
			}
		}
		return
	}
	if t.onCall != nil {
		if l, ok := t.onCall(f, call, idx); ok {
			t.leaves = append(t.leaves, l)
			return
		}
	}
	cf := f.CalleeFunc(call)
	if cf == nil || cf.Body == nil {
		t.add("undecided", "cannot tell where the result of `%s` in %s comes from (no body to follow)", f.Str(call.Fun), f.Name)
		return
	}
	if t.stack[cf] > 0 {
		return // a recursive call adds nothing the outer activation does not already yield
	}
	t.stack[cf]++
	defer func() { t.stack[cf]-- }()
	nb := &c08Bind{f: f, call: call, callee: cf, up: b}
	nres := 0
	var named []*ast.Ident
	if cf.Type.Results != nil {
		for _, fl := range cf.Type.Results.List {
			if len(fl.Names) == 0 {
				nres++
				named = append(named, nil)
			}
			for _, nm := range fl.Names {
				nres++
				named = append(named, nm)
			}
		}
	}
	if idx >= nres {
		t.add("undecided", "`%s` has no result %d", f.Str(call.Fun), idx)
		return
	}
	cmOwn(cf.Body, func(n ast.Node) bool {
		ret, ok := n.(*ast.ReturnStmt)
		if !ok {
			return true
		}
		switch {
		case len(ret.Results) == nres:
			t.expr(cf, ret.Results[idx], nb, depth+1)
		case len(ret.Results) == 1:
			if c2, ok := ast.Unparen(ret.Results[0]).(*ast.CallExpr); ok {
				t.call(cf, c2, idx, nb, depth+1)
			} else {
				t.add("undecided", "cannot read `%s` in %s", cf.Str(ret), cf.Name)
			}
		case len(ret.Results) == 0 && named[idx] != nil:
			if o := cf.Info().Defs[named[idx]]; o != nil {
				t.variable(cf, named[idx], o, nb, depth+1)
			}
		default:
			t.add("undecided", "cannot read `%s` in %s", cf.Str(ret), cf.Name)
		}
		return true
	})
}

func newC08Trace(c *kit.Ctx) *c08Trace {
	return &c08Trace{c: c, seenVar: map[string]bool{}, stack: map[*kit.Func]int{}}
}

// c08RootIdent strips selectors, indexing, slicing and dereferences.
func c08RootIdent(e ast.Expr) *ast.Ident {
	for {
		switch x := ast.Unparen(e).(type) {
		case *ast.Ident:
			return x
		case *ast.SelectorExpr:
			e = x.X
		case *ast.IndexExpr:
			e = x.X
		case *ast.SliceExpr:
			e = x.X
		case *ast.StarExpr:
			e = x.X
		default:
			return nil
		}
	}
}
