package props

import (
	"fmt"
	"go/ast"
	"go/token"
	"go/types"
	"sort"
	"strings"

	"siotcheck/kit"
)

func init() {
	kit.Register(&kit.Prop{
		ID:    "C17",
		Title: "Serial packets round-trip and corruption is always detected",
		Explanation: "Structural necessary conditions of C17 (DESIGN.md §3/C17) decided on the serial packet encoder and decoder of package client, which are found by effect " +
			"(the function that checksums a byte buffer it then extends with the checksum; the function that compares a checksum of a sub-slice of its []byte parameter with a 16-bit word read from that parameter): " +
			"R1 the byte layout written by the encoder (sequence byte, zero-padded fixed subject, payload, checksum over everything before it) equals the windows read by the decoder, " +
			"with the same checksum function and byte order, and the encoder refuses a subject longer than the window of the field it is copied into (a header prepared in a fixed-size object is read store by store; bytes no store covers are padding); " +
			"R2 acceptance table over the atoms subject==\"log\" and stored==computed checksum, on every path: the payload is returned with a nil error iff one of them holds, every other exit returns an error; " +
			"the test that exempts a frame from the checksum is evaluated for probe frames (subjects that share a prefix, a suffix or the letters of \"log\", or differ in one byte): every probe that is accepted without a checksum comparison is delivered as \"log\"; " +
			"R3 every index/slice of the packet in the decoder is implied by the length guards on every path (interval analysis, proof or concrete counterexample); " +
			"R4 every field of data.Point is carried by exactly one field of the serial point message and read back from it with inverse transforms. " +
			"Not decided: the error-detection power of CRC-16/CCITT, float32 rounding of values, protobuf library behaviour.",
		Assumptions: []string{
			"crc16.ChecksumCCITT is a deterministic function of its argument; detection of 1-2 bit errors and bursts up to 16 bits is a property of the polynomial",
			"bytes.Buffer appends in call order; binary.Write of a uint16 appends two bytes in the given byte order",
			"protobuf Marshal/Unmarshal are inverse; values travel as float32 by schema",
			"conditions that do not mention the packet length are independent of it",
			"log packets are accepted without checksum by design",
		},
		Run: runC17,
	})
}

type c17Decoder struct {
	f        *kit.Func
	d        types.Object  // the []byte parameter
	stored   *ast.CallExpr // binary.<order>.Uint16(d[..])
	computed *ast.CallExpr // checksum(d[..])
	sumFn    types.Object
	// where stored/computed live: the decoder itself, or a boolean validator
	// helper V(d) that the decoder calls with its whole packet
	vf            *kit.Func
	vd            types.Object
	vEq           bool // the validator returns stored == computed (false: !=)
	storedSlice   *ast.SliceExpr
	computedSlice *ast.SliceExpr
}

func (d *c17Decoder) viaHelper() bool { return d.vf != d.f }

// c17ResolvedSliceOf: e is a slice expression of x, or a single-definition
// local holding one.
func c17ResolvedSliceOf(f *kit.Func, e ast.Expr, x types.Object) *ast.SliceExpr {
	info := f.Info()
	if se := c17SliceOf(info, e, x); se != nil {
		return se
	}
	if id, ok := ast.Unparen(e).(*ast.Ident); ok {
		if o := kit.ObjOf(info, id); o != nil && o != x {
			if def := c12SingleDef(f, o); def != nil {
				return c17SliceOf(info, def, x)
			}
		}
	}
	return nil
}

type c17Encoder struct {
	f     *kit.Func
	slice bool // the packet is built in a []byte (make/copy/append), not a bytes.Buffer
	buf   types.Object
	sum   *ast.CallExpr
	sumFn types.Object
}

func c17IsByteSlice(t types.Type) bool {
	sl, ok := t.Underlying().(*types.Slice)
	if !ok {
		return false
	}
	b, ok := sl.Elem().Underlying().(*types.Basic)
	return ok && b.Kind() == types.Uint8
}

func c17IsUint16(t types.Type) bool {
	b, ok := t.Underlying().(*types.Basic)
	return ok && b.Kind() == types.Uint16
}

func c17SliceOf(info *types.Info, e ast.Expr, x types.Object) *ast.SliceExpr {
	se, ok := ast.Unparen(e).(*ast.SliceExpr)
	if !ok || kit.ObjOf(info, se.X) != x {
		return nil
	}
	return se
}

func c17InBinaryPkg(o types.Object) bool {
	return o != nil && o.Pkg() != nil && o.Pkg().Path() == "encoding/binary"
}

// c17FindDecoders: functions with a []byte parameter d that compute a 16-bit
// checksum of a sub-slice of d and read a 16-bit word from a sub-slice of d.
func c17FindDecoders(c *kit.Ctx, rel string) []*c17Decoder {
	var cands []*c17Decoder
	for _, f := range c.P.Funcs(rel) {
		if f.Body == nil || f.Decl == nil {
			continue
		}
		info := f.Info()
		for _, p := range f.Params() {
			if !c17IsByteSlice(p.Type()) {
				continue
			}
			dec := &c17Decoder{f: f, d: p, vf: f, vd: p}
			for _, call := range f.AllCalls(false) {
				if len(call.Args) != 1 || !c17IsUint16(info.TypeOf(call)) {
					continue
				}
				se := c17ResolvedSliceOf(f, call.Args[0], p)
				if se == nil {
					continue
				}
				callee := kit.Callee(info, call)
				if fn, ok := callee.(*types.Func); ok && c17InBinaryPkg(fn) && fn.Name() == "Uint16" {
					dec.stored, dec.storedSlice = call, se
				} else if fn, ok := callee.(*types.Func); ok && !c17InBinaryPkg(fn) {
					dec.computed, dec.sumFn, dec.computedSlice = call, fn, se
				}
			}
			if dec.stored != nil && dec.computed != nil {
				cands = append(cands, dec)
			}
		}
	}
	// a candidate that only answers "stored == computed" is a validator: the
	// decoders are its callers that pass their whole packet
	var out []*c17Decoder
	for _, v := range cands {
		eq, isValidator := c17ValidatorShape(v)
		if !isValidator {
			out = append(out, v)
			continue
		}
		for _, f := range c.P.Funcs(rel) {
			if f.Body == nil || f.Decl == nil || f == v.f {
				continue
			}
			for _, call := range f.AllCalls(false) {
				if f.CalleeFunc(call) != v.f || len(call.Args) != 1 {
					continue
				}
				for _, p := range f.Params() {
					if id, ok := ast.Unparen(call.Args[0]).(*ast.Ident); ok && kit.ObjOf(f.Info(), id) == p && c17IsByteSlice(p.Type()) {
						dup := false
						for _, o := range out {
							if o.f == f {
								dup = true
							}
						}
						if !dup {
							d := *v
							d.f, d.d, d.vEq = f, p, eq
							out = append(out, &d)
						}
					}
				}
			}
		}
	}
	return out
}

// c17ValidatorShape: the function has a single bool result and exactly one
// return, `stored == computed` or `stored != computed` (directly or through
// single-definition locals).
func c17ValidatorShape(v *c17Decoder) (eq, ok bool) {
	f := v.f
	info := f.Info()
	sig := f.Signature()
	if sig == nil || sig.Results().Len() != 1 || len(f.Params()) != 1 {
		return false, false
	}
	if b, isB := sig.Results().At(0).Type().Underlying().(*types.Basic); !isB || b.Kind() != types.Bool {
		return false, false
	}
	var rets []*ast.ReturnStmt
	ast.Inspect(f.Body, func(x ast.Node) bool {
		switch y := x.(type) {
		case *ast.FuncLit:
			return false
		case *ast.ReturnStmt:
			rets = append(rets, y)
		}
		return true
	})
	if len(rets) != 1 || len(rets[0].Results) != 1 {
		return false, false
	}
	resolve := func(e ast.Expr) ast.Expr {
		e = ast.Unparen(e)
		if id, isId := e.(*ast.Ident); isId {
			if o := kit.ObjOf(info, id); o != nil {
				if def := c12SingleDef(f, o); def != nil {
					return ast.Unparen(def)
				}
			}
		}
		return e
	}
	a, b, op, isCmp := kit.CmpAtom(rets[0].Results[0])
	if !isCmp || (op != token.EQL && op != token.NEQ) {
		return false, false
	}
	ra, rb := resolve(a), resolve(b)
	if (ra == ast.Expr(v.stored) && rb == ast.Expr(v.computed)) || (rb == ast.Expr(v.stored) && ra == ast.Expr(v.computed)) {
		return op == token.EQL, true
	}
	return false, false
}

// c17FindEncoders: functions that apply sumFn to the bytes of a local
// bytes.Buffer.
func c17FindEncoders(c *kit.Ctx, rel string, sumFn types.Object) []*c17Encoder {
	var out []*c17Encoder
	for _, f := range c.P.Funcs(rel) {
		if f.Body == nil || f.Decl == nil {
			continue
		}
		info := f.Info()
		for _, call := range f.AllCalls(false) {
			if kit.Callee(info, call) != sumFn || len(call.Args) != 1 {
				continue
			}
			// a local []byte created by make and grown by append
			if id, isId := ast.Unparen(call.Args[0]).(*ast.Ident); isId {
				if o := kit.ObjOf(info, id); o != nil && c17IsByteSlice(o.Type()) && c17MadeLocally(f, o) {
					out = append(out, &c17Encoder{f: f, slice: true, buf: o, sum: call, sumFn: sumFn})
				}
				continue
			}
			inner, ok := ast.Unparen(call.Args[0]).(*ast.CallExpr)
			if !ok || !kit.CallIs(info, inner, "bytes.(*Buffer).Bytes") {
				continue
			}
			sel := ast.Unparen(inner.Fun).(*ast.SelectorExpr)
			buf := kit.ObjOf(info, sel.X)
			if buf == nil {
				continue
			}
			out = append(out, &c17Encoder{f: f, buf: buf, sum: call, sumFn: sumFn})
		}
	}
	return out
}

func runC17(c *kit.Ctx) {
	r1 := c.Rule("R1", "encoder and decoder agree on the packet layout", 10)
	r2 := c.Rule("R2", "checksum acceptance table", 5)
	r3 := c.Rule("R3", "decoder indices are implied by length guards", 5)
	r4 := c.Rule("R4", "serial point codec field completeness", 5)

	decs := c17FindDecoders(c, "client")
	if len(decs) != 1 {
		c.Fatalf("serial packet decoder not found by effect in package client (%d candidates)", len(decs))
	}
	dec := decs[0]
	encs := c17FindEncoders(c, "client", dec.sumFn)
	if len(encs) != 1 {
		c.Fatalf("serial packet encoder (checksum %s over a bytes.Buffer) not found in package client (%d candidates)", kit.QualName(dec.sumFn), len(encs))
	}
	enc := encs[0]
	c.Analysed(dec.f, enc.f)

	var em *c17EncModel
	if enc.slice {
		em = c17AnalyseSliceEncoder(c, enc)
	} else {
		em = c17AnalyseEncoder(c, enc)
	}
	dm := c17AnalyseDecoder(c, dec, em)

	c17Layout(c, r1, enc, em, dec, dm)
	c17Storage(c, r1, enc, em)
	c17Coverage(c, r1, dec, dm)
	c17Acceptance(c, r2, dec, dm, em)

	// R3
	r3sites := func(f *kit.Func, role string, sites []*kit.LenSite) {
		keys := c12SiteKeys(f, role, sites)
		for _, st := range sites {
			o := r3.Ob(f, st.Expr, keys[st], "the index is within the packet length on every path that reaches it")
			switch st.Verdict {
			case "ok":
				o.OK("%s: %s", f.Str(st.Expr), st.By)
			case "violation":
				o.Violation("%s", st.Msg)
			default:
				o.Undecided("%s", st.Msg)
			}
		}
	}
	r3sites(dec.f, "packet bytes", dm.lf.Sites)
	for _, h := range dm.helpers {
		if h.lf != nil {
			c.Analysed(h.f)
			r3sites(h.f, "packet bytes (helper, lengths that reach its call)", h.lf.Sites)
		}
	}

	// R4: codec pairs of the message types carried in the packet payload
	pairs, codecs := c12DiscoverCodecs(c)
	elems := map[*types.TypeName]bool{}
	if em.marshalArg != nil {
		if n := kit.NamedStructOf(em.marshalArg); n != nil {
			for _, fld := range kit.StructFields(n) {
				if !fld.Exported() {
					continue
				}
				t := fld.Type()
				if sl, ok := t.Underlying().(*types.Slice); ok {
					t = sl.Elem()
				}
				if en := kit.NamedStructOf(t); en != nil {
					elems[en.Obj()] = true
				}
			}
		}
	}
	n := 0
	for _, p := range pairs {
		if elems[p.M.Obj()] {
			n++
			c12ReportPair(c, r4, p, codecs)
		}
	}
	if n == 0 {
		c.Fatalf("R4: no codec pair found for the element message type of the packet payload (%v)", em.marshalArg)
	}
}

// ===========================================================================
// decoder model

type c17DecModel struct {
	lf *kit.LenFlow
	// module helpers that receive the whole packet, analysed with the packet
	// lengths that reach their calls
	helpers    []*c17HelperFlow
	subjHelper *kit.Func // the subject is extracted by this helper (nil: inline)
	subjVar    types.Object
	subjSlice  *ast.SliceExpr
	payVar     types.Object
	paySlice   *ast.SliceExpr
	problems   []string
	// subject tests evaluated for the probe frames (nil: the encoder's subject
	// field is not known)
	exempt *c17Exempt
}

// c17DerivedSlice finds the single slice-of-d expression inside e.
func c17DerivedSlice(info *types.Info, e ast.Expr, d types.Object) *ast.SliceExpr {
	var found *ast.SliceExpr
	n := 0
	ast.Inspect(e, func(x ast.Node) bool {
		if se, ok := x.(*ast.SliceExpr); ok && kit.ObjOf(info, se.X) == d {
			found = se
			n++
		}
		return true
	})
	if n != 1 {
		return nil
	}
	return found
}

// c17DerivedSliceDeep is c17DerivedSlice that also looks through locals
// whose single definition is a slice of d (`hdr := d[1:17]; … hdr …`).
func c17DerivedSliceDeep(f *kit.Func, e ast.Expr, d types.Object) *ast.SliceExpr {
	info := f.Info()
	if se := c17DerivedSlice(info, e, d); se != nil {
		return se
	}
	var found *ast.SliceExpr
	n := 0
	ast.Inspect(e, func(x ast.Node) bool {
		switch y := x.(type) {
		case *ast.SliceExpr:
			if kit.ObjOf(info, y.X) == d {
				n++
			}
		case *ast.Ident:
			if o := kit.ObjOf(info, y); o != nil && o != d {
				if def := c12SingleDef(f, o); def != nil {
					if se := c17SliceOf(info, def, d); se != nil {
						found = se
						n++
					}
				}
			}
		}
		return true
	})
	if n != 1 {
		return nil
	}
	return found
}

// c17IsSliceOrAlias: e is the slice expression se itself or a local whose
// single definition it is.
func c17IsSliceOrAlias(f *kit.Func, e ast.Expr, se *ast.SliceExpr) bool {
	e = ast.Unparen(e)
	if e == ast.Expr(se) {
		return true
	}
	if id, ok := e.(*ast.Ident); ok {
		if o := kit.ObjOf(f.Info(), id); o != nil {
			if def := c12SingleDef(f, o); def != nil && ast.Unparen(def) == ast.Expr(se) {
				return true
			}
		}
	}
	return false
}

func c17AnalyseDecoder(c *kit.Ctx, dec *c17Decoder, em *c17EncModel) *c17DecModel {
	f := dec.f
	info := f.Info()
	dm := &c17DecModel{exempt: c17NewExempt(dec, em)}
	// variables holding the stored and the computed checksum
	holder := func(call *ast.CallExpr) types.Object {
		if as, ok := c.P.Parent(f.File, call).(*ast.AssignStmt); ok && len(as.Lhs) == 1 && len(as.Rhs) == 1 {
			if o := kit.ObjOf(info, as.Lhs[0]); o != nil && c12SingleDef(f, o) != nil {
				return o
			}
		}
		return nil
	}
	storedVar, computedVar := holder(dec.stored), holder(dec.computed)
	isStored := func(e ast.Expr) bool {
		e = ast.Unparen(e)
		return e == ast.Expr(dec.stored) || (storedVar != nil && kit.ObjOf(info, e) == storedVar)
	}
	isComputed := func(e ast.Expr) bool {
		e = ast.Unparen(e)
		return e == ast.Expr(dec.computed) || (computedVar != nil && kit.ObjOf(info, e) == computedVar)
	}
	// string variables derived from the content of d
	var fromD func(e ast.Expr) bool
	fromD = func(e ast.Expr) bool {
		e = ast.Unparen(e)
		if o := kit.ObjOf(info, e); o != nil {
			if def := c12SingleDef(f, o); def != nil {
				return c17DerivedSlice(info, def, dec.d) != nil
			}
			return false
		}
		return c17DerivedSlice(info, e, dec.d) != nil
	}
	setAtom := func(s kit.S, id string, trueWhen bool) (t, fl []kit.S) {
		k := "a:" + id
		if s.Has(k) {
			if (s.Get(k) == "T") == trueWhen {
				return []kit.S{s}, nil
			}
			return nil, []kit.S{s}
		}
		yes, no := "T", "F"
		if !trueWhen {
			yes, no = "F", "T"
		}
		return []kit.S{s.Set(k, yes)}, []kit.S{s.Set(k, no)}
	}
	// helpers called with the whole packet: the lengths that reach each call
	noteCalls := func(n ast.Node, s kit.S, lf *kit.LenFlow) {
		ast.Inspect(n, func(x ast.Node) bool {
			call, ok := x.(*ast.CallExpr)
			if !ok {
				return true
			}
			if _, isLit := x.(*ast.FuncLit); isLit {
				return false
			}
			h := f.CalleeFunc(call)
			if h == nil || h.Body == nil || h.Decl == nil || h == f {
				return true
			}
			for i, a := range call.Args {
				id, isId := ast.Unparen(a).(*ast.Ident)
				if !isId || kit.ObjOf(info, id) != dec.d {
					continue
				}
				hp := h.Params()
				if i >= len(hp) || !c17IsByteSlice(hp[i].Type()) {
					continue
				}
				set, _, _, _, ok := lf.ResultLen(id, s)
				if !ok {
					continue
				}
				var hf *c17HelperFlow
				for _, x := range dm.helpers {
					if x.f == h && x.prm == hp[i] {
						hf = x
					}
				}
				if hf == nil {
					hf = &c17HelperFlow{f: h, prm: hp[i]}
					dm.helpers = append(dm.helpers, hf)
				}
				hf.dom = kit.LenDomUnion(hf.dom, set)
			}
			return true
		})
	}
	// subject extracted by a helper: subject := h(d) with h returning string(…d[a:b]…)
	subjectHelper := func(e ast.Expr) *kit.Func {
		call, ok := ast.Unparen(e).(*ast.CallExpr)
		if !ok || len(call.Args) != 1 {
			return nil
		}
		if id, isId := ast.Unparen(call.Args[0]).(*ast.Ident); !isId || kit.ObjOf(info, id) != dec.d {
			return nil
		}
		h := f.CalleeFunc(call)
		if h == nil || h.Body == nil || h.Decl == nil || len(h.Params()) != 1 {
			return nil
		}
		if ret := c17SingleReturn(h); ret != nil && len(ret.Results) == 1 && c17DerivedSlice(h.Info(), ret.Results[0], h.Params()[0]) != nil {
			return h
		}
		return nil
	}
	fromD = func(e ast.Expr) bool {
		e = ast.Unparen(e)
		if o := kit.ObjOf(info, e); o != nil {
			if def := c12SingleDef(f, o); def != nil {
				if c17DerivedSlice(info, def, dec.d) != nil {
					return true
				}
				if h := subjectHelper(def); h != nil {
					dm.subjHelper = h
					return true
				}
			}
			return false
		}
		return c17DerivedSlice(info, e, dec.d) != nil || subjectHelper(e) != nil
	}
	// predicate on the subject: p(subject) with p returning `s == "log"` / `s != "log"`
	logPredicate := func(e ast.Expr) (eq, ok bool) {
		call, isCall := ast.Unparen(e).(*ast.CallExpr)
		if !isCall || len(call.Args) != 1 || !fromD(call.Args[0]) {
			return false, false
		}
		h := f.CalleeFunc(call)
		if h == nil || h.Body == nil || h.Decl == nil || len(h.Params()) != 1 {
			return false, false
		}
		ret := c17SingleReturn(h)
		if ret == nil || len(ret.Results) != 1 {
			return false, false
		}
		a, b, op, isCmp := kit.CmpAtom(ret.Results[0])
		if !isCmp || (op != token.EQL && op != token.NEQ) {
			return false, false
		}
		hi := h.Info()
		for _, pair := range [][2]ast.Expr{{a, b}, {b, a}} {
			if v, isC := kit.ConstString(hi, pair[1]); isC && v == "log" && kit.ObjOf(hi, pair[0]) == h.Params()[0] {
				return op == token.EQL, true
			}
		}
		return false, false
	}
	// a leaf the table does not interpret but that looks at the packet content:
	// verdicts on paths through it must not become violations
	relevant := func(e ast.Expr) bool {
		hit := false
		ast.Inspect(e, func(x ast.Node) bool {
			switch y := x.(type) {
			case *ast.CallExpr:
				if y == dec.stored || y == dec.computed {
					hit = true
				}
				if h := f.CalleeFunc(y); h != nil {
					for _, a := range y.Args {
						if id, isId := ast.Unparen(a).(*ast.Ident); isId && (kit.ObjOf(info, id) == dec.d || fromD(id)) {
							hit = true
						}
					}
				}
			case *ast.Ident:
				o := kit.ObjOf(info, y)
				if o != nil && (o == storedVar || o == computedVar) {
					hit = true
				}
				if o != nil && o != dec.d && fromD(y) {
					if b, isB := o.Type().Underlying().(*types.Basic); isB && b.Kind() == types.String {
						hit = true
					}
				}
			}
			return !hit
		})
		return hit
	}
	lf := &kit.LenFlow{F: f, X: dec.d}
	lf.Visit = func(n ast.Node, s kit.S) { noteCalls(n, s, lf) }
	// atom interprets the leaves the table knows by shape
	atom := func(e ast.Expr, s kit.S) (t, fl []kit.S, handled bool) {
		if dec.viaHelper() {
			if call, ok := ast.Unparen(e).(*ast.CallExpr); ok && f.CalleeFunc(call) == dec.vf && len(call.Args) == 1 {
				if id, ok := ast.Unparen(call.Args[0]).(*ast.Ident); ok && kit.ObjOf(info, id) == dec.d {
					t, fl = setAtom(s, "crc", dec.vEq)
					return t, fl, true
				}
			}
		}
		if eq, ok := logPredicate(e); ok {
			t, fl = setAtom(s, "log", eq)
			return t, fl, true
		}
		a, b, op, ok := kit.CmpAtom(e)
		if ok && (op == token.EQL || op == token.NEQ) {
			if (isStored(a) && isComputed(b)) || (isStored(b) && isComputed(a)) {
				t, fl = setAtom(s, "crc", op == token.EQL)
				return t, fl, true
			}
			for _, pair := range [][2]ast.Expr{{a, b}, {b, a}} {
				if v, ok := kit.ConstString(info, pair[1]); ok && v == "log" && fromD(pair[0]) {
					t, fl = setAtom(s, "log", op == token.EQL)
					return t, fl, true
				}
			}
		}
		if c17BytesEqualLog(f, e, dec.d) {
			t, fl = setAtom(s, "log", true)
			return t, fl, true
		}
		return nil, nil, false
	}
	lf.Leaf = func(e ast.Expr, s kit.S) (t, fl []kit.S, handled bool) {
		noteCalls(e, s, lf)
		t, fl, handled = atom(e, s)
		// a test of the subject field: its value for the probe frames travels
		// with the path (c17_exempt.go), whether or not the table knows its shape
		if wl := dm.exempt.leaf(e); wl != nil {
			k := fmt.Sprintf("w:%d", wl.id)
			if !handled {
				s = s.Set("q", "1")
				t, fl, handled = []kit.S{s}, []kit.S{s}, true
			}
			mark := func(in []kit.S, v string) (out []kit.S) {
				for _, x := range in {
					if !x.Has(k) {
						out = append(out, x.Set(k, v))
					} else if x.Get(k) == v {
						out = append(out, x)
					}
				}
				return out
			}
			return mark(t, "T"), mark(fl, "F"), true
		}
		if handled {
			return t, fl, true
		}
		if relevant(e) {
			q := s.Set("q", "1")
			return []kit.S{q}, []kit.S{q}, true
		}
		return nil, nil, false
	}
	lf.Run()
	dm.lf = lf
	for _, h := range dm.helpers {
		hl := &kit.LenFlow{F: h.f, X: h.prm, DefDom: h.dom}
		hl.Run()
		h.lf = hl
	}
	return dm
}

// c17SingleReturn: the only return statement of f, or nil.
func c17SingleReturn(f *kit.Func) *ast.ReturnStmt {
	var rets []*ast.ReturnStmt
	ast.Inspect(f.Body, func(x ast.Node) bool {
		switch y := x.(type) {
		case *ast.FuncLit:
			return false
		case *ast.ReturnStmt:
			rets = append(rets, y)
		}
		return true
	})
	if len(rets) != 1 {
		return nil
	}
	return rets[0]
}

type c17HelperFlow struct {
	f   *kit.Func
	prm types.Object
	dom string
	lf  *kit.LenFlow
}

func (dm *c17DecModel) flowOf(f *kit.Func) *kit.LenFlow {
	for _, h := range dm.helpers {
		if h.f == f {
			return h.lf
		}
	}
	return nil
}

// sites of all flows
func (dm *c17DecModel) allSites() []*kit.LenSite {
	out := append([]*kit.LenSite(nil), dm.lf.Sites...)
	for _, h := range dm.helpers {
		if h.lf != nil {
			out = append(out, h.lf.Sites...)
		}
	}
	return out
}

// ===========================================================================
// encoder model

type c17Seg struct {
	role  string // seq | subject | payload | crc
	size  int64  // -1 = variable
	order string
	call  *ast.CallExpr
}

type c17EncModel struct {
	segs       []c17Seg
	sumAfter   int // number of segments written before the checksum call
	subjField  int64
	subjParam  types.Object
	marshalArg types.Type
	guardOK    bool
	guardMsg   string
	problems   []string
	// where the buffer comes from: "local" | "pool" | "pkgvar" | "param" | "unknown"
	origin     string
	originPool types.Object
	guardFn    *kit.Func // function that copies the subject into its field (the encoder itself when nil)
	putBack    bool      // handed back to a pool inside the encoder
	resetFirst bool      // emptied before the first write
	resetAny   bool
}

func c17AnalyseEncoder(c *kit.Ctx, enc *c17Encoder) *c17EncModel {
	f := enc.f
	info := f.Info()
	em := &c17EncModel{sumAfter: -1, subjField: -1}
	onBuf := func(e ast.Expr) bool {
		e = ast.Unparen(e)
		if u, ok := e.(*ast.UnaryExpr); ok && u.Op == token.AND {
			e = ast.Unparen(u.X)
		}
		return kit.ObjOf(info, e) == enc.buf
	}
	topLevel := func(n ast.Node) bool {
		within := func(outer ast.Node) bool {
			return outer != nil && outer.Pos() <= n.Pos() && n.End() <= outer.End()
		}
		for x := c.P.Parent(f.File, n); x != nil; x = c.P.Parent(f.File, x) {
			switch y := x.(type) {
			case *ast.IfStmt:
				// the init statement and the condition of an if run unconditionally
				if (y.Init != nil && within(y.Init)) || within(y.Cond) {
					continue
				}
				return false
			case *ast.SwitchStmt:
				if (y.Init != nil && within(y.Init)) || (y.Tag != nil && within(y.Tag)) {
					continue
				}
				return false
			case *ast.ForStmt, *ast.RangeStmt, *ast.TypeSwitchStmt, *ast.SelectStmt, *ast.FuncLit, *ast.DeferStmt, *ast.GoStmt:
				return false
			case *ast.FuncDecl:
				return true
			}
		}
		return true
	}
	// the subject parameter: a string parameter copied into a fixed buffer
	var strParams []types.Object
	for _, p := range f.Params() {
		if b, ok := p.Type().Underlying().(*types.Basic); ok && b.Kind() == types.String {
			strParams = append(strParams, p)
		}
	}
	mentions := func(e ast.Expr, o types.Object) bool {
		hit := false
		ast.Inspect(e, func(x ast.Node) bool {
			if id, ok := x.(*ast.Ident); ok && kit.ObjOf(info, id) == o {
				hit = true
			}
			return !hit
		})
		return hit
	}
	var byteParams []types.Object
	for _, p := range f.Params() {
		if b, ok := p.Type().Underlying().(*types.Basic); ok && b.Kind() == types.Uint8 {
			byteParams = append(byteParams, p)
		}
	}
	tl := &c17Tiler{f: f, em: em, buf: enc.buf, byteParams: byteParams, strParams: strParams}
	calls := f.AllCalls(false)
	sort.Slice(calls, func(i, j int) bool { return calls[i].End() < calls[j].End() })
	for _, call := range calls {
		q := kit.QualName(kit.Callee(info, call))
		var seg *c17Seg
		switch {
		case q == "bytes.(*Buffer).WriteByte" && onBuf(ast.Unparen(call.Fun).(*ast.SelectorExpr).X):
			seg = &c17Seg{size: 1, call: call}
			if o := kit.ObjOf(info, call.Args[0]); o != nil {
				for _, p := range f.Params() {
					if p == o {
						seg.role = "seq"
					}
				}
			}
		case (q == "bytes.(*Buffer).Write" || q == "bytes.(*Buffer).WriteString") && onBuf(ast.Unparen(call.Fun).(*ast.SelectorExpr).X):
			seg = &c17Seg{size: -1, call: call}
			if o := kit.ObjOf(info, call.Args[0]); o != nil {
				if def := c12SingleDef(f, o); def != nil {
					if dc, ok := ast.Unparen(def).(*ast.CallExpr); ok {
						if b, ok := kit.Callee(info, dc).(*types.Builtin); ok && b.Name() == "make" && len(dc.Args) == 2 {
							if n, ok := kit.ConstInt(info, dc.Args[1]); ok {
								seg.size = n
								// copy(o, subject) before this write
								for _, cp := range calls {
									if b, ok := kit.Callee(info, cp).(*types.Builtin); ok && b.Name() == "copy" && len(cp.Args) == 2 &&
										kit.ObjOf(info, cp.Args[0]) == o && cp.End() < call.Pos() {
										for _, sp := range strParams {
											if mentions(cp.Args[1], sp) {
												seg.role = "subject"
												em.subjField, em.subjParam = n, sp
												if !topLevel(cp) {
													em.problems = append(em.problems, "the subject copy is conditional")
												}
											}
										}
									}
								}
							}
						}
						if kit.CallIs(info, dc, "google.golang.org/protobuf/proto.Marshal", "github.com/golang/protobuf/proto.Marshal") {
							seg.role = "payload"
						}
					}
				}
				// multi-value definition: pbBytes, err := proto.Marshal(m) / a module helper
				if seg.role == "" {
					ast.Inspect(f.Body, func(x ast.Node) bool {
						as, ok := x.(*ast.AssignStmt)
						if !ok || len(as.Rhs) != 1 || len(as.Lhs) < 1 || kit.ObjOf(info, as.Lhs[0]) != o {
							return true
						}
						mc, ok := ast.Unparen(as.Rhs[0]).(*ast.CallExpr)
						if !ok {
							return true
						}
						if mt := c17MarshalArg(f, mc, 0); mt != nil {
							seg.role = "payload"
							em.marshalArg = mt
							return true
						}
						// sub, err := subjectField(subject): a helper that builds the fixed field
						if n, g, gp, ok := c17SubjectFieldHelper(f, mc, strParams); ok {
							seg.role, seg.size = "subject", n
							em.subjField, em.subjParam, em.guardFn = n, gp, g
							if !topLevel(mc) {
								em.problems = append(em.problems, "the subject field is built conditionally")
							}
						}
						return true
					})
				}
			}
			// a header prepared in a fixed-size object and written as a whole:
			// `var hdr [17]byte; hdr[0] = seq; copy(hdr[1:], subject); buf.Write(hdr[:])`
			if seg.role == "" {
				if o, n, ok := tl.fixedObject(call.Args[0]); ok {
					if ts := tl.tiles(o, n, "the prepared field "+o.Name(), call.Pos()); len(ts) > 0 {
						if !topLevel(call) {
							em.problems = append(em.problems, fmt.Sprintf("write %s is conditional or repeated", f.Str(call)))
						}
						em.segs = append(em.segs, ts...)
						continue
					}
				}
			}
		case q == "encoding/binary.Write" && len(call.Args) == 3 && onBuf(call.Args[0]):
			seg = &c17Seg{size: -1, call: call}
			if t := info.TypeOf(call.Args[2]); t != nil {
				if b, ok := t.Underlying().(*types.Basic); ok {
					switch b.Kind() {
					case types.Uint16, types.Int16:
						seg.size = 2
					case types.Uint32, types.Int32:
						seg.size = 4
					case types.Uint8, types.Int8:
						seg.size = 1
					case types.Uint64, types.Int64:
						seg.size = 8
					}
				}
			}
			if t := info.TypeOf(call.Args[1]); t != nil {
				seg.order = t.String()
			}
			// the value written is the checksum result
			if o := kit.ObjOf(info, call.Args[2]); o != nil {
				if def := c12SingleDef(f, o); def != nil && ast.Unparen(def) == ast.Expr(enc.sum) {
					seg.role = "crc"
				}
			} else if ast.Unparen(call.Args[2]) == ast.Expr(enc.sum) {
				seg.role = "crc"
			}
		case call == enc.sum:
			em.sumAfter = len(em.segs)
			if !topLevel(call) {
				em.problems = append(em.problems, "the checksum call is conditional")
			}
			continue
		default:
			if q == c12PoolPut && len(call.Args) == 1 && onBuf(call.Args[0]) {
				em.putBack = true
				continue
			}
			// any other use of the buffer that may change it
			if sel, ok := ast.Unparen(call.Fun).(*ast.SelectorExpr); ok && onBuf(sel.X) && q != "bytes.(*Buffer).Bytes" && q != "bytes.(*Buffer).Len" {
				switch {
				case q == "bytes.(*Buffer).Grow" || q == "bytes.(*Buffer).Cap":
				case q == "bytes.(*Buffer).Reset":
					em.resetAny = true
					if len(em.segs) == 0 && em.sumAfter < 0 && topLevel(call) {
						em.resetFirst = true
					} else {
						em.problems = append(em.problems, "the buffer is Reset after a write or conditionally")
					}
				default:
					em.problems = append(em.problems, "unexpected buffer operation "+q)
				}
			} else if q != "encoding/binary.Write" {
				// the buffer itself handed to another function
				for _, a := range call.Args {
					if onBuf(a) {
						em.problems = append(em.problems, "the buffer is passed to "+q)
					}
				}
			}
			continue
		}
		if !topLevel(call) {
			em.problems = append(em.problems, fmt.Sprintf("write %s is conditional or repeated", f.Str(call)))
		}
		em.segs = append(em.segs, *seg)
	}
	// origin of the buffer
	em.origin = "unknown"
	if v, ok := enc.buf.(*types.Var); ok {
		isParam := false
		for _, p := range f.Params() {
			if p == enc.buf {
				isParam = true
			}
		}
		switch {
		case isParam:
			em.origin = "param"
		case v.Pkg() != nil && v.Parent() == v.Pkg().Scope():
			em.origin = "pkgvar"
		default:
			ndef, fresh := 0, true
			var pool types.Object
			ast.Inspect(f.Body, func(x ast.Node) bool {
				switch y := x.(type) {
				case *ast.ValueSpec:
					for i, nm := range y.Names {
						if info.Defs[nm] == enc.buf {
							ndef++
							if i < len(y.Values) && !c17FreshBuffer(info, y.Values[i]) {
								fresh = false
								pool = c12PoolOfGet(info, y.Values[i])
							}
						}
					}
				case *ast.AssignStmt:
					for i, l := range y.Lhs {
						if id, isIdent := ast.Unparen(l).(*ast.Ident); isIdent && kit.ObjOf(info, id) == enc.buf {
							ndef++
							if len(y.Lhs) != len(y.Rhs) || !c17FreshBuffer(info, y.Rhs[i]) {
								fresh = false
								if len(y.Lhs) == len(y.Rhs) {
									pool = c12PoolOfGet(info, y.Rhs[i])
								}
							}
						}
					}
				}
				return true
			})
			switch {
			case ndef == 1 && fresh:
				em.origin = "local"
			case ndef == 1 && pool != nil:
				em.origin, em.originPool = "pool", pool
			case ndef == 1:
				// a pointer to (or copy of the pointer in) a package-level variable
				if def := c12SingleDef(f, enc.buf); def != nil {
					e := ast.Unparen(def)
					if u, ok := e.(*ast.UnaryExpr); ok && u.Op == token.AND {
						e = ast.Unparen(u.X)
					}
					if id, ok := e.(*ast.Ident); ok {
						if pv, ok := kit.ObjOf(info, id).(*types.Var); ok && pv.Pkg() != nil && pv.Parent() == pv.Pkg().Scope() {
							em.origin = "pkgvar"
						}
					}
				}
			}
		}
	}
	// the buffer must not escape in other ways (passed by address elsewhere)
	ast.Inspect(f.Body, func(x ast.Node) bool {
		if u, ok := x.(*ast.UnaryExpr); ok && u.Op == token.AND && kit.ObjOf(info, u.X) == enc.buf {
			if call, ok := c.P.Parent(f.File, u).(*ast.CallExpr); !ok || !kit.CallIs(info, call, "encoding/binary.Write") {
				em.problems = append(em.problems, "the buffer's address is passed to "+f.Str(c.P.Parent(f.File, u)))
			}
		}
		return true
	})
	c17SubjectGuard(f, em)
	return em
}

// ===========================================================================
// R1

func c17Layout(c *kit.Ctx, r *kit.Rule, enc *c17Encoder, em *c17EncModel, dec *c17Decoder, dm *c17DecModel) {
	ef, df := enc.f, dec.f
	info := df.Info()
	find := func(role string) (int, *c17Seg) {
		for i := range em.segs {
			if em.segs[i].role == role {
				return i, &em.segs[i]
			}
		}
		return -1, nil
	}
	// offsets in the encoder
	offset := func(idx int) int64 {
		var off int64
		for i := 0; i < idx; i++ {
			if em.segs[i].size < 0 {
				return -1
			}
			off += em.segs[i].size
		}
		return off
	}
	var roles []string
	for _, s := range em.segs {
		roles = append(roles, fmt.Sprintf("%s:%d", s.role, s.size))
	}
	shape := strings.Join(roles, " ")
	iSeq, sSeq := find("seq")
	iSub, sSub := find("subject")
	iPay, sPay := find("payload")
	iCrc, sCrc := find("crc")
	encOK := len(em.problems) == 0 && len(em.segs) == 4 && iSeq == 0 && iSub == 1 && iPay == 2 && iCrc == 3 && em.sumAfter == 3 &&
		sSeq != nil && sSub != nil && sPay != nil && sCrc != nil && sSub.size > 0 && sCrc.size > 0
	oShape := r.Ob(ef, nil, "encoder packet shape", "the encoder writes sequence byte, fixed subject field, payload, then the checksum of everything written before it, unconditionally and in this order")
	if !encOK {
		why := strings.Join(em.problems, "; ")
		if why == "" {
			why = fmt.Sprintf("writes found: [%s], checksum taken after %d writes", shape, em.sumAfter)
			// a recognisable but different shape is a layout break only if the decoder disagrees; undecided here
		}
		// checksum position is decidable: it must cover exactly the bytes before the trailer
		if len(em.problems) == 0 && len(em.segs) == 4 && iCrc == 3 && em.sumAfter >= 0 && em.sumAfter != 3 {
			oShape.Violation("the checksum is computed after %d of the 3 leading writes, but the decoder verifies it over every byte before the trailer: valid packets are rejected", em.sumAfter)
		} else {
			oShape.Undecided("encoder shape not understood: %s", why)
		}
		for _, k := range []string{"sequence byte window", "subject window", "payload window", "checksum trailer position and byte order", "checksum coverage", "same checksum function"} {
			r.Ob(df, nil, k, "decoder window equals encoder layout").Undecided("encoder shape not understood")
		}
		r.Ob(ef, nil, "subject length refusal", "a subject longer than its field never reaches the copy").Undecided("encoder shape not understood")
		return
	}
	switch {
	case (em.origin == "pool" && em.putBack || em.origin == "pkgvar") && !em.resetFirst && !em.resetAny:
		oShape.Violation("the buffer is shared (%s) and is never emptied before the first write: the packet is appended to the bytes of the previous packet", em.origin)
	case em.origin != "local" && !em.resetFirst:
		oShape.Undecided("the buffer is not created inside the call (%s) and is not Reset before the first write", em.origin)
	default:
		oShape.OK("writes [%s]; checksum over the first three", shape)
	}
	seqOff, subOff, payOff := offset(iSeq), offset(iSub), offset(iPay)
	crcSize := sCrc.size

	// success return of the decoder
	var succ []*ast.ReturnStmt
	ast.Inspect(df.Body, func(x ast.Node) bool {
		switch y := x.(type) {
		case *ast.FuncLit:
			return false
		case *ast.ReturnStmt:
			if n := len(y.Results); n >= 2 && kit.IsNilIdent(info, y.Results[n-1]) {
				succ = append(succ, y)
			}
		}
		return true
	})
	sig := df.Signature()
	resolve := func(e ast.Expr) ast.Expr {
		e = ast.Unparen(e)
		if o := kit.ObjOf(info, e); o != nil {
			if _, isIdent := e.(*ast.Ident); isIdent {
				if def := c12SingleDef(df, o); def != nil {
					return ast.Unparen(def)
				}
			}
		}
		return e
	}
	boundsOf := func(se ast.Expr, filter func(kit.S) bool) (los, his []string) {
		lo, hi := map[string]bool{}, map[string]bool{}
		for _, st := range dm.allSites() {
			if st.Expr != se {
				continue
			}
			for _, b := range st.Bounds {
				if filter != nil && !filter(b.State) {
					continue
				}
				lo[b.Lo], hi[b.Hi] = true, true
			}
		}
		for k := range lo {
			los = append(los, k)
		}
		for k := range hi {
			his = append(his, k)
		}
		sort.Strings(los)
		sort.Strings(his)
		return
	}
	one := func(v []string) string {
		if len(v) == 1 {
			return v[0]
		}
		return "{" + strings.Join(v, ",") + "}"
	}
	lminus := func(k int64) string {
		if k == 0 {
			return "L"
		}
		return fmt.Sprintf("L-%d", k)
	}

	// the checksummed path: the subject test failed, or (when the test is not
	// one the table knows by shape) the checksums were found equal
	checksummed := func(s kit.S) bool {
		return s.Get("a:log") == "F" || (s.Get("a:log") == "" && s.Get("a:crc") == "T")
	}
	oSeq := r.Ob(df, nil, "sequence byte window", fmt.Sprintf("the decoder returns byte %d of the packet as sequence number", seqOff))
	oSub := r.Ob(df, nil, "subject window", fmt.Sprintf("the decoder reads the subject from bytes [%d:%d) and strips only the zero padding", subOff, subOff+sSub.size))
	oPay := r.Ob(df, nil, "payload window", fmt.Sprintf("on the checksummed path the decoder returns bytes [%d:len-%d) as payload", payOff, crcSize))
	type verdict struct{ status, msg string }
	var vSeq, vSub, vPay []verdict
	payChecked := false
	if len(succ) == 0 || sig == nil {
		for _, o := range []*kit.Ob{oSeq, oSub, oPay} {
			o.Undecided("no successful return statement in the decoder")
		}
	}
	for _, ret := range succ {
		if sig == nil || sig.Results().Len() != len(ret.Results) {
			vSeq = append(vSeq, verdict{"undecided", "return with a different number of results"})
			continue
		}
		// which result is what: by type
		var seqE, subE, payE ast.Expr
		for i := 0; i < sig.Results().Len()-1; i++ {
			t := sig.Results().At(i).Type()
			switch b := t.Underlying().(type) {
			case *types.Basic:
				if b.Kind() == types.Uint8 {
					seqE = ret.Results[i]
				} else if b.Kind() == types.String {
					subE = ret.Results[i]
				}
			case *types.Slice:
				if c17IsByteSlice(t) {
					payE = ret.Results[i]
				}
			}
		}
		// seq
		if ix, ok := resolve(seqE).(*ast.IndexExpr); seqE != nil && ok && kit.ObjOf(info, ix.X) == dec.d {
			if k, ok := kit.ConstInt(info, ix.Index); ok {
				if k == seqOff {
					vSeq = append(vSeq, verdict{"ok", "returns " + df.Str(ix)})
				} else {
					vSeq = append(vSeq, verdict{"violation", fmt.Sprintf("the encoder writes the sequence number at byte %d but the decoder returns %s", seqOff, df.Str(ix))})
				}
			} else {
				vSeq = append(vSeq, verdict{"undecided", "non-constant sequence index " + df.Str(ix)})
			}
		} else {
			vSeq = append(vSeq, verdict{"undecided", "the byte result of a successful return is not an element of the packet"})
		}
		// subject
		if subE == nil {
			vSub = append(vSub, verdict{"undecided", "no string result"})
		} else {
			def := resolve(subE)
			se := c17DerivedSliceDeep(df, def, dec.d)
			if se == nil && dm.subjHelper != nil {
				// subject := h(d): look inside the helper (its parameter is the whole packet)
				if hc, isCall := def.(*ast.CallExpr); isCall && df.CalleeFunc(hc) == dm.subjHelper {
					if hr := c17SingleReturn(dm.subjHelper); hr != nil {
						def = ast.Unparen(hr.Results[0])
						se = c17DerivedSlice(info, def, dm.subjHelper.Params()[0])
					}
				}
			}
			if se == nil {
				vSub = append(vSub, verdict{"undecided", fmt.Sprintf("the subject result %s does not derive from one slice of the packet", df.Str(subE))})
			} else {
				lo, hi := boundsOf(se, nil)
				wantLo, wantHi := fmt.Sprint(subOff), fmt.Sprint(subOff+sSub.size)
				// the wrapping must be string(slice) or string(bytes.Trim*(slice, "\x00"))
				wrapOK := false
				if cv, ok := def.(*ast.CallExpr); ok && len(cv.Args) == 1 {
					if tv, ok := info.Types[cv.Fun]; ok && tv.IsType() {
						in := ast.Unparen(cv.Args[0])
						if c17IsSliceOrAlias(df, in, se) {
							wrapOK = true
						} else if tc, ok := in.(*ast.CallExpr); ok && kit.CallIs(info, tc, "bytes.Trim", "bytes.TrimRight") && len(tc.Args) == 2 && c17IsSliceOrAlias(df, tc.Args[0], se) {
							if cut, ok := kit.ConstString(info, tc.Args[1]); ok && cut == "\x00" {
								wrapOK = true
							}
						}
					}
				}
				switch {
				case len(lo) == 0:
					vSub = append(vSub, verdict{"undecided", "subject slice not reached"})
				case one(lo) != wantLo || one(hi) != wantHi:
					vSub = append(vSub, verdict{"violation", fmt.Sprintf("the encoder writes the subject into bytes [%s:%s) but the decoder reads %s = bytes [%s:%s)", wantLo, wantHi, df.Str(se), one(lo), one(hi))})
				case !wrapOK:
					vSub = append(vSub, verdict{"undecided", fmt.Sprintf("the subject bytes are post-processed by %s (only string(...) and trimming of NUL padding are understood)", df.Str(def))})
				default:
					vSub = append(vSub, verdict{"ok", df.Str(def)})
				}
			}
		}
		// payload (only the checksummed path is a layout obligation: log packets carry no checksum by design)
		// the window of the packet the payload result holds at this return, per path
		winLo, winHi := map[string]bool{}, map[string]bool{}
		winAny, winFail := false, false
		if payE != nil && dm.lf.Result != nil {
			for _, ex := range dm.lf.Result.Exits {
				if ex.Return != ret {
					continue
				}
				a, b, ok := dm.lf.WindowStrings(payE, ex.State)
				if !ok {
					winFail = true
					continue
				}
				winAny = true
				if checksummed(ex.State) {
					winLo[a], winHi[b] = true, true
				}
			}
		}
		keysOf := func(m map[string]bool) []string {
			var v []string
			for k := range m {
				v = append(v, k)
			}
			sort.Strings(v)
			return v
		}
		if winAny && !winFail {
			lo, hi := keysOf(winLo), keysOf(winHi)
			wantLo, wantHi := fmt.Sprint(payOff), lminus(crcSize)
			switch {
			case len(lo) == 0:
				// this return is only reached for log packets
			case one(lo) != wantLo || one(hi) != wantHi:
				payChecked = true
				vPay = append(vPay, verdict{"violation", fmt.Sprintf("the encoder places the payload in bytes [%s:%s) but on the checksummed path the decoder returns %s = bytes [%s:%s)", wantLo, wantHi, df.Str(payE), one(lo), one(hi))})
			default:
				payChecked = true
				vPay = append(vPay, verdict{"ok", fmt.Sprintf("%s = [%s:%s) when the subject is not log", df.Str(payE), one(lo), one(hi))})
			}
		} else if pse, ok := resolve(payE).(*ast.SliceExpr); payE != nil && ok && kit.ObjOf(info, pse.X) == dec.d {
			lo, hi := boundsOf(pse, checksummed)
			wantLo, wantHi := fmt.Sprint(payOff), lminus(crcSize)
			switch {
			case len(lo) == 0:
				// this return is only reached for log packets
				alo, _ := boundsOf(pse, nil)
				if len(alo) == 0 {
					vPay = append(vPay, verdict{"undecided", "payload slice not reached"})
				}
			case one(lo) != wantLo || one(hi) != wantHi:
				payChecked = true
				vPay = append(vPay, verdict{"violation", fmt.Sprintf("the encoder places the payload in bytes [%s:%s) but on the checksummed path the decoder returns %s = bytes [%s:%s)", wantLo, wantHi, df.Str(pse), one(lo), one(hi))})
			default:
				payChecked = true
				vPay = append(vPay, verdict{"ok", fmt.Sprintf("%s = [%s:%s) when the subject is not log", df.Str(pse), one(lo), one(hi))})
			}
		} else {
			vPay = append(vPay, verdict{"undecided", "the []byte result of a successful return is not a slice of the packet"})
		}
	}
	if len(succ) > 0 && sig != nil {
		if !payChecked {
			vPay = append(vPay, verdict{"undecided", "no successful return is reached on a checksummed path"})
		}
		settle := func(o *kit.Ob, vs []verdict) {
			var oks []string
			for _, v := range vs {
				if v.status == "violation" {
					o.Violation("%s", v.msg)
					return
				}
			}
			for _, v := range vs {
				if v.status == "undecided" {
					o.Undecided("%s", v.msg)
					return
				}
				oks = append(oks, v.msg)
			}
			if len(oks) == 0 {
				o.Undecided("nothing to check")
				return
			}
			o.OK("%s", strings.Join(c12Uniq(oks), "; "))
		}
		settle(oSeq, vSeq)
		settle(oSub, vSub)
		settle(oPay, vPay)
	}

	// checksum trailer
	oCrc := r.Ob(df, dec.stored, "checksum trailer position and byte order", fmt.Sprintf("the stored checksum is read from the last %d bytes in the byte order the encoder wrote", crcSize))
	{
		se := dec.storedSlice
		lo, hi := boundsOf(se, nil)
		recv := ""
		if sel, ok := ast.Unparen(dec.stored.Fun).(*ast.SelectorExpr); ok {
			if t := info.TypeOf(sel.X); t != nil {
				recv = t.String()
			}
		}
		switch {
		case len(lo) == 0:
			oCrc.Undecided("stored checksum read not reached")
		case crcSize != 2:
			oCrc.Violation("the encoder appends a %d-byte checksum but the decoder reads a 16-bit word", crcSize)
		case one(lo) != lminus(crcSize) || one(hi) != "L":
			oCrc.Violation("the encoder appends the checksum as the last %d bytes but the decoder reads it from bytes [%s:%s)", crcSize, one(lo), one(hi))
		case recv != sCrc.order:
			oCrc.Violation("the encoder writes the checksum with %s but the decoder reads it with %s", sCrc.order, recv)
		default:
			oCrc.OK("%s with %s", df.Str(dec.stored), recv)
		}
	}
	oCov := r.Ob(df, dec.computed, "checksum coverage", "the decoder checksums exactly the bytes the encoder checksummed: everything before the trailer")
	{
		se := dec.computedSlice
		lo, hi := boundsOf(se, nil)
		switch {
		case len(lo) == 0:
			oCov.Undecided("checksum computation not reached")
		case one(lo) != "0" || one(hi) != lminus(crcSize):
			oCov.Violation("the encoder checksums bytes [0:len-%d) but the decoder checksums bytes [%s:%s)", crcSize, one(lo), one(hi))
		default:
			oCov.OK("%s", df.Str(dec.computed))
		}
	}
	oFn := r.Ob(df, dec.computed, "same checksum function", "encoder and decoder call the same checksum function")
	if dec.sumFn == enc.sumFn {
		oFn.OK("%s on both sides", kit.QualName(dec.sumFn))
	} else {
		oFn.Violation("encoder uses %s, decoder %s", kit.QualName(enc.sumFn), kit.QualName(dec.sumFn))
	}
	oG := r.Ob(ef, nil, "subject length refusal", fmt.Sprintf("a subject longer than the %d-byte field never reaches the copy into the field", em.subjField))
	switch {
	case em.guardOK:
		oG.OK("len(subject) <= %d at the copy on every path", em.subjField)
	case strings.HasPrefix(em.guardMsg, "undecided: "):
		oG.Undecided("%s", strings.TrimPrefix(em.guardMsg, "undecided: "))
	default:
		oG.Violation("%s", em.guardMsg)
	}
}

// ===========================================================================
// R2

func c17Acceptance(c *kit.Ctx, r *kit.Rule, dec *c17Decoder, dm *c17DecModel, em *c17EncModel) {
	f := dec.f
	info := f.Info()
	lf := dm.lf
	oLog := r.Ob(f, nil, "accept: log subject", "with subject == \"log\" every exit after the test returns the payload with a nil error")
	oCrc := r.Ob(f, dec.computed, "accept: matching checksum", "with stored == computed checksum the payload is returned with a nil error")
	oRej := r.Ob(f, dec.computed, "reject: checksum mismatch", "no exit returns a nil error unless subject == \"log\" or stored == computed checksum was established on its path")
	oVal := r.Ob(f, nil, "no rejection after acceptance", "no exit returns an error once subject == \"log\" or stored == computed checksum holds")
	oEx := r.Ob(f, nil, "exemption is the log subject only", "a frame that is returned without a checksum comparison is delivered with the subject \"log\": the test that exempts it compares the whole subject field for equality")
	c.AddValuations(4)
	if dm.exempt != nil {
		c.AddValuations(len(dm.exempt.frames))
	}
	if lf.Problem != "" || lf.Result == nil || lf.Result.Overflow {
		for _, o := range []*kit.Ob{oLog, oCrc, oRej, oVal, oEx} {
			o.Undecided("decoder flow not available: %s", lf.Problem)
		}
		return
	}
	classify := func(e kit.Exit) string {
		if e.Return == nil || len(e.Return.Results) == 0 {
			return "unknown"
		}
		last := ast.Unparen(e.Return.Results[len(e.Return.Results)-1])
		if kit.IsNilIdent(info, last) {
			return "accept"
		}
		if call, ok := last.(*ast.CallExpr); ok && kit.CallIs(info, call, "errors.New", "fmt.Errorf") {
			return "reject"
		}
		return "unknown"
	}
	var accLog, accCrc bool
	var badRej, badVal, unknown []string
	// smallest packet the encoder can produce (0 = unknown)
	var minPkt int64
	for _, sg := range em.segs {
		if sg.size > 0 {
			minPkt += sg.size
		}
	}
	if len(em.problems) > 0 || len(em.segs) != 4 {
		minPkt = 0
	}
	// q: the path passed a condition on the packet content that the table does
	// not interpret; sawLog/sawCrc: the atom was recognised somewhere
	anyQ, sawLog, sawCrc := false, false, false
	var qRej, qVal []string
	// frames of another subject that are accepted without a checksum (c17_exempt.go)
	var wideRej, exUnknown []string
	exJudged, exShape := 0, 0
	sig := f.Signature()
	subjResult := func(ret *ast.ReturnStmt) ast.Expr {
		if ret == nil || sig == nil || sig.Results().Len() != len(ret.Results) {
			return nil
		}
		for i := 0; i < sig.Results().Len(); i++ {
			if b, ok := sig.Results().At(i).Type().Underlying().(*types.Basic); ok && b.Kind() == types.String {
				return ret.Results[i]
			}
		}
		return nil
	}
	for _, e := range lf.Result.Exits {
		lg, cr := e.State.Get("a:log"), e.State.Get("a:crc")
		if lg != "" {
			sawLog = true
		}
		if cr != "" {
			sawCrc = true
		}
		if e.State.Get("q") != "" {
			anyQ = true
		}
		at := "exit"
		if e.Return != nil {
			at = fmt.Sprintf("`%s` at %s", f.Str(e.Return), f.At(e.Return))
		}
		switch classify(e) {
		case "accept":
			if cr == "" {
				// accepted without a checksum comparison: which frames come here?
				w, judged := dm.exempt.wide(e.State, subjResult(e.Return))
				switch {
				case w != nil:
					wideRej = append(wideRej, fmt.Sprintf("%s returns a frame whose subject field holds %q with a nil error and without a checksum comparison, delivered as subject %q (%s). "+
						"Only the subject \"log\" is exempt from the checksum by design: with this test a checksummed frame whose subject is damaged into one that passes it (p.g… and log… differ by one 13-bit burst) is delivered with different content instead of being rejected",
						at, w.subject, w.delivered, strings.Join(w.tests, ", ")))
				case judged:
					exJudged++
				case lg == "T":
					exShape++
				default:
					exUnknown = append(exUnknown, at)
				}
			}
			switch {
			case lg == "T":
				accLog = true
			case cr == "T":
				accCrc = true
			default:
				why := "the checksum comparison failed"
				if cr == "" {
					why = "the checksums were never compared"
				}
				if lg == "" {
					why += " and the subject was never tested"
				}
				msg := fmt.Sprintf("%s returns the payload with a nil error although %s on this path: a corrupted packet is delivered", at, why)
				// with both tests established on the path (not log, mismatch) the
				// acceptance is a violation whatever else the path looked at
				if e.State.Get("q") != "" && (lg == "" || cr == "") {
					qRej = append(qRej, msg)
				} else {
					badRej = append(badRej, msg)
				}
			}
		case "reject":
			// a packet shorter than anything the encoder can produce may be
			// refused whatever its checksum says
			if minPkt > 0 {
				if _, max, ok := lf.LenRange(e.State); ok && max >= 0 && max < minPkt {
					continue
				}
			}
			msg := ""
			if lg == "T" {
				msg = fmt.Sprintf("%s rejects a log packet", at)
			} else if cr == "T" {
				msg = fmt.Sprintf("%s rejects a packet whose checksum matched", at)
			}
			if msg != "" {
				if e.State.Get("q") != "" {
					qVal = append(qVal, msg)
				} else {
					badVal = append(badVal, msg)
				}
			}
		default:
			unknown = append(unknown, at)
		}
	}
	if len(unknown) > 0 {
		for _, o := range []*kit.Ob{oLog, oCrc, oRej, oVal, oEx} {
			o.Undecided("exit with an error result of unknown nil-ness: %s", unknown[0])
		}
		return
	}
	const notFound = "the test is not found in a form the table interprets (a predicate with more than one return, a stored result, …)"
	switch {
	case accLog:
		oLog.OK("an accepting exit exists under subject == \"log\"")
	case !sawLog || anyQ:
		oLog.Undecided("no accepting exit under subject == \"log\" was found, but %s", notFound)
	default:
		oLog.Violation("no exit returns the payload under subject == \"log\": log packets (which carry no usable checksum by design) are never delivered")
	}
	switch {
	case accCrc:
		oCrc.OK("an accepting exit exists under subject != \"log\" and stored == computed")
	case !sawCrc || anyQ:
		oCrc.Undecided("no accepting exit under a matching checksum was found, but %s", notFound)
	default:
		oCrc.Violation("no exit returns the payload when the stored checksum equals the computed one: every valid packet is rejected")
	}
	nProbes := 0
	if dm.exempt != nil {
		nProbes = len(dm.exempt.frames)
	}
	switch {
	case len(wideRej) > 0:
		oEx.Violation("%s", wideRej[0])
	case len(exUnknown) > 0:
		oEx.Undecided("%s accepts without a checksum comparison on a path with no test of the subject that can be evaluated", exUnknown[0])
	case exJudged > 0:
		oEx.OK("of %d probe frames (subjects with the prefix, the suffix, the letters of \"log\", one byte off, …) only those delivered as \"log\" reach the %d exit(s) that accept without a checksum comparison", nProbes, exJudged+exShape)
	case exShape > 0:
		oEx.OK("the exits that accept without a checksum comparison follow subject == \"log\" (by shape; the test could not be evaluated for probe frames)")
	default:
		oEx.OK("no exit accepts without a checksum comparison")
	}
	switch {
	case len(badRej) > 0 && sawLog && sawCrc:
		oRej.Violation("%s", badRej[0])
	case len(badRej) > 0:
		oRej.Undecided("%s — but %s", badRej[0], notFound)
	case len(qRej) > 0:
		oRej.Undecided("%s — on a path through a condition on the packet content that the table does not interpret", qRej[0])
	default:
		oRej.OK("every accepting exit has subject == \"log\" or stored == computed on its path")
	}
	switch {
	case len(badVal) > 0:
		oVal.Violation("%s", badVal[0])
	case len(qVal) > 0:
		oVal.Undecided("%s — on a path through a condition on the packet content that the table does not interpret", qVal[0])
	default:
		oVal.OK("every rejecting exit lies before the tests or on the mismatch edge")
	}
}

// c17FreshBuffer: an expression that creates a new, unshared bytes.Buffer.
func c17FreshBuffer(info *types.Info, e ast.Expr) bool {
	if c12IsFreshExpr(info, e) {
		return true
	}
	if call, ok := ast.Unparen(e).(*ast.CallExpr); ok {
		return kit.CallIs(info, call, "bytes.NewBuffer", "bytes.NewBufferString")
	}
	return false
}

// c17Storage: the packet handed to the caller must not share storage with a
// buffer that somebody else will write again.
func c17Storage(c *kit.Ctx, r *kit.Rule, enc *c17Encoder, em *c17EncModel) {
	f := enc.f
	info := f.Info()
	o := r.Ob(f, nil, "returned packet storage", "the returned packet does not alias a buffer that outlives the call in other hands (a pooled or package-level buffer)")
	if enc.slice {
		// the packet slice is allocated by make inside the call (that is how the encoder was recognised)
		bad := ""
		ast.Inspect(f.Body, func(x ast.Node) bool {
			switch y := x.(type) {
			case *ast.FuncLit:
				return false
			case *ast.ReturnStmt:
				if len(y.Results) == 0 {
					bad = "naked return"
					return true
				}
				e := ast.Unparen(y.Results[0])
				if se, ok := e.(*ast.SliceExpr); ok {
					e = ast.Unparen(se.X)
				}
				switch z := e.(type) {
				case *ast.Ident:
					if ob := kit.ObjOf(info, z); ob == enc.buf || kit.IsNilIdent(info, z) {
						return true
					}
				case *ast.CompositeLit:
					return true
				}
				bad = fmt.Sprintf("`%s` (%s)", f.Str(y), f.At(y))
			}
			return true
		})
		if bad != "" {
			o.Undecided("the storage of the returned slice is not understood at %s", bad)
		} else {
			o.OK("the packet is a slice allocated by make inside the call")
		}
		return
	}
	var classify func(e ast.Expr, depth int) string
	mentionsBuf := func(e ast.Expr) bool {
		hit := false
		ast.Inspect(e, func(x ast.Node) bool {
			if id, ok := x.(*ast.Ident); ok && kit.ObjOf(info, id) == enc.buf {
				hit = true
			}
			return !hit
		})
		return hit
	}
	classify = func(e ast.Expr, depth int) string {
		e = ast.Unparen(e)
		if depth > 5 {
			return "unknown"
		}
		if kit.IsNilIdent(info, e) {
			return "fresh"
		}
		switch x := e.(type) {
		case *ast.CompositeLit:
			return "fresh"
		case *ast.SliceExpr:
			return classify(x.X, depth+1)
		case *ast.Ident:
			ob := kit.ObjOf(info, x)
			if ob == nil {
				return "unknown"
			}
			if def := c12SingleDef(f, ob); def != nil {
				return classify(def, depth+1)
			}
			return "unknown"
		case *ast.CallExpr:
			if kit.CallIs(info, x, "bytes.(*Buffer).Bytes") {
				if sel, ok := ast.Unparen(x.Fun).(*ast.SelectorExpr); ok {
					recv := ast.Unparen(sel.X)
					if u, ok := recv.(*ast.UnaryExpr); ok && u.Op == token.AND {
						recv = ast.Unparen(u.X)
					}
					if kit.ObjOf(info, recv) == enc.buf {
						return "alias"
					}
				}
				return "unknown"
			}
			if tv, ok := info.Types[x.Fun]; ok && tv.IsType() && len(x.Args) == 1 {
				if _, isStr := info.TypeOf(x.Args[0]).Underlying().(*types.Basic); isStr {
					return "fresh" // []byte(string) copies
				}
				return classify(x.Args[0], depth+1)
			}
			if b, ok := kit.Callee(info, x).(*types.Builtin); ok {
				switch b.Name() {
				case "make":
					return "fresh"
				case "append":
					if len(x.Args) > 0 {
						return classify(x.Args[0], depth+1) // appended elements are copied
					}
				}
				return "unknown"
			}
			if kit.CallIs(info, x, "bytes.Clone", "slices.Clone") {
				return "fresh"
			}
			if !mentionsBuf(x) {
				return "fresh"
			}
			return "unknown"
		}
		return "unknown"
	}
	var alias, unknown []string
	ast.Inspect(f.Body, func(x ast.Node) bool {
		switch y := x.(type) {
		case *ast.FuncLit:
			return false
		case *ast.ReturnStmt:
			if len(y.Results) == 0 {
				unknown = append(unknown, "naked return")
				return true
			}
			switch classify(y.Results[0], 0) {
			case "alias":
				alias = append(alias, fmt.Sprintf("`%s` (%s)", f.Str(y), f.At(y)))
			case "unknown":
				unknown = append(unknown, fmt.Sprintf("`%s` (%s)", f.Str(y), f.At(y)))
			}
		}
		return true
	})
	switch {
	case len(alias) == 0 && len(unknown) == 0:
		o.OK("every return hands out freshly allocated or copied bytes")
	case len(alias) == 0:
		o.Undecided("the storage of the returned slice is not understood at %s", unknown[0])
	case em.origin == "local":
		o.OK("%s returns the bytes of a buffer created inside the call", alias[0])
	case em.origin == "pool" && em.putBack:
		pn := "a sync.Pool"
		if em.originPool != nil {
			pn = "sync.Pool " + em.originPool.Name()
		}
		o.Violation("%s returns the bytes of a buffer taken from %s, and the same call puts that buffer back into the pool: the packet shares storage with the buffer the next encoder call Resets and rewrites, so a packet still held by the caller changes (or becomes a valid frame with another packet's content)", alias[0], pn)
	case em.origin == "pool":
		o.OK("%s returns the bytes of a pooled buffer that is never put back (nobody else can reach it)", alias[0])
	case em.origin == "pkgvar":
		o.Violation("%s returns the bytes of the package-level buffer %s, which the next encoder call rewrites", alias[0], enc.buf.Name())
	default:
		o.Undecided("%s returns the bytes of a buffer of %s origin", alias[0], em.origin)
	}
}

// c17SubjectGuard decides that at the copy of the subject into its field
// len(subject) <= field size on every path (in the encoder, or in the helper
// that builds the field).
func c17SubjectGuard(encoder *kit.Func, em *c17EncModel) {
	if em.subjParam == nil {
		return
	}
	f := encoder
	if em.guardFn != nil {
		f = em.guardFn
	}
	info := f.Info()
	mentions := func(e ast.Expr, o types.Object) bool {
		hit := false
		ast.Inspect(e, func(x ast.Node) bool {
			if id, ok := x.(*ast.Ident); ok && kit.ObjOf(info, id) == o {
				hit = true
			}
			return !hit
		})
		return hit
	}
	lf := &kit.LenFlow{F: f, X: em.subjParam}
	em.guardOK, em.guardMsg = true, ""
	seen := false
	lf.Visit = func(n ast.Node, s kit.S) {
		for _, cp := range kit.CallsIn(n) {
			if b, ok := kit.Callee(info, cp).(*types.Builtin); !ok || b.Name() != "copy" || len(cp.Args) != 2 || !mentions(cp.Args[1], em.subjParam) {
				continue
			}
			seen = true
			_, max, ok := lf.LenRange(s)
			switch {
			case !ok:
				em.guardOK, em.guardMsg = false, "undecided: length of the subject unknown at the copy"
			case max < 0 || max > em.subjField:
				em.guardOK = false
				em.guardMsg = fmt.Sprintf("a subject of %d bytes reaches `%s` in %s and is silently truncated to %d bytes (no dominating length refusal)", em.subjField+1, f.Str(cp), f.Name, em.subjField)
				if max > em.subjField {
					em.guardMsg = fmt.Sprintf("the length refusal admits subjects of up to %d bytes, but `%s` in %s copies into a window of %d bytes: a subject of %d bytes is silently truncated to its first %d bytes, gets a valid checksum and decodes as a different subject",
						max, f.Str(cp), f.Name, em.subjField, max, em.subjField)
				}
				if s.Get("u") != "" {
					em.guardMsg = "undecided: " + em.guardMsg
				}
			}
		}
	}
	lf.Run()
	if lf.Problem != "" {
		em.guardOK, em.guardMsg = false, "undecided: "+lf.Problem
	} else if !seen {
		em.guardOK, em.guardMsg = false, "undecided: the subject copy was not reached by the path engine"
	}
}

// c17SubjectFieldHelper: call is g(subject) for a module function g with one
// string parameter whose successful result is a local made with a constant
// length into which the parameter is copied.
func c17SubjectFieldHelper(f *kit.Func, call *ast.CallExpr, strParams []types.Object) (n int64, g *kit.Func, gp types.Object, ok bool) {
	info := f.Info()
	g = f.CalleeFunc(call)
	if g == nil || g.Body == nil || g.Decl == nil || len(call.Args) != 1 || len(g.Params()) != 1 {
		return 0, nil, nil, false
	}
	isSubj := false
	for _, sp := range strParams {
		if kit.ObjOf(info, call.Args[0]) == sp {
			isSubj = true
		}
	}
	gp = g.Params()[0]
	if b, isB := gp.Type().Underlying().(*types.Basic); !isSubj || !isB || b.Kind() != types.String {
		return 0, nil, nil, false
	}
	ginfo := g.Info()
	var field types.Object
	bad := false
	ast.Inspect(g.Body, func(x ast.Node) bool {
		switch y := x.(type) {
		case *ast.FuncLit:
			return false
		case *ast.ReturnStmt:
			if len(y.Results) == 0 {
				bad = true
				return true
			}
			r0 := ast.Unparen(y.Results[0])
			if kit.IsNilIdent(ginfo, r0) {
				return true
			}
			if cl, isLit := r0.(*ast.CompositeLit); isLit && len(cl.Elts) == 0 {
				return true
			}
			o := kit.ObjOf(ginfo, r0)
			if o == nil || (field != nil && field != o) {
				bad = true
				return true
			}
			field = o
		}
		return true
	})
	if bad || field == nil {
		return 0, nil, nil, false
	}
	def := c12SingleDef(g, field)
	dc, isCall := ast.Unparen(def).(*ast.CallExpr)
	if def == nil || !isCall || len(dc.Args) != 2 {
		return 0, nil, nil, false
	}
	if b, isB := kit.Callee(ginfo, dc).(*types.Builtin); !isB || b.Name() != "make" {
		return 0, nil, nil, false
	}
	n, okN := kit.ConstInt(ginfo, dc.Args[1])
	if !okN {
		return 0, nil, nil, false
	}
	copied := false
	for _, cp := range g.AllCalls(false) {
		if b, isB := kit.Callee(ginfo, cp).(*types.Builtin); isB && b.Name() == "copy" && len(cp.Args) == 2 && kit.ObjOf(ginfo, cp.Args[0]) == field {
			ast.Inspect(cp.Args[1], func(x ast.Node) bool {
				if id, isId := x.(*ast.Ident); isId && kit.ObjOf(ginfo, id) == gp {
					copied = true
				}
				return true
			})
		}
	}
	if !copied {
		return 0, nil, nil, false
	}
	return n, g, gp, true
}
