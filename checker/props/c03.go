package props

import (
	"go/ast"
	"go/token"
	"go/types"
	"sort"
	"strings"

	"siotcheck/kit"
)

func init() {
	kit.Register(&kit.Prop{
		ID:    "C03",
		Title: "Stored hashes always equal the Merkle hash of current content",
		Explanation: "The equality of incremental and from-scratch hashes over all histories is an algebraic invariant that static analysis does not prove; its structural necessary conditions are decided (DESIGN.md §3/C03): " +
			"R1 a point's checksum reads exactly time, type, key, text and value; R2 per merge-loop valuation the hash delta receives exactly {stored, incoming} on overwrite, {incoming} on a new row, nothing on ignore; " +
			"R3 every path from Begin to Commit propagates the accumulated delta exactly once and does not change it afterwards; R4 the upward propagation reads every edge into the node (unfiltered), XORs the delta into each exactly once per visit, recurses on its upper end and every cached value is written back by id; " +
			"R5 a new edge folds the checksums of the node's existing points and the hashes of its existing child edges; R6 an edge-point delta is applied to the written edge by id and propagated from the parent, a node-point delta from the node; " +
			"R7 only the propagation, the verifier's fix and the new-edge insertion write edges.hash; R8 the verifier recomputes from children listed with deleted ones, children first, and repairs the compared edge.",
		Assumptions: []string{
			"XOR algebra of the Merkle scheme over all histories and DAG shapes is not proven here",
			"CRC-32 collisions are ignored",
			"the graph is acyclic (C05)",
		},
		Run: runC03,
	})
}

func runC03(c *kit.Ctx) {
	m := newStoreModel(c)
	r1 := c.Rule("R1", "checksum field set", 1)
	r2 := c.Rule("R2", "delta pairing per merge valuation", 50)
	r3 := c.Rule("R3", "delta propagated exactly once before Commit", 2)
	r4 := c.Rule("R4", "propagation visits every parent edge", 4)
	r5 := c.Rule("R5", "initial hash of a new edge", 2)
	r6 := c.Rule("R6", "scope of node-point and edge-point deltas", 2)
	r7 := c.Rule("R7", "ownership of edges.hash", 4)
	r8 := c.Rule("R8", "verifier", 3)
	r9 := c.Rule("R9", "what is hashed is what is stored", 2)

	c03CRC(c, r1)
	for _, w := range m.writers {
		wl := newWriterLoop(c, m, w)
		for _, v := range mergeValuations(w.Table == "edge_points") {
			out := wl.run(v)
			c.AddValuations(1)
			o := r2.Ob(w.F, wl.anchor, w.Table+": "+v.String(), "checksums XORed into the delta in one merge iteration")
			if out.paths == 0 {
				o.Undecided("no successful path")
				continue
			}
			bad := ""
			for _, fx := range out.fx {
				wrote := projectFx(fx, "wp:", "id:")
				x := projectFx(fx, "x:")
				want := ""
				switch wrote {
				case "id:new+wp:in":
					want = "x:in"
				case "id:reuse+wp:in":
					want = "x:db+x:in"
				case "":
					want = ""
				default:
					continue // C01/R2 reports the write side
				}
				if x != want {
					bad = "when " + describeFx(wrote) + " the delta receives {" + x + "}, expected {" + want + "}"
				}
			}
			if bad != "" {
				o.Violation("%s: %s", v.String(), bad)
			} else {
				o.OK("delta pairs with the write")
			}
		}
		// a batch of two points: the checksum of the second, unrelated point enters the
		// delta handed to the propagation exactly once, whatever happened to the first
		for _, order := range []int{1, 2} {
			o := r2.Ob(w.F, wl.anchor, w.Table+": second point of a batch, "+map[int]string{1: "after", 2: "before"}[order]+" the other", "the checksum of a second, newly written point of the batch is in the propagated delta exactly once")
			bad, undec, n := "", "", 0
			for _, v := range []mergeVal{{rows: 0}, {rows: 1, eqType: true, eqKey: true, order: "lt"}, {rows: 1, eqType: true, eqKey: true, order: "gt"}} {
				v.second = order
				out := wl.run(v)
				c.AddValuations(1)
				for _, sx := range out.second {
					parts := strings.SplitN(sx, "|", 4)
					if len(parts) != 4 || parts[0] != "1" || parts[1] != "" {
						continue // C01/R3 reports the write side
					}
					n++
					switch {
					case parts[3] == "?" || strings.Contains(parts[3], "?"):
						undec = "the value handed to the propagation entry cannot be traced (" + v.String() + ")"
					case parts[2] != "1":
						bad = "other point: " + v.String() + "; the second point is written but its checksum is in the propagated delta " + parts[2] + " times {" + parts[3] + "}"
					}
				}
			}
			switch {
			case bad != "":
				o.Violation("%s", bad)
			case n == 0:
				o.Undecided("no successful two-point path in the symbolic evaluation")
			case undec != "":
				o.Undecided("%s", undec)
			default:
				o.OK("%d exits", n)
			}
		}
	}
	// R9: the checksum is taken from the queued incoming point; the statement must
	// bind exactly those field values, otherwise stored content and stored hash differ
	for _, w := range m.writers {
		o := r9.Ob(w.F, w.Exec.Call, w.Table+": hashed fields bound unmodified", "time, type, key, text and value are bound from the unmodified fields of the point whose checksum entered the delta")
		hashed := map[string]bool{"time": true, "type": true, "key": true, "text": true, "value": true}
		pf := map[string]string{"type": "Type", "key": "Key", "time": "Time", "value": "Value", "text": "Text"}
		if bad, undec := boundArgsProblem(c, m, w, pf, hashed); bad != "" {
			o.Violation("%s: the stored hash is computed from the incoming value, so it no longer equals the hash of the stored content", bad)
		} else if undec != "" {
			o.Undecided("%s", undec)
		} else {
			o.OK("five hashed columns bound from the queued point")
		}
		// a guard on the upsert that skips a row the merge decided to overwrite leaves the
		// old content under a hash that already contains the new checksum
		og := r9.Ob(w.F, w.Exec.Prepared.Call, w.Table+": upsert applies whenever the merge folded", "ON CONFLICT DO UPDATE is unconditional, or guarded by the merge's own condition")
		if gbad, gundec := upsertGuardProblem(w.Exec.Stmts[0], w.Table); gbad != "" {
			og.Violation("%s: for an equal-time rewrite the delta (old checksum out, new one in) reaches the edge and its ancestors while the row keeps the old content", gbad)
		} else if gundec != "" {
			og.Undecided("%s", gundec)
		} else {
			og.OK("no guard that contradicts the merge")
		}
	}
	hm := newHashModel(c, m)
	c03Propagate(c, m, hm, r3, r6)
	c03EntryShape(c, m, hm, r6)
	c03Helper(c, m, hm, r4)
	c03NewEdge(c, m, hm, r5)
	c03Ownership(c, m, hm, r7)
	c03Verifier(c, m, r8)
}

// ---- R1

func c03CRC(c *kit.Ctx, r1 *kit.Rule) {
	var crc *kit.Func
	for _, f := range c.P.Funcs("data") {
		if f.Decl == nil || f.Decl.Recv == nil || f.Type.Results == nil || len(f.Type.Results.List) != 1 {
			continue
		}
		if !kit.IsNamedType(f.Info().TypeOf(f.Decl.Recv.List[0].Type), dataPkg, "Point") {
			continue
		}
		if b, ok := f.Info().TypeOf(f.Type.Results.List[0].Type).Underlying().(*types.Basic); !ok || b.Kind() != types.Uint32 {
			continue
		}
		for _, call := range f.AllCalls(false) {
			if strings.HasPrefix(kit.QualName(kit.Callee(f.Info(), call)), "hash/crc32.") {
				crc = f
			}
		}
	}
	if crc == nil {
		c.Fatalf("R1: checksum method of data.Point (uint32 result, hash/crc32) not found")
	}
	c.Analysed(crc)
	info := crc.Info()
	var recv types.Object
	if len(crc.Decl.Recv.List[0].Names) > 0 {
		recv = info.Defs[crc.Decl.Recv.List[0].Names[0]]
	}
	used := map[string]bool{}
	// fields of the receiver appearing inside call arguments (hasher writes, PutUint64 …)
	for _, call := range crc.AllCalls(false) {
		for _, a := range call.Args {
			ast.Inspect(a, func(n ast.Node) bool {
				if sel, ok := n.(*ast.SelectorExpr); ok && kit.ObjOf(info, sel.X) == recv {
					if v, ok := kit.ObjOf(info, sel).(*types.Var); ok && v.IsField() {
						used[sel.Sel.Name] = true
					}
				}
				return true
			})
		}
	}
	var got []string
	for k := range used {
		got = append(got, k)
	}
	sort.Strings(got)
	want := []string{"Key", "Text", "Time", "Type", "Value"}
	o := r1.Ob(crc, nil, "checksum fields", "reads exactly Time, Type, Key, Text, Value")
	if strings.Join(got, ",") != strings.Join(want, ",") {
		o.Violation("the point checksum hashes fields %v, the hash definition is over %v: a change in a missing field does not change the hash / an extra field makes equal content hash differently", got, want)
	} else {
		o.OK("%v", got)
	}
}

// ---- hash model

type hashModel struct {
	helper    *kit.Func   // self-recursive propagation
	entries   []*kit.Func // functions that call the helper
	writeBack []*kit.Func // functions executing UPDATE edges SET hash WHERE id
}

// tryHashModel is newHashModel without the anchor error: nil when the propagation
// helper is not recognised (rules that only need to know which calls are
// propagation entries then treat none as one).
func tryHashModel(c *kit.Ctx, m *storeModel) (hm *hashModel) {
	defer func() {
		if r := recover(); r != nil {
			if _, ok := r.(kit.AnchorError); ok {
				hm = nil
				return
			}
			panic(r)
		}
	}()
	return newHashModel(c, m)
}

func newHashModel(c *kit.Ctx, m *storeModel) *hashModel {
	hm := &hashModel{}
	for _, f := range c.P.Funcs("store") {
		if f.Decl == nil || f.Body == nil {
			continue
		}
		// the transaction and the cache of new hash values (edge id -> hash) come as
		// parameters, or as fields of the receiver (a small type wrapping one propagation)
		hasTx := txParamOf(f) != nil
		hasMap, hasDelta := false, false
		for _, p := range f.Params() {
			if mt, ok := p.Type().Underlying().(*types.Map); ok && isUint32(mt.Elem()) {
				hasMap = true
			}
			if isUint32(p.Type()) {
				hasDelta = true
			}
		}
		if cf, tf := recvHashFields(f); cf != nil || tf != nil {
			hasMap = hasMap || cf != nil
			hasTx = hasTx || tf != nil
		}
		if !hasTx {
			continue
		}
		hasMap = hasMap && hasDelta
		self := false
		for _, call := range f.AllCalls(false) {
			if f.CalleeFunc(call) == f {
				self = true
			}
		}
		if hasMap && self {
			hm.helper = f
		}
	}
	if hm.helper == nil {
		c.Fatalf("hash propagation helper (self-recursive, *sql.Tx and map parameters) not found in package store")
	}
	for _, f := range c.P.Funcs("store") {
		if f.Decl == nil || f.Body == nil || f == hm.helper {
			continue
		}
		for _, call := range f.AllCalls(false) {
			if f.CalleeFunc(call) == hm.helper {
				hm.entries = append(hm.entries, f)
				break
			}
		}
		for _, s := range m.sql.Sites {
			if s.F == f && s.Method == "Exec" && s.HasVerb("UPDATE", "edges") && len(s.Stmts) > 0 && contains(s.Stmts[0].Cols, "hash") && contains(s.Stmts[0].Where, "id") {
				hm.writeBack = append(hm.writeBack, f)
			}
		}
	}
	c.Analysed(hm.helper)
	c.Analysed(hm.entries...)
	c.Analysed(hm.writeBack...)
	return hm
}

func (hm *hashModel) isEntry(f *kit.Func) bool {
	if hm == nil {
		return false
	}
	for _, e := range hm.entries {
		if e == f {
			return true
		}
	}
	return false
}

// recvHashFields returns the fields of f's receiver type that hold the cache of
// new hash values (map[string]uint32) and the transaction (*sql.Tx), if any.
func recvHashFields(f *kit.Func) (cache, tx *types.Var) {
	if f.Decl == nil || f.Decl.Recv == nil || len(f.Decl.Recv.List) == 0 {
		return nil, nil
	}
	t := f.Info().TypeOf(f.Decl.Recv.List[0].Type)
	if t == nil {
		return nil, nil
	}
	if p, ok := t.Underlying().(*types.Pointer); ok {
		t = p.Elem()
	}
	st, ok := t.Underlying().(*types.Struct)
	if !ok {
		return nil, nil
	}
	for i := 0; i < st.NumFields(); i++ {
		fld := st.Field(i)
		if mt, ok := fld.Type().Underlying().(*types.Map); ok && isUint32(mt.Elem()) {
			cache = fld
		}
		if kit.IsNamedType(fld.Type(), "database/sql", "Tx") {
			tx = fld
		}
	}
	return cache, tx
}

// ---- R3 + R6

func c03Propagate(c *kit.Ctx, m *storeModel, hm *hashModel, r3, r6 *kit.Rule) {
	for _, w := range m.writers {
		f := w.F
		info := f.Info()
		wl := newWriterLoop(c, m, w)
		anchor3 := ast.Node(w.Exec.Call)
		if w.Commit != nil {
			anchor3 = w.Commit
		}
		o3 := r3.Ob(f, anchor3, w.Table+": propagate before Commit", "every path from Begin to Commit calls a propagation entry exactly once with the accumulated delta, on the transaction, and the delta is not changed afterwards")
		// decided on values (wsym.go): on every successful path of an insert and of an
		// overwrite the entry is called once, before Commit, and what it is handed is
		// exactly the XOR of the checksums the merge accumulated (plus, for a new edge,
		// terms the merge does not know)
		bad, undec := "", ""
		var propCall *ast.CallExpr
		for _, call := range f.AllCalls(true) {
			if cf := f.CalleeFunc(call); cf != nil && hm.isEntry(cf) {
				propCall = call
			}
		}
		if w.Body != f {
			for _, call := range w.Body.AllCalls(true) {
				if cf := w.Body.CalleeFunc(call); cf != nil && hm.isEntry(cf) {
					propCall = call
				}
			}
		}
		nexits := 0
		for _, v := range []mergeVal{{rows: 0}, {rows: 1, eqType: true, eqKey: true, order: "lt"}, {rows: 1, eqType: true, eqKey: true, order: "gt"}} {
			out := wl.run(v)
			c.AddValuations(1)
			for _, pr := range out.props {
				parts := strings.SplitN(pr, "|", 4)
				if len(parts) != 4 {
					continue
				}
				nexits++
				switch {
				case parts[2] == "1":
					bad = "Commit is reachable without the delta having been propagated to the ancestors' hashes"
				case parts[0] == "":
					bad = "a successful path never calls a hash propagation entry"
				case parts[0] != "1":
					bad = "the delta can be propagated more than once before Commit (it would cancel out)"
				}
				// parity of the terms handed over vs. accumulated
				want := map[string]int{}
				for _, x := range strings.Split(parts[3], "+") {
					if x != "" {
						want[x]++
					}
				}
				got := map[string]int{}
				unknownTerm := false
				for _, t := range strings.Split(parts[1], ",") {
					switch {
					case t == "":
					case t == "CRC(IN)":
						got["x:in"]++
					case strings.HasPrefix(t, "CRC(DB#"):
						got["x:db"]++
					default:
						unknownTerm = true
					}
				}
				for _, k := range []string{"x:in", "x:db"} {
					if want[k]%2 != got[k]%2 {
						if parts[1] == "?" || (unknownTerm && want["x:other"] > 0) {
							undec = "the value handed to the propagation entry cannot be traced to the checksums the merge accumulated"
						} else if bad == "" {
							bad = "the value handed to the propagation entry is not the accumulated delta (" + v.String() + ": accumulated {" + parts[3] + "}, handed over {" + parts[1] + "})"
						}
					}
				}
			}
		}
		if bad == "" && undec != "" && wl.delta != nil && propCall != nil {
			// the accumulated delta is a known local: an entry call that does not mention it hands over something else
			mentions := false
			for _, a := range propCall.Args {
				ast.Inspect(a, func(n ast.Node) bool {
					if id, ok := n.(*ast.Ident); ok && kit.ObjOf(info, id) == wl.delta {
						mentions = true
					}
					return true
				})
			}
			if !mentions {
				bad = "the propagation call `" + f.Str(propCall) + "` does not pass the accumulated delta"
			}
		}
		switch {
		case bad != "":
			o3.Violation("%s", bad)
		case nexits == 0:
			o3.Undecided("no successful path in the symbolic evaluation")
		case undec != "":
			o3.Undecided("%s", undec)
		default:
			o3.OK("one entry call before Commit on every successful path, handed exactly the accumulated checksums")
		}
		// R6 scope
		o6 := r6.Ob(f, propCall, w.Table+": delta scope", map[string]string{
			"node_points": "a node-point delta starts the upward walk at the written node (every edge into the node contains its points)",
			"edge_points": "an edge-point delta is applied to the written edge by id and the upward walk starts at the parent"}[w.Table])
		if propCall == nil {
			o6.Violation("no propagation call")
			continue
		}
		entry := f.CalleeFunc(propCall)
		einfo := entry.Info()
		// the helper call inside the entry and which entry parameter starts it
		var hcall *ast.CallExpr
		for _, call := range entry.AllCalls(false) {
			if entry.CalleeFunc(call) == hm.helper {
				hcall = call
			}
		}
		startIdx := -1
		hparams := hm.helper.Params()
		for i, hp := range hparams {
			if b, ok := hp.Type().Underlying().(*types.Basic); ok && b.Kind() == types.String && i < len(hcall.Args) {
				for j, ep := range entry.Params() {
					if kit.ObjOf(einfo, hcall.Args[i]) == ep {
						startIdx = j
					}
				}
			}
		}
		if startIdx < 0 || startIdx >= len(propCall.Args) {
			o6.Undecided("cannot relate the start of the upward walk to an argument of `%s`", f.Str(propCall))
			continue
		}
		startArg := propCall.Args[startIdx]
		// own-edge update by id inside the entry
		ownByID := false
		for _, s := range m.sql.Sites {
			if s.F == entry && s.HasVerb("SELECT", "edges") && len(s.Stmts) == 1 && len(s.Stmts[0].Where) == 1 && s.Stmts[0].Where[0] == "id" {
				ownByID = true
			}
		}
		// the roles are judged in the function that contains the propagation call (the
		// writer itself, or its body function with the body's own parameters)
		pf := f
		if w.Body != f {
			for _, call := range w.Body.AllCalls(true) {
				if call == propCall {
					pf = w.Body
				}
			}
		}
		pids := w.IDs
		if pf != f {
			pids = nil
			for _, p := range pf.Params() {
				if b, ok := p.Type().Underlying().(*types.Basic); ok && b.Kind() == types.String {
					pids = append(pids, p)
				}
			}
		}
		if w.Table == "node_points" {
			if len(pids) == 1 && kit.ObjOf(info, startArg) == types.Object(pids[0]) && !ownByID {
				o6.OK("walk starts at the node id parameter")
			} else {
				o6.Violation("the node-point delta is propagated starting at `%s` (own-edge update by id: %v), expected the written node id", f.Str(startArg), ownByID)
			}
			continue
		}
		// edge writer: which parameter is the parent
		var parent, node *types.Var
		for _, s := range m.sql.Sites {
			if s.F.Root() != pf || !s.HasVerb("INSERT", "edges") || len(s.Stmts) == 0 {
				continue
			}
			for i, col := range s.Stmts[0].Cols {
				if i < len(s.Args) {
					switch col {
					case "up":
						if p := traceToParam(pf, s.Args[i], pids); p != nil {
							parent = p
						}
					case "down":
						if p := traceToParam(pf, s.Args[i], pids); p != nil {
							node = p
						}
					}
				}
			}
		}
		if parent == nil || node == nil {
			o6.Undecided("cannot tell parent and node parameters apart from INSERT INTO edges")
			continue
		}
		switch {
		case kit.ObjOf(info, startArg) == node:
			o6.Violation("the edge-point delta is propagated starting at the node id: it is XORed into every edge whose lower end is the node (all mirrors), although edge points belong to one edge only")
		case kit.ObjOf(info, startArg) != parent:
			o6.Violation("the upward walk for an edge-point delta starts at `%s`, expected the parent id", f.Str(startArg))
		case !ownByID:
			o6.Violation("the propagation entry used for edge points does not update the written edge by its id")
		default:
			// the edge id argument is the id bound to edge_points.edge_id
			okID := false
			for i, col := range w.Exec.Stmts[0].Cols {
				if col == "edge_id" && i < len(w.Exec.Args) {
					for _, a := range propCall.Args {
						if kit.SameExpr(info, a, w.Exec.Args[i]) {
							okID = true
						}
					}
				}
			}
			if !okID {
				o6.Violation("the edge id passed to the propagation is not the id the edge points were written under")
			} else {
				o6.OK("own edge by id, walk from the parent")
			}
		}
	}
}

// ---- R4

func c03Helper(c *kit.Ctx, m *storeModel, hm *hashModel, r4 *kit.Rule) {
	f := hm.helper
	info := f.Info()
	var idp, delta, cache *types.Var
	for _, p := range f.Params() {
		switch t := p.Type().Underlying().(type) {
		case *types.Basic:
			if t.Kind() == types.String {
				idp = p
			} else if t.Kind() == types.Uint32 {
				delta = p
			}
		case *types.Map:
			cache = p
		}
	}
	if cache == nil {
		// the cache is a field of the receiver
		if cf, _ := recvHashFields(f); cf != nil {
			cache = cf
		}
	}
	if idp == nil || delta == nil || cache == nil {
		c.Fatalf("R4: helper %s lacks (id string, delta uint32, cache map) parameters", f.Name)
	}
	oq := r4.Ob(f, nil, "edge query", "SELECT … FROM edges WHERE down = <id> only, on the transaction")
	var q *kit.SQLSite
	for _, s := range m.sql.Sites {
		if s.F == f && s.HasVerb("SELECT", "edges") {
			q = s
		}
	}
	if q == nil || len(q.Stmts) != 1 {
		oq.Violation("no edge query in the propagation helper")
		return
	}
	if len(q.Stmts[0].Where) != 1 || q.Stmts[0].Where[0] != "down" || len(q.Args) != 1 || kit.ObjOf(info, q.Args[0]) != idp {
		oq.Violation("the propagation reads `%s`: it must visit every edge whose lower end is the node (no further filter)", q.Stmts[0].Raw)
	} else {
		oq.OK("%s", q.Stmts[0].Raw)
	}
	var edgesVar types.Object
	if as, ok := c.P.Parent(f.File, q.Call).(*ast.AssignStmt); ok && len(as.Lhs) > 0 {
		edgesVar = kit.ObjOf(info, as.Lhs[0])
	}
	var loop *ast.RangeStmt
	for _, rs := range f.SliceLoops(f.Body) {
		if kit.ObjOf(info, rs.X) == edgesVar {
			loop = rs
		}
	}
	oi := r4.Ob(f, nil, "per-edge update", "every iteration XORs the delta exactly once into the cached hash of that edge (seeded from the stored hash)")
	orec := r4.Ob(f, nil, "recursion", "every iteration recurses on the edge's upper end with the same delta and cache (unless it is a sentinel)")
	if loop == nil {
		oi.Violation("no loop over the queried edges")
		orec.Violation("no loop over the queried edges")
		return
	}
	e := kit.LoopElemVar(info, loop)
	st := &kit.Std{F: f}
	// helpers of the package are evaluated inline: a predicate such as
	// hasUpstream(e.Up) or a seeding helper is as transparent as the inline code
	st.ShouldInline = func(cf *kit.Func, call *ast.CallExpr) bool {
		return cf != f && !hm.isEntry(cf) && txParamOf(cf) == nil
	}
	isElemSel := func(x ast.Expr, field string) bool {
		sel, ok := ast.Unparen(st.Resolve(x)).(*ast.SelectorExpr)
		if !ok || sel.Sel.Name != field {
			return false
		}
		rx := st.Resolve(sel.X)
		return (e != nil && kit.ObjOf(info, rx) == e) || kit.LoopElem(info, loop, rx)
	}
	xt := &xorTrack{st: st, present: map[types.Object]bool{}}
	xt.isCell = func(x ast.Expr) bool {
		ix, ok := ast.Unparen(x).(*ast.IndexExpr)
		return ok && st.ObjOf(ix.X) == types.Object(cache) && isElemSel(ix.Index, "ID")
	}
	xt.isKey = func(x ast.Expr) bool { return isElemSel(x, "ID") }
	xt.isCache = func(o types.Object) bool { return o == types.Object(cache) }
	xt.sym = func(x ast.Expr) string {
		switch {
		case isElemSel(x, "Hash"):
			return "H"
		case st.ObjOf(x) == types.Object(delta):
			return "D"
		}
		return ""
	}
	xt.initCell = func(s kit.S) string {
		if s.Get("a:present") == "T" {
			return "{O}" // the value an earlier path of this walk left in the cache
		}
		return "{}" // reading a missing key yields zero
	}
	// `_, ok := cache[e.ID]`: ok answers "already in the cache"
	ast.Inspect(f.Body, func(n ast.Node) bool {
		if as, ok := n.(*ast.AssignStmt); ok && len(as.Lhs) == 2 && len(as.Rhs) == 1 && xt.isCell(as.Rhs[0]) {
			if o := kit.ObjOf(info, as.Lhs[1]); o != nil {
				xt.present[o] = true
			}
		}
		return true
	})
	// atoms: presence in cache, sentinel test on e.Up
	st.Eval.Atom = func(x ast.Expr) (string, bool, bool) {
		if o := kit.ObjOf(info, x); o != nil && xt.present[o] {
			return "present", false, true
		}
		isUp := func(y ast.Expr) bool { return isElemSel(y, "Up") }
		isConst := func(y ast.Expr) bool { _, ok := kit.ConstString(info, y); return ok }
		if neg, ok := eqAtom(x, isUp, isConst); ok {
			return "sentinel", neg, true
		}
		return "", false, false
	}
	unrelated := ""
	st.Eval.OnUnknown = func(x ast.Expr) {
		if loop.Body.Pos() <= x.Pos() && x.End() <= loop.Body.End() {
			if _, _, isErr := kit.ErrCheck(info, x); !isErr {
				unrelated = f.Str(x)
			}
		}
	}
	st.OnNode = func(n ast.Node, s kit.S) []kit.S {
		if s.Get("it") != "1" {
			return []kit.S{s}
		}
		return []kit.S{xt.node(n, s)}
	}
	badRec := ""
	st.OnCall = func(call *ast.CallExpr, n ast.Node, s kit.S) []kit.S {
		if s.Get("it") != "1" || st.Cur().CalleeFunc(call) != f {
			return nil
		}
		ps := f.Params()
		for i, p := range ps {
			if i >= len(call.Args) {
				break
			}
			a := call.Args[i]
			if p == idp {
				if !isElemSel(a, "Up") {
					badRec = "the recursive call walks to `" + f.Str(a) + "`, expected the edge's upper end"
				}
			} else if st.ObjOf(a) != types.Object(p) {
				badRec = "the recursive call passes `" + f.Str(a) + "` for `" + p.Name() + "` (must be forwarded unchanged)"
			}
		}
		return []kit.S{s.Set("rec", "1")}
	}
	st.OnBranch = func(br kit.Branch, s kit.S) (t, fl []kit.S, handled bool) {
		if br.Kind == kit.BrRange && br.Range == loop {
			if !s.Has("it") {
				return []kit.S{s.Set("it", "1").Del("cell")}, nil, true
			}
			return nil, []kit.S{s.Set("it", "done")}, true
		}
		return nil, nil, false
	}
	badX, badR, undec := "", "", ""
	n := 0
	for _, present := range []string{"F", "T"} {
		res := c.P.Graph(f).Run(kit.NewS().Set("a:sentinel", "F").Set("a:present", present), st.Client())
		c.AddValuations(1)
		want := map[string]string{"F": "{D,H}", "T": "{D,O}"}[present]
		for _, ex := range res.Exits {
			if ex.State.Get("it") != "done" || ex.Return == nil || st.ReturnsNil(ex.Return, ex.State) == "nonnil" {
				continue
			}
			n++
			got := xt.cell(ex.State)
			switch {
			case got == want:
			case got == "?":
				undec = "the value stored for the edge is computed in a way the XOR evaluator cannot follow"
			case present == "F" && got == "{D}":
				badX = "an edge met for the first time in this walk is XORed without first being seeded from its stored hash: the stored hash is replaced by the bare delta"
			case present == "T" && got == "{D,H}":
				badX = "an edge already in the cache is re-seeded from the stored hash: the delta of the first path through it is lost (diamonds)"
			case got == "{H}" || got == "{O}" || got == "{}":
				badX = "an iteration can finish without the delta being XORed (exactly once) into the edge's hash"
			default:
				badX = "after a visit the cached hash of the edge is " + xorWords(got) + ", expected " + xorWords(want)
			}
			if ex.State.Get("rec") != "1" {
				badR = "an iteration over a non-sentinel edge can finish without recursing upwards: ancestors above it keep a stale hash"
			}
		}
	}
	if unrelated != "" && (badX != "" || badR != "") {
		badX += " (depends on `" + unrelated + "`)"
	}
	switch {
	case n == 0:
		oi.Undecided("loop not traversed")
		orec.Undecided("loop not traversed")
	default:
		if badX != "" {
			oi.Violation("%s", badX)
		} else if undec != "" {
			oi.Undecided("%s", undec)
		} else {
			oi.OK("first visit: stored hash ^ delta; later visits: cached value ^ delta")
		}
		if badRec != "" {
			badR = badRec
		}
		if badR != "" {
			orec.Violation("%s", badR)
		} else {
			orec.OK("recursion on the upper end with unchanged delta and cache")
		}
	}
	// write back
	for _, wb := range hm.writeBack {
		o := r4.Ob(wb, nil, "write back", "every cache entry is written by UPDATE edges SET hash = <value> WHERE id = <key>")
		winfo := wb.Info()
		var site *kit.SQLSite
		for _, s := range m.sql.Sites {
			if s.F == wb && s.Method == "Exec" && s.HasVerb("UPDATE", "edges") {
				site = s
			}
		}
		rs, _ := wb.Enclosing(site.Call, func(n ast.Node) bool { _, ok := n.(*ast.RangeStmt); return ok }).(*ast.RangeStmt)
		if rs == nil {
			o.Violation("the hash UPDATE is not executed in a loop over the cache")
			continue
		}
		if _, ok := winfo.TypeOf(rs.X).Underlying().(*types.Map); !ok || rs.Key == nil || rs.Value == nil {
			o.Violation("the write-back loop does not range over the cache map with key and value")
			continue
		}
		if len(site.Args) != 2 || kit.ObjOf(winfo, site.Args[0]) != kit.ObjOf(winfo, rs.Value) || kit.ObjOf(winfo, site.Args[1]) != kit.ObjOf(winfo, rs.Key) {
			o.Violation("UPDATE edges SET hash=? WHERE id=? is bound to (%s, %s), expected (map value, map key)", wb.Str(site.Args[0]), wb.Str(site.Args[1]))
			continue
		}
		// no skipping inside the loop
		skip := false
		ast.Inspect(rs.Body, func(n ast.Node) bool {
			if b, ok := n.(*ast.BranchStmt); ok && (b.Tok == token.CONTINUE || b.Tok == token.BREAK) {
				skip = true
			}
			return true
		})
		if skip {
			o.Violation("the write-back loop can skip entries (continue/break)")
			continue
		}
		o.OK("range over the cache, Exec(value, key)")
	}
	// every entry writes back on every successful path
	for _, en := range hm.entries {
		o := r4.Ob(en, nil, "entry writes back", "every successful path of the propagation entry writes the cache back")
		st := &kit.Std{F: en}
		st.OnCall = func(call *ast.CallExpr, n ast.Node, s kit.S) []kit.S {
			cf := en.CalleeFunc(call)
			for _, wb := range hm.writeBack {
				if cf == wb || en == wb {
					return []kit.S{s.Set("wb", "1")}
				}
			}
			return nil
		}
		res := c.P.Graph(en).Run(kit.NewS(), st.Client())
		bad := false
		for _, ex := range res.Exits {
			if ex.Return == nil {
				continue
			}
			if ex.State.Get("wb") != "1" && st.ReturnsNil(ex.Return, ex.State) == "nil" {
				bad = true
			}
		}
		isWB := false
		for _, wb := range hm.writeBack {
			if wb == en {
				isWB = true
			}
		}
		if bad && !isWB {
			o.Violation("%s can return success without writing the updated hashes back", en.Name)
		} else {
			o.OK("write-back on every successful path")
		}
	}
}

// ---- R5

func c03NewEdge(c *kit.Ctx, m *storeModel, hm *hashModel, r5 *kit.Rule) {
	w := m.writer("edge_points")
	// the folds live where the statements of the transaction are: in the body function
	// when the writer hands its transaction to one
	f := w.Body
	info := f.Info()
	bodyIDs := w.IDs
	if w.Body != w.F {
		bodyIDs = nil
		for _, p := range f.Params() {
			if b, ok := p.Type().Underlying().(*types.Basic); ok && b.Kind() == types.String {
				bodyIDs = append(bodyIDs, p)
			}
		}
	}
	wl := newWriterLoop(c, m, w)
	if wl.delta == nil {
		// the delta variable is found by evaluating the writer once (wsym.go)
		wl.run(mergeVal{rows: 0})
	}
	if wl.delta == nil {
		for _, nm := range []string{"existing node points", "existing child edge hashes"} {
			r5.Ob(f, nil, "new edge folds "+nm, "on every path that inserts an edge, "+nm+" of the node are XORed into the delta (one XOR per row) before propagation").
				Undecided("the hash delta of %s is not accumulated in a local variable of the writer (not followed)", f.Name)
		}
		return
	}
	// node id parameter: bound to column down of INSERT INTO edges
	var node *types.Var
	for _, s := range m.sql.Sites {
		if s.F.Root() != f || !s.HasVerb("INSERT", "edges") || len(s.Stmts) == 0 {
			continue
		}
		for i, col := range s.Stmts[0].Cols {
			if col == "down" && i < len(s.Args) {
				if p := traceToParam(f, s.Args[i], bodyIDs); p != nil {
					node = p
				}
			}
		}
	}
	if node == nil {
		c.Fatalf("R5: node id parameter of %s not found", f.Name)
	}
	type fold struct {
		name  string
		match func(s *kit.SQLSite) bool
		// operand: is rhs the per-row contribution, given the variables filled from the row
		operand func(row map[types.Object]bool, rhs ast.Expr) bool
	}
	folds := []fold{
		{"existing node points", func(s *kit.SQLSite) bool {
			return s.HasVerb("SELECT", "node_points") && len(s.Stmts[0].Where) == 1 && s.Stmts[0].Where[0] == "node_id"
		}, func(row map[types.Object]bool, rhs ast.Expr) bool {
			call, ok := ast.Unparen(rhs).(*ast.CallExpr)
			if !ok || !kit.CallIs(info, call, dataPkg+".(Point).CRC") {
				return false
			}
			sel, ok := ast.Unparen(call.Fun).(*ast.SelectorExpr)
			return ok && row[kit.ObjOf(info, sel.X)]
		}},
		{"existing child edge hashes", func(s *kit.SQLSite) bool {
			return s.HasVerb("SELECT", "edges") && len(s.Stmts[0].Where) == 1 && s.Stmts[0].Where[0] == "up" &&
				(contains(s.Stmts[0].Cols, "hash") || contains(s.Stmts[0].Cols, "*"))
		}, func(row map[types.Object]bool, rhs ast.Expr) bool {
			if o := kit.ObjOf(info, rhs); o != nil && row[o] {
				return true
			}
			if sel, ok := ast.Unparen(rhs).(*ast.SelectorExpr); ok && sel.Sel.Name == "Hash" {
				return true
			}
			return false
		}},
	}
	// detect finds, in function f with hash accumulator dlt and node id parameter node,
	// the queries whose rows are folded into the accumulator (one XOR per row)
	detect := func(f *kit.Func, dlt types.Object, node *types.Var) (map[string]*ast.CallExpr, map[string]string) {
		// accumulators: the delta itself, or a uint32 local that is XORed into the delta
		// afterwards (`sub ^= p.CRC()` in the loops, `delta ^= sub` behind them)
		accum := map[types.Object]bool{dlt: true}
		ast.Inspect(f.Body, func(n ast.Node) bool {
			x, ok := n.(*ast.AssignStmt)
			if !ok || len(x.Lhs) != 1 || len(x.Rhs) != 1 || kit.ObjOf(info, x.Lhs[0]) != dlt {
				return true
			}
			addOperands := func(e ast.Expr) {
				ast.Inspect(e, func(y ast.Node) bool {
					if id, ok := y.(*ast.Ident); ok {
						if o, ok := kit.ObjOf(info, id).(*types.Var); ok && !o.IsField() && isUint32(o.Type()) {
							accum[o] = true
						}
					}
					if _, isCall := y.(*ast.CallExpr); isCall {
						return false
					}
					return true
				})
			}
			if x.Tok == token.XOR_ASSIGN {
				addOperands(x.Rhs[0])
			} else if be, ok := ast.Unparen(x.Rhs[0]).(*ast.BinaryExpr); ok && be.Op == token.XOR {
				addOperands(be)
			}
			return true
		})
		isAccum := func(e ast.Expr) bool { o := kit.ObjOf(info, e); return o != nil && accum[o] }
		// xorPerRow: the loop body XORs the row's contribution into the delta as a
		// top-level statement (every row, exactly one statement)
		xorPerRow := func(fd fold, body *ast.BlockStmt, row map[types.Object]bool) bool {
			for _, st := range body.List {
				if x, ok := st.(*ast.AssignStmt); ok && x.Tok == token.XOR_ASSIGN && len(x.Lhs) == 1 && isAccum(x.Lhs[0]) && fd.operand(row, x.Rhs[0]) {
					return true
				}
			}
			return false
		}
		folded := map[string]*ast.CallExpr{}
		// why a fold was not recognised: "viol:<msg>" for a contradiction, "undec:<msg>" for an unknown spelling
		diag := map[string]string{}
		loopDiag := func(fd fold, body *ast.BlockStmt, row map[types.Object]bool) {
			assigns, xors := 0, 0
			ast.Inspect(body, func(n ast.Node) bool {
				if x, ok := n.(*ast.AssignStmt); ok {
					for _, l := range x.Lhs {
						if isAccum(l) {
							assigns++
							if x.Tok == token.XOR_ASSIGN {
								xors++
							}
						}
					}
				}
				return true
			})
			switch {
			case assigns == 0:
				diag[fd.name] = "viol:the " + fd.name + " are read at " + f.At(body) + " but not XORed into the delta"
			case xors == assigns:
				diag[fd.name] = "viol:the XOR of the " + fd.name + " at " + f.At(body) + " is not one unconditional statement per row over the row's own value"
			default:
				diag[fd.name] = "undec:the delta is updated in the loop at " + f.At(body) + " in a form that is not followed"
			}
		}
		for _, fd := range folds {
			for _, s := range m.sql.Sites {
				if len(s.Stmts) == 1 && fd.match(s) && s.F != f && s.F.Decl != nil && diag[fd.name] == "" {
					for _, call := range f.AllCalls(false) {
						if f.CalleeFunc(call) == s.F {
							diag[fd.name] = "undec:the " + fd.name + " are read in helper " + s.F.Name + " (not followed)"
						}
					}
				}
				if s.F != f || len(s.Stmts) != 1 || !fd.match(s) {
					continue
				}
				if !strings.HasPrefix(diag[fd.name], "viol:") {
					diag[fd.name] = "undec:the query at " + f.At(s.Call) + " reads the " + fd.name + ", but the per-row XOR into the delta is not recognised"
				}
				onTx := (s.Recv == "tx" && s.Method == "Query") || (s.Recv == "wrapper" && s.TxArg != nil && !kit.IsNilIdent(info, s.TxArg))
				if !onTx || len(s.Args) != 1 || kit.ObjOf(info, s.Args[0]) != types.Object(node) {
					continue
				}
				as, ok := c.P.Parent(f.File, s.Call).(*ast.AssignStmt)
				if !ok {
					continue
				}
				results := map[types.Object]bool{}
				for _, l := range as.Lhs {
					if o := kit.ObjOf(info, l); o != nil {
						results[o] = true
					}
				}
				ast.Inspect(f.Body, func(n ast.Node) bool {
					switch loop := n.(type) {
					case *ast.ForStmt:
						// for rows.Next() { <row variables filled by Scan or a scan helper>; delta ^= operand }
						if loop.Cond == nil {
							return true
						}
						cc, ok := ast.Unparen(loop.Cond).(*ast.CallExpr)
						if !ok || !kit.CallIs(info, cc, "database/sql.(*Rows).Next") {
							return true
						}
						sel, ok := ast.Unparen(cc.Fun).(*ast.SelectorExpr)
						if !ok || !results[kit.ObjOf(info, sel.X)] {
							return true
						}
						rows := kit.ObjOf(info, sel.X)
						row := map[types.Object]bool{}
						for _, st := range loop.Body.List {
							ast.Inspect(st, func(x ast.Node) bool {
								switch v := x.(type) {
								case *ast.CallExpr:
									if kit.CallIs(info, v, "database/sql.(*Rows).Scan") {
										for _, a := range v.Args {
											if u, ok := ast.Unparen(a).(*ast.UnaryExpr); ok && u.Op == token.AND {
												if o := kit.ObjOf(info, u.X); o != nil {
													row[o] = true
												}
												if sel, ok := ast.Unparen(u.X).(*ast.SelectorExpr); ok {
													if o := kit.ObjOf(info, sel.X); o != nil {
														row[o] = true
													}
												}
											}
										}
									}
								case *ast.AssignStmt:
									// p, err := scanHelper(rows)
									if len(v.Rhs) == 1 {
										if call, ok := ast.Unparen(v.Rhs[0]).(*ast.CallExpr); ok {
											takesRows := false
											for _, a := range call.Args {
												if kit.ObjOf(info, a) == rows {
													takesRows = true
												}
											}
											if takesRows {
												for _, l := range v.Lhs {
													if o := kit.ObjOf(info, l); o != nil && !isErrorType(o.Type()) {
														row[o] = true
													}
												}
											}
										}
									}
								}
								return true
							})
						}
						if len(row) > 0 && xorPerRow(fd, loop.Body, row) {
							folded[fd.name] = s.Call
						} else {
							loopDiag(fd, loop.Body, row)
						}
					case *ast.RangeStmt:
						// rowsAsSlice, err := helper(tx, query, id); for _, p := range rowsAsSlice { delta ^= operand }
						if !results[kit.ObjOf(info, loop.X)] || loop.Value == nil {
							return true
						}
						if _, isSlice := info.TypeOf(loop.X).Underlying().(*types.Slice); !isSlice {
							return true
						}
						row := map[types.Object]bool{}
						if o := kit.ObjOf(info, loop.Value); o != nil {
							row[o] = true
						}
						if len(row) > 0 && xorPerRow(fd, loop.Body, row) {
							folded[fd.name] = s.Call
						} else {
							loopDiag(fd, loop.Body, row)
						}
					}
					return true
				})
			}
		}
		return folded, diag
	}
	folded, diag := detect(f, wl.delta, node)
	// a fold that lives in a helper (`existing, err := sdb.nodeContentHash(tx, nodeID); delta ^= existing`):
	// the helper is judged with the value it returns as its accumulator
	for _, fd := range folds {
		if folded[fd.name] != nil || !strings.Contains(diag[fd.name], "are read in helper") {
			continue
		}
		for _, call := range f.AllCalls(false) {
			h := f.CalleeFunc(call)
			if h == nil || h.Body == nil || h.Decl == nil || h.Pkg != f.Pkg {
				continue
			}
			// the helper's node parameter and returned accumulator
			var hnode *types.Var
			for i, a := range call.Args {
				if kit.ObjOf(info, a) == types.Object(node) && i < len(h.Params()) {
					hnode = h.Params()[i]
				}
			}
			var hacc types.Object
			for _, rs := range returnsOf(h) {
				if o, ok := kit.ObjOf(info, rs[0]).(*types.Var); ok && isUint32(o.Type()) && kit.IsNilIdent(info, rs[len(rs)-1]) {
					hacc = o
				}
			}
			if hnode == nil || hacc == nil {
				continue
			}
			f2, _ := detect(h, hacc, hnode)
			if f2[fd.name] == nil {
				continue
			}
			// its result is XORed into the writer's delta
			as, ok := c.P.Parent(f.File, call).(*ast.AssignStmt)
			if !ok || len(as.Lhs) == 0 {
				continue
			}
			resObj := kit.ObjOf(info, as.Lhs[0])
			flows := false
			ast.Inspect(f.Body, func(n ast.Node) bool {
				if x, ok := n.(*ast.AssignStmt); ok && x.Tok == token.XOR_ASSIGN && len(x.Lhs) == 1 && len(x.Rhs) == 1 &&
					kit.ObjOf(info, x.Lhs[0]) == wl.delta && kit.ObjOf(info, x.Rhs[0]) == resObj && resObj != nil {
					flows = true
				}
				return true
			})
			if flows {
				folded[fd.name] = call
				c.Analysed(h)
			}
		}
	}
	// flow: when an edge is inserted, both fold queries have run before the propagation
	st := &kit.Std{F: f}
	missing := map[string]bool{}
	st.OnCall = func(call *ast.CallExpr, n ast.Node, s kit.S) []kit.S {
		hit := false
		for name, qc := range folded {
			if qc == call {
				s = s.Set("f:"+name, "1")
				hit = true
			}
		}
		if hit {
			return []kit.S{s}
		}
		if site := m.siteOf(call); site != nil && site.HasVerb("INSERT", "edges") {
			return []kit.S{s.Set("ins", "1")}
		}
		if cf := f.CalleeFunc(call); cf != nil && hm.isEntry(cf) && s.Get("ins") == "1" {
			for _, fd := range folds {
				if s.Get("f:"+fd.name) != "1" {
					missing[fd.name] = true
				}
			}
		}
		return nil
	}
	res := c.P.Graph(f).Run(kit.NewS(), st.Client())
	if res.Overflow {
		c.Fatalf("R5 overflow")
	}
	for _, fd := range folds {
		o := r5.Ob(f, nil, "new edge folds "+fd.name, "on every path that inserts an edge, "+fd.name+" of the node are XORed into the delta (one XOR per row) before propagation")
		switch {
		case folded[fd.name] == nil && strings.HasPrefix(diag[fd.name], "undec:"):
			o.Undecided("%s", diag[fd.name][6:])
		case folded[fd.name] == nil && strings.HasPrefix(diag[fd.name], "viol:"):
			o.Violation("%s: mirroring or moving a populated node yields a hash that differs from the from-scratch definition", diag[fd.name][5:])
		case folded[fd.name] == nil:
			o.Violation("a newly inserted edge does not fold the %s of the node into its initial hash: mirroring or moving a populated node yields a hash that differs from the from-scratch definition", fd.name)
		case missing[fd.name]:
			o.Violation("the propagation after INSERT INTO edges is reachable without the fold of the %s", fd.name)
		default:
			o.OK("query at %s, one XOR per row", f.At(folded[fd.name]))
		}
	}
}

// ---- R7

func c03Ownership(c *kit.Ctx, m *storeModel, hm *hashModel, r7 *kit.Rule) {
	ew := m.writer("edge_points")
	allowed := map[*kit.Func]string{}
	for _, f := range hm.writeBack {
		allowed[f] = "propagation write-back"
	}
	allowed[ew.F] = "new-edge insertion in the edge writer"
	allowed[ew.Body] = "new-edge insertion in the edge writer"
	// verifier: the function (or literal) that calls CalcHash
	for _, f := range c.P.Funcs("store") {
		for _, call := range f.AllCalls(false) {
			if kit.CallIs(f.Info(), call, dataPkg+".(NodeEdge).CalcHash", dataPkg+".(*NodeEdge).CalcHash") {
				allowed[f] = "verifier fix"
				allowed[f.Root()] = "verifier fix"
			}
		}
	}
	for _, s := range m.sql.Sites {
		if s.Method == "Prepare" {
			continue
		}
		writes := false
		for _, st := range s.Stmts {
			if (st.Verb == "UPDATE" && st.Table == "edges" && contains(st.Cols, "hash")) || (st.Verb == "INSERT" && st.Table == "edges") {
				writes = true
			}
		}
		if !writes {
			continue
		}
		key := "writer of edges.hash: " + siteKey(s)
		o := r7.Ob(s.F, s.Call, key+ordSite(m, s), "only the propagation write-back, the verifier's fix and the new-edge insertion write edges.hash")
		why, ok := allowed[s.F]
		if !ok {
			why, ok = allowed[s.F.Root()]
		}
		if ok {
			o.OK("%s", why)
		} else {
			o.Violation("%s writes edges.hash outside the hash machinery: the stored hash no longer follows from the propagation", s.F.Name)
		}
	}
}

func ordSite(m *storeModel, s *kit.SQLSite) string {
	n := 0
	for _, x := range m.sql.Sites {
		if x.F == s.F && siteKey(x) == siteKey(s) && x.Call.Pos() < s.Call.Pos() {
			n++
		}
	}
	if n == 0 {
		return ""
	}
	return " #" + string(rune('1'+n))
}

// ---- R8

func c03Verifier(c *kit.Ctx, m *storeModel, r8 *kit.Rule) {
	var vf *kit.Func
	var calc *ast.CallExpr
	for _, f := range c.P.Funcs("store") {
		for _, call := range f.AllCalls(false) {
			if kit.CallIs(f.Info(), call, dataPkg+".(NodeEdge).CalcHash", dataPkg+".(*NodeEdge).CalcHash") {
				vf, calc = f, call
			}
		}
	}
	if vf == nil {
		c.Fatalf("R8: no caller of NodeEdge.CalcHash in package store")
	}
	c.Analysed(vf)
	info := vf.Info()
	// children argument and its listing
	oL := r8.Ob(vf, calc, "children listing", "children are listed with deleted ones and without type filter")
	if len(calc.Args) != 1 {
		oL.Undecided("CalcHash arity")
		return
	}
	children := kit.ObjOf(info, calc.Args[0])
	var listing *ast.CallExpr
	ast.Inspect(vf.Body, func(n ast.Node) bool {
		if as, ok := n.(*ast.AssignStmt); ok && len(as.Rhs) == 1 && len(as.Lhs) > 0 && kit.ObjOf(info, as.Lhs[0]) == children {
			if call, ok := ast.Unparen(as.Rhs[0]).(*ast.CallExpr); ok {
				listing = call
			}
		}
		return true
	})
	if listing == nil {
		oL.Undecided("children are not assigned from a listing call")
		return
	}
	lf := vf.CalleeFunc(listing)
	if lf == nil {
		oL.Undecided("listing callee not resolved")
		return
	}
	badL := ""
	for i, p := range lf.Params() {
		if i >= len(listing.Args) {
			break
		}
		if b, ok := p.Type().Underlying().(*types.Basic); ok && b.Kind() == types.Bool {
			if tv := info.Types[listing.Args[i]]; tv.Value == nil || tv.Value.String() != "true" {
				badL = "children are listed with includeDeleted=`" + vf.Str(listing.Args[i]) + "`: the stored hash ranges over tombstoned child edges too"
			}
		}
	}
	// type filter: the third string parameter must be ""
	strs := 0
	for i, p := range lf.Params() {
		if b, ok := p.Type().Underlying().(*types.Basic); ok && b.Kind() == types.String && i < len(listing.Args) {
			strs++
			if strs == 3 {
				if s, ok := kit.ConstString(info, listing.Args[i]); !ok || s != "" {
					badL = "children are listed with a type filter"
				}
			}
		}
	}
	if badL != "" {
		oL.Violation("%s", badL)
	} else {
		oL.OK("%s", vf.Str(listing))
	}
	// children first
	oC := r8.Ob(vf, calc, "children before parent", "every child is verified before the parent's hash is computed")
	var loop *ast.RangeStmt
	for _, rs := range vf.SliceLoops(vf.Body) {
		if kit.ObjOf(info, rs.X) == children {
			for _, call := range kit.CallsIn(rs.Body) {
				_ = call
			}
			rec := false
			ast.Inspect(rs.Body, func(x ast.Node) bool {
				if call, ok := x.(*ast.CallExpr); ok {
					if v, ok := kit.Callee(info, call).(*types.Var); ok && vf.LocalClosure(v) == vf {
						rec = true
					}
					if vf.CalleeFunc(call) == vf {
						rec = true
					}
				}
				return true
			})
			if rec {
				loop = rs
			}
		}
	}
	g := c.P.Graph(vf)
	if loop == nil || !(loop.End() <= calc.Pos()) || !g.NodeDominates(loop.X, calc) {
		oC.Violation("the parent's hash is computed before (or without) verifying all children: a repaired child hash is not reflected in the parent")
	} else {
		oC.OK("recursive loop over children dominates CalcHash")
	}
	// fix: UPDATE edges SET hash bound to the computed hash, guarded by the comparison
	oF := r8.Ob(vf, calc, "repair", "a mismatch writes the computed hash to the compared edge (up = parent, down = id)")
	var hashVar types.Object
	if as, ok := c.P.Parent(vf.File, calc).(*ast.AssignStmt); ok && len(as.Lhs) == 1 {
		hashVar = kit.ObjOf(info, as.Lhs[0])
	}
	var fix *kit.SQLSite
	for _, s := range m.sql.Sites {
		if s.F == vf && s.HasVerb("UPDATE", "edges") {
			fix = s
		}
	}
	switch {
	case fix == nil:
		oF.Violation("the verifier has no repair statement")
	case len(fix.Args) < 1 || kit.ObjOf(info, fix.Args[0]) != hashVar || hashVar == nil:
		oF.Violation("the repair does not write the computed hash")
	default:
		st := fix.Stmts[0]
		okW := (len(st.Where) == 2 && contains(st.Where, "up") && contains(st.Where, "down")) || (len(st.Where) == 1 && st.Where[0] == "id")
		if !okW {
			oF.Violation("the repair is not restricted to the compared edge: WHERE %v", st.Where)
		} else {
			oF.OK("%s", st.Raw)
		}
	}
}

// c03EntryShape: a propagation entry that updates one edge by id must, on every
// successful path, put (stored hash XOR delta) for exactly that edge into the
// cache it writes back, and start the upward walk unless its start is a sentinel.
func c03EntryShape(c *kit.Ctx, m *storeModel, hm *hashModel, r6 *kit.Rule) {
	for _, en := range hm.entries {
		info := en.Info()
		var sel *kit.SQLSite
		for _, sx := range m.sql.Sites {
			if sx.F == en && sx.HasVerb("SELECT", "edges") && len(sx.Stmts) == 1 && len(sx.Stmts[0].Where) == 1 && sx.Stmts[0].Where[0] == "id" {
				sel = sx
			}
		}
		if sel == nil || len(sel.Args) != 1 {
			continue // node-point entry: starts the walk at the node, no own edge
		}
		o := r6.Ob(en, sel.Call, "own edge entry of "+en.Name, "on every successful path cache[edge id] = stored hash XOR delta, and the walk above the parent is started unless it is a sentinel")
		var idp, delta, start *types.Var
		for _, p := range en.Params() {
			if kit.ObjOf(info, sel.Args[0]) == types.Object(p) {
				idp = p
			}
			if b, ok := p.Type().Underlying().(*types.Basic); ok && b.Kind() == types.Uint32 {
				delta = p
			}
		}
		var hcall *ast.CallExpr
		for _, call := range en.AllCalls(false) {
			if en.CalleeFunc(call) == hm.helper {
				hcall = call
			}
		}
		if hcall != nil {
			for i, hp := range hm.helper.Params() {
				if b, ok := hp.Type().Underlying().(*types.Basic); ok && b.Kind() == types.String && i < len(hcall.Args) {
					for _, p := range en.Params() {
						if kit.ObjOf(info, hcall.Args[i]) == types.Object(p) {
							start = p
						}
					}
				}
			}
		}
		// the scanned hash variable: destination of Scan chained on / following the SELECT
		var hashVar types.Object
		ast.Inspect(en.Body, func(n ast.Node) bool {
			if call, ok := n.(*ast.CallExpr); ok && kit.CallIs(info, call, "database/sql.(*Row).Scan", "database/sql.(*Rows).Scan") && len(call.Args) == 1 {
				if u, ok := ast.Unparen(call.Args[0]).(*ast.UnaryExpr); ok && u.Op == token.AND {
					hashVar = kit.ObjOf(info, u.X)
				}
			}
			return true
		})
		if idp == nil || delta == nil || start == nil || hashVar == nil || hcall == nil {
			o.Undecided("roles not found (edge id parameter %v, delta %v, start %v, scanned hash %v, helper call %v)", idp != nil, delta != nil, start != nil, hashVar != nil, hcall != nil)
			continue
		}
		st := &kit.Std{F: en}
		st.ShouldInline = func(cf *kit.Func, call *ast.CallExpr) bool {
			return cf != hm.helper && !hm.isEntry(cf) && txParamOf(cf) == nil
		}
		xt := &xorTrack{st: st, present: map[types.Object]bool{}}
		xt.isKey = func(x ast.Expr) bool { return st.ObjOf(x) == types.Object(idp) }
		xt.isCell = func(x ast.Expr) bool {
			ix, ok := ast.Unparen(x).(*ast.IndexExpr)
			if !ok || !xt.isKey(ix.Index) {
				return false
			}
			_, isMap := info.TypeOf(ix.X).Underlying().(*types.Map)
			return isMap
		}
		xt.sym = func(x ast.Expr) string {
			if st.ObjOf(x) == types.Object(delta) {
				return "D"
			}
			return ""
		}
		xt.initCell = func(kit.S) string { return "{}" }
		st.Eval.Atom = func(x ast.Expr) (string, bool, bool) {
			// `_, ok := cache[edge id]` in the entry: the cache is created there, nothing is in it yet
			if o := kit.ObjOf(info, x); o != nil && xt.present[o] {
				return "present", false, true
			}
			isStart := func(y ast.Expr) bool { return st.ObjOf(y) == types.Object(start) }
			isConst := func(y ast.Expr) bool { _, ok := kit.ConstString(info, y); return ok }
			if neg, ok := eqAtom(x, isStart, isConst); ok {
				return "sent", neg, true
			}
			return "", false, false
		}
		st.OnNode = func(n ast.Node, s kit.S) []kit.S { return []kit.S{xt.node(n, s)} }
		st.OnCall = func(call *ast.CallExpr, n ast.Node, s kit.S) []kit.S {
			if call == hcall {
				return []kit.S{s.Set("hc", "1").Set("hcCell", xt.cell(s))}
			}
			// the stored hash of the edge: destination of the Scan of `SELECT hash … WHERE id = ?`
			if kit.CallIs(info, call, "database/sql.(*Row).Scan", "database/sql.(*Rows).Scan") && len(call.Args) == 1 {
				return []kit.S{xt.scanned(call, "H", s)}
			}
			return nil
		}
		res := c.P.Graph(en).Run(kit.NewS().Set("a:present", "F"), st.Client())
		if res.Overflow {
			c.Fatalf("R6 entry overflow")
		}
		c.AddValuations(1)
		bad, undec := "", ""
		nOK := 0
		for _, ex := range res.Exits {
			if ex.Return == nil || st.ReturnsNil(ex.Return, ex.State) == "nonnil" {
				continue
			}
			nOK++
			switch got := xt.cell(ex.State); {
			case got == "{D,H}":
			case got == "?":
				undec = "the value stored for the written edge is computed in a way the XOR evaluator cannot follow"
			default:
				bad = "a successful path leaves the written edge's own hash as " + xorWords(got) + " instead of (stored hash ^ delta): the edge keeps a stale hash while its ancestors are updated"
			}
			if ex.State.Get("hc") != "1" && ex.State.Get("a:sent") != "T" {
				bad = "a successful path does not start the upward walk for a non-sentinel parent: ancestors keep a stale hash"
			}
		}
		if bad == "" && undec != "" {
			o.Undecided("%s", undec)
			continue
		}
		switch {
		case nOK == 0:
			o.Undecided("no successful exit")
		case bad != "":
			o.Violation("%s", bad)
		default:
			o.OK("cache[%s] = %s ^ %s, then the walk from %s", idp.Name(), hashVar.Name(), delta.Name(), start.Name())
		}
	}
}
