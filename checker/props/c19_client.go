package props

import (
	"fmt"
	"go/ast"
	"go/types"
	"sort"
	"strings"

	"siotcheck/kit"
)

// C19/R4: every client entry point runs encode → write → read → decode on
// what the previous step produced, returns every transport error, rejects a
// response with a foreign function code and (writes) one that does not echo
// the request.  The rule is decided by evaluating each entry point — with the
// module functions it is built from evaluated in line — under scenarios in
// which the transport (an interface: the environment) succeeds or fails at a
// chosen step and answers with a chosen function code.

type clientScenario struct {
	fail   string // "", "encode", "write", "read", "decode"
	respFc int64
	echo   bool
}

type clientRun struct {
	res   *kit.IResult
	ctors []string // constructor events "name|arg,arg"
}

const (
	clID    = 0x11
	clPkt   = 9 // length of the packet the scenario's Encode returns
	clCnt   = 7 // number of bytes the scenario's Read reports
	clResp  = 5 // length of the response data
	clParam = 0x1200
)

// clientEntries returns the methods of client types (structs with a
// transport field) from which the transport's encode is reachable through
// module calls, that no other such method calls.
func (m *c19Model) clientEntries() []*kit.Func {
	c := m.c
	reach := map[*kit.Func]bool{}
	var fns []*kit.Func
	for _, f := range c.P.Funcs("modbus") {
		if f.Decl != nil {
			fns = append(fns, f)
		}
	}
	for _, f := range fns {
		for _, call := range f.AllCalls(true) {
			if m.transportCall(f, call) == "encode" {
				reach[f] = true
			}
		}
	}
	for changed := true; changed; {
		changed = false
		for _, f := range fns {
			if reach[f] {
				continue
			}
			for _, call := range f.AllCalls(true) {
				if cf := f.CalleeFunc(call); cf != nil && reach[cf] {
					reach[f] = true
					changed = true
				}
			}
		}
	}
	called := map[*kit.Func]bool{}
	for _, f := range fns {
		if !reach[f] {
			continue
		}
		for _, call := range f.AllCalls(true) {
			if cf := f.CalleeFunc(call); cf != nil && cf != f && reach[cf] {
				called[cf] = true
			}
		}
	}
	var out []*kit.Func
	for _, f := range fns {
		if !reach[f] || called[f] || f.Obj == nil {
			continue
		}
		// a method of a type that holds a transport, also decoding (the server loop encodes too, after decoding)
		sig := f.Obj.Type().(*types.Signature)
		if sig.Recv() == nil {
			continue
		}
		firstIsEncode := false
		for _, cl := range m.Clients {
			if cl == f {
				firstIsEncode = true
			}
		}
		if !firstIsEncode {
			// entry points that delegate: they must reach a decode, and not the
			// server loop (which decodes a request before it encodes the answer)
			if !m.reachesDecode(f) || m.reachesServerLoop(f) {
				continue
			}
		}
		out = append(out, f)
	}
	sort.Slice(out, func(i, j int) bool { return out[i].Pos() < out[j].Pos() })
	return out
}

func (m *c19Model) reachesDecode(f *kit.Func) bool {
	seen := map[*kit.Func]bool{}
	var walk func(g *kit.Func) bool
	walk = func(g *kit.Func) bool {
		if seen[g] {
			return false
		}
		seen[g] = true
		for _, call := range g.AllCalls(true) {
			if m.transportCall(g, call) == "decode" {
				return true
			}
			if cf := g.CalleeFunc(call); cf != nil && cf.Decl != nil && walk(cf) {
				return true
			}
		}
		return false
	}
	return walk(f)
}

// reachesServerLoop: f is, or calls (also with go / defer), a function that decodes before it encodes.
func (m *c19Model) reachesServerLoop(f *kit.Func) bool {
	seen := map[*kit.Func]bool{}
	var walk func(g *kit.Func) bool
	walk = func(g *kit.Func) bool {
		if seen[g] {
			return false
		}
		seen[g] = true
		if m.decodesFirst(g) {
			return true
		}
		for _, call := range g.AllCalls(true) {
			if cf := g.CalleeFunc(call); cf != nil && cf.Decl != nil && walk(cf) {
				return true
			}
		}
		return false
	}
	return walk(f)
}

// decodesFirst: the function itself calls decode before (not dominated by) encode — the server loop.
func (m *c19Model) decodesFirst(f *kit.Func) bool {
	var enc, dec *ast.CallExpr
	for _, call := range f.AllCalls(false) {
		switch m.transportCall(f, call) {
		case "encode":
			enc = call
		case "decode":
			dec = call
		}
	}
	return enc != nil && dec != nil && !m.c.P.Graph(f).NodeDominates(enc, dec)
}

func c19R4(c *kit.Ctx, m *c19Model) {
	r := c.Rule("R4", "client methods: encode → write → read → decode, errors returned, function code and echo checked", 20)
	entries := m.clientEntries()
	if len(entries) < 6 {
		c.Fatalf("expected at least 6 client request entry points (methods that run, or delegate to, an encode…decode cycle), found %d", len(entries))
	}
	var bounded []*kit.Func
	seen := map[*kit.Func]bool{}
	for _, f := range entries {
		c.Analysed(f)
		c19ClientEntry(c, m, r, f)
	}
	// index/slice accesses of every function that talks to the transport
	for _, f := range c.P.Funcs("modbus") {
		if f.Decl == nil || seen[f] {
			continue
		}
		for _, call := range f.AllCalls(false) {
			if k := m.transportCall(f, call); k == "read" && !m.decodesFirstOrServer(f) {
				seen[f] = true
				bounded = append(bounded, f)
			}
		}
	}
	boundsRule(c, r, bounded, nil)
}

// decodesFirstOrServer: f is not part of a client request cycle (no entry point reaches it).
func (m *c19Model) decodesFirstOrServer(f *kit.Func) bool {
	for _, e := range m.clientEntries() {
		seen := map[*kit.Func]bool{}
		var walk func(g *kit.Func) bool
		walk = func(g *kit.Func) bool {
			if g == f {
				return true
			}
			if seen[g] {
				return false
			}
			seen[g] = true
			for _, call := range g.AllCalls(true) {
				if cf := g.CalleeFunc(call); cf != nil && cf.Decl != nil && walk(cf) {
					return true
				}
			}
			return false
		}
		if walk(e) {
			return false
		}
	}
	return true
}

// runClient evaluates entry point f under a scenario.
func (m *c19Model) runClient(f *kit.Func, sc clientScenario) clientRun {
	c := m.c
	ip := &kit.Interp{P: c.P, F: f, MaxSteps: 200000}
	params := f.Params()
	ip.Input = func(key string, t types.Type) (kit.IVal, bool) {
		if strings.HasPrefix(key, "elem:") {
			return kit.IVal{K: 'i', I: 2}, true
		}
		for i, p := range params {
			if p.Name() == key {
				if b, ok := p.Type().Underlying().(*types.Basic); ok {
					switch {
					case b.Info()&types.IsBoolean != 0:
						return kit.IVal{K: 'b', I: 1}, true
					case b.Info()&types.IsInteger != 0:
						if i == 0 {
							return kit.IVal{K: 'i', I: clID}, true
						}
						return kit.IVal{K: 'i', I: clParam + int64(i)}, true
					}
				}
			}
		}
		if t != nil {
			if b, ok := t.Underlying().(*types.Basic); ok && b.Info()&types.IsInteger != 0 {
				return kit.IVal{K: 'i', I: 0}, true // debug level and the like
			}
		}
		return kit.IVal{}, false
	}
	ip.Heap0 = map[string]kit.IVal{
		"hook:resp." + m.FcField.Name():   {K: 'i', I: sc.respFc, Dyn: m.FcType},
		"hook:resp." + m.DataField.Name(): {K: 's', L: clResp, C: clResp, Env: true},
	}
	errOf := func(stage string) kit.IVal {
		if sc.fail == stage {
			return kit.IVal{K: 'e'}
		}
		return kit.IVal{K: 'n'}
	}
	run := clientRun{}
	ip.OnCallHeap = func(call *ast.CallExpr, args []kit.IVal, heap map[string]kit.IVal) (string, []kit.IVal) {
		fn := m.mbModel.fnOf(call)
		switch m.transportCall(fn, call) {
		case "encode":
			ev := "E:?"
			if len(args) == 2 && args[1].K == 't' {
				fc := heap[args[1].Ref+"."+m.FcField.Name()]
				d := heap[args[1].Ref+"."+m.DataField.Name()]
				ev = fmt.Sprintf("E:id=%s,fc=%s,dl=%d", args[0], fc, d.L)
			}
			return ev, []kit.IVal{{K: 's', L: clPkt, C: clPkt}, errOf("encode")}
		case "write":
			ev := "W:other"
			if len(args) == 1 && args[0].K == 's' && args[0].L == clPkt && args[0].C == clPkt {
				ev = "W:packet"
			}
			return ev, []kit.IVal{{K: 'i', I: clPkt}, errOf("write")}
		case "read":
			ev := "R:?"
			if len(args) == 1 && args[0].K == 's' {
				ev = fmt.Sprintf("R:len=%d,cap=%d", args[0].L, args[0].C)
			}
			return ev, []kit.IVal{{K: 'i', I: clCnt}, errOf("read")}
		case "decode":
			ev := "D:?"
			if len(args) == 1 && args[0].K == 's' {
				ev = fmt.Sprintf("D:len=%d,cap=%d", args[0].L, args[0].C)
			}
			return ev, []kit.IVal{{K: 'i', I: clID}, {K: 't', Ref: "hook:resp"}, errOf("decode")}
		}
		callee := kit.Callee(fn.Info(), call)
		if kit.QualName(callee) == "bytes.Equal" && len(args) == 2 {
			isResp := func(v kit.IVal) bool { return v.K == 's' && v.Env && v.L == clResp }
			isReq := func(v kit.IVal) bool { return v.K == 's' && !v.Env && v.L >= 0 }
			if (isResp(args[0]) && isReq(args[1])) || (isResp(args[1]) && isReq(args[0])) {
				v := int64(0)
				if sc.echo {
					v = 1
				}
				return "EQ:req,resp", []kit.IVal{{K: 'b', I: v}}
			}
			return "EQ:other", nil
		}
		// request constructors: module functions without receiver that return a PDU
		if fo, ok := callee.(*types.Func); ok {
			sig := fo.Type().(*types.Signature)
			if sig.Recv() == nil && sig.Results().Len() == 1 && types.Identical(sig.Results().At(0).Type(), m.PduType) && fo.Pkg() == m.pkg {
				var as []string
				for _, a := range args {
					as = append(as, a.String())
				}
				run.ctors = append(run.ctors, fo.Name()+"|"+strings.Join(as, ","))
				return "C:" + fo.Name(), nil
			}
		}
		return "", nil
	}
	run.res = ip.Run()
	c.AddValuations(1)
	return run
}

// errResult classifies the error result of an exit: "nil", "err", "?".
func clientErr(e kit.IExit) string {
	if len(e.Vals) == 0 {
		return "?"
	}
	switch v := e.Vals[len(e.Vals)-1]; {
	case v.K == 'n':
		return "nil"
	case v.K == 'e' || (v.K == 'i' && v.Dyn != nil):
		return "err"
	}
	return "?"
}

func c19ClientEntry(c *kit.Ctx, m *c19Model, r *kit.Rule, f *kit.Func) {
	oSeq := r.Ob(f, nil, "sequence", "one encode, write, read and decode, in this order, each handing its result to the next; the unit id and the request built from the parameters are what is encoded")
	oErr := r.Ob(f, nil, "transport errors", "a failed encode, write, read or decode makes the method return an error and stops the cycle; success is only reported after all four succeeded")
	oFc := r.Ob(f, nil, "function code check", "a response that carries an exception or the function code of another kind of request is rejected")
	sig := f.Obj.Type().(*types.Signature)
	isWrite := sig.Results().Len() == 1
	var oEcho *kit.Ob
	if isWrite {
		oEcho = r.Ob(f, nil, "echo check", "a write is acknowledged only if the response echoes the request data")
	}
	params := f.Params()
	if len(params) < 2 {
		oSeq.Undecided("unexpected parameter list")
		return
	}
	usable := func(o *kit.Ob, run clientRun, what string) bool {
		res := run.res
		if len(res.Unsupported) > 0 || res.Overflow || len(res.Exits) == 0 {
			o.Undecided("%s: the method cannot be evaluated (%v)", what, res.Unsupported)
			return false
		}
		if len(res.Crashes) > 0 {
			o.Undecided("%s: the evaluation panics: %s", what, res.Crashes[0].Msg)
			return false
		}
		for _, e := range res.Exits {
			if e.Tainted || clientErr(e) == "?" {
				o.Undecided("%s: an exit depends on values the evaluator cannot follow", what)
				return false
			}
		}
		return true
	}
	stage := func(trace []string, p string) int {
		n := 0
		for _, t := range trace {
			if strings.HasPrefix(t, p) {
				n++
			}
		}
		return n
	}
	// ---- discovery: which constructor, which code
	probe := m.runClient(f, clientScenario{respFc: 0, echo: true})
	ctorName, ctorArgs := "", ""
	for _, cs := range probe.ctors {
		parts := strings.SplitN(cs, "|", 2)
		if ctorName != "" && ctorName != parts[0] {
			oSeq.Undecided("more than one request constructor is called (%s, %s)", ctorName, parts[0])
			return
		}
		ctorName, ctorArgs = parts[0], parts[1]
	}
	if ctorName == "" {
		oSeq.Violation("the request is not built by a module constructor")
		return
	}
	ctor := c.P.FuncNamed("modbus", ctorName)
	code, msg := m.ctorShape(ctor)
	// ---- S0: everything succeeds
	ok := m.runClient(f, clientScenario{respFc: code, echo: true})
	if !usable(oSeq, ok, "successful exchange") {
		return
	}
	var problems []string
	if msg != "" {
		problems = append(problems, ctorName+": "+msg)
	}
	var wantArgs []string
	for i := range params[1:] {
		p := params[i+1]
		if b, isB := p.Type().Underlying().(*types.Basic); isB && b.Info()&types.IsBoolean != 0 {
			wantArgs = append(wantArgs, "true")
		} else {
			wantArgs = append(wantArgs, fmt.Sprint(clParam+int64(i+1)))
		}
	}
	if ctorArgs != strings.Join(wantArgs, ",") {
		problems = append(problems, fmt.Sprintf("the request constructor %s receives (%s), not the method's parameters (%s) in order", ctorName, ctorArgs, strings.Join(wantArgs, ",")))
	}
	success := 0
	for _, e := range ok.res.Exits {
		if clientErr(e) != "nil" {
			continue
		}
		success++
		var seq []string
		for _, t := range e.Trace {
			if len(t) > 2 && t[1] == ':' {
				switch t[0] {
				case 'E', 'W', 'R', 'D':
					seq = append(seq, t)
				}
			}
		}
		if len(seq) != 4 || seq[0][0] != 'E' || seq[1][0] != 'W' || seq[2][0] != 'R' || seq[3][0] != 'D' {
			problems = append(problems, fmt.Sprintf("a successful exchange runs %v instead of encode, write, read, decode", seq))
			continue
		}
		if want := fmt.Sprintf("E:id=%d,fc=%d,dl=4", clID, code); seq[0] != want {
			problems = append(problems, fmt.Sprintf("what is encoded is %s, expected %s (the method's unit id and the constructed request)", seq[0][2:], want[2:]))
		}
		if seq[1] != "W:packet" {
			problems = append(problems, "what is written is not the encoded packet")
		}
		var rl, rc, dl, dc int64
		fmt.Sscanf(seq[2], "R:len=%d,cap=%d", &rl, &rc)
		fmt.Sscanf(seq[3], "D:len=%d,cap=%d", &dl, &dc)
		if dl != clCnt || dc != rc {
			problems = append(problems, fmt.Sprintf("what is decoded (len %d, cap %d) is not the buffer read into (cap %d) cut to the %d bytes read", dl, dc, rc, clCnt))
		}
	}
	if success == 0 {
		problems = append(problems, "a correct exchange never ends in success")
	}
	if len(problems) > 0 {
		oSeq.Violation("%s", strings.Join(uniqStrings(problems), "; "))
	} else {
		oSeq.OK("encode(id, %s(params…)) → write(packet) → read → decode(buffer[:n]); request code %d", ctorName, code)
	}
	// ---- failures of each stage
	order := []string{"encode", "write", "read", "decode"}
	prefix := map[string]string{"encode": "E", "write": "W", "read": "R", "decode": "D"}
	errOK := true
	for i, st := range order {
		run := m.runClient(f, clientScenario{fail: st, respFc: code, echo: true})
		if !usable(oErr, run, "failing "+st) {
			errOK = false
			break
		}
		for _, e := range run.res.Exits {
			if stage(e.Trace, prefix[st]+":") == 0 {
				continue // the stage was not reached on this path
			}
			if clientErr(e) == "nil" {
				oErr.Violation("after a failed %s the method still reports success (%s)", st, f.At(e.Ret))
				errOK = false
			}
			for _, later := range order[i+1:] {
				if stage(e.Trace, prefix[later]+":") > 0 {
					oErr.Violation("after a failed %s the method goes on to %s", st, later)
					errOK = false
				}
			}
		}
	}
	if errOK {
		oErr.OK("each of the four stages failing ends in an error without running the later stages")
	}
	// ---- foreign function codes
	other := map[int64]int64{1: 3, 2: 3, 3: 1, 4: 1, 5: 6, 6: 5, 15: 16, 16: 15}[code]
	fcOK := true
	for _, fc := range []int64{code | 0x80, other} {
		run := m.runClient(f, clientScenario{respFc: fc, echo: true})
		if !usable(oFc, run, fmt.Sprintf("response with function code %d", fc)) {
			fcOK = false
			break
		}
		for _, e := range run.res.Exits {
			if clientErr(e) == "nil" {
				oFc.Violation("a response with function code 0x%02X to a request with function code %d is accepted (%s)", fc, code, f.At(e.Ret))
				fcOK = false
			}
		}
	}
	if fcOK {
		oFc.OK("responses with 0x%02X (exception) and %d (another kind of request) are rejected", code|0x80, other)
	}
	// ---- echo
	if isWrite {
		run := m.runClient(f, clientScenario{respFc: code, echo: false})
		if usable(oEcho, run, "response that does not echo the request") {
			bad := false
			compared := false
			for _, e := range run.res.Exits {
				if stage(e.Trace, "EQ:req,resp") > 0 {
					compared = true
				}
				if clientErr(e) == "nil" {
					oEcho.Violation("a response that does not echo the request data is acknowledged (%s)", f.At(e.Ret))
					bad = true
				}
			}
			if !bad && !compared {
				oEcho.Undecided("the response data is not compared with the request data by bytes.Equal")
			} else if !bad {
				oEcho.OK("echo mismatch → error")
			}
		}
	}
}

// ctorShape checks a request constructor: returns PDU{FunctionCode: <const>,
// Data: words(param0, …)} and yields the function code.
func (m *mbModel) ctorShape(f *kit.Func) (int64, string) {
	info := f.Info()
	var ret *ast.ReturnStmt
	n := 0
	ast.Inspect(f.Body, func(x ast.Node) bool {
		if r, ok := x.(*ast.ReturnStmt); ok {
			ret = r
			n++
		}
		return true
	})
	if n != 1 || len(ret.Results) != 1 {
		return -1, "expected a single return of a PDU"
	}
	fcE, dataE := m.pduFields(f, ret.Results[0], ret)
	if fcE == nil || dataE == nil {
		return -1, "function code / data of the request not found"
	}
	code, ok := kit.ConstInt(info, fcE)
	if !ok {
		return -1, "function code is not a constant"
	}
	call, ok := ast.Unparen(dataE).(*ast.CallExpr)
	ps := f.Params()
	if !ok || len(call.Args) < 1 || len(ps) < 1 || kit.ObjOf(info, call.Args[0]) != types.Object(ps[0]) {
		return code, "the first data word is not the address parameter"
	}
	if len(call.Args) != 2 {
		return code, "the request data does not consist of two 16-bit words"
	}
	return code, ""
}
