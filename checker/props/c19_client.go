package props

import (
	"fmt"
	"go/ast"
	"go/token"
	"go/types"
	"strings"

	"siotcheck/kit"
)

// C19/R4: every client method runs encode → write → read → decode, returns
// every transport error, checks the function code and (writes) the echo.

type clientCalls struct {
	enc, wr, rd, dec *ast.CallExpr
	n                map[string]int
}

func c19R4(c *kit.Ctx, m *c19Model) {
	r := c.Rule("R4", "client methods: encode → write → read → decode, errors returned, function code and echo checked", 20)
	entries := 0
	for _, f := range m.Clients {
		c.Analysed(f)
		entries += c19ClientMethod(c, m, r, f)
	}
	if entries < 6 {
		c.Fatalf("expected at least 6 client request entry points (methods that run, or delegate to, an encode…decode cycle), found %d", entries)
	}
	boundsRule(c, r, m.Clients, nil)
}

// c19Wrappers lists the methods that delegate to the shared request cycle h:
// `return recv.h(…, id, ctor(params…))`.
type clientWrapper struct {
	f       *kit.Func
	call    *ast.CallExpr
	code    int64
	problem string
}

func c19Wrappers(c *kit.Ctx, m *c19Model, h *kit.Func, idIdx, reqIdx int) []clientWrapper {
	var out []clientWrapper
	for _, w := range c.P.Funcs("modbus") {
		if w.Decl == nil || w == h {
			continue
		}
		for _, call := range w.AllCalls(false) {
			if w.CalleeFunc(call) != h {
				continue
			}
			cw := clientWrapper{f: w, call: call, code: -1}
			info := w.Info()
			params := w.Params()
			switch {
			case len(call.Args) <= idIdx || len(call.Args) <= reqIdx || len(params) < 2:
				cw.problem = "unexpected argument list"
			default:
				if _, isRet := c.P.Parent(w.File, call).(*ast.ReturnStmt); !isRet {
					cw.problem = "the result of the shared request cycle is not returned as it is"
				}
				if kit.ObjOf(info, call.Args[idIdx]) != types.Object(params[0]) {
					cw.problem = fmt.Sprintf("the unit id handed on (`%s`) is not the method's first parameter", w.Str(call.Args[idIdx]))
				}
				ctorCall, ok := ast.Unparen(mbResolve(w, call.Args[reqIdx])).(*ast.CallExpr)
				var ctor *kit.Func
				if ok {
					ctor = w.CalleeFunc(ctorCall)
				}
				switch {
				case ctor == nil || ctor.Decl == nil:
					cw.problem = "the request is not built by a module constructor"
				case len(ctorCall.Args) != len(params)-1:
					cw.problem = "the request constructor does not receive the method's parameters"
				default:
					for i, a := range ctorCall.Args {
						if kit.ObjOf(info, a) != types.Object(params[i+1]) {
							cw.problem = fmt.Sprintf("request constructor argument %d is `%s`, not parameter %s", i+1, w.Str(a), params[i+1].Name())
						}
					}
					code, msg := m.ctorShape(ctor)
					if msg != "" {
						cw.problem = ctor.Name + ": " + msg
					}
					cw.code = code
				}
			}
			out = append(out, cw)
		}
	}
	return out
}

// c19ClientMethod checks one request cycle and returns the number of client
// entry points it serves (1, or the number of methods delegating to it).
func c19ClientMethod(c *kit.Ctx, m *c19Model, r *kit.Rule, f *kit.Func) int {
	info := f.Info()
	g := c.P.Graph(f)
	cc := clientCalls{n: map[string]int{}}
	for _, call := range f.AllCalls(false) {
		k := m.transportCall(f, call)
		if k == "" {
			continue
		}
		cc.n[k]++
		switch k {
		case "encode":
			cc.enc = call
		case "write":
			cc.wr = call
		case "read":
			cc.rd = call
		case "decode":
			cc.dec = call
		}
	}
	oSeq := r.Ob(f, nil, "sequence", "one encode, write, read and decode, in this order, each handing its result to the next; the unit id and the request built from the parameters are what is encoded")
	if cc.n["encode"] != 1 || cc.n["write"] != 1 || cc.n["read"] != 1 || cc.n["decode"] != 1 {
		oSeq.Undecided("expected exactly one call of each transport method, found %v", cc.n)
		return 1
	}
	lhsOf := func(call *ast.CallExpr) []ast.Expr {
		if as, ok := c.P.Parent(f.File, call).(*ast.AssignStmt); ok && len(as.Rhs) == 1 {
			return as.Lhs
		}
		return nil
	}
	encL, rdL, decL := lhsOf(cc.enc), lhsOf(cc.rd), lhsOf(cc.dec)
	var problems []string
	if !(g.NodeDominates(cc.enc, cc.wr) && g.NodeDominates(cc.wr, cc.rd) && g.NodeDominates(cc.rd, cc.dec)) {
		problems = append(problems, "the transport calls are not ordered encode, write, read, decode")
	}
	if len(encL) != 2 || len(rdL) != 2 || len(decL) != 3 {
		oSeq.Undecided("results of the transport calls are not assigned to variables")
		return 1
	}
	packet := kit.ObjOf(info, encL[0])
	if len(cc.wr.Args) != 1 || packet == nil || kit.ObjOf(info, cc.wr.Args[0]) != packet {
		problems = append(problems, fmt.Sprintf("what is written (`%s`) is not the encoded packet", f.Str(cc.wr.Args[0])))
	}
	// the buffer read is what is decoded, cut to the count read
	bufObj := kit.ObjOf(info, cc.rd.Args[0])
	cnt := kit.ObjOf(info, rdL[0])
	decArg := kit.ObjOf(info, cc.dec.Args[0])
	if bufObj == nil || decArg != bufObj {
		problems = append(problems, fmt.Sprintf("what is decoded (`%s`) is not the buffer that was read into", f.Str(cc.dec.Args[0])))
	} else {
		cut := false
		ast.Inspect(f.Body, func(n ast.Node) bool {
			as, ok := n.(*ast.AssignStmt)
			if !ok || len(as.Lhs) != 1 || len(as.Rhs) != 1 || kit.ObjOf(info, as.Lhs[0]) != bufObj {
				return true
			}
			if se, ok := ast.Unparen(as.Rhs[0]).(*ast.SliceExpr); ok && kit.ObjOf(info, se.X) == bufObj && se.Low == nil && se.High != nil && cnt != nil && kit.ObjOf(info, se.High) == cnt {
				if g.NodeDominates(cc.rd, as) && g.NodeDominates(as, cc.dec) {
					cut = true
				}
			}
			return true
		})
		if !cut {
			problems = append(problems, "the buffer is not cut to the number of bytes read before it is decoded")
		}
	}
	// id and request
	params := f.Params()
	if len(params) < 2 {
		oSeq.Undecided("unexpected parameter list")
		return 1
	}
	entries := 1
	reqVar := kit.ObjOf(info, cc.enc.Args[1])
	idObj := kit.ObjOf(info, cc.enc.Args[0])
	reqCodes := []int64{}
	paramIdx := func(o types.Object) int {
		for i, p := range params {
			if types.Object(p) == o {
				return i
			}
		}
		return -1
	}
	if ri := paramIdx(reqVar); ri >= 0 && types.Identical(params[ri].Type(), m.PduType) {
		// shared request cycle: the request and the unit id are parameters;
		// every method delegating to it must hand on its id and a constructed request
		ii := paramIdx(idObj)
		if ii < 0 {
			problems = append(problems, fmt.Sprintf("the unit id encoded (`%s`) is not a parameter", f.Str(cc.enc.Args[0])))
		}
		ws := c19Wrappers(c, m, f, ii, ri)
		entries = len(ws)
		if len(ws) == 0 {
			oSeq.Undecided("the request cycle takes the request as a parameter but nothing calls it")
			return 0
		}
		var names []string
		for _, w := range ws {
			ow := r.Ob(w.f, w.call, "sequence", "the method hands its unit id and the request built from its parameters to the shared request cycle and returns its result")
			if w.problem != "" {
				ow.Violation("%s", w.problem)
			} else {
				ow.OK("%s(%s, …) with request code %d", f.Name, w.f.Params()[0].Name(), w.code)
			}
			c.Analysed(w.f)
			reqCodes = append(reqCodes, w.code)
			names = append(names, w.f.Name)
		}
		if len(problems) > 0 {
			oSeq.Violation("%s", strings.Join(problems, "; "))
		} else {
			oSeq.OK("encode(%s, %s) → write → read → cut → decode; shared by %s", f.Str(cc.enc.Args[0]), f.Str(cc.enc.Args[1]), strings.Join(names, ", "))
		}
	} else {
		if idObj != types.Object(params[0]) {
			problems = append(problems, fmt.Sprintf("the unit id encoded (`%s`) is not the method's first parameter", f.Str(cc.enc.Args[0])))
		}
		var ctor *kit.Func
		var ctorCall *ast.CallExpr
		if reqVar != nil {
			if call, ok := ast.Unparen(mbResolve(f, cc.enc.Args[1])).(*ast.CallExpr); ok {
				ctor, ctorCall = f.CalleeFunc(call), call
			}
		}
		reqCode := int64(-1)
		if ctor == nil || ctor.Decl == nil {
			problems = append(problems, "the request is not built by a module constructor")
		} else {
			if len(ctorCall.Args) != len(params)-1 {
				problems = append(problems, "the request constructor does not receive the method's parameters")
			} else {
				for i, a := range ctorCall.Args {
					if kit.ObjOf(info, a) != types.Object(params[i+1]) {
						problems = append(problems, fmt.Sprintf("request constructor argument %d is `%s`, not parameter %s", i+1, f.Str(a), params[i+1].Name()))
					}
				}
			}
			code, msg := m.ctorShape(ctor)
			if msg != "" {
				problems = append(problems, ctor.Name+": "+msg)
			}
			reqCode = code
		}
		reqCodes = append(reqCodes, reqCode)
		if len(problems) > 0 {
			oSeq.Violation("%s", strings.Join(problems, "; "))
		} else {
			oSeq.OK("encode(%s, %s(...)) → write → read → cut → decode; request code %d", params[0].Name(), ctor.Name, reqCode)
		}
	}

	// typestate
	respVar := kit.ObjOf(info, decL[1])
	isFld := func(e ast.Expr, v types.Object, fld *types.Var) bool {
		sel, ok := ast.Unparen(e).(*ast.SelectorExpr)
		if !ok || v == nil || kit.ObjOf(info, sel.X) != v {
			return false
		}
		s, ok := info.Selections[sel]
		return ok && s.Obj() == types.Object(fld)
	}
	mkStd := func() *kit.Std {
		st := &kit.Std{F: f}
		st.Eval.Atom = func(e ast.Expr) (string, bool, bool) {
			e = ast.Unparen(mbCond(f, e))
			if a, b, op, ok := kit.CmpAtom(e); ok && (op == token.NEQ || op == token.EQL) {
				if (isFld(a, respVar, m.FcField) && isFld(b, reqVar, m.FcField)) || (isFld(b, respVar, m.FcField) && isFld(a, reqVar, m.FcField)) {
					return "fcne", op == token.EQL, true
				}
			}
			if call, ok := e.(*ast.CallExpr); ok && len(call.Args) == 2 && kit.CallIs(info, call, "bytes.Equal") {
				a, b := call.Args[0], call.Args[1]
				if (isFld(a, respVar, m.DataField) && isFld(b, reqVar, m.DataField)) || (isFld(b, respVar, m.DataField) && isFld(a, reqVar, m.DataField)) {
					return "echoeq", false, true
				}
			}
			return "", false, false
		}
		st.ErrTag = func(call *ast.CallExpr, s kit.S) string { return m.transportCall(f, call) }
		st.OnErrEdge = func(tag string, isErr bool, s kit.S) (kit.S, bool) {
			if isErr {
				return s.Set("failed", tag), true
			}
			return s.Set("ok:"+tag, "1"), true
		}
		return st
	}
	type exitKind struct {
		e    kit.Exit
		kind string // nil | nonnil | unknown | decoder
		dec  *kit.Func
	}
	classify := func(st *kit.Std, e kit.Exit) exitKind {
		if e.Return != nil && len(e.Return.Results) == 1 {
			if call, ok := ast.Unparen(e.Return.Results[0]).(*ast.CallExpr); ok {
				if cf := f.CalleeFunc(call); cf != nil {
					for _, d := range m.Decoders {
						if d == cf {
							if sel, ok := ast.Unparen(call.Fun).(*ast.SelectorExpr); ok && kit.ObjOf(info, sel.X) == respVar {
								return exitKind{e, "decoder", d}
							}
						}
					}
				}
			}
		}
		return exitKind{e, mbReturnsNil(f, st, e), nil}
	}
	sig := f.Obj.Type().(*types.Signature)
	isWrite := sig.Results().Len() == 1
	stages := []string{"encode", "write", "read", "decode"}

	oErr := r.Ob(f, nil, "transport errors", "a failed encode, write, read or decode makes the method return an error; success is only reported after all four succeeded")
	oFc := r.Ob(f, nil, "function code check", "a response whose function code differs from the request's is rejected (directly, or by the response decoder the method returns through)")
	var oEcho *kit.Ob
	if isWrite {
		oEcho = r.Ob(f, nil, "echo check", "a write is acknowledged only if the response echoes the request data")
	}
	run := func(init kit.S) (*kit.Std, []exitKind) {
		st := mkStd()
		res := g.Run(init, st.Client())
		c.AddValuations(1)
		var out []exitKind
		for _, e := range res.Exits {
			if e.Return != nil {
				out = append(out, classify(st, e))
			}
		}
		return st, out
	}
	// universal conditions, good response
	_, exits := run(kit.NewS().Set("a:fcne", "F").Set("a:echoeq", "T"))
	success := 0
	for _, x := range exits {
		failed := x.e.State.Get("failed")
		switch {
		case failed != "" && x.kind != "nonnil":
			oErr.Violation("after a failed %s the method still reaches `%s` (%s), which does not return the error", failed, trunc(f.Str(x.e.Return), 50), f.At(x.e.Return))
		case failed == "" && (x.kind == "nil" || x.kind == "decoder"):
			success++
			for _, s := range stages {
				if x.e.State.Get("ok:"+s) != "1" {
					oErr.Violation("`%s` (%s) reports success although the result of %s was never checked", trunc(f.Str(x.e.Return), 50), f.At(x.e.Return), s)
				}
			}
		case x.kind == "unknown":
			oErr.Undecided("cannot classify `%s` at %s", f.Str(x.e.Return), f.At(x.e.Return))
		}
	}
	if success == 0 {
		oErr.Violation("a correct exchange never ends in success")
	}
	oErr.OK("every error edge returns a non-nil error; %d success exit(s) after all four stages", success)
	// wrong function code
	_, exits = run(kit.NewS().Set("a:fcne", "T").Set("a:echoeq", "T"))
	for _, x := range exits {
		if x.e.State.Get("failed") != "" {
			continue
		}
		switch x.kind {
		case "nil":
			oFc.Violation("a response with another function code is accepted at %s", f.At(x.e.Return))
		case "decoder":
			codes, okCodes := m.acceptedCodes(x.dec)
			if !okCodes {
				oFc.Undecided("the function codes accepted by %s cannot be determined", x.dec.Name)
				continue
			}
			for _, reqCode := range reqCodes {
				has := false
				for _, k := range codes {
					if k == reqCode {
						has = true
					}
					if k >= 0x80 {
						has = false
						break
					}
				}
				if len(codes) == 0 || !has {
					oFc.Violation("the method returns through %s, which accepts function codes %v, not the request's code %d", x.dec.Name, codes, reqCode)
				}
			}
		case "unknown":
			oFc.Undecided("cannot classify `%s`", f.Str(x.e.Return))
		}
	}
	oFc.OK("mismatch → error (or decoder that accepts only the family of %v)", reqCodes)
	if isWrite {
		_, exits = run(kit.NewS().Set("a:fcne", "F").Set("a:echoeq", "F"))
		for _, x := range exits {
			if x.e.State.Get("failed") != "" {
				continue
			}
			if x.kind == "nil" {
				oEcho.Violation("a response that does not echo the request data is acknowledged at %s", f.At(x.e.Return))
			}
		}
		oEcho.OK("echo mismatch → error")
	}
	return entries
}

// ctorShape checks a request constructor: returns PDU{FunctionCode: <const>,
// Data: words(param0, …)} and yields the function code.
func (m *mbModel) ctorShape(f *kit.Func) (int64, string) {
	info := f.Info()
	var ret *ast.ReturnStmt
	n := 0
	ast.Inspect(f.Body, func(x ast.Node) bool {
		if r, ok := x.(*ast.ReturnStmt); ok {
			ret = r
			n++
		}
		return true
	})
	if n != 1 || len(ret.Results) != 1 {
		return -1, "expected a single return of a PDU"
	}
	fcE, dataE := m.pduFields(f, ret.Results[0], ret)
	if fcE == nil || dataE == nil {
		return -1, "function code / data of the request not found"
	}
	code, ok := kit.ConstInt(info, fcE)
	if !ok {
		return -1, "function code is not a constant"
	}
	call, ok := ast.Unparen(dataE).(*ast.CallExpr)
	ps := f.Params()
	if !ok || len(call.Args) < 1 || len(ps) < 1 || kit.ObjOf(info, call.Args[0]) != types.Object(ps[0]) {
		return code, "the first data word is not the address parameter"
	}
	if len(call.Args) != 2 {
		return code, "the request data does not consist of two 16-bit words"
	}
	return code, ""
}
