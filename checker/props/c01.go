package props

import (
	"fmt"
	"go/ast"
	"go/token"
	"go/types"
	"os"
	"sort"
	"strconv"
	"strings"

	"siotcheck/kit"
)

func init() {
	kit.Register(&kit.Prop{
		ID:    "C01",
		Title: "Newest point wins, whatever the delivery order or batching",
		Explanation: "Structural necessary conditions of newest-wins (DESIGN.md §3/C01), decided for both point writers: " +
			"R2 the merge loop's write/ignore decision enumerated over every valuation of (stored row present, same type, same key, stored older/equal/newer, incoming key empty): " +
			"no match => exactly one new row; match and stored older => exactly one write re-using the stored row id; match and stored newer => nothing; " +
			"R3 the re-used id is the id scanned with the matched stored point (slices appended in lock-step); R4 an empty key is normalised to the canonical constant before it is compared or written, and the constant agrees between writers, in-batch de-duplication and the migration; " +
			"R5 the batch is de-duplicated on every path before the merge, by a map keyed on an injective (type, key) structure with the key normalised, keeping the newer of two; " +
			"R6 table definition, SELECT * scan order, INSERT column list, bound arguments and upsert list agree column by column with the fields of data.Point. " +
			"Not decided: SQLite's execution, equal timestamps, zero-time defaulting, concurrency (C20).",
		Assumptions: []string{
			"SQLite executes INSERT … ON CONFLICT(id) DO UPDATE as documented",
			"timestamps per identity are distinct (equal times may resolve either way)",
			"time.Time Before/After/Equal are a total order on instants",
		},
		Run: runC01,
	})
}

func runC01(c *kit.Ctx) {
	m := newStoreModel(c)
	r1 := c.Rule("R1", "point writers (sibling cross-check)", 2)
	r2 := c.Rule("R2", "newest-wins truth table of the merge loop", 50)
	r3 := c.Rule("R3", "row re-use: ids appended in lock-step with stored points", 2)
	r4 := c.Rule("R4", "key normalisation before compare and write", 4)
	r5 := c.Rule("R5", "in-batch de-duplication", 8)
	r6 := c.Rule("R6", "SQL / struct agreement", 15)
	r7 := c.Rule("R7", "no string-concatenated point identity as a lookup key", 1)

	if len(m.writers) != 2 {
		c.Fatalf("expected 2 point writers (node_points, edge_points), found %d", len(m.writers))
	}
	// rules that do not depend on the shape of the merge loop run first, so that a
	// restructured loop (anchor error below) does not hide what they see
	c01IdentityKeys(c, r7)
	c01Collapse(c, m, r5)
	c01SQL(c, m, r6)
	normConsts := map[string]string{}
	for _, w := range m.writers {
		c.Analysed(w.F)
		r1.Ob(w.F, w.Exec.Call, w.Table+" writer", "executes the prepared INSERT INTO "+w.Table).OK("discovered by effect")
		wl := newWriterLoop(c, m, w)
		edge := w.Table == "edge_points"
		rawCmp, rawWrite := "", ""
		var unknownAll []string
		for _, v := range mergeValuations(edge) {
			out := wl.run(v)
			c.AddValuations(1)
			if os.Getenv("SIOT_DEBUG_MERGE") != "" {
				fmt.Printf("merge %s | %s | fx=%q unknown=%v paths=%d\n", w.Table, v.String(), out.fx, out.unknown, out.paths)
			}
			unknownAll = append(unknownAll, out.unknown...)
			if out.normC != "" {
				normConsts[w.Table] = out.normC
			}
			if out.rawCmp && rawCmp == "" {
				rawCmp = v.String()
			}
			if out.rawWrite && rawWrite == "" {
				rawWrite = v.String()
			}
			o := r2.Ob(w.F, wl.anchor, w.Table+": "+v.String(), "write/ignore outcome of one merge iteration")
			var allowed []string
			match := v.rows == 1 && v.eqType && v.eqKey
			switch {
			case v.isnt:
				allowed = []string{""}
			case !match:
				allowed = []string{"id:new+wp:in"}
			case v.order == "lt":
				allowed = []string{"id:reuse+wp:in"}
			case v.order == "gt":
				allowed = []string{""}
			default:
				allowed = []string{"", "id:reuse+wp:in"}
			}
			if out.paths == 0 {
				o.Undecided("no successful path through the merge loop under this valuation")
				continue
			}
			bad, isBad := "", false
			for _, fx := range out.fx {
				p := projectFx(fx, "wp:", "id:")
				if !contains(allowed, p) {
					bad, isBad = p, true
				}
			}
			if isBad {
				what := describeFx(bad)
				if len(out.unknown) > 0 {
					what += " (on a branch of the unrelated condition `" + out.unknown[0] + "`)"
				}
				o.Violation("%s: %s; expected %s", v.String(), what, describeFx(allowed[len(allowed)-1]))
			} else {
				o.OK("%s", describeFx(allowed[len(allowed)-1]))
			}
		}
		// R3 lock-step
		c01LockStep(c, wl, r3)
		c01Bystander(c, wl, r3)
		// R4
		o := r4.Ob(w.F, wl.anchor, w.Table+": key compared normalised", "with an empty incoming key the key is normalised before it is compared with stored keys")
		if rawCmp != "" {
			o.Violation("the incoming key \"\" is compared with stored keys before being normalised (%s): a point with key \"\" never matches the stored key and gets a second row", rawCmp)
		} else {
			o.OK("normalisation idiom dominates the comparison")
		}
		o = r4.Ob(w.F, wl.anchor, w.Table+": key written normalised", "with an empty incoming key the written point carries the canonical key")
		if rawWrite != "" {
			o.Violation("a point with key \"\" is queued for writing without normalisation (%s)", rawWrite)
		} else {
			o.OK("normalisation idiom dominates the append")
		}
	}
	// R4 constant agreement
	{
		o := r4.Ob(nil, nil, "canonical key constant", "writers, Collapse and the migration agree on the constant an empty key is normalised to")
		a, b := normConsts["node_points"], normConsts["edge_points"]
		mig := migrationKeyConst(m)
		col := collapseModel(c)
		switch {
		case a == "" || b == "":
			o.Violation("a point writer does not normalise the empty key (node_points: %q, edge_points: %q)", a, b)
		case a != b:
			o.Violation("writers normalise the empty key differently: %q vs %q", a, b)
		case mig != "" && mig != a:
			o.Violation("migration rewrites empty keys to %q, writers to %q", mig, a)
		case col != nil && col.normConst != "" && col.normConst != a:
			o.Violation("in-batch de-duplication normalises to %q, writers to %q", col.normConst, a)
		default:
			o.OK("constant %q (migration %q)", a, mig)
		}
	}
}

// c01Bystander: a batch is merged point by point.  The writer is evaluated for a
// batch of two points — the point of the valuation and a bystander: a valid point
// of another identity that matches no stored row — in both orders.  Whatever
// happens to the first (written to a new row, written over its stored row,
// ignored as stale, dropped as a node-type point), the bystander is written exactly
// once, to a new row, bound to its own fields.  This is what keeps parallel lists
// (points and their row ids) in step across iterations.
func c01Bystander(c *kit.Ctx, wl *writerLoop, r3 *kit.Rule) {
	w := wl.w
	vals := []mergeVal{
		{rows: 0},
		{rows: 1, eqType: true, eqKey: true, order: "lt"},
		{rows: 1, eqType: true, eqKey: true, order: "eq"},
		{rows: 1, eqType: true, eqKey: true, order: "gt"},
		{rows: 1, eqType: true, eqKey: false, order: "lt"},
		{rows: 0, kempty: true},
	}
	if w.Table == "edge_points" {
		vals = append(vals, mergeVal{rows: 0, isnt: true})
	}
	for _, order := range []int{1, 2} {
		o := r3.Ob(w.F, wl.anchor, w.Table+": second point of a batch, "+map[int]string{1: "after", 2: "before"}[order]+" the other",
			"a point that matches no stored row is written exactly once, to a new row, with its own fields, whatever happened to the other point of the batch")
		bad, undec, n := "", "", 0
		for _, v := range vals {
			v.second = order
			out := wl.run(v)
			c.AddValuations(1)
			if os.Getenv("SIOT_DEBUG_MERGE") != "" {
				fmt.Printf("second %s | %s | order=%d | %q unknown=%v\n", w.Table, v.String(), order, out.second, out.unknown)
			}
			if len(out.second) == 0 {
				undec = "no successful path for a two-point batch (" + v.String() + ")"
				continue
			}
			for _, sx := range out.second {
				parts := strings.SplitN(sx, "|", 4)
				if len(parts) != 4 {
					continue
				}
				n++
				switch {
				case parts[1] != "":
					bad = "other point: " + v.String() + "; the second point of the batch " + parts[1]
				case parts[0] == "":
					bad = "other point: " + v.String() + "; the second point of the batch is not written although the batch succeeds"
				case parts[0] != "1":
					bad = "other point: " + v.String() + "; the second point of the batch is written " + parts[0] + " times"
				}
			}
		}
		switch {
		case bad != "":
			o.Violation("%s", bad)
		case n == 0 || undec != "":
			if undec == "" {
				undec = "no successful path for a two-point batch"
			}
			o.Undecided("%s", undec)
		default:
			o.OK("%d exits of %d valuations", n, len(vals))
		}
	}
}

// c01IdentityKeys: type and key are arbitrary strings, so any concatenation of
// the two (with or without a separator) maps distinct identities to one string:
// ("a:b","c") and ("a","b:c") under "type:key".  Such a string must never be
// the key of a map (or the operand of an equality) that decides which stored
// point an incoming point is merged with.  Covers packages store and data.
func c01IdentityKeys(c *kit.Ctx, r7 *kit.Rule) {
	type hit struct {
		f *kit.Func
		n ast.Node
	}
	var hits []hit
	examined := 0
	for _, rel := range []string{"store", "data"} {
		funcs := c.P.Funcs(rel)
		// does e concatenate the Type and the Key of a data.Point?
		isIDConcat := func(f *kit.Func, e ast.Expr) bool {
			info := f.Info()
			hasT, hasK := false, false
			var walk func(x ast.Expr) bool // returns false if not a pure concat/format
			walk = func(x ast.Expr) bool {
				x = ast.Unparen(x)
				switch y := x.(type) {
				case *ast.BinaryExpr:
					if y.Op != token.ADD {
						return false
					}
					return walk(y.X) && walk(y.Y)
				case *ast.SelectorExpr:
					if kit.IsNamedType(info.TypeOf(y.X), dataPkg, "Point") {
						switch y.Sel.Name {
						case "Type":
							hasT = true
						case "Key":
							hasK = true
						}
					}
					return true
				case *ast.CallExpr:
					if kit.CallIs(info, y, "fmt.Sprintf", "fmt.Sprint", "strings.Join") {
						for _, a := range y.Args {
							walk(a)
						}
						return true
					}
					return true
				}
				return true
			}
			if _, ok := ast.Unparen(e).(*ast.BinaryExpr); !ok {
				if call, ok := ast.Unparen(e).(*ast.CallExpr); !ok || !kit.CallIs(info, call, "fmt.Sprintf", "fmt.Sprint", "strings.Join") {
					return false
				}
			}
			walk(e)
			return hasT && hasK
		}
		// functions that return such a string
		idFuncs := map[*kit.Func]bool{}
		for _, f := range funcs {
			if f.Body == nil {
				continue
			}
			ast.Inspect(f.Body, func(n ast.Node) bool {
				if _, ok := n.(*ast.FuncLit); ok && n != f.Node() {
					return false
				}
				if ret, ok := n.(*ast.ReturnStmt); ok {
					for _, r := range ret.Results {
						if isIDConcat(f, r) {
							idFuncs[f] = true
						}
					}
				}
				return true
			})
		}
		isIDString := func(f *kit.Func, e ast.Expr) bool {
			if isIDConcat(f, e) {
				return true
			}
			if call, ok := ast.Unparen(e).(*ast.CallExpr); ok {
				if cf := f.CalleeFunc(call); cf != nil && idFuncs[cf] {
					return true
				}
			}
			// single-assignment local
			if o := kit.ObjOf(f.Info(), e); o != nil {
				found := false
				n := 0
				ast.Inspect(f.Body, func(x ast.Node) bool {
					if as, ok := x.(*ast.AssignStmt); ok {
						for i, l := range as.Lhs {
							if kit.ObjOf(f.Info(), l) == o && i < len(as.Rhs) {
								n++
								if isIDConcat(f, as.Rhs[i]) {
									found = true
								} else if call, ok := ast.Unparen(as.Rhs[i]).(*ast.CallExpr); ok {
									if cf := f.CalleeFunc(call); cf != nil && idFuncs[cf] {
										found = true
									}
								}
							}
						}
					}
					return true
				})
				return found && n == 1
			}
			return false
		}
		for _, f := range funcs {
			if f.Body == nil {
				continue
			}
			info := f.Info()
			ast.Inspect(f.Body, func(n ast.Node) bool {
				if _, ok := n.(*ast.FuncLit); ok && n != f.Node() {
					return false
				}
				switch x := n.(type) {
				case *ast.IndexExpr:
					if _, ok := info.TypeOf(x.X).Underlying().(*types.Map); ok {
						examined++
						if isIDString(f, x.Index) {
							hits = append(hits, hit{f, x})
						}
					}
				case *ast.BinaryExpr:
					if x.Op == token.EQL || x.Op == token.NEQ {
						if isIDString(f, x.X) || isIDString(f, x.Y) {
							hits = append(hits, hit{f, x})
						}
					}
				}
				return true
			})
		}
	}
	o := r7.Ob(nil, nil, "identity lookups", "no map in packages store/data is keyed by (and no equality compares) a string concatenated from a point's Type and Key")
	if len(hits) > 0 {
		h := hits[0]
		o.Violation("`%s` at %s in %s identifies a point by a string built from Type and Key: distinct identities such as (\"a:b\",\"c\") and (\"a\",\"b:c\") collide, so one identity overwrites or shadows the other", h.f.Str(h.n), h.f.At(h.n), h.f.Name)
	} else {
		o.OK("%d map lookups examined in store and data", examined)
	}
}

func describeFx(p string) string {
	switch p {
	case "":
		return "nothing is written"
	case "id:new+wp:in":
		return "the incoming point is written once as a new row"
	case "id:reuse+wp:in":
		return "the incoming point is written once over the stored row"
	}
	return "effects {" + p + "}"
}

// c01LockStep: the stored-id slice used on the reuse path is appended in the
// same loop body, unconditionally, as the stored-point slice, from the scan
// destinations of one Scan call (id column and point fields).
func c01LockStep(c *kit.Ctx, wl *writerLoop, r3 *kit.Rule) {
	f := wl.f
	anchor := wl.searchAnchor
	if anchor == nil {
		anchor = wl.anchor
	}
	o := r3.Ob(f, anchor, wl.w.Table+": stored ids in lock-step", "ids[j] is the row id scanned with points[j]")
	// two stored rows, exactly one of them older and of the incoming identity: the row
	// written over must be that row, whichever position it has
	for pos := 0; pos < 2; pos++ {
		rows := []mergeRow{{eqType: false, eqKey: false, order: "lt"}, {eqType: false, eqKey: false, order: "lt"}}
		rows[pos] = mergeRow{eqType: true, eqKey: true, order: "lt"}
		out := wl.run(mergeVal{rows: 2, rowsV: rows})
		c.AddValuations(1)
		if out.paths == 0 {
			o.Undecided("no successful path with two stored rows (matching row at position %d)", pos)
			return
		}
		for _, fx := range out.fx {
			switch p := projectFx(fx, "wp:", "id:"); p {
			case "id:reuse+wp:in":
			case "id:wrongrow+wp:in":
				o.Violation("with two stored rows and the matching one at position %d the incoming point is written under the row id of the OTHER row: that row's point is overwritten and the matching row keeps its old value", pos)
				return
			default:
				if strings.Contains(p, "id:other") {
					o.Undecided("with two stored rows (matching row at position %d) the row id handed to the INSERT cannot be traced to a scanned id or a fresh one (%s)", pos, p)
				} else {
					o.Violation("with two stored rows and the matching one at position %d: %s; expected the incoming point written once over the matching row", pos, describeFx(p))
				}
				return
			}
		}
	}
	o.OK("with two stored rows the id bound to the INSERT is the id scanned with the matching row, at either position")
}

// returnsOf lists the result expressions of every return of f that has a result
// per declared result (bare returns of named results are expanded).
func returnsOf(f *kit.Func) [][]ast.Expr {
	var named []ast.Expr
	n := 0
	if f.Type.Results != nil {
		for _, fl := range f.Type.Results.List {
			if len(fl.Names) == 0 {
				n++
			}
			for _, nm := range fl.Names {
				named = append(named, nm)
				n++
			}
		}
	}
	var out [][]ast.Expr
	ast.Inspect(f.Body, func(x ast.Node) bool {
		if _, ok := x.(*ast.FuncLit); ok {
			return false
		}
		if r, ok := x.(*ast.ReturnStmt); ok {
			switch {
			case len(r.Results) == n && n > 0:
				out = append(out, r.Results)
			case len(r.Results) == 0 && len(named) == n && n > 0:
				out = append(out, named)
			}
		}
		return true
	})
	return out
}

type scanRef struct {
	f    *kit.Func
	call *ast.CallExpr
}

// scansOn lists the rows.Scan calls executed on the rows value `rows` of f:
// directly, or in a same-package helper that receives it as an argument.
func scansOn(f *kit.Func, rows types.Object, depth int) []scanRef {
	info := f.Info()
	var out []scanRef
	for _, call := range f.AllCalls(false) {
		if kit.CallIs(info, call, "database/sql.(*Rows).Scan") {
			if sel, ok := ast.Unparen(call.Fun).(*ast.SelectorExpr); ok && kit.ObjOf(info, sel.X) == rows {
				out = append(out, scanRef{f, call})
			}
			continue
		}
		if depth >= 2 {
			continue
		}
		for i, a := range call.Args {
			if kit.ObjOf(info, a) != rows {
				continue
			}
			cf := f.CalleeFunc(call)
			if cf == nil || cf.Body == nil || cf.PkgRel() != f.PkgRel() {
				continue
			}
			if ps := cf.Params(); i < len(ps) {
				out = append(out, scansOn(cf, ps[i], depth+1)...)
			}
		}
	}
	return out
}

// varOf returns the variable an expression names (nil for literals, nil, calls).
func varOf(f *kit.Func, e ast.Expr) types.Object {
	if v, ok := kit.ObjOf(f.Info(), e).(*types.Var); ok {
		return v
	}
	return nil
}

// rowPairFrom reports whether id and pt (variables of f) are filled from one
// row: one rows.Scan whose first destination is &id and some destination is
// &pt.<field>.  Returns the Scan call.
func rowPairFrom(f *kit.Func, within ast.Node, id, pt types.Object) (*ast.CallExpr, string) {
	info := f.Info()
	var scan *ast.CallExpr
	ast.Inspect(within, func(n ast.Node) bool {
		if call, ok := n.(*ast.CallExpr); ok && kit.CallIs(info, call, "database/sql.(*Rows).Scan") {
			scan = call
		}
		return true
	})
	if scan == nil || len(scan.Args) == 0 {
		return nil, "none"
	}
	idDest := false
	if u, ok := ast.Unparen(scan.Args[0]).(*ast.UnaryExpr); ok && u.Op == token.AND && kit.ObjOf(info, u.X) == id {
		idDest = true
	}
	ptDest := false
	for _, a := range scan.Args {
		if u, ok := ast.Unparen(a).(*ast.UnaryExpr); ok && u.Op == token.AND {
			if sel, ok := ast.Unparen(u.X).(*ast.SelectorExpr); ok && kit.ObjOf(info, sel.X) == pt {
				ptDest = true
			}
		}
	}
	if !idDest || !ptDest {
		return scan, "mismatch"
	}
	return scan, ""
}

// lockStepIn decides whether the slices pts and ids of f are built so that
// ids[j] is the row id scanned with pts[j].  Accepted constructions:
//   - both appended, unconditionally, in one block whose values come from one
//     rows.Scan (first column -> the id, point fields -> the point) or from one
//     call of a helper that returns such a pair;
//   - both returned by one call of a helper in which the same holds.
//
// Anything else is "undec" (not a violation: the construction is not recognised).
func lockStepIn(c *kit.Ctx, f *kit.Func, pts, ids types.Object, depth int) (kind, msg string) {
	info := f.Info()
	var ptsApp, idsApp *ast.AssignStmt
	var ptsCall, idsCall *ast.AssignStmt
	ast.Inspect(f.Body, func(n ast.Node) bool {
		as, ok := n.(*ast.AssignStmt)
		if !ok || len(as.Rhs) != 1 {
			return true
		}
		call, ok := ast.Unparen(as.Rhs[0]).(*ast.CallExpr)
		if !ok {
			return true
		}
		if b, ok := kit.Callee(info, call).(*types.Builtin); ok && b.Name() == "append" && len(as.Lhs) == 1 {
			switch kit.ObjOf(info, as.Lhs[0]) {
			case pts:
				ptsApp = as
			case ids:
				idsApp = as
			}
			return true
		}
		for _, l := range as.Lhs {
			switch kit.ObjOf(info, l) {
			case pts:
				ptsCall = as
			case ids:
				idsCall = as
			}
		}
		return true
	})
	pos := func(as *ast.AssignStmt, o types.Object) int {
		for i, l := range as.Lhs {
			if kit.ObjOf(info, l) == o {
				return i
			}
		}
		return -1
	}
	switch {
	case ptsApp != nil && idsApp != nil:
		pa, pb := c.P.Parent(f.File, ptsApp), c.P.Parent(f.File, idsApp)
		if pa != pb {
			return "viol", "stored points and stored ids are appended in different blocks (" + f.At(ptsApp) + " vs " + f.At(idsApp) + "): indices can diverge"
		}
		pcall := ast.Unparen(ptsApp.Rhs[0]).(*ast.CallExpr)
		icall := ast.Unparen(idsApp.Rhs[0]).(*ast.CallExpr)
		if len(pcall.Args) != 2 || len(icall.Args) != 2 {
			return "undec", "stored points / ids are appended several at a time"
		}
		pv, iv := kit.ObjOf(info, pcall.Args[1]), kit.ObjOf(info, icall.Args[1])
		if pv == nil || iv == nil {
			return "undec", "the appended values are not plain variables (`" + f.Str(pcall.Args[1]) + "`, `" + f.Str(icall.Args[1]) + "`)"
		}
		scan, why := rowPairFrom(f, pa, iv, pv)
		switch why {
		case "":
			return "ok", "append(" + f.Str(pcall.Args[0]) + ") and append(" + f.Str(icall.Args[0]) + ") in one block after " + f.At(scan)
		case "mismatch":
			return "viol", "the id appended to the stored ids is not the first (id) column scanned together with the appended point"
		}
		// a helper that returns the pair
		var prod *ast.AssignStmt
		if blk, ok := pa.(*ast.BlockStmt); ok {
			for _, st := range blk.List {
				if as, ok := st.(*ast.AssignStmt); ok && len(as.Rhs) == 1 && pos(as, iv) >= 0 && pos(as, pv) >= 0 {
					prod = as
				}
			}
		}
		if prod == nil {
			return "undec", "no rows.Scan and no helper call producing both `" + iv.Name() + "` and `" + pv.Name() + "` in the block that appends the stored points"
		}
		call, _ := ast.Unparen(prod.Rhs[0]).(*ast.CallExpr)
		var h *kit.Func
		if call != nil {
			h = f.CalleeFunc(call)
		}
		if h == nil || h.Body == nil || depth > 2 {
			return "undec", "`" + f.Str(prod.Rhs[0]) + "` produces the id and the point; its body is not available"
		}
		c.Analysed(h)
		ii, pi := pos(prod, iv), pos(prod, pv)
		n := 0
		for _, rs := range returnsOf(h) {
			ro, po := varOf(h, rs[ii]), varOf(h, rs[pi])
			if ro == nil || po == nil {
				continue // zero values on an error return
			}
			hscan, why := rowPairFrom(h, h.Body, ro, po)
			switch why {
			case "none":
				return "undec", "helper " + h.Name + " returns an id and a point that do not come from a rows.Scan in it"
			case "mismatch":
				return "viol", "helper " + h.Name + " returns as row id a value that is not the first (id) column scanned together with the returned point (" + h.At(hscan) + ")"
			}
			n++
		}
		if n == 0 {
			return "undec", "helper " + h.Name + ": no return of an (id, point) pair found"
		}
		return "ok", "append(" + f.Str(pcall.Args[0]) + ") and append(" + f.Str(icall.Args[0]) + ") in one block from one call of " + h.Name + " (id column and point of one row)"
	case ptsApp == nil && idsApp == nil && ptsCall != nil && ptsCall == idsCall:
		call, _ := ast.Unparen(ptsCall.Rhs[0]).(*ast.CallExpr)
		var h *kit.Func
		if call != nil {
			h = f.CalleeFunc(call)
		}
		if h == nil || h.Body == nil || depth > 2 {
			return "undec", "`" + f.Str(ptsCall.Rhs[0]) + "` returns the stored points and ids; its body is not available"
		}
		c.Analysed(h)
		pi, ii := pos(ptsCall, pts), pos(ptsCall, ids)
		n := 0
		desc := ""
		for _, rs := range returnsOf(h) {
			po, io := varOf(h, rs[pi]), varOf(h, rs[ii])
			if po == nil || io == nil {
				continue // nil, nil on an error return
			}
			k, m := lockStepIn(c, h, po, io, depth+1)
			if k != "ok" {
				return k, "in helper " + h.Name + ": " + m
			}
			desc = m
			n++
		}
		if n == 0 {
			return "undec", "helper " + h.Name + ": no return of the two slices found"
		}
		return "ok", "both returned by " + h.Name + ": " + desc
	}
	return "undec", "stored points / stored ids are not built by a recognised construction (appends in one block, or one helper call returning both)"
}

func migrationKeyConst(m *storeModel) string {
	for _, s := range m.sql.Sites {
		for _, st := range s.Stmts {
			if st.Verb == "UPDATE" && (st.Table == "node_points" || st.Table == "edge_points") && contains(st.Cols, "key") && contains(st.Where, "key") {
				// UPDATE t SET key = '0' WHERE key = ''
				raw := st.Raw
				i := strings.Index(strings.ToUpper(raw), "SET")
				j := strings.Index(strings.ToUpper(raw), "WHERE")
				if i >= 0 && j > i {
					seg := raw[i:j]
					if a := strings.Index(seg, "'"); a >= 0 {
						if b := strings.Index(seg[a+1:], "'"); b >= 0 {
							return seg[a+1 : a+1+b]
						}
					}
				}
			}
		}
	}
	return ""
}

type collapseInfo struct {
	f         *kit.Func
	normConst string
}

var collapseCache *collapseInfo

// collapseModel finds the de-duplication method of data.Points: pointer
// receiver, reassigns *recv, builds a map from the elements.
func collapseModel(c *kit.Ctx) *collapseInfo {
	for _, f := range c.P.Funcs("data") {
		if f.Decl == nil || f.Decl.Recv == nil || f.Body == nil {
			continue
		}
		recvT := f.Info().TypeOf(f.Decl.Recv.List[0].Type)
		if _, isPtr := recvT.(*types.Pointer); !isPtr || !kit.IsNamedType(recvT, dataPkg, "Points") {
			continue
		}
		hasMap, reassign := false, false
		ast.Inspect(f.Body, func(n ast.Node) bool {
			switch x := n.(type) {
			case *ast.CallExpr:
				if b, ok := kit.Callee(f.Info(), x).(*types.Builtin); ok && b.Name() == "make" && len(x.Args) > 0 {
					if _, ok := f.Info().TypeOf(x.Args[0]).Underlying().(*types.Map); ok {
						hasMap = true
					}
				}
			case *ast.AssignStmt:
				for _, l := range x.Lhs {
					if st, ok := ast.Unparen(l).(*ast.StarExpr); ok && len(f.Decl.Recv.List[0].Names) > 0 &&
						kit.ObjOf(f.Info(), st.X) == f.Info().Defs[f.Decl.Recv.List[0].Names[0]] {
						reassign = true
					}
				}
			}
			return true
		})
		if hasMap && reassign {
			ci := &collapseInfo{f: f}
			// normalisation constant: if X == "" { X = C }
			ast.Inspect(f.Body, func(n ast.Node) bool {
				is, ok := n.(*ast.IfStmt)
				if !ok {
					return true
				}
				a, b, op, okc := kit.CmpAtom(is.Cond)
				if !okc || op != token.EQL {
					return true
				}
				if s, ok := kit.ConstString(f.Info(), b); !ok || s != "" {
					return true
				}
				for _, st := range is.Body.List {
					if as, ok := st.(*ast.AssignStmt); ok && len(as.Lhs) == 1 && kit.SameExpr(f.Info(), as.Lhs[0], a) {
						if cst, ok := kit.ConstString(f.Info(), as.Rhs[0]); ok {
							ci.normConst = cst
						}
					}
				}
				return true
			})
			return ci
		}
	}
	return nil
}

// collapseKeyEval evaluates, for an element with an empty key and for one with a
// set key, what the key of the first map lookup of the de-duplication loop is made
// of: each component of the key is the element's Type ("T"), its raw Key ("K"), a
// constant ("C:<v>") or something else ("?").  The key may be a composite literal,
// a struct local patched afterwards, or the result of a helper (p.identity()).
func collapseKeyEval(c *kit.Ctx, cf *kit.Func, loop *ast.RangeStmt, elem types.Object, firstIndex *ast.IndexExpr) (kind, msg, normC string) {
	info := cf.Info()
	results := map[bool][]string{}
	for _, kempty := range []bool{false, true} {
		st := &kit.Std{F: cf}
		st.ShouldInline = func(f *kit.Func, call *ast.CallExpr) bool { return true }
		isElem := func(e ast.Expr) bool {
			e = ast.Unparen(st.Resolve(e))
			if u, ok := e.(*ast.UnaryExpr); ok && u.Op == token.AND {
				e = ast.Unparen(st.Resolve(u.X))
			}
			if sx, ok := e.(*ast.StarExpr); ok {
				e = ast.Unparen(st.Resolve(sx.X))
			}
			return kit.ObjOf(info, e) == elem
		}
		// valOf: what a string expression holds
		var valOf func(e ast.Expr, s kit.S) string
		valOf = func(e ast.Expr, s kit.S) string {
			e = ast.Unparen(st.Resolve(e))
			if cs, ok := kit.ConstString(info, e); ok {
				return "C:" + cs
			}
			switch x := e.(type) {
			case *ast.SelectorExpr:
				if isElem(x.X) {
					switch x.Sel.Name {
					case "Type":
						return "T"
					case "Key":
						if s.Has("ek") {
							return s.Get("ek")
						}
						return "K"
					}
					return "?"
				}
				if o := kit.ObjOf(info, ast.Unparen(st.Resolve(x.X))); o != nil && s.Has("f:"+kit.VarID(o)+"."+x.Sel.Name) {
					return s.Get("f:" + kit.VarID(o) + "." + x.Sel.Name)
				}
			case *ast.Ident:
				if o := kit.ObjOf(info, x); o != nil && s.Has("sv:"+kit.VarID(o)) {
					return s.Get("sv:" + kit.VarID(o))
				}
			}
			return "?"
		}
		// structVal: the components of a struct-valued expression, "name=value" per field
		var structVal func(e ast.Expr, s kit.S) ([]string, bool)
		structVal = func(e ast.Expr, s kit.S) ([]string, bool) {
			e = ast.Unparen(st.Resolve(e))
			switch x := e.(type) {
			case *ast.CompositeLit:
				stt, ok := info.TypeOf(x).Underlying().(*types.Struct)
				if !ok {
					if at, ok := info.TypeOf(x).Underlying().(*types.Array); ok {
						_ = at
						var out []string
						for i, el := range x.Elts {
							out = append(out, strconv.Itoa(i)+"="+valOf(el, s))
						}
						return out, true
					}
					return nil, false
				}
				vals := map[string]string{}
				for i := 0; i < stt.NumFields(); i++ {
					vals[stt.Field(i).Name()] = "C:"
				}
				for i, el := range x.Elts {
					if kv, ok := el.(*ast.KeyValueExpr); ok {
						if id, ok := kv.Key.(*ast.Ident); ok {
							vals[id.Name] = valOf(kv.Value, s)
						}
					} else if i < stt.NumFields() {
						vals[stt.Field(i).Name()] = valOf(el, s)
					}
				}
				var out []string
				for i := 0; i < stt.NumFields(); i++ {
					out = append(out, stt.Field(i).Name()+"="+vals[stt.Field(i).Name()])
				}
				return out, true
			case *ast.Ident:
				o := kit.ObjOf(info, x)
				if o == nil {
					return nil, false
				}
				var out []string
				pre := "f:" + kit.VarID(o) + "."
				for _, k := range s.Keys() {
					if strings.HasPrefix(k, pre) {
						out = append(out, k[len(pre):]+"="+s.Get(k))
					}
				}
				sort.Strings(out)
				return out, len(out) > 0
			case *ast.CallExpr:
				if r := s.Get("ret:" + strconv.Itoa(int(x.Pos()))); r != "" {
					return strings.Split(r, "\x00"), true
				}
			}
			return nil, false
		}
		st.Eval.Atom = func(e ast.Expr) (string, bool, bool) {
			// elem.Key == "" / len(elem.Key) == 0
			a, b, op, ok := kit.CmpAtom(e)
			if !ok || (op != token.EQL && op != token.NEQ) {
				return "", false, false
			}
			isKey := func(x ast.Expr) bool {
				sel, ok := ast.Unparen(st.Resolve(x)).(*ast.SelectorExpr)
				return ok && sel.Sel.Name == "Key" && isElem(sel.X)
			}
			isLenKey := func(x ast.Expr) bool {
				call, ok := ast.Unparen(x).(*ast.CallExpr)
				if !ok || len(call.Args) != 1 {
					return false
				}
				bi, ok := kit.Callee(info, call).(*types.Builtin)
				return ok && bi.Name() == "len" && isKey(call.Args[0])
			}
			isEmpty := func(x ast.Expr) bool { cs, ok := kit.ConstString(info, x); return ok && cs == "" }
			isZero := func(x ast.Expr) bool { v, ok := kit.ConstInt(info, x); return ok && v == 0 }
			if (isKey(a) && isEmpty(b)) || (isKey(b) && isEmpty(a)) || (isLenKey(a) && isZero(b)) || (isLenKey(b) && isZero(a)) {
				return "kempty", op == token.NEQ, true
			}
			return "", false, false
		}
		// `id.key == ""` on a tracked component follows what the component holds
		st.Fold = func(e ast.Expr, s kit.S) (bool, bool) {
			a, b, op, ok := kit.CmpAtom(e)
			if !ok || (op != token.EQL && op != token.NEQ) {
				return false, false
			}
			for _, pr := range [][2]ast.Expr{{a, b}, {b, a}} {
				cs, isC := kit.ConstString(info, pr[1])
				if !isC || cs != "" {
					continue
				}
				if sel, isSel := ast.Unparen(st.Resolve(pr[0])).(*ast.SelectorExpr); isSel && isElem(sel.X) {
					continue // the element's own key: the rule's atom
				}
				switch v := valOf(pr[0], s); {
				case v == "K":
					return kempty == (op == token.EQL), true
				case strings.HasPrefix(v, "C:"):
					return (v == "C:") == (op == token.EQL), true
				}
			}
			return false, false
		}
		var seen [][]string
		st.OnNode = func(n ast.Node, s kit.S) []kit.S {
			if s.Get("it") != "1" {
				return []kit.S{s}
			}
			switch x := n.(type) {
			case *ast.ReturnStmt:
				if st.Cur() != cf && len(x.Results) == 1 {
					if comps, ok := structVal(x.Results[0], s); ok {
						// keyed by the call being evaluated
						return []kit.S{s.Set("retv", strings.Join(comps, "\x00"))}
					}
					return []kit.S{s.Del("retv")}
				}
			case *ast.AssignStmt:
				if len(x.Lhs) == len(x.Rhs) {
					for i, l := range x.Lhs {
						l = ast.Unparen(l)
						// elem.Key = "0" (normalising the element itself)
						if sel, ok := l.(*ast.SelectorExpr); ok {
							if isElem(sel.X) && sel.Sel.Name == "Key" {
								s = s.Set("ek", valOf(x.Rhs[i], s))
								continue
							}
							if o := kit.ObjOf(info, ast.Unparen(st.Resolve(sel.X))); o != nil {
								if _, isStr := info.TypeOf(sel).Underlying().(*types.Basic); isStr {
									s = s.Set("f:"+kit.VarID(o)+"."+sel.Sel.Name, valOf(x.Rhs[i], s))
								}
							}
							continue
						}
						o := kit.ObjOf(info, l)
						if o == nil {
							continue
						}
						if call, ok := ast.Unparen(x.Rhs[i]).(*ast.CallExpr); ok && s.Has("retv") && st.Cur().CalleeFunc(call) != nil {
							for _, kv := range strings.Split(s.Get("retv"), "\x00") {
								if j := strings.Index(kv, "="); j > 0 {
									s = s.Set("f:"+kit.VarID(o)+"."+kv[:j], kv[j+1:])
								}
							}
							s = s.Del("retv")
							continue
						}
						if comps, ok := structVal(x.Rhs[i], s); ok {
							for _, kv := range comps {
								if j := strings.Index(kv, "="); j > 0 {
									s = s.Set("f:"+kit.VarID(o)+"."+kv[:j], kv[j+1:])
								}
							}
							continue
						}
						if b, ok := o.Type().Underlying().(*types.Basic); ok && b.Kind() == types.String {
							s = s.Set("sv:"+kit.VarID(o), valOf(x.Rhs[i], s))
						}
					}
				}
			}
			if st.Cur() == cf && n.Pos() <= firstIndex.Pos() && firstIndex.End() <= n.End() {
				key := firstIndex.Index
				if call, ok := ast.Unparen(key).(*ast.CallExpr); ok && s.Has("retv") && cf.CalleeFunc(call) != nil {
					seen = append(seen, strings.Split(s.Get("retv"), "\x00"))
				} else if comps, ok := structVal(key, s); ok {
					seen = append(seen, comps)
				} else {
					seen = append(seen, []string{"?"})
				}
			}
			return []kit.S{s}
		}
		st.OnBranch = func(br kit.Branch, s kit.S) (t, fl []kit.S, handled bool) {
			if br.Kind == kit.BrRange && br.Range == loop {
				if !s.Has("it") {
					return []kit.S{s.Set("it", "1")}, nil, true
				}
				return nil, []kit.S{s.Set("it", "done")}, true
			}
			return nil, nil, false
		}
		c.P.Graph(cf).Run(kit.NewS().Set("a:kempty", tbool(kempty)), st.Client())
		c.AddValuations(1)
		if len(seen) == 0 {
			return "undec", "the first map lookup of the de-duplication loop is not reached", ""
		}
		// all observations must agree
		vals := map[string]bool{}
		for _, comps := range seen {
			var vs []string
			for _, kv := range comps {
				if j := strings.Index(kv, "="); j >= 0 {
					vs = append(vs, kv[j+1:])
				} else {
					vs = append(vs, kv)
				}
			}
			sort.Strings(vs)
			vals[strings.Join(vs, " ")] = true
		}
		if len(vals) != 1 {
			return "undec", "the identity key is built differently on different paths", ""
		}
		for v := range vals {
			results[kempty] = strings.Fields(v)
		}
	}
	has := func(l []string, v string) bool { return contains(l, v) }
	set, empty := results[false], results[true]
	for _, l := range [][]string{set, empty} {
		if has(l, "?") {
			return "undec", "the identity key has a component the checker cannot trace to the element's Type/Key (" + strings.Join(l, ", ") + ")", ""
		}
	}
	if !has(set, "T") || !has(set, "K") || !has(empty, "T") {
		return "viol", "the identity key is not built from both the element's Type and Key", ""
	}
	for _, v := range empty {
		if strings.HasPrefix(v, "C:") && v != "C:" {
			normC = v[2:]
		}
	}
	if normC == "" || has(empty, "K") {
		return "viol", "the key component is not normalised (\"\" -> canonical constant) before the map lookup: keys \"\" and the canonical key of one batch stay two points and become two rows", ""
	}
	return "ok", "Type and Key components, key normalised to \"" + normC + "\" before the lookup", normC
}

func c01Collapse(c *kit.Ctx, m *storeModel, r5 *kit.Rule) {
	ci := collapseModel(c)
	if ci == nil {
		c.Fatalf("R5: in-batch de-duplication method of *data.Points (map-based, reassigns *recv) not found")
	}
	cf := ci.f
	c.Analysed(cf)
	info := cf.Info()
	// (i) called on the batch on every path before the merge loop / Begin
	for _, w := range m.writers {
		if w.Begin == nil {
			r5.Ob(w.F, nil, w.Table+": de-duplication before merge", "the batch is de-duplicated on every path before the transaction begins").
				Undecided("the call that begins the transaction of %s is not found (not db.Begin and not a recognised opener)", w.F.Name)
			continue
		}
		o := r5.Ob(w.F, w.Begin, w.Table+": de-duplication before merge", "the batch is de-duplicated on every path before the transaction begins")
		// evaluated from the function the handlers call (the writer, or a wrapper that
		// de-duplicates and then hands the batch, or slices of it, to the writer)
		f := w.Entry
		st := &kit.Std{F: f}
		st.ShouldInline = func(g *kit.Func, call *ast.CallExpr) bool { return f != w.F && g == w.F }
		missing := false
		st.OnCall = func(call *ast.CallExpr, n ast.Node, s kit.S) []kit.S {
			if st.Cur().CalleeFunc(call) == cf {
				if sel, ok := ast.Unparen(call.Fun).(*ast.SelectorExpr); ok {
					root := rootIdent(st.Resolve(sel.X))
					if o := kit.ObjOf(f.Info(), root); root != nil && (o == types.Object(w.EntryBatch) || o == types.Object(w.Batch)) {
						return []kit.S{s.Set("col", "1")}
					}
				}
			}
			if call == w.Begin && s.Get("col") != "1" {
				missing = true
			}
			return nil
		}
		res := c.P.Graph(f).Run(kit.NewS(), st.Client())
		if res.Overflow {
			c.Fatalf("R5 overflow")
		}
		if missing {
			o.Violation("Begin is reachable without %s having been called on the batch: two points of one identity in a batch both reach the merge loop and produce two rows", cf.Name)
		} else {
			o.OK("%s dominates Begin", cf.Name)
		}
	}
	// (ii) map key type
	var mapVar types.Object
	var mapType *types.Map
	ast.Inspect(cf.Body, func(n ast.Node) bool {
		as, ok := n.(*ast.AssignStmt)
		if !ok || len(as.Lhs) != 1 || len(as.Rhs) != 1 {
			return true
		}
		if call, ok := ast.Unparen(as.Rhs[0]).(*ast.CallExpr); ok {
			if b, ok := kit.Callee(info, call).(*types.Builtin); ok && b.Name() == "make" {
				if mt, ok := info.TypeOf(call.Args[0]).Underlying().(*types.Map); ok {
					mapVar, mapType = kit.ObjOf(info, as.Lhs[0]), mt
				}
			}
		}
		return true
	})
	oKey := r5.Ob(cf, nil, "identity map key", "the map key is an injective structure over type and key")
	if mapType == nil {
		oKey.Undecided("map not found")
		return
	}
	nstr := 0
	switch kt := mapType.Key().Underlying().(type) {
	case *types.Struct:
		for i := 0; i < kt.NumFields(); i++ {
			if b, ok := kt.Field(i).Type().Underlying().(*types.Basic); ok && b.Kind() == types.String {
				nstr++
			}
		}
	case *types.Array:
		if b, ok := kt.Elem().Underlying().(*types.Basic); ok && b.Kind() == types.String {
			nstr = int(kt.Len())
		}
	}
	if nstr < 2 {
		oKey.Violation("points are de-duplicated on a key of type %s: concatenating type and key is not injective (\"ab\"+\"\" = \"a\"+\"b\"), distinct identities collapse", mapType.Key().String())
	} else {
		oKey.OK("key type %s", mapType.Key().String())
	}
	// the range loop over *recv and its element
	var loop *ast.RangeStmt
	// the batch: *recv, or a local defined once as *recv
	isBatchExpr := func(x ast.Expr) bool {
		if _, ok := ast.Unparen(x).(*ast.StarExpr); ok {
			return true
		}
		if o := kit.ObjOf(info, x); o != nil {
			n := 0
			isStar := false
			ast.Inspect(cf.Body, func(y ast.Node) bool {
				if as, ok := y.(*ast.AssignStmt); ok && len(as.Lhs) == len(as.Rhs) {
					for i, l := range as.Lhs {
						if kit.ObjOf(info, l) == o {
							n++
							_, isStar = ast.Unparen(as.Rhs[i]).(*ast.StarExpr)
						}
					}
				}
				return true
			})
			return n == 1 && isStar
		}
		return false
	}
	for _, rs := range cf.SliceLoops(cf.Body) {
		if isBatchExpr(rs.X) && loop == nil && kit.LoopElemVar(info, rs) != nil {
			loop = rs
		}
	}
	if loop == nil {
		r5.Ob(cf, nil, "de-duplication loop", "loop over the batch").Undecided("no range over *recv")
		return
	}
	elem := kit.LoopElemVar(info, loop)
	// (iii) key components: type from elem.Type, key from elem.Key, key normalised before first map index
	oComp := r5.Ob(cf, loop, "identity components", "the map key is built from the element's Type and Key, the key component normalised before the lookup")
	var firstIndex *ast.IndexExpr
	ast.Inspect(loop.Body, func(n ast.Node) bool {
		if ix, ok := n.(*ast.IndexExpr); ok && kit.ObjOf(info, ix.X) == mapVar && firstIndex == nil {
			firstIndex = ix
		}
		return true
	})
	if firstIndex == nil {
		oComp.Undecided("no map lookup in the loop")
		return
	}
	kind, msg, normC := collapseKeyEval(c, cf, loop, elem, firstIndex)
	if normC != "" {
		ci.normConst = normC
	}
	switch kind {
	case "ok":
		oComp.OK("%s", msg)
	case "viol":
		oComp.Violation("%s", msg)
	default:
		oComp.Undecided("%s", msg)
	}
	// (iv) keep-newest truth table
	var existing types.Object
	var found types.Object
	ast.Inspect(loop.Body, func(n ast.Node) bool {
		if as, ok := n.(*ast.AssignStmt); ok && len(as.Lhs) == 2 && len(as.Rhs) == 1 {
			if ix, ok := ast.Unparen(as.Rhs[0]).(*ast.IndexExpr); ok && kit.ObjOf(info, ix.X) == mapVar {
				existing, found = kit.ObjOf(info, as.Lhs[0]), kit.ObjOf(info, as.Lhs[1])
			}
		}
		return true
	})
	if existing == nil {
		r5.Ob(cf, loop, "keep newest", "comma-ok lookup").Undecided("no `v, ok := m[k]` lookup")
		return
	}
	// single-definition locals are looked through (keptTime := in[kept].Time)
	localDef := func(e ast.Expr) ast.Expr {
		for d := 0; d < 2; d++ {
			o := kit.ObjOf(info, e)
			if o == nil {
				return e
			}
			var def ast.Expr
			n := 0
			ast.Inspect(cf.Body, func(y ast.Node) bool {
				if as, ok := y.(*ast.AssignStmt); ok && len(as.Lhs) == len(as.Rhs) {
					for i, l := range as.Lhs {
						if kit.ObjOf(info, l) == o {
							n++
							def = as.Rhs[i]
						}
					}
				}
				return true
			})
			if n != 1 || def == nil {
				return e
			}
			e = def
		}
		return e
	}
	// a map of indices into a result list built next to it (`kept[id] = len(out); out =
	// append(out, p)` / `out[i] = p`): the list the current element is appended to
	var resultList types.Object
	ast.Inspect(loop.Body, func(n ast.Node) bool {
		if as, ok := n.(*ast.AssignStmt); ok && len(as.Lhs) == 1 && len(as.Rhs) == 1 {
			if call, ok := ast.Unparen(as.Rhs[0]).(*ast.CallExpr); ok && len(call.Args) == 2 {
				if b, ok := kit.Callee(info, call).(*types.Builtin); ok && b.Name() == "append" {
					lo := kit.ObjOf(info, as.Lhs[0])
					if lo != nil && lo == kit.ObjOf(info, call.Args[0]) && lo != mapVar && (kit.ObjOf(info, call.Args[1]) == elem || kit.LoopElem(info, loop, call.Args[1])) {
						resultList = lo
					}
				}
			}
		}
		return true
	})
	// isWho: e denotes the held entry (the comma-ok value, or the batch element at the held index) / the current element
	isWho := func(e ast.Expr, who types.Object) bool {
		e = ast.Unparen(e)
		if kit.ObjOf(info, e) == who {
			return true
		}
		if who == elem && kit.LoopElem(info, loop, e) {
			return true
		}
		if ix, ok := e.(*ast.IndexExpr); ok && who == existing && kit.ObjOf(info, ix.Index) == existing && (kit.SameExpr(info, ix.X, loop.X) || (resultList != nil && kit.ObjOf(info, ix.X) == resultList)) {
			return true
		}
		return false
	}
	timeOf := func(e ast.Expr, who types.Object) bool {
		e = ast.Unparen(e)
		if _, isSel := e.(*ast.SelectorExpr); !isSel {
			e = ast.Unparen(localDef(e))
		}
		sel, ok := e.(*ast.SelectorExpr)
		return ok && sel.Sel.Name == "Time" && isWho(sel.X, who)
	}
	for _, val := range []struct {
		found bool
		order string
	}{{false, ""}, {true, "lt"}, {true, "eq"}, {true, "gt"}} {
		st := &kit.Std{F: cf}
		st.Eval.Atom = func(e ast.Expr) (string, bool, bool) {
			if kit.ObjOf(info, e) == found {
				return "found", false, true
			}
			if call, ok := ast.Unparen(e).(*ast.CallExpr); ok && len(call.Args) == 1 {
				if sel, ok := ast.Unparen(call.Fun).(*ast.SelectorExpr); ok {
					ex := timeOf(sel.X, existing) && timeOf(call.Args[0], elem)
					nw := timeOf(sel.X, elem) && timeOf(call.Args[0], existing)
					if ex || nw {
						switch kit.QualName(kit.Callee(info, call)) {
						case "time.(Time).Before":
							if ex {
								return "lt", false, true
							}
							return "gt", false, true
						case "time.(Time).After":
							if ex {
								return "gt", false, true
							}
							return "lt", false, true
						case "time.(Time).Equal":
							return "eq", false, true
						}
					}
				}
			}
			return "", false, false
		}
		st.OnNode = func(n ast.Node, s kit.S) []kit.S {
			if as, ok := n.(*ast.AssignStmt); ok && len(as.Lhs) == 1 && s.Get("it") == "1" {
				if ix, ok := ast.Unparen(as.Lhs[0]).(*ast.IndexExpr); ok && kit.ObjOf(info, ix.X) == mapVar {
					// the element itself, or (for a map of indices) the element's index
					if kit.ObjOf(info, as.Rhs[0]) == elem || (loop.Key != nil && kit.ObjOf(info, as.Rhs[0]) != nil && kit.ObjOf(info, as.Rhs[0]) == kit.ObjOf(info, loop.Key)) {
						return []kit.S{s.Set("store", "1")}
					}
					// the position the element is about to take in the result list
					if call, ok := ast.Unparen(as.Rhs[0]).(*ast.CallExpr); ok && len(call.Args) == 1 && resultList != nil {
						if b, ok := kit.Callee(info, call).(*types.Builtin); ok && b.Name() == "len" && kit.ObjOf(info, call.Args[0]) == resultList {
							return []kit.S{s.Set("store", "idx")}
						}
					}
					return []kit.S{s.Set("store", "other")}
				}
				if resultList != nil {
					// out = append(out, p) completes the index store; out[i] = p replaces the held entry
					if kit.ObjOf(info, as.Lhs[0]) == resultList && s.Get("store") == "idx" {
						return []kit.S{s.Set("store", "1")}
					}
					if ix, ok := ast.Unparen(as.Lhs[0]).(*ast.IndexExpr); ok && kit.ObjOf(info, ix.X) == resultList && kit.ObjOf(info, ix.Index) == existing &&
						(kit.ObjOf(info, as.Rhs[0]) == elem || kit.LoopElem(info, loop, as.Rhs[0])) {
						return []kit.S{s.Set("store", "1")}
					}
				}
			}
			return []kit.S{s}
		}
		st.OnBranch = func(br kit.Branch, s kit.S) (t, fl []kit.S, handled bool) {
			if br.Kind == kit.BrRange && br.Range == loop {
				if !s.Has("it") {
					return []kit.S{s.Set("it", "1")}, nil, true
				}
				return nil, []kit.S{s.Set("it", "done")}, true
			}
			return nil, nil, false
		}
		init := kit.NewS().Set("a:found", tbool(val.found))
		if val.found {
			init = init.Set("a:lt", tbool(val.order == "lt")).Set("a:eq", tbool(val.order == "eq")).Set("a:gt", tbool(val.order == "gt"))
		}
		// the early `len(*ps) <= 1` return is a legitimate exit: only look at paths that ran the loop
		res := c.P.Graph(cf).Run(init, st.Client())
		c.AddValuations(1)
		outs := map[string]bool{}
		for _, e := range res.Exits {
			if e.State.Get("it") == "done" {
				k := e.State.Get("store")
				if k == "idx" {
					k = "other"
				}
				outs[k] = true
			}
		}
		name := "first of its identity"
		if val.found {
			name = "existing " + map[string]string{"lt": "older than", "eq": "same time as", "gt": "newer than"}[val.order] + " new"
		}
		o := r5.Ob(cf, loop, "keep newest: "+name, "replace iff the new point is not older")
		var want []string
		switch {
		case !val.found, val.order == "lt":
			want = []string{"1"}
		case val.order == "gt":
			want = []string{""}
		default:
			want = []string{"", "1"}
		}
		bad, isBad := "", false
		for k := range outs {
			if !contains(want, k) {
				bad, isBad = k, true
			}
		}
		switch {
		case len(outs) == 0:
			o.Undecided("loop not traversed")
		case isBad:
			o.Violation("%s: the map entry is %s (expected %s)", name, map[string]string{"": "kept", "1": "replaced by the new point", "other": "set to something else"}[bad],
				map[string]string{"": "kept", "1": "replaced"}[want[0]])
		default:
			o.OK("%s", map[string]string{"": "kept", "1": "replaced"}[want[len(want)-1]])
		}
	}
}

// c01SQL: column-by-column agreement.
func c01SQL(c *kit.Ctx, m *storeModel, r6 *kit.Rule) {
	pointFields := map[string]string{"type": "Type", "key": "Key", "time": "Time", "value": "Value", "text": "Text", "data": "Data", "tombstone": "Tombstone", "origin": "Origin"}
	// every field of data.Point that the store persists must have a column
	for _, tbl := range []string{"node_points", "edge_points"} {
		cols := m.sql.Tables[tbl]
		o := r6.Ob(nil, nil, tbl+": table definition", "CREATE TABLE has a column for every persisted field of data.Point")
		if len(cols) == 0 {
			o.Undecided("CREATE TABLE %s not found", tbl)
			continue
		}
		missing := ""
		for col := range pointFields {
			if !contains(cols, col) {
				missing = col
			}
		}
		if missing != "" {
			o.Violation("table %s has no column %q", tbl, missing)
		} else {
			o.OK("%v", cols)
		}
	}
	// readers: Scan calls fed by SELECT * FROM <points table>
	readers := 0
	for _, s := range m.sql.Sites {
		if s.Method != "Query" {
			continue
		}
		// (table, reader) bindings: for a wrapper body one per caller that names the table
		type binding struct {
			tbl string
			via *kit.SQLSite
		}
		var binds []binding
		seenB := map[string]bool{}
		addB := func(tbl string, via *kit.SQLSite) {
			k := tbl
			if via != nil {
				k += "@" + via.F.Name
			}
			if !seenB[k] {
				seenB[k] = true
				binds = append(binds, binding{tbl, via})
			}
		}
		if s.QueryParam {
			// wrapper body: tables from its callers
			for _, cs := range m.sql.Sites {
				if cs.Recv == "wrapper" && cs.F.CalleeFunc(cs.Call) == s.F.Root() {
					for _, st := range cs.Stmts {
						if st.Verb == "SELECT" && len(st.Cols) == 1 && st.Cols[0] == "*" {
							addB(st.Table, cs)
						}
					}
				}
			}
		} else {
			for _, st := range s.Stmts {
				if st.Verb == "SELECT" && len(st.Cols) == 1 && st.Cols[0] == "*" {
					addB(st.Table, nil)
				}
			}
		}
		for _, bd := range binds {
			tbl := bd.tbl
			if tbl != "node_points" && tbl != "edge_points" {
				continue
			}
			f := s.F
			info := f.Info()
			as, ok := c.P.Parent(f.File, s.Call).(*ast.AssignStmt)
			if !ok || len(as.Lhs) == 0 {
				continue
			}
			rows := kit.ObjOf(info, as.Lhs[0])
			qf := f
			for _, sc := range scansOn(qf, rows, 0) {
				call := sc.call
				f := sc.f
				info := f.Info()
				readers++
				cols := m.sql.Tables[tbl]
				key := tbl + ": scan in " + f.Name
				if f != qf {
					// a row-scanning helper shared by several readers: one obligation per reader
					key += " for " + qf.Name
				}
				if s.Recv != "tx" || s.QueryParam {
					key += " (" + s.Recv + ")"
				}
				if bd.via != nil {
					key += " called from " + bd.via.F.Name
				}
				// several scans of the same table in one function (merge loop and new-edge branch)
				ord := ""
				if f == qf {
					ord = ordinalOf(f, call, rows)
				} else {
					n := 0
					for _, s2 := range m.sql.Sites {
						if s2.F == qf && s2.Method == "Query" && s2.Call.Pos() < s.Call.Pos() && s2.HasVerb("SELECT", tbl) {
							n++
						}
					}
					if n > 0 {
						ord = " #" + strconv.Itoa(n+1)
					}
				}
				o := r6.Ob(qf, s.Call, key+ord, "SELECT * destinations follow the table's column order and land in the like-named Point field")
				if len(call.Args) != len(cols) {
					o.Violation("Scan has %d destinations, table %s has %d columns", len(call.Args), tbl, len(cols))
					continue
				}
				bad := ""
				for i, col := range cols {
					u, ok := ast.Unparen(call.Args[i]).(*ast.UnaryExpr)
					if !ok || u.Op != token.AND {
						bad = "destination " + strconv.Itoa(i+1) + " is not an address"
						break
					}
					fld, isPt := pointFields[col]
					dsel, isSel := ast.Unparen(u.X).(*ast.SelectorExpr)
					isPointField := isSel && kit.IsNamedType(info.TypeOf(dsel.X), dataPkg, "Point")
					switch {
					case col == "time":
						// local int64 feeding X.Time = time.Unix(0, local)
						lo := kit.ObjOf(info, u.X)
						okT := false
						ast.Inspect(f.Body, func(n ast.Node) bool {
							if a2, ok := n.(*ast.AssignStmt); ok && len(a2.Lhs) == 1 && len(a2.Rhs) == 1 {
								if ls, ok := ast.Unparen(a2.Lhs[0]).(*ast.SelectorExpr); ok && ls.Sel.Name == "Time" {
									if cl, ok := ast.Unparen(a2.Rhs[0]).(*ast.CallExpr); ok && kit.CallIs(info, cl, "time.Unix") && len(cl.Args) == 2 {
										if v, ok := kit.ConstInt(info, cl.Args[0]); ok && v == 0 && kit.ObjOf(info, cl.Args[1]) == lo {
											okT = true
										}
									}
								}
							}
							return true
						})
						if isPointField || !okT {
							bad = "column time is not scanned into an integer that becomes Time through time.Unix(0, ns)"
						}
					case isPt:
						if !isPointField || dsel.Sel.Name != fld {
							bad = "column " + col + " is scanned into `" + f.Str(u.X) + "`, expected field " + fld
						}
					default:
						if isPointField {
							bad = "column " + col + " is scanned into point field `" + f.Str(u.X) + "`"
						}
					}
					if bad != "" {
						break
					}
				}
				if bad != "" {
					o.Violation("%s", bad)
				} else {
					o.OK("%d destinations in column order", len(cols))
				}
			}
		}
	}
	if readers < 4 {
		r6.Ob(nil, nil, "readers", "SELECT * readers of the point tables").Undecided("only %d scans found, floor 4", readers)
	}
	// writers: INSERT column list / args / upsert
	for _, w := range m.writers {
		f := w.F
		_ = f.Info()
		st := w.Exec.Stmts[0]
		cols := st.Cols
		oT := r6.Ob(f, w.Exec.Prepared.Call, w.Table+": INSERT column list", "INSERT names every column of the table")
		tcols := m.sql.Tables[w.Table]
		if strings.Join(sortedCopy(cols), ",") != strings.Join(sortedCopy(tcols), ",") || len(st.Values) != len(cols) {
			oT.Violation("INSERT lists columns %v (values %d), table has %v", cols, len(st.Values), tcols)
		} else {
			oT.OK("%v", cols)
		}
		oA := r6.Ob(f, w.Exec.Call, w.Table+": bound arguments", "argument i is the like-named field of the point being written (time as UnixNano, id from the id slice)")
		if bad, undec := boundArgsProblem(c, m, w, pointFields, nil); bad != "" {
			oA.Violation("%s", bad)
		} else if undec != "" {
			oA.Undecided("%s", undec)
		} else {
			oA.OK("%d arguments in column order", len(cols))
		}
		oU := r6.Ob(f, w.Exec.Prepared.Call, w.Table+": upsert list", "ON CONFLICT DO UPDATE sets every column except the ids to its own placeholder")
		bad := ""
		set := map[string]string{}
		for _, kv := range st.Upsert {
			set[kv[0]] = kv[1]
		}
		for i, col := range cols {
			if col == "id" || col == "node_id" || col == "edge_id" {
				if _, ok := set[col]; ok {
					bad = "upsert rewrites " + col
				}
				continue
			}
			want := "?" + strconv.Itoa(i+1)
			got, ok := set[col]
			switch {
			case !ok:
				bad = "a re-delivered point does not update column " + col + " (missing from DO UPDATE SET)"
			case strings.EqualFold(got, "excluded."+col):
				// the value proposed for insertion: same binding
			case got != want:
				bad = "column " + col + " is updated from " + got + ", expected " + want
			}
		}
		// a guard on the upsert: the strict form differs from the merge only for equal
		// timestamps of different points, which C01 does not quantify over (C03/R9 does)
		_, gundec := upsertGuardProblem(st, w.Table)
		switch {
		case bad != "":
			oU.Violation("%s", bad)
		case gundec != "":
			oU.Undecided("%s", gundec)
		default:
			oU.OK("%d columns", len(st.Upsert))
		}
	}
}

// upsertGuardProblem judges a WHERE on ON CONFLICT DO UPDATE.  Which point wins
// is decided by the merge loop (stored time <= incoming time), and the checksums
// are folded on that decision; a guard in the statement must not decide
// differently.  No guard, or the merge's own condition (`<table>.time <= ?n` /
// `excluded.time >= <table>.time`, n the time placeholder), are fine; the strict
// comparison skips equal-time rewrites; anything else is not compared.
func upsertGuardProblem(st kit.SQLStmt, table string) (bad, undec string) {
	g := st.UpsertWhere
	if len(g) == 0 {
		return "", ""
	}
	timeArg := ""
	for i, col := range st.Cols {
		if col == "time" {
			timeArg = "?" + strconv.Itoa(i+1)
		}
	}
	isStored := func(t string) bool {
		t = strings.ToLower(t)
		return t == table+".time" || t == "time"
	}
	isIncoming := func(t string) bool {
		return strings.EqualFold(t, "excluded.time") || (timeArg != "" && t == timeArg)
	}
	// tokens may be split around the dot: join them
	j := strings.Join(g, "")
	for _, op := range []string{"<=", ">=", "<", ">"} {
		if k := strings.Index(j, op); k > 0 {
			l, r := j[:k], j[k+len(op):]
			if op == ">=" || op == ">" {
				l, r = r, l
				op = map[string]string{">=": "<=", ">": "<"}[op]
			}
			if isStored(l) && isIncoming(r) {
				if op == "<=" {
					return "", ""
				}
				return "the upsert is guarded by `WHERE " + strings.Join(g, " ") + "`, the merge loop writes when the stored time is older OR equal", ""
			}
			break
		}
	}
	return "", "the upsert is guarded by `WHERE " + strings.Join(g, " ") + "`, which cannot be compared with the decision of the merge loop"
}

func sortedCopy(xs []string) []string {
	out := append([]string(nil), xs...)
	for i := range out {
		for j := i + 1; j < len(out); j++ {
			if out[j] < out[i] {
				out[i], out[j] = out[j], out[i]
			}
		}
	}
	return out
}

// ordinalOf distinguishes several Scan calls in one function: " #2" for the
// second scan in source order (of any rows variable).
func ordinalOf(f *kit.Func, call *ast.CallExpr, rows types.Object) string {
	n := 0
	for _, c2 := range f.AllCalls(false) {
		if kit.CallIs(f.Info(), c2, "database/sql.(*Rows).Scan") && len(c2.Args) == len(call.Args) && c2.Pos() < call.Pos() {
			n++
		}
	}
	if n == 0 {
		return ""
	}
	return " #" + strconv.Itoa(n+1)
}

// boundArgsProblem checks that the prepared INSERT binds, column by column,
// the unmodified like-named field of the point being written (time through
// UnixNano).  only restricts the check to the given columns (nil = all).
func boundArgsProblem(c *kit.Ctx, m *storeModel, w *pointWriter, pointFields map[string]string, only map[string]bool) (bad, undecided string) {
	// decided on values: the writer is evaluated symbolically (wsym.go) for an insert,
	// an overwrite and an insert with an empty key; the terms bound to each column
	// are read off at the Exec
	wl := newWriterLoop(c, m, w)
	cols := w.Exec.Stmts[0].Cols
	binds := map[string]map[string]bool{}
	nargs := 0
	// nowSet: the current time is bound although the incoming point carries a time;
	// zeroTest: the writer tests the incoming time for zero in a form the evaluation decides
	nowSet, zeroTest := false, false
	for _, v := range []mergeVal{{rows: 0}, {rows: 1, eqType: true, eqKey: true, order: "lt"}, {rows: 0, kempty: true}, {rows: 0, tzero: true}} {
		out := wl.run(v)
		c.AddValuations(1)
		zeroTest = zeroTest || out.zeroTest
		if !v.tzero && out.binds["time"]["NOW.UnixNano"] {
			nowSet = true
		}
		for col, ts := range out.binds {
			if binds[col] == nil {
				binds[col] = map[string]bool{}
			}
			for t := range ts {
				binds[col][t] = true
			}
		}
		if out.execArgs > nargs {
			nargs = out.execArgs
		}
	}
	if len(binds) == 0 {
		return "", "the prepared INSERT is not reached on a successful path of the symbolic evaluation"
	}
	if nargs != len(cols) {
		return "Exec binds " + strconv.Itoa(nargs) + " arguments for " + strconv.Itoa(len(cols)) + " columns", ""
	}
	if nowSet && only == nil {
		if zeroTest {
			return "column time is bound to the current time although the incoming point carries a time (its time is not the zero value): the delivered timestamp is replaced, so an old point wins over a newer stored one and is read back with a time nobody sent", ""
		}
		undecided = "the current time can be bound to column time on a condition the evaluation cannot relate to the incoming time being unset"
	}
	for _, col := range cols {
		if only != nil && !only[col] {
			continue
		}
		fld, isPt := pointFields[col]
		var terms []string
		for t := range binds[col] {
			terms = append(terms, t)
		}
		sort.Strings(terms)
		for _, t := range terms {
			switch {
			case col == "time":
				if t != "IN.Time.UnixNano" && t != "NOW.UnixNano" {
					if t == "?" {
						undecided = "the value bound to column time cannot be traced"
					} else {
						return "column time is bound to " + t + ", expected <point>.Time.UnixNano() of the written point", ""
					}
				}
			case isPt:
				okT := t == "IN."+fld || (col == "key" && strings.HasPrefix(t, "C:") && t != `C:""`)
				switch {
				case okT:
				case t == "?":
					undecided = "the value bound to column " + col + " cannot be traced to the written point"
				case t == "MODIFIED":
					return "the point's field " + fld + " is modified after the merge decided on (and hashed) the incoming value, before it is bound to column " + col, ""
				default:
					return "column " + col + " is bound to " + t + ", expected the unmodified field " + fld + " of the written point", ""
				}
			case col == "node_id" || col == "edge_id":
				if strings.HasPrefix(t, "IN.") || strings.HasPrefix(t, "DB#") {
					return "column " + col + " is bound to a field of the point (" + t + ")", ""
				}
			}
		}
	}
	return "", undecided
}
