package props

import (
	"fmt"
	"go/ast"
	"go/token"
	"go/types"
	"sort"
	"strings"

	"golang.org/x/tools/go/cfg"

	"siotcheck/kit"
)

func init() {
	kit.Register(&kit.Prop{
		ID:    "C18",
		Title: "The Modbus server answers every request safely and per specification",
		Explanation: "Structural necessary conditions of C18 decided on the request processor of package modbus (DESIGN.md §3/C18): " +
			"R1 in every arm that sizes a buffer or bounds a loop by the request's quantity field, the quantity's interval at each use lies within the protocol limit " +
			"(read bits 1..2000, read registers 1..125, write coils 1..1968, write registers 1..123), the limit values themselves are served, and every out-of-range critical value is answered with exception 3 before any register access; " +
			"R2 every index, slice, byte-order helper call, make size and shift count of the processor and the exception mapper is proved in range from dominating guards " +
			"(table-driven minimum length, quantity limits, byte-count equations, loop bounds; floor-division and wrap-around reasoning), an unproved one is reported with a concrete crashing request when one is found; " +
			"R3 each of the 256 function codes reaches the arm that lists it or the default that answers exception 1, and the mapper builds fc|0x80 + code for an exception and device failure (4) for any other error; " +
			"R4 read arms call no writing provider method, single-write arms perform at most one write and answer its error, and the register file stores a value only under address match and validator success; " +
			"R5 every loop of the processor is a counted loop over a 16-bit quantity. " +
			"Not decided: response byte values for all maps, the aliasing arithmetic of coils onto registers, timing.",
		Assumptions: []string{
			"a callee changes caller-visible memory only through pointers passed to it (receiver or arguments); interface methods of the register provider may return any value",
			"encoding/binary byte-order helpers panic exactly when their slice argument is shorter than the word they access",
			"where int has 32 bits, slice lengths are assumed to stay below 2^24 (no Modbus buffer comes near the wrap-around point)",
			"loop counters do not overflow (every increment is guarded by a strict comparison of the same type)",
			"protocol limits and exception codes are taken from the Modbus Application Protocol V1.1b3",
			"a request shorter than the minimum for its function code is returned to the caller as an error (no response); this path is not judged",
		},
		Run: runC18,
	})
}

func runC18(c *kit.Ctx) {
	m := newMbModel(c)
	c.Analysed(m.Req, m.Mapper)
	c18R1(c, m)
	c18R2(c, m)
	c18R3(c, m)
	c18R4(c, m)
	c18R5(c, m)
}

// ---------------------------------------------------------------------------
// R1 quantity limits

type mbQuantity struct {
	arm    *mbArm
	limit  int64
	fn     *kit.Func // function in which the quantity variable lives (the processor or a function it calls)
	region ast.Node  // the arm's clause, or the body of fn
	obj    types.Object
	def    *ast.AssignStmt
	lhs    ast.Expr // the identifier assigned in def
	uses   []mbUse  // CFG nodes of the region that use the quantity other than as the operand of a guard comparison
}

// mbUse is a CFG node that uses the quantity.  occ lists, per occurrence, the
// short-circuit context (`a || b`: b is evaluated with a false) under which
// the occurrence is evaluated; stop is set when some occurrence is evaluated
// unconditionally (merely executing the node then means "the value reached a use").
type mbUse struct {
	node ast.Node
	occ  [][]mbGuard
	stop bool
}

type mbGuard struct {
	cond ast.Expr
	val  bool
}

// mbRegion is a piece of code that serves an arm: the arm's clause, or the
// body of a module function called from it.
type mbRegion struct {
	fn   *kit.Func
	node ast.Node
}

// regions returns the arm's clause and the bodies of the module functions
// called from it (two levels), the exception mapper excepted.
func (m *mbModel) regions(arm *mbArm) []mbRegion {
	out := []mbRegion{{m.Req, arm.Clause}}
	seen := map[*kit.Func]bool{m.Req: true, m.Mapper: true}
	for i := 0; i < len(out) && i < 12; i++ {
		rg := out[i]
		ast.Inspect(rg.node, func(n ast.Node) bool {
			call, ok := n.(*ast.CallExpr)
			if !ok {
				return true
			}
			if cf := rg.fn.CalleeFunc(call); cf != nil && cf.Decl != nil && cf.Body != nil && cf.Pkg == m.Req.Pkg && !seen[cf] {
				seen[cf] = true
				out = append(out, mbRegion{cf, cf.Body})
			}
			return true
		})
	}
	return out
}

// readsWord: e is a big-endian 16-bit read of request bytes lo..hi-1 in f.
func (m *mbModel) readsWord(f *kit.Func, e ast.Expr, lo, hi int64) bool {
	info := f.Info()
	call, ok := ast.Unparen(e).(*ast.CallExpr)
	if !ok || len(call.Args) != 1 {
		return false
	}
	// a widening integer conversion around the read does not change the value
	if tv, isT := info.Types[call.Fun]; isT && tv.IsType() {
		if bt := mbBasicInt(tv.Type); bt != nil && (bt.Kind() == types.Int || bt.Kind() == types.Int32 || bt.Kind() == types.Int64 || bt.Kind() == types.Uint || bt.Kind() == types.Uint32 || bt.Kind() == types.Uint64 || bt.Kind() == types.Uint16) {
			return m.readsWord(f, call.Args[0], lo, hi)
		}
		return false
	}
	name, order, _, isBO := kit.ByteOrderCall(info, call)
	if !isBO || name != "Uint16" || order != "big" {
		return false
	}
	se, ok := ast.Unparen(call.Args[0]).(*ast.SliceExpr)
	if !ok || !m.isReqData(f, se.X) || se.High == nil {
		return false
	}
	l := int64(0)
	if se.Low != nil {
		v, isC := kit.ConstInt(info, se.Low)
		if !isC {
			return false
		}
		l = v
	}
	h, isC := kit.ConstInt(info, se.High)
	return isC && l == lo && h == hi
}

// wordDef finds, in the code serving an arm, the variable that receives the
// big-endian 16-bit read of request bytes lo..hi-1: directly, or as a result
// of a module function that only returns such reads.
func (m *mbModel) wordDef(arm *mbArm, lo, hi int64) (fn *kit.Func, region ast.Node, obj types.Object, def *ast.AssignStmt, lhs ast.Expr) {
	for _, rg := range m.regions(arm) {
		info := rg.fn.Info()
		ast.Inspect(rg.node, func(n ast.Node) bool {
			as, ok := n.(*ast.AssignStmt)
			if !ok || obj != nil {
				return true
			}
			if len(as.Lhs) == len(as.Rhs) {
				for i := range as.Lhs {
					if m.readsWord(rg.fn, as.Rhs[i], lo, hi) {
						fn, region, obj, def, lhs = rg.fn, rg.node, kit.ObjOf(info, as.Lhs[i]), as, as.Lhs[i]
						return true
					}
				}
				return true
			}
			if len(as.Rhs) != 1 {
				return true
			}
			call, ok := ast.Unparen(as.Rhs[0]).(*ast.CallExpr)
			if !ok {
				return true
			}
			cf := rg.fn.CalleeFunc(call)
			if cf == nil || cf.Decl == nil || len(cf.Body.List) != 1 {
				return true
			}
			ret, ok := cf.Body.List[0].(*ast.ReturnStmt)
			if !ok || len(ret.Results) != len(as.Lhs) {
				return true
			}
			// the helper reads the data of the same PDU it is called on
			if sel, ok := ast.Unparen(call.Fun).(*ast.SelectorExpr); !ok || !m.isRecvOrParamOf(rg.fn, sel.X) {
				return true
			}
			for i := range as.Lhs {
				if m.readsWord(cf, ret.Results[i], lo, hi) {
					fn, region, obj, def, lhs = rg.fn, rg.node, kit.ObjOf(info, as.Lhs[i]), as, as.Lhs[i]
					return true
				}
			}
			return true
		})
		if obj != nil {
			return
		}
	}
	return
}

// isRecvOrParamOf: e is the receiver (of the PDU type) of f.
func (m *mbModel) isRecvOrParamOf(f *kit.Func, e ast.Expr) bool {
	o := kit.ObjOf(f.Info(), e)
	if o == nil || f.Decl == nil || f.Decl.Recv == nil {
		return false
	}
	for _, fl := range f.Decl.Recv.List {
		for _, nm := range fl.Names {
			if f.Info().Defs[nm] == o {
				return true
			}
		}
	}
	return false
}

// quantityOf finds, in the code serving an arm, the variable read big-endian
// from bytes 2..3 of the request data, and its uses.
func (m *mbModel) quantityOf(arm *mbArm) *mbQuantity {
	q := &mbQuantity{arm: arm}
	q.fn, q.region, q.obj, q.def, q.lhs = m.wordDef(arm, 2, 4)
	if q.obj == nil {
		return nil
	}
	g := m.c.P.Graph(q.fn)
	for _, blk := range g.G.Blocks {
		if !blk.Live {
			continue
		}
		br := g.BranchOf(blk)
		for i, n := range blk.Nodes {
			if n.Pos() < q.region.Pos() || n.End() > q.region.End() || n == ast.Node(q.def) {
				continue
			}
			isCond := i == len(blk.Nodes)-1 && len(blk.Succs) == 2 && (br.Kind == kit.BrCond || br.Kind == kit.BrCase)
			isLoop := isCond && blk.Kind == cfg.KindForLoop
			occ := m.usesOf(q.fn, n, q.obj, isCond && !isLoop)
			if len(occ) == 0 {
				continue // not mentioned, or only as the operand of guard comparisons
			}
			u := mbUse{node: n, occ: occ}
			for _, g := range occ {
				if len(g) == 0 {
					u.stop = true
				}
			}
			q.uses = append(q.uses, u)
		}
	}
	return q
}

// usesOf lists the occurrences of the variable in n that are uses: every
// occurrence except, in a branch condition (guardCond), the direct operand
// (through parentheses and integer conversions) of a relational comparison —
// comparing the quantity is how it is guarded, not a use of it.  Each
// occurrence comes with its short-circuit context.
func (m *mbModel) usesOf(f *kit.Func, n ast.Node, o types.Object, guardCond bool) [][]mbGuard {
	info := f.Info()
	var out [][]mbGuard
	var visit func(x ast.Node, cmpOperand bool, ctx []mbGuard)
	visit = func(x ast.Node, cmpOperand bool, ctx []mbGuard) {
		switch y := x.(type) {
		case nil:
			return
		case *ast.FuncLit:
			return
		case *ast.Ident:
			if kit.ObjOf(info, y) == o && !(cmpOperand && guardCond) {
				out = append(out, append([]mbGuard(nil), ctx...))
			}
			return
		case *ast.ParenExpr:
			visit(y.X, cmpOperand, ctx)
			return
		case *ast.CallExpr:
			if tv, ok := info.Types[y.Fun]; ok && tv.IsType() && len(y.Args) == 1 {
				visit(y.Args[0], cmpOperand, ctx)
				return
			}
		case *ast.BinaryExpr:
			switch y.Op {
			case token.EQL, token.NEQ, token.LSS, token.LEQ, token.GTR, token.GEQ:
				visit(y.X, true, ctx)
				visit(y.Y, true, ctx)
				return
			case token.LAND, token.LOR:
				visit(y.X, false, ctx)
				visit(y.Y, false, append(append([]mbGuard(nil), ctx...), mbGuard{y.X, y.Op == token.LAND}))
				return
			}
		}
		first := true
		ast.Inspect(x, func(ch ast.Node) bool {
			if first {
				first = false
				return true
			}
			if ch != nil {
				visit(ch, false, ctx)
			}
			return false
		})
	}
	visit(n, false, nil)
	return out
}

// ctxBounds returns the facts analysis of fn in the context in which the
// arm reaches it (fn is the processor itself, or a module function called
// from the arm, possibly through another one).
func (m *mbModel) ctxBounds(arm *mbArm, fn *kit.Func) *kit.Bounds {
	root := kit.AnalyseBounds(m.c.P, m.Req)
	if fn == m.Req {
		return root
	}
	var search func(b *kit.Bounds, within ast.Node, depth int) *kit.Bounds
	search = func(b *kit.Bounds, within ast.Node, depth int) *kit.Bounds {
		if depth > 3 {
			return nil
		}
		for _, call := range b.ModuleCalls() {
			if within != nil && (call.Pos() < within.Pos() || call.End() > within.End()) {
				continue
			}
			cf := b.F.CalleeFunc(call)
			if cf == nil || cf == m.Mapper {
				continue
			}
			sub := b.CalleeAt(call)
			if sub == nil {
				continue
			}
			if cf == fn {
				return sub
			}
			if r := search(sub, nil, depth+1); r != nil {
				return r
			}
		}
		return nil
	}
	if b := search(root, arm.Clause, 0); b != nil {
		return b
	}
	return kit.AnalyseBounds(m.c.P, fn)
}

func c18R1(c *kit.Ctx, m *mbModel) {
	r := c.Rule("R1", "quantity within protocol limits at every use; out of range answers exception 3", 4)
	crit := map[int64]bool{0: true, 65535: true}
	for _, v := range kit.ComparisonConstants(m.Req) {
		if v >= 0 && v <= 65535 {
			crit[v] = true
		}
	}
	for _, arm := range m.Arms {
		if len(arm.Codes) == 0 {
			continue
		}
		limit := int64(0)
		for i, code := range arm.Codes {
			l := mbQuantityLimit[code]
			if i > 0 && l != limit {
				c.Fatalf("%s mixes function codes with different quantity limits", arm.label())
			}
			limit = l
		}
		if limit == 0 {
			continue
		}
		q := m.quantityOf(arm)
		o := r.Ob(m.Req, arm.Clause, arm.label()+": quantity limit", fmt.Sprintf("the quantity field is within 1..%d wherever it sizes a buffer, bounds a loop or indexes; %d+1 and 0 are answered with exception 3", limit, limit))
		if q == nil {
			o.Undecided("no big-endian 16-bit read of request bytes 2..3 found in %s", arm.label())
			continue
		}
		if len(q.uses) == 0 {
			o.Undecided("the quantity %s is never used in %s", q.obj.Name(), arm.label())
			continue
		}
		// executing a node with an unconditional occurrence means the value reached a use
		useSet := map[ast.Node]bool{}
		for _, u := range q.uses {
			if u.stop {
				useSet[u.node] = true
			}
		}
		bnd := m.ctxBounds(arm, q.fn)
		c.Analysed(q.fn)
		qt := bnd.Term(q.lhs)
		// (a) interval at every use occurrence (with its short-circuit context)
		var wide []string
		hull := kit.Iv{Lo: 1 << 40, Hi: -1}
		for _, u := range q.uses {
			fs, _ := bnd.FactsBefore(u.node)
			if fs == nil || qt == nil {
				wide = append(wide, q.fn.At(u.node)+" (no facts)")
				continue
			}
			for _, gs := range u.occ {
				var extra []*kit.BFact
				for _, g := range gs {
					extra = append(extra, bnd.CondFacts(fs, g.cond, g.val)...)
				}
				iv := bnd.EnvAt(fs, extra).IvTerm(qt)
				if iv.Lo < hull.Lo {
					hull.Lo = iv.Lo
				}
				if iv.Hi > hull.Hi {
					hull.Hi = iv.Hi
				}
				if iv.Lo < 1 || iv.Hi > limit {
					wide = append(wide, fmt.Sprintf("%s `%s` sees %s ∈ %s", q.fn.At(u.node), trunc(q.fn.Str(u.node), 50), q.obj.Name(), iv))
				}
			}
		}
		run := func(code, v int64) *kit.IResult {
			ip := m.reqInterp(code, -1, map[int64]int64{2: v})
			ip.Stop = func(n ast.Node) bool { return useSet[n] }
			m.hook(ip, func(call *ast.CallExpr, args []kit.IVal) (string, []kit.IVal) {
				if names, _, ok := m.providerCall(m.fnOf(call), call); ok {
					return "provider:" + strings.Join(names, "|"), nil
				}
				return "", nil
			})
			c.AddValuations(1)
			return ip.Run()
		}
		decided := false
		for _, code := range arm.Codes {
			// out-of-range critical values
			var outs []int64
			for v := range crit {
				if v < 1 || v > limit {
					outs = append(outs, v)
				}
			}
			outs = append(outs, limit+1)
			sort.Slice(outs, func(i, j int) bool { return outs[i] < outs[j] })
			for _, v := range outs {
				res := run(code, v)
				if len(res.Unsupported) > 0 || res.Overflow {
					o.Undecided("evaluation with quantity %d: %v overflow=%v", v, res.Unsupported, res.Overflow)
					decided = true
					break
				}
				for _, s := range res.Stops {
					if !s.Tainted {
						o.Violation("function code %d with quantity %d (protocol range 1..%d) reaches `%s` at %s", code, v, limit, trunc(q.fn.Str(s.Node), 60), q.fn.At(s.Node))
						decided = true
						break
					}
				}
				if decided {
					break
				}
				inArm := 0
				for _, e := range res.Exits {
					if e.Ret == nil || m.armAt(e.Ret) != arm {
						continue
					}
					inArm++
					code3, isErr, isExc := m.exitExc(e)
					switch {
					case e.Tainted:
						o.Undecided("quantity %d: exit at %s depends on a value the evaluator cannot follow", v, m.Req.At(e.Ret))
						decided = true
					case !isExc || isErr || code3 != mbExcIllegalValue:
						o.Violation("function code %d with quantity %d is answered by `%s` (%s), not by exception 3 (illegal data value)", code, v, trunc(m.Req.Str(e.Ret), 60), m.Req.At(e.Ret))
						decided = true
					case len(provEvents(e.Trace)) > 0:
						o.Violation("function code %d with quantity %d touches the registers (%s) before it is refused", code, v, strings.Join(provEvents(e.Trace), ","))
						decided = true
					}
					if decided {
						break
					}
				}
				if !decided && inArm == 0 {
					o.Undecided("quantity %d: no exit inside %s was reached", v, arm.label())
					decided = true
				}
				if decided {
					break
				}
			}
			if decided {
				break
			}
			// the limit values themselves must be served
			for _, v := range []int64{1, limit} {
				res := run(code, v)
				reached := false
				for _, s := range res.Stops {
					if !s.Tainted {
						reached = true
					}
				}
				// … or goes on to access the registers
				for _, e := range res.Exits {
					if !e.Tainted && len(provEvents(e.Trace)) > 0 {
						reached = true
					}
				}
				if !reached {
					if len(res.Unsupported) > 0 || res.Overflow {
						o.Undecided("evaluation with quantity %d: %v", v, res.Unsupported)
					} else {
						o.Violation("function code %d with the valid quantity %d (protocol range 1..%d) never reaches the code that serves it", code, v, limit)
					}
					decided = true
					break
				}
			}
			if decided {
				break
			}
		}
		if decided {
			continue
		}
		if len(wide) > 0 {
			o.Undecided("the quantity's interval is not provably within 1..%d: %s", limit, strings.Join(wide, "; "))
			continue
		}
		o.OK("%s ∈ %s ⊆ [1,%d] at %d uses; %d out-of-range critical values per code answered with exception 3 before any provider call; 1 and %d served",
			q.obj.Name(), hull, limit, len(q.uses), len(crit), limit)
	}
}

func trunc(s string, n int) string {
	if len(s) > n {
		return s[:n-1] + "…"
	}
	return s
}

// ---------------------------------------------------------------------------
// R2 bounds

// boundsRule turns the K6 obligations of the given functions into rule
// obligations; unproved ones are searched for a witness.
func boundsRule(c *kit.Ctx, r *kit.Rule, fs []*kit.Func, label func(f *kit.Func, n ast.Node) string) {
	boundsRuleOpt(c, r, fs, label, false, nil)
}

// ctxObs is the list of obligations of one function analysed in one context.
type ctxObs struct {
	b     *kit.Bounds
	chain string // "" for the root, otherwise "callee ← caller …"
	site  ast.Node
}

// boundsRuleOpt: with deep, module functions called from a root function are
// analysed in the context of each call site (the facts established by the
// caller hold on entry), recursively; skip exempts callees.
func boundsRuleOpt(c *kit.Ctx, r *kit.Rule, fs []*kit.Func, label func(f *kit.Func, n ast.Node) string, deep bool, skip func(cf *kit.Func) bool) {
	isRoot := map[*kit.Func]bool{}
	for _, f := range fs {
		isRoot[f] = true
	}
	for _, f := range fs {
		b := kit.AnalyseBounds(c.P, f)
		c.Analysed(f)
		units := []ctxObs{{b: b}}
		followed := map[*kit.Func]bool{}
		if deep {
			var walk func(cb *kit.Bounds, chain string, site ast.Node, depth int)
			walk = func(cb *kit.Bounds, chain string, site ast.Node, depth int) {
				for _, call := range cb.ModuleCalls() {
					cf := cb.F.CalleeFunc(call)
					if cf == nil || isRoot[cf] || (skip != nil && skip(cf)) {
						continue
					}
					sub := cb.CalleeAt(call)
					if sub == nil {
						continue
					}
					c.Analysed(cf)
					s0 := site
					if s0 == nil {
						s0 = call
					}
					ch := cf.Name
					if chain != "" {
						ch = cf.Name + " ← " + chain
					}
					units = append(units, ctxObs{b: sub, chain: ch, site: s0})
					walk(sub, ch, s0, depth+1)
				}
				// literals the context binds to function-typed parameters, at their calls
				for _, call := range cb.ClosureCalls() {
					sub := cb.ClosureAt(call)
					if sub == nil {
						continue
					}
					followed[sub.F] = true
					s0 := site
					if s0 == nil {
						s0 = call
					}
					ch := "literal " + sub.F.Name
					if chain != "" {
						ch += " ← " + chain
					}
					units = append(units, ctxObs{b: sub, chain: ch, site: s0})
					walk(sub, ch, s0, depth+1)
				}
			}
			walk(b, "", nil, 0)
			// function literals with accesses of their own that no context reaches are not judged silently
			for _, u := range append([]ctxObs(nil), units...) {
				for _, lf := range c.P.Funcs(u.b.F.PkgRel()) {
					if lf.Lit == nil || lf.Outer != u.b.F || followed[lf] {
						continue
					}
					lb := kit.AnalyseBounds(c.P, lf)
					if len(lb.Obs) > 0 {
						followed[lf] = true
						units = append(units, ctxObs{b: lb, chain: "literal " + lf.Name + " (context not followed)", site: lf.Lit})
					}
				}
			}
		}
		unproved := 0
		var want []ast.Node
		for _, u := range units {
			for _, ob := range u.b.Obs {
				if !ob.Proved {
					unproved++
					want = append(want, ob.Node)
				}
			}
		}
		var wit map[ast.Node]*kit.Witness
		var st kit.WitnessStats
		// thorough tier, unchanged tree, default configuration: always search
		// (cross-check of the prover); otherwise only for unproved
		// obligations, with a small budget when the run is one of many
		// overlay variants
		full := c.Tier == "thorough" && c.P.Cfg.Overlay == nil && c.Config == "default"
		if unproved > 0 || full {
			budget := 0
			if full {
				want = nil
			} else if c.Tier == "thorough" {
				budget = 250000
			}
			wit, st = kit.FindCrashes(c.P, f, budget, want)
			c.AddValuations(st.Runs)
		}
		seen := map[string]int{}
		for _, u := range units {
			uf := u.b.F
			for _, ob := range u.b.Obs {
				key := ob.Kind + " " + ob.Text
				if u.chain != "" {
					key = u.chain + ": " + key
				}
				if label != nil {
					at := ob.Node
					if u.site != nil {
						at = u.site
					}
					if l := label(f, at); l != "" {
						key = l + ": " + key
					}
				}
				seen[key]++
				if seen[key] > 1 {
					key = fmt.Sprintf("%s #%d", key, seen[key])
				}
				o := r.Ob(uf, ob.Node, key, strings.Join(ob.Goals, " ∧ "))
				w := wit[ob.Node]
				switch {
				case ob.Proved && w != nil && u.chain == "":
					o.Undecided("checker inconsistency: proved in range, yet the evaluator crashes with %s (%s)", w.Inputs, w.Msg)
				case ob.Proved:
					o.OK("%s", ob.Describe())
				case w != nil:
					o.Violation("`%s` can panic: %s for the input %s; not implied by the guards: %s", ob.Text, w.Msg, w.Inputs, ob.Failed)
				default:
					o.Undecided("cannot show %s and found no crashing input (%d evaluations)", ob.Failed, st.Runs)
				}
			}
		}
	}
}

func c18R2(c *kit.Ctx, m *mbModel) {
	// the floor is a sanity bound only: every index/slice/word access of the
	// processor, of the mapper and of every module function they call is an
	// obligation, whatever their number
	r := c.Rule("R2", "every index/slice/word access of the request processor is in range", 20)
	boundsRuleOpt(c, r, []*kit.Func{m.Req, m.Mapper}, func(f *kit.Func, n ast.Node) string {
		if f != m.Req {
			return ""
		}
		if a := m.armAt(n); a != nil {
			return a.label()
		}
		return ""
	}, true, nil)
}

// ---------------------------------------------------------------------------
// R3 dispatch and exception mapping

func c18R3(c *kit.Ctx, m *mbModel) {
	r := c.Rule("R3", "every function code is dispatched or answered with exception 1; exception mapping", 11)
	first := map[ast.Node]*mbArm{}
	for _, a := range m.Arms {
		if len(a.Codes) > 0 && len(a.Clause.Body) > 0 {
			first[a.Clause.Body[0]] = a
		}
	}
	def := m.defaultArm()
	type outcome struct {
		arm *mbArm
		bad string
		und string
	}
	eval := func(code int64) outcome {
		ip := m.reqInterp(code, 300, nil)
		hit := map[*mbArm]bool{}
		ip.Stop = func(n ast.Node) bool {
			if a, ok := first[n]; ok {
				hit[a] = true
				return true
			}
			return false
		}
		res := ip.Run()
		c.AddValuations(1)
		var o outcome
		if len(res.Crashes) > 0 {
			cr := res.Crashes[0]
			o.bad = fmt.Sprintf("panics at `%s` (%s): %s", trunc(m.Req.Str(cr.Node), 50), m.Req.At(cr.Node), cr.Msg)
			return o
		}
		if len(res.Unsupported) > 0 || res.Overflow {
			o.und = fmt.Sprintf("evaluation failed: %v", res.Unsupported)
			return o
		}
		for _, s := range res.Stops {
			if s.Tainted {
				o.und = "dispatch depends on a value the evaluator cannot follow"
			}
		}
		if len(hit) > 1 {
			o.bad = "reaches more than one arm"
			return o
		}
		for a := range hit {
			o.arm = a
		}
		if o.arm != nil && len(res.Exits) > 0 {
			o.bad = fmt.Sprintf("may also return at %s without entering its arm", m.Req.At(res.Exits[0].Ret))
			return o
		}
		if o.arm == nil {
			if len(res.Exits) == 0 {
				o.und = "no exit reached"
			}
			for _, e := range res.Exits {
				code1, isErr, isExc := m.exitExc(e)
				switch {
				case e.Tainted:
					o.und = "exit depends on a value the evaluator cannot follow"
				case !isExc || isErr || code1 != mbExcIllegalFunction:
					o.bad = fmt.Sprintf("is answered by `%s` (%s), not by exception 1 (illegal function)", trunc(m.Req.Str(e.Ret), 60), m.Req.At(e.Ret))
				case len(provEvents(e.Trace)) > 0:
					o.bad = "touches the registers before it is refused"
				}
			}
		}
		return o
	}
	if def == nil {
		r.Ob(m.Req, m.Switch, "default arm", "the dispatch switch has a default arm").Violation("the dispatch switch has no default arm: an unknown function code gets no exception response")
	}
	others, othersBad, othersUnd := 0, "", ""
	for code := int64(0); code < 256; code++ {
		want := m.armOf(code)
		got := eval(code)
		if want != nil {
			o := r.Ob(m.Req, want.Clause, fmt.Sprintf("function code %d", code), fmt.Sprintf("a request with function code %d and enough data enters the arm that lists %d", code, code))
			switch {
			case got.und != "":
				o.Undecided("%s", got.und)
			case got.bad != "":
				o.Violation("function code %d %s", code, got.bad)
			case got.arm != want:
				where := "no arm"
				if got.arm != nil {
					where = got.arm.label()
				}
				o.Violation("function code %d reaches %s instead of %s", code, where, want.label())
			default:
				o.OK("enters %s at %s", want.label(), m.Req.At(want.Clause))
			}
			continue
		}
		others++
		switch {
		case got.und != "" && othersUnd == "":
			othersUnd = fmt.Sprintf("function code %d: %s", code, got.und)
		case got.arm != nil && othersBad == "":
			othersBad = fmt.Sprintf("function code %d, which no arm lists, enters %s", code, got.arm.label())
		case got.bad != "" && othersBad == "":
			othersBad = fmt.Sprintf("function code %d %s", code, got.bad)
		}
	}
	o := r.Ob(m.Req, m.Switch, "unlisted function codes", fmt.Sprintf("each of the %d function codes without an arm is answered with exception 1 and touches no register", others))
	switch {
	case othersBad != "":
		o.Violation("%s", othersBad)
	case othersUnd != "":
		o.Undecided("%s", othersUnd)
	default:
		o.OK("%d codes evaluated: all exits are `return %s(<exception 1>)`", others, m.Mapper.Name)
	}
	c18Mapper(c, m, r)
}

// c18Mapper evaluates the exception mapper for every declared exception code
// (and one undeclared), for an error that is no exception code, and for a
// handful of function codes, and compares the response it returns with
// {function code | 0x80, [code]}, false, nil.
func c18Mapper(c *kit.Ctx, m *mbModel, r *kit.Rule) {
	f := m.Mapper
	c.Analysed(f)
	oExc := r.Ob(f, nil, "exception response", "an exception code is answered with function code | 0x80 and one data byte holding the code, nil error, no change")
	oOther := r.Ob(f, nil, "other errors", "any other error is answered as exception 4 (server device failure)")
	var codes []int64
	sc := m.pkg.Scope()
	for _, name := range sc.Names() {
		if k, ok := sc.Lookup(name).(*types.Const); ok && types.Identical(k.Type(), m.ExcType) {
			if v, exact := kit.ConstIntVal(k); exact {
				codes = append(codes, v)
			}
		}
	}
	codes = append(codes, 0x55)
	sort.Slice(codes, func(i, j int) bool { return codes[i] < codes[j] })
	fcs := []int64{1, 5, 16, 0x2B, 0x7F}
	// check evaluates one (function code, error) pair; want is the expected data byte
	check := func(o *kit.Ob, fc int64, errv kit.IVal, want int64, what string) bool {
		ip := &kit.Interp{P: c.P, F: f}
		ip.Input = func(key string, t types.Type) (kit.IVal, bool) {
			switch {
			case t != nil && types.Identical(t, m.FcType):
				return kit.IVal{K: 'i', I: fc}, true
			case t != nil && isErrorType(t):
				return errv, true
			}
			return kit.IVal{}, false
		}
		res := ip.Run()
		c.AddValuations(1)
		if len(res.Unsupported) > 0 || res.Overflow || len(res.Exits) == 0 {
			o.Undecided("the mapper cannot be evaluated for %s: %v", what, res.Unsupported)
			return false
		}
		if len(res.Crashes) > 0 {
			o.Violation("the mapper panics for %s: %s", what, res.Crashes[0].Msg)
			return false
		}
		for _, e := range res.Exits {
			at := "-"
			if e.Ret != nil {
				at = f.At(e.Ret)
			}
			if e.Tainted || len(e.Vals) != 3 {
				o.Undecided("the mapper's result for %s depends on values the evaluator cannot follow (%s)", what, at)
				return false
			}
			chg, resp, errRes := e.Vals[0], e.Vals[1], e.Vals[2]
			if resp.K != 't' || chg.K != 'b' || (errRes.K != 'n' && errRes.K != 'e' && errRes.K != 'i') {
				o.Undecided("the mapper's result for %s cannot be read (%s)", what, at)
				return false
			}
			gotFc, ok1 := e.Heap[resp.Ref+"."+m.FcField.Name()]
			data, ok2 := e.Heap[resp.Ref+"."+m.DataField.Name()]
			if !ok1 || !ok2 || gotFc.K != 'i' || data.K != 's' || data.L < 0 {
				o.Undecided("the response built for %s cannot be read (%s)", what, at)
				return false
			}
			switch {
			case errRes.K != 'n':
				o.Violation("for %s the mapper returns a non-nil error instead of an exception response (%s)", what, at)
				return false
			case chg.I != 0:
				o.Violation("for %s the mapper reports a register change (%s)", what, at)
				return false
			case gotFc.I != (fc|0x80)&0xff:
				o.Violation("for %s and function code 0x%02X the response carries function code 0x%02X, not 0x%02X (%s)", what, fc, gotFc.I, (fc|0x80)&0xff, at)
				return false
			case data.L != 1:
				o.Violation("for %s the response data has %d bytes, not 1 (%s)", what, data.L, at)
				return false
			}
			el, ok := kit.SliceElem(e.Heap, data, 0)
			if !ok || el.K != 'i' {
				o.Undecided("the data byte of the response for %s cannot be read (%s)", what, at)
				return false
			}
			if el.I != want {
				o.Violation("for %s the response carries exception code %d, not %d (%s)", what, el.I, want, at)
				return false
			}
		}
		return true
	}
	okAll := true
	for _, k := range codes {
		for _, fc := range fcs {
			if !check(oExc, fc, kit.IVal{K: 'i', I: k, Dyn: m.ExcType}, k, fmt.Sprintf("exception code %d", k)) {
				okAll = false
				break
			}
		}
		if !okAll {
			break
		}
	}
	if okAll {
		oExc.OK("%d exception codes × %d function codes evaluated: {fc|0x80, [code]}, false, nil", len(codes), len(fcs))
	}
	okAll = true
	for _, fc := range fcs {
		if !check(oOther, fc, kit.IVal{K: 'e', Lib: true}, mbExcDeviceFailure, "an error that is not an exception code") {
			okAll = false
			break
		}
	}
	if okAll {
		oOther.OK("answered with {fc|0x80, [4]}, false, nil")
	}
}

// pduFields resolves the function-code and data expressions of a PDU value
// returned at ret: a composite literal, or a local variable whose fields are
// assigned exactly once each on the way.
func (m *mbModel) pduFields(f *kit.Func, e ast.Expr, ret *ast.ReturnStmt) (fc, data ast.Expr) {
	info := f.Info()
	e = ast.Unparen(e)
	if cl, ok := e.(*ast.CompositeLit); ok {
		st, _ := info.TypeOf(cl).Underlying().(*types.Struct)
		for i, el := range cl.Elts {
			if kv, ok := el.(*ast.KeyValueExpr); ok {
				switch kit.ObjOf(info, kv.Key) {
				case types.Object(m.FcField):
					fc = kv.Value
				case types.Object(m.DataField):
					data = kv.Value
				}
			} else if st != nil && i < st.NumFields() {
				switch st.Field(i) {
				case m.FcField:
					fc = el
				case m.DataField:
					data = el
				}
			}
		}
		return
	}
	v := kit.ObjOf(info, e)
	if v == nil {
		return nil, nil
	}
	g := m.c.P.Graph(f)
	nfc, ndata := 0, 0
	ast.Inspect(f.Body, func(n ast.Node) bool {
		as, ok := n.(*ast.AssignStmt)
		if !ok || len(as.Lhs) != len(as.Rhs) {
			return true
		}
		for i, l := range as.Lhs {
			sel, ok := ast.Unparen(l).(*ast.SelectorExpr)
			if !ok || kit.ObjOf(info, sel.X) != v {
				continue
			}
			s, ok := info.Selections[sel]
			if !ok {
				continue
			}
			switch s.Obj() {
			case types.Object(m.FcField):
				nfc++
				if g.NodeDominates(as, ret) {
					fc = as.Rhs[i]
				}
			case types.Object(m.DataField):
				ndata++
				if g.NodeDominates(as, ret) {
					data = as.Rhs[i]
				}
			}
		}
		return true
	})
	if nfc != 1 {
		fc = nil
	}
	if ndata != 1 {
		data = nil
	}
	return
}

// ---------------------------------------------------------------------------
// R4 no write on read, single write, guarded store

func c18R4(c *kit.Ctx, m *mbModel) {
	r := c.Rule("R4", "reads never write; a single write writes at most once; stores are guarded", 10)
	for _, arm := range m.Arms {
		read, single := false, false
		for _, code := range arm.Codes {
			read = read || mbReadCodes[code]
			single = single || mbSingleWrite[code]
		}
		if read {
			o := r.Ob(m.Req, arm.Clause, arm.label()+": no write on read", "a read arm calls only reading methods of the register provider")
			var bad, und, seen []string
			regs := m.regions(arm)
			inRegion := map[*kit.Func]bool{}
			for _, rg := range regs {
				inRegion[rg.fn] = true
			}
			for _, rg := range regs {
				rf := rg.fn
				ast.Inspect(rg.node, func(n ast.Node) bool {
					call, ok := n.(*ast.CallExpr)
					if !ok {
						return true
					}
					names, writer, isProv := m.providerCall(rf, call)
					if isProv {
						seen = append(seen, names...)
						if writer {
							bad = append(bad, fmt.Sprintf("%s at %s", strings.Join(names, "|"), rf.At(call)))
						}
						return true
					}
					// the provider handed to a module function is followed into it;
					// handed to anything else it escapes the rule
					for _, a := range call.Args {
						if t := rf.Info().TypeOf(a); t != nil && types.Identical(t, m.ProvNamed) {
							if cf := rf.CalleeFunc(call); cf == nil || !inRegion[cf] {
								und = append(und, rf.At(call))
							}
						}
					}
					return true
				})
			}
			// method values bound to variables that are never called are harmless; a writer bound to a called variable is caught above
			switch {
			case len(bad) > 0:
				o.Violation("a read request calls the writing provider method %s", strings.Join(bad, ", "))
			case len(und) > 0:
				o.Undecided("the provider is passed on at %s", strings.Join(und, ", "))
			case len(seen) == 0:
				o.Undecided("no provider call found in a read arm")
			default:
				o.OK("provider calls: %s", strings.Join(uniqStrings(seen), ", "))
			}
		}
		if single {
			for _, code := range arm.Codes {
				o := r.Ob(m.Req, arm.Clause, fmt.Sprintf("%s: single write (code %d)", arm.label(), code), "at most one provider write on every path; a failed write is answered through the exception mapper with its error")
				m.checkSingleWrite(c, o, arm, code)
			}
		}
	}
	// every arm: a failing provider call is answered through the mapper with its error
	for _, arm := range m.Arms {
		for _, code := range arm.Codes {
			m.checkProviderError(c, r, arm, code)
		}
	}
	c18Stores(c, m, r)
}

// checkProviderError evaluates the arm with every provider call failing.
func (m *mbModel) checkProviderError(c *kit.Ctx, r *kit.Rule, arm *mbArm, code int64) {
	var words map[int64]int64
	if mbQuantityLimit[code] != 0 {
		words = map[int64]int64{2: 1}
	}
	ip := m.reqInterp(code, -1, words)
	calls := 0
	m.hook(ip, func(call *ast.CallExpr, args []kit.IVal) (string, []kit.IVal) {
		names, _, ok := m.providerCall(m.fnOf(call), call)
		if !ok {
			return "", nil
		}
		calls++
		sig, _ := m.Req.Info().TypeOf(call.Fun).Underlying().(*types.Signature)
		if sig == nil {
			return "", nil
		}
		out := make([]kit.IVal, sig.Results().Len())
		for i := range out {
			out[i] = kit.IVal{K: 'u', Env: true}
		}
		out[len(out)-1] = kit.IVal{K: 'e'}
		return "fail:" + strings.Join(names, "|"), out
	})
	res := ip.Run()
	c.AddValuations(1)
	if calls == 0 {
		return // the arm does not touch the provider
	}
	o := r.Ob(m.Req, arm.Clause, fmt.Sprintf("%s: provider error answered (code %d)", arm.label(), code), "when the register provider refuses an access the request is answered through the exception mapper with that error, and nothing further is accessed")
	if len(res.Unsupported) > 0 || res.Overflow {
		o.Undecided("evaluation failed: %v", res.Unsupported)
		return
	}
	seen := 0
	for _, e := range res.Exits {
		pe := provEvents(e.Trace)
		if len(pe) == 0 || e.Ret == nil {
			continue
		}
		seen++
		_, isErr, isExc := m.exitExc(e)
		switch {
		case e.Tainted:
			o.Undecided("exit at %s depends on a value the evaluator cannot follow", m.Req.At(e.Ret))
		case len(pe) > 1:
			o.Violation("after the provider refused %s the request goes on to %s", pe[0], strings.Join(pe[1:], ","))
		case !isExc || !isErr:
			o.Violation("the provider refused %s, yet the request is answered by `%s` (%s) instead of the mapped error", pe[0], trunc(m.Req.Str(e.Ret), 60), m.Req.At(e.Ret))
		}
	}
	if seen == 0 {
		o.Undecided("no exit after a provider call was reached")
		return
	}
	o.OK("%d exit(s) after a refused access, all `return %s(err)`", seen, m.Mapper.Name)
}

func (m *mbModel) checkSingleWrite(c *kit.Ctx, o *kit.Ob, arm *mbArm, code int64) {
	for _, fail := range []bool{true, false} {
		ip := m.reqInterp(code, 4, nil)
		var writeCalls []*ast.CallExpr
		m.hook(ip, func(call *ast.CallExpr, args []kit.IVal) (string, []kit.IVal) {
			names, writer, ok := m.providerCall(m.fnOf(call), call)
			if !ok {
				return "", nil
			}
			if writer {
				writeCalls = append(writeCalls, call)
				if fail {
					return "W:" + strings.Join(names, "|"), []kit.IVal{{K: 'e'}}
				}
				return "W:" + strings.Join(names, "|"), []kit.IVal{{K: 'n'}}
			}
			return "R:" + strings.Join(names, "|"), nil
		})
		res := ip.Run()
		c.AddValuations(1)
		if len(res.Unsupported) > 0 || res.Overflow {
			o.Undecided("evaluation failed: %v", res.Unsupported)
			return
		}
		sawWrite := false
		for _, e := range res.Exits {
			if e.Ret == nil || m.armAt(e.Ret) != arm && len(provEvents(e.Trace)) == 0 {
				continue
			}
			if e.Tainted {
				o.Undecided("exit at %s depends on a value the evaluator cannot follow", m.Req.At(e.Ret))
				return
			}
			nw := 0
			for _, ev := range e.Trace {
				if strings.HasPrefix(ev, "W:") {
					nw++
				}
			}
			if nw > 1 {
				o.Violation("a single-write request performs %d provider writes (%s) before returning at %s", nw, strings.Join(provEvents(e.Trace), ","), m.Req.At(e.Ret))
				return
			}
			if nw == 1 {
				sawWrite = true
				_, isErr, isExc := m.exitExc(e)
				if fail && (!isExc || !isErr) {
					o.Violation("the provider write failed, yet the request is answered by `%s` (%s) instead of the mapped error", trunc(m.Req.Str(e.Ret), 60), m.Req.At(e.Ret))
					return
				}
				if !fail && isExc {
					o.Violation("the provider write succeeded, yet the request is answered with an exception at %s", m.Req.At(e.Ret))
					return
				}
			}
		}
		if !sawWrite {
			o.Violation("function code %d never reaches a provider write", code)
			return
		}
	}
	o.OK("one provider write per path; its error is returned through %s", m.Mapper.Name)
}

// ---------------------------------------------------------------------------
// R5 loops

func c18R5(c *kit.Ctx, m *mbModel) {
	r := c.Rule("R5", "loops of the request processor are counted loops over a 16-bit quantity", 6)
	// the processor and the module functions that serve its arms
	fns := []*kit.Func{m.Req}
	seenFn := map[*kit.Func]bool{m.Req: true}
	for _, arm := range m.Arms {
		for _, rg := range m.regions(arm) {
			if !seenFn[rg.fn] {
				seenFn[rg.fn] = true
				fns = append(fns, rg.fn)
			}
		}
	}
	for _, f := range fns {
		c18Loops(c, m, r, f)
	}
	c18Range(c, m, r)
}

func c18Loops(c *kit.Ctx, m *mbModel, r *kit.Rule, f *kit.Func) {
	info := f.Info()
	bnd := kit.AnalyseBounds(c.P, f)
	assigned := func(body ast.Node, o types.Object) bool {
		hit := false
		ast.Inspect(body, func(n ast.Node) bool {
			switch y := n.(type) {
			case *ast.AssignStmt:
				for _, l := range y.Lhs {
					if rootOf(info, l) == o {
						hit = true
					}
				}
			case *ast.IncDecStmt:
				if rootOf(info, y.X) == o {
					hit = true
				}
			case *ast.UnaryExpr:
				if y.Op == token.AND && rootOf(info, y.X) == o {
					hit = true
				}
			}
			return true
		})
		return hit
	}
	n := 0
	ast.Inspect(f.Body, func(x ast.Node) bool {
		switch fs := x.(type) {
		case *ast.FuncLit:
			return false
		case *ast.RangeStmt:
			n++
			o := r.Ob(f, fs, m.loopLabel(fs), "a range loop iterates over a value fixed at loop entry")
			if t := info.TypeOf(fs.X); t != nil {
				switch t.Underlying().(type) {
				case *types.Chan, *types.Signature:
					o.Undecided("range over a channel or iterator function is not bounded by the request")
					return true
				}
			}
			o.OK("range over %s", f.Str(fs.X))
		case *ast.ForStmt:
			n++
			o := r.Ob(f, fs, m.loopLabel(fs), "the loop counts a variable up to a loop-invariant bound of at most 65535")
			if fs.Cond == nil {
				o.Undecided("loop without condition")
				return true
			}
			// variables of the condition
			var vars []types.Object
			ast.Inspect(fs.Cond, func(y ast.Node) bool {
				if id, ok := y.(*ast.Ident); ok {
					if v, isVar := kit.ObjOf(info, id).(*types.Var); isVar && !v.IsField() {
						vars = append(vars, v)
					}
				}
				return true
			})
			changes := false
			for _, v := range vars {
				if assigned(fs.Body, v) || (fs.Post != nil && assigned(fs.Post, v)) {
					changes = true
				}
			}
			if !changes {
				o.Violation("no variable of the loop condition `%s` changes inside the loop: once entered it never ends (a request can hang the server)", f.Str(fs.Cond))
				return true
			}
			a, b, op, ok := kit.CmpAtom(fs.Cond)
			var stepped types.Object
			switch post := fs.Post.(type) {
			case *ast.IncDecStmt:
				if post.Tok == token.INC {
					stepped = kit.ObjOf(info, post.X)
				}
			case *ast.AssignStmt:
				if post.Tok == token.ADD_ASSIGN && len(post.Lhs) == 1 && len(post.Rhs) == 1 {
					if k, isC := kit.ConstInt(info, post.Rhs[0]); isC && k > 0 {
						stepped = kit.ObjOf(info, post.Lhs[0])
					}
				}
			}
			if !ok || op != token.LSS || stepped == nil || stepped != kit.ObjOf(info, a) {
				o.Undecided("not of the form `for i := …; i < bound; i++`")
				return true
			}
			iv := kit.ObjOf(info, a)
			if assigned(fs.Body, iv) {
				o.Undecided("the counter %s is modified in the loop body", iv.Name())
				return true
			}
			inv := true
			ast.Inspect(b, func(y ast.Node) bool {
				if id, ok := y.(*ast.Ident); ok {
					if v, isVar := kit.ObjOf(info, id).(*types.Var); isVar && !v.IsField() && (assigned(fs.Body, v) || assigned(fs.Post, v)) {
						inv = false
					}
				}
				if _, isCall := y.(*ast.CallExpr); isCall {
					if tv, ok := info.Types[y.(*ast.CallExpr).Fun]; !ok || !tv.IsType() {
						if bi, ok := kit.Callee(info, y.(*ast.CallExpr)).(*types.Builtin); !ok || bi.Name() != "len" {
							inv = false
						}
					}
				}
				return true
			})
			if !inv {
				o.Undecided("the bound `%s` is not loop-invariant", f.Str(b))
				return true
			}
			bt := bnd.Term(b)
			fsb, _ := bnd.FactsBefore(fs.Cond)
			if bt == nil || fsb == nil {
				o.Undecided("the bound `%s` cannot be evaluated", f.Str(b))
				return true
			}
			env := bnd.EnvAt(fsb, nil)
			trips := env.LinOf(bt)
			// number of iterations = bound - start value of the counter
			if init, ok := fs.Init.(*ast.AssignStmt); ok && len(init.Lhs) == len(init.Rhs) {
				for i, l := range init.Lhs {
					if kit.ObjOf(info, l) == iv {
						if fsi, _ := bnd.FactsBefore(fs.Init); fsi != nil {
							if t0 := bnd.Term(init.Rhs[i]); t0 != nil {
								trips = trips.Sub(bnd.EnvAt(fsi, nil).LinOf(t0))
							}
						}
					}
				}
			}
			hi := env.IvLin(trips).Hi
			if hi > 65535 {
				o.Undecided("the number of iterations up to `%s` is not known to fit 16 bits (upper bound %d)", f.Str(b), hi)
				return true
			}
			o.OK("%s counts up to `%s`: at most %d iterations", iv.Name(), f.Str(b), hi)
		}
		return true
	})
	_ = n
}

func rootOf(info *types.Info, e ast.Expr) types.Object {
	for {
		switch x := ast.Unparen(e).(type) {
		case *ast.Ident:
			return kit.ObjOf(info, x)
		case *ast.SelectorExpr:
			e = x.X
		case *ast.IndexExpr:
			e = x.X
		case *ast.StarExpr:
			e = x.X
		default:
			return nil
		}
	}
}

func (m *mbModel) loopLabel(n ast.Node) string {
	l := "loop"
	if f := m.fnOf(n); f != m.Req {
		return f.Name + ": loop"
	}
	if a := m.armAt(n); a != nil {
		l = a.label() + ": loop"
	}
	return l
}
