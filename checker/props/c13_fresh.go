package props

import (
	"fmt"
	"go/ast"
	"go/token"
	"go/types"
	"strings"

	"siotcheck/kit"
)

// C13/R7 — change detection reads the CURRENT stored state.
//
// The evaluator decides "did this point change the condition?" by comparing
// the computed result with the condition's stored state.  The comparison is
// only meaningful against the state as it is now.  A copy of the condition
// (the value variable of a range statement, or `c := list[i]`) is a snapshot
// taken when it was bound; once the evaluator stores into the same element,
// the snapshot is stale until it is bound again.  Rule: no CFG path (constant
// flags pruned by kit.Std) leads from a store into `<list>[i].<active>` to a
// comparison with `<copy>.<active>` of a copy of that element bound before
// the store.  Comparing with `<list>[i].<active>` itself is always current.
//
// Witness shape for a violation: a batch of two matching points whose results
// differ; the first flips the stored state, the second equals the stale copy,
// is judged "unchanged", and the condition keeps the state of the earlier
// point.
func c13R7(c *kit.Ctx, m *ruModel, e *kit.Func, r7 *kit.Rule) {
	info := e.Info()
	g := c.P.Graph(e)
	rg := m.rangesOf(e)
	isCond := func(t types.Type) bool { return t != nil && types.Identical(t, m.cond) }

	// ---- copies: variables of the condition type and where they are bound
	type copyVar struct {
		obj   types.Object
		rs    *ast.RangeStmt // bound by this range statement (value variable), or
		binds []*ast.AssignStmt
		srcs  []ast.Expr // right-hand sides of the bindings
	}
	copies := map[types.Object]*copyVar{}
	get := func(o types.Object) *copyVar {
		cv := copies[o]
		if cv == nil {
			cv = &copyVar{obj: o}
			copies[o] = cv
		}
		return cv
	}
	for o, rs := range rg.val {
		if isCond(o.Type()) && rs.Pos() >= e.Body.Pos() && rs.End() <= e.Body.End() {
			get(o).rs = rs
		}
	}
	ruInspectOwn(e, func(n ast.Node) bool {
		switch x := n.(type) {
		case *ast.AssignStmt:
			if len(x.Lhs) != len(x.Rhs) {
				return true
			}
			for i, l := range x.Lhs {
				id, ok := ast.Unparen(l).(*ast.Ident)
				if !ok {
					continue
				}
				if o := kit.ObjOf(info, id); o != nil && isCond(o.Type()) {
					cv := get(o)
					cv.binds = append(cv.binds, x)
					cv.srcs = append(cv.srcs, x.Rhs[i])
				}
			}
		case *ast.ValueSpec:
			for i, nm := range x.Names {
				if o := info.Defs[nm]; o != nil && isCond(o.Type()) && i < len(x.Values) && len(x.Values) == len(x.Names) {
					cv := get(o)
					cv.srcs = append(cv.srcs, x.Values[i])
				}
			}
		}
		return true
	})

	// a pointer to a list element, `p := &list[i]` (single definition): reading
	// or writing through it reads or writes the element itself
	ptrTarget := func(x ast.Expr) ast.Expr {
		id, ok := ast.Unparen(x).(*ast.Ident)
		if !ok {
			return x
		}
		o := kit.ObjOf(info, id)
		if o == nil {
			return x
		}
		if pt, isPtr := o.Type().(*types.Pointer); !isPtr || !isCond(pt.Elem()) {
			return x
		}
		if rhs, _, _, n := c13SingleDef(e, o); n == 1 && rhs != nil {
			if u, isU := ast.Unparen(rhs).(*ast.UnaryExpr); isU && u.Op == token.AND {
				return u.X
			}
		}
		return x
	}
	// element a storage expression denotes: (list expression, index expression)
	elemOf := func(x ast.Expr) (list, idx ast.Expr, ok bool) {
		x = ptrTarget(x)
		ix, isIx := ast.Unparen(x).(*ast.IndexExpr)
		if !isIx {
			return nil, nil, false
		}
		if el := ruSliceElem(info.TypeOf(ix.X)); el == nil || !types.Identical(el, m.cond) {
			return nil, nil, false
		}
		return ix.X, ix.Index, true
	}
	// relation of a store `L[k].active = …` to a copy: "same", "other", "maybe"
	relation := func(cv *copyVar, sl, sk ast.Expr) string {
		rel := func(list, idx ast.Expr, idxObj types.Object) string {
			if !kit.SameExpr(info, list, sl) {
				return "maybe" // another spelling of a list: may alias
			}
			ko := kit.ObjOf(info, sk)
			switch {
			case idxObj != nil && ko == idxObj:
				return "same"
			case idx != nil && kit.SameExpr(info, idx, sk):
				return "same"
			}
			// two different constant indices denote different elements
			if idx != nil {
				a, okA := kit.ConstInt(info, idx)
				b, okB := kit.ConstInt(info, sk)
				if okA && okB && a != b {
					return "other"
				}
			}
			return "maybe"
		}
		out := "other"
		merge := func(r string) {
			switch {
			case r == "same" || out == "same":
				out = "same"
			case r == "maybe":
				out = "maybe"
			}
		}
		if cv.rs != nil {
			var ko types.Object
			if cv.rs.Key != nil {
				ko = kit.ObjOf(info, cv.rs.Key)
			}
			if ko == nil {
				merge("maybe") // element index not named: cannot tell
			} else {
				merge(rel(cv.rs.X, nil, ko))
			}
		}
		for _, src := range cv.srcs {
			if l, k, ok := elemOf(src); ok {
				merge(rel(l, k, nil))
			} else {
				merge("maybe")
			}
		}
		return out
	}

	// ---- flow
	st := &kit.Std{F: e}
	bf := &kit.BoolFlow{Std: st}
	type site struct {
		leaf   ast.Expr
		kind   string // "direct" | "copy" | "other"
		cv     *copyVar
		stale  string // position of the store that made it stale
		unsure string
		seen   bool
	}
	sites := map[ast.Expr]*site{}
	var order []*site
	classify := func(leaf ast.Expr, operand ast.Expr) *site {
		if sx := sites[leaf]; sx != nil {
			return sx
		}
		sx := &site{leaf: leaf, kind: "other"}
		base, _, _ := kit.FieldSel(info, operand)
		if _, _, ok := elemOf(base); ok {
			sx.kind = "direct"
		} else if id, isId := ast.Unparen(base).(*ast.Ident); isId {
			if o := kit.ObjOf(info, id); o != nil && copies[o] != nil {
				sx.kind, sx.cv = "copy", copies[o]
			}
		}
		sites[leaf] = sx
		order = append(order, sx)
		return sx
	}
	isActiveSel := func(x ast.Expr) bool {
		_, fv, ok := kit.FieldSel(info, x)
		return ok && fv == m.cf["active"]
	}
	var checkLeaves func(cond ast.Expr, s kit.S) kit.S
	bf.OnCond = func(cond ast.Expr, s kit.S) kit.S { return checkLeaves(cond, s) }
	checkLeaves = func(cond ast.Expr, s kit.S) kit.S {
		for _, l := range ruLeaves(cond) {
			a, b, _, ok := ruEqLeaf(l)
			if !ok {
				continue
			}
			var operand ast.Expr
			switch {
			case isActiveSel(a) && kit.IsBoolType(info.TypeOf(b)):
				operand = a
			case isActiveSel(b) && kit.IsBoolType(info.TypeOf(a)):
				operand = b
			default:
				continue
			}
			sx := classify(l, operand)
			sx.seen = true
			if sx.kind != "copy" {
				continue
			}
			switch v := s.Get("st:" + kit.VarID(sx.cv.obj)); {
			case strings.HasPrefix(v, "stale@"):
				if sx.stale == "" {
					sx.stale = strings.TrimPrefix(v, "stale@")
				}
			case strings.HasPrefix(v, "?@"):
				if sx.unsure == "" {
					sx.unsure = strings.TrimPrefix(v, "?@")
				}
			}
		}
		return s
	}
	st.OnNode = func(n ast.Node, s kit.S) []kit.S {
		// a comparison held in a local: `changed := active != c.Active`
		{
			var rhs []ast.Expr
			switch x := n.(type) {
			case *ast.AssignStmt:
				rhs = x.Rhs
			case *ast.ValueSpec:
				rhs = x.Values
			}
			for _, rx := range rhs {
				if kit.IsBoolType(info.TypeOf(rx)) {
					s = checkLeaves(rx, s)
				}
			}
		}
		as, ok := n.(*ast.AssignStmt)
		if !ok {
			return []kit.S{s}
		}
		// (re)binding of a copy: fresh
		if len(as.Lhs) == len(as.Rhs) && (as.Tok == token.ASSIGN || as.Tok == token.DEFINE) {
			for _, l := range as.Lhs {
				if id, isId := ast.Unparen(l).(*ast.Ident); isId {
					if o := kit.ObjOf(info, id); o != nil && copies[o] != nil {
						s = s.Del("st:" + kit.VarID(o))
					}
				}
			}
		}
		for _, l := range as.Lhs {
			if !m.isStoreTo(e, l, m.cf["active"], m.cond) {
				continue
			}
			base, _, _ := kit.FieldSel(info, l)
			sl, sk, isElem := elemOf(base)
			for _, cv := range copies {
				key := "st:" + kit.VarID(cv.obj)
				r := "maybe"
				if isElem {
					r = relation(cv, sl, sk)
				}
				switch r {
				case "same":
					s = s.Set(key, "stale@"+e.At(as))
				case "maybe":
					if !strings.HasPrefix(s.Get(key), "stale@") {
						s = s.Set(key, "?@"+e.At(as))
					}
				}
			}
		}
		return []kit.S{s}
	}
	st.OnBranch = func(br kit.Branch, s kit.S) (t, f []kit.S, handled bool) {
		if br.Kind != kit.BrRange || br.Range.Value == nil {
			return nil, nil, false
		}
		o := kit.ObjOf(info, br.Range.Value)
		if o == nil || copies[o] == nil {
			return nil, nil, false
		}
		// entering an iteration binds the value variable anew
		return []kit.S{s.Del("st:" + kit.VarID(o))}, []kit.S{s}, true
	}
	res := g.Run(kit.NewS(), bf.Client())
	if res.Overflow {
		c.Fatalf("%s: state space overflow in freshness run", e.Name)
	}
	c.AddValuations(1)

	n := 0
	for _, sx := range order {
		if !sx.seen {
			continue
		}
		n++
		name := "change detection against the stored state"
		if n > 1 {
			name += fmt.Sprintf(" #%d", n)
		}
		o := r7.Ob(e, sx.leaf, name, "the condition state compared with the computed result is the state as stored now: it is read from the list element itself, or from a copy bound after the last store into that element")
		switch {
		case sx.kind == "direct":
			o.OK("`%s` reads the list element itself", e.Str(sx.leaf))
		case sx.kind != "copy":
			o.Undecided("`%s` compares with a condition value whose origin is not a list element or a local copy of one", e.Str(sx.leaf))
		case sx.stale != "":
			how := "bound by an assignment"
			if sx.cv.rs != nil {
				how = "the value variable of the range statement at " + e.At(sx.cv.rs) + ", bound once per iteration of that loop"
			}
			o.Violation("`%s` at %s compares with the copy `%s` (%s) although the store at %s can have changed the same element since the copy was taken; witness: inactive condition, one batch of two matching points [satisfying, not satisfying]: the first stores active, the second is compared with the pre-store copy (inactive), judged unchanged, and the condition stays active although the latest matching point does not satisfy it",
				e.Str(sx.leaf), e.At(sx.leaf), sx.cv.obj.Name(), how, sx.stale)
		case sx.unsure != "":
			o.Undecided("`%s` compares with the copy `%s`; the store at %s may or may not hit the element the copy was taken from (different list spelling or index)", e.Str(sx.leaf), sx.cv.obj.Name(), sx.unsure)
		default:
			o.OK("on every path the copy `%s` is bound again between a store into its element and this comparison", sx.cv.obj.Name())
		}
	}
	if n == 0 {
		o := r7.Ob(e, nil, "change detection against the stored state", "the condition state compared with the computed result is the current one")
		if len(m.condStores(e)) > 0 {
			o.OK("%s stores the computed state without comparing it with a stored one", e.Name)
		} else {
			o.Undecided("no comparison with, and no store into, a condition's state")
		}
	}
}
