package props

import (
	"fmt"
	"go/ast"
	"go/types"
	"sort"
	"strings"
	"sync"

	"siotcheck/kit"
)

// Shared by C12/R1 and C17/R4: discovery of the wire codec functions of
// package data by signature, and the field-completeness decision (K5a).

const (
	c12DataPkg = kit.ModPath + "/data"
	c12PbPkg   = kit.ModPath + "/internal/pb"
)

// c12Codec is one conversion function between a Go struct of package data
// and a message struct of package internal/pb.
type c12Codec struct {
	F      *kit.Func
	Enc    bool // data -> pb
	G, M   *types.Named
	In     types.Object
	Map    *kit.FieldMap
	InType *types.Named
}

// c12Pair groups the encoder(s) and decoder(s) of one (G, M) pair.
type c12Pair struct {
	G, M *types.Named
	Enc  []*c12Codec
	Dec  []*c12Codec
}

func (p *c12Pair) name() string { return p.G.Obj().Name() + "<->pb." + p.M.Obj().Name() }

func c12PkgOf(n *types.Named) string {
	if n == nil || n.Obj().Pkg() == nil {
		return ""
	}
	return n.Obj().Pkg().Path()
}

// c12DiscoverCodecs finds every declared function of package data whose
// single struct-typed input (receiver, or the only parameter) and whose first
// result are named structs (through at most one pointer) — one of package
// data, the other of package internal/pb.
func c12DiscoverCodecs(c *kit.Ctx) ([]*c12Pair, map[types.Object]*c12Codec) {
	byObj := map[types.Object]*c12Codec{}
	pairs := map[string]*c12Pair{}
	for _, f := range c.P.Funcs("data") {
		if f.Decl == nil || f.Obj == nil {
			continue
		}
		sig := f.Obj.Type().(*types.Signature)
		if sig.Results().Len() == 0 {
			continue
		}
		out := kit.NamedStructOf(sig.Results().At(0).Type())
		if out == nil {
			continue
		}
		var in types.Object
		switch {
		case sig.Recv() != nil && sig.Params().Len() == 0:
			if f.Decl.Recv != nil && len(f.Decl.Recv.List) == 1 && len(f.Decl.Recv.List[0].Names) == 1 {
				in = f.Info().Defs[f.Decl.Recv.List[0].Names[0]]
			}
		case sig.Recv() == nil && sig.Params().Len() == 1:
			if ps := f.Params(); len(ps) == 1 {
				in = ps[0]
			}
		}
		if in == nil {
			continue
		}
		inT := kit.NamedStructOf(in.Type())
		if inT == nil {
			continue
		}
		var cd *c12Codec
		switch {
		case c12PkgOf(inT) == c12DataPkg && c12PkgOf(out) == c12PbPkg:
			cd = &c12Codec{F: f, Enc: true, G: inT, M: out, In: in}
		case c12PkgOf(inT) == c12PbPkg && c12PkgOf(out) == c12DataPkg:
			cd = &c12Codec{F: f, Enc: false, G: out, M: inT, In: in}
		default:
			continue
		}
		cd.InType = inT
		key := cd.G.Obj().Name() + "|" + cd.M.Obj().Name()
		p := pairs[key]
		if p == nil {
			p = &c12Pair{G: cd.G, M: cd.M}
			pairs[key] = p
		}
		if cd.Enc {
			p.Enc = append(p.Enc, cd)
		} else {
			p.Dec = append(p.Dec, cd)
		}
		byObj[f.Obj] = cd
	}
	var out []*c12Pair
	for _, p := range pairs {
		out = append(out, p)
	}
	sort.Slice(out, func(i, j int) bool { return out[i].name() < out[j].name() })
	return out, byObj
}

// ---------------------------------------------------------------------------
// transform classification

type c12Xform struct {
	kind string // "id" | "conv" | "time" | "nested" | "unknown" | "lossy"
	tag  string // time: wire representation
	why  string
}

func c12Bits(t types.Type) (class string, bits int) {
	b, ok := t.Underlying().(*types.Basic)
	if !ok {
		return "other", 0
	}
	switch b.Kind() {
	case types.Int, types.Uint, types.Int64, types.Uint64, types.Uintptr:
		return "int", 64
	case types.Int32, types.Uint32:
		return "int", 32
	case types.Int16, types.Uint16:
		return "int", 16
	case types.Int8, types.Uint8:
		return "int", 8
	case types.Float64:
		return "float", 64
	case types.Float32:
		return "float", 32
	case types.String:
		return "string", 0
	case types.Bool:
		return "bool", 1
	}
	return "other", 0
}

// c12TimeWire tables the library wrappers between time.Time and a wire
// representation (library API names are the interface, DESIGN.md §0.2).
// Value: representation tag; only "tspb" and "unixnano" keep nanoseconds.
func c12TimeWire(st kit.FieldStep, enc bool) (string, bool) {
	q := kit.QualName(st.Callee)
	constAt := func(pos int, val int64) bool {
		for _, a := range st.Consts {
			if a.Pos == pos && a.Val == val {
				return true
			}
		}
		return false
	}
	if enc {
		switch q {
		case "github.com/golang/protobuf/ptypes.TimestampProto", "google.golang.org/protobuf/types/known/timestamppb.New":
			return "tspb", true
		case "time.(Time).UnixNano":
			return "unixnano", true
		case "time.(Time).UnixMicro":
			return "unixmicro", true
		case "time.(Time).UnixMilli":
			return "unixmilli", true
		case "time.(Time).Unix":
			return "unixsec", true
		}
		return "", false
	}
	switch q {
	case "github.com/golang/protobuf/ptypes.Timestamp", "google.golang.org/protobuf/types/known/timestamppb.(*Timestamp).AsTime":
		return "tspb", true
	case "time.Unix":
		if st.Arg == 1 && constAt(0, 0) {
			return "unixnano", true
		}
		if st.Arg == 0 && constAt(1, 0) {
			return "unixsec", true
		}
		return "unix(mixed)", true
	case "time.UnixMicro":
		return "unixmicro", true
	case "time.UnixMilli":
		return "unixmilli", true
	}
	return "", false
}

// c12Classify decides what a step chain does to a value.
func c12Classify(steps []kit.FieldStep, from, to types.Type, enc bool, codecs map[types.Object]*c12Codec) c12Xform {
	// conversions to the operand's own type do nothing
	var kept []kit.FieldStep
	for _, s := range steps {
		if s.Kind == "conv" && s.From != nil && s.Type != nil && types.Identical(s.From, s.Type) {
			continue
		}
		kept = append(kept, s)
	}
	steps = kept
	if len(steps) == 0 {
		return c12Xform{kind: "id"}
	}
	allConv := true
	for _, s := range steps {
		if s.Kind != "conv" {
			allConv = false
		}
	}
	if allConv {
		c1, b1 := c12Bits(from)
		c2, b2 := c12Bits(to)
		if c1 != c2 || c1 == "other" {
			return c12Xform{kind: "unknown", why: "conversion between different kinds of types"}
		}
		min := b1
		if b2 < min {
			min = b2
		}
		for _, s := range steps {
			cc, bb := c12Bits(s.Type)
			if cc != c1 {
				return c12Xform{kind: "lossy", why: fmt.Sprintf("conversion through %s changes the kind of the value", s.Type)}
			}
			if bb < min {
				return c12Xform{kind: "lossy", why: fmt.Sprintf("conversion through %s (%d bits) is narrower than both ends (%d bits)", s.Type, bb, min)}
			}
		}
		return c12Xform{kind: "conv"}
	}
	// single library wrapper
	if len(steps) == 1 && (steps[0].Kind == "call" || steps[0].Kind == "method") {
		if tag, ok := c12TimeWire(steps[0], enc); ok {
			return c12Xform{kind: "time", tag: tag}
		}
		return c12Xform{kind: "unknown", why: "call of " + kit.QualName(steps[0].Callee) + " is not a tabled wrapper"}
	}
	// element-wise nested codec: elem, call/method(codec), [addr|deref], store
	var seq []string
	for _, s := range steps {
		seq = append(seq, s.Kind)
	}
	shape := strings.Join(seq, ",")
	switch shape {
	case "elem,call,store", "elem,method,store", "elem,call,addr,store", "elem,method,addr,store":
		for _, s := range steps {
			if s.Note != "" {
				return c12Xform{kind: "unknown", why: s.Kind + ": " + s.Note}
			}
		}
		cs := steps[1]
		cd := codecs[cs.Callee]
		if cd == nil || cd.Enc != enc {
			return c12Xform{kind: "unknown", why: "element conversion " + kit.QualName(cs.Callee) + " is not a codec function of the same direction"}
		}
		if cs.Result != 0 {
			return c12Xform{kind: "unknown", why: "element conversion result position"}
		}
		return c12Xform{kind: "nested", tag: cd.G.Obj().Name() + "/" + cd.M.Obj().Name()}
	}
	return c12Xform{kind: "unknown", why: "transform chain " + shape + " is not understood"}
}

// ---------------------------------------------------------------------------

// c12FieldVerdict is the decision for one Go-struct field of one pair.
type c12FieldVerdict struct {
	Field   *types.Var
	Status  string // ok | violation | undecided
	Msg     string
	By      string
	Site    *kit.Func
	SiteMap *kit.FieldMap
}

// c12CheckPair decides field completeness of one (G, M) pair: every field of
// G is the only source of exactly one field of M in the encoder, the decoder
// reads G's field back from that same M field, and the two transforms are
// inverse (identity, width-preserving conversions, tabled time wrappers that
// keep nanoseconds, element-wise nested codecs).
func c12CheckPair(c *kit.Ctx, p *c12Pair, codecs map[types.Object]*c12Codec) ([]c12FieldVerdict, string) {
	p.Enc = c12DropAliases(c, p.Enc, codecs)
	p.Dec = c12DropAliases(c, p.Dec, codecs)
	if len(p.Enc) != 1 || len(p.Dec) != 1 {
		return nil, fmt.Sprintf("pair %s has %d encoder(s) and %d decoder(s) (exactly one each is understood)", p.name(), len(p.Enc), len(p.Dec))
	}
	enc, dec := p.Enc[0], p.Dec[0]
	if enc.Map == nil {
		enc.Map = kit.ExtractFieldMap(enc.F, enc.In)
	}
	if dec.Map == nil {
		dec.Map = kit.ExtractFieldMap(dec.F, dec.In)
	}
	c.Analysed(enc.F, dec.F)
	if enc.Map.Lit == nil {
		return nil, fmt.Sprintf("%s: %s", enc.F.Name, strings.Join(enc.Map.Problems, "; "))
	}
	if dec.Map.Lit == nil {
		return nil, fmt.Sprintf("%s: %s", dec.F.Name, strings.Join(dec.Map.Problems, "; "))
	}
	var out []c12FieldVerdict
	usedM := map[*types.Var]*types.Var{}
	for _, g := range kit.StructFields(p.G) {
		v := c12FieldVerdict{Field: g, Site: enc.F}
		// encoder: message fields fed by g
		var targets []*kit.FieldSrc
		var mixed []*kit.FieldSrc
		for _, m := range enc.Map.Order {
			src := enc.Map.Entries[m]
			for _, sf := range src.Fields {
				if sf == g {
					if len(src.Fields) == 1 {
						targets = append(targets, src)
					} else {
						mixed = append(mixed, src)
					}
				}
			}
		}
		switch {
		case len(targets) == 0 && len(mixed) == 0:
			v.Status = "violation"
			v.Msg = fmt.Sprintf("%s builds pb.%s without using %s.%s: the field is lost on the wire (a value with non-zero %s decodes with the zero value)",
				enc.F.Name, p.M.Obj().Name(), p.G.Obj().Name(), g.Name(), g.Name())
			out = append(out, v)
			continue
		case len(targets) == 0:
			v.Status = "undecided"
			v.Msg = fmt.Sprintf("%s.%s only reaches message fields that mix several sources (%s)", p.G.Obj().Name(), g.Name(), enc.F.Str(mixed[0].Expr))
			out = append(out, v)
			continue
		}
		// decoder
		v.Site = dec.F
		dsrc := dec.Map.Entries[g]
		if dsrc == nil || len(dsrc.Fields) == 0 {
			v.Status = "violation"
			what := "never sets"
			if dsrc != nil {
				what = "sets from a value that does not come from the message"
			}
			v.Msg = fmt.Sprintf("%s %s %s.%s although %s stores it in pb.%s.%s: the field is lost on decoding",
				dec.F.Name, what, p.G.Obj().Name(), g.Name(), enc.F.Name, p.M.Obj().Name(), targets[0].Out.Name())
			out = append(out, v)
			continue
		}
		if len(dsrc.Fields) != 1 {
			v.Status = "undecided"
			v.Msg = fmt.Sprintf("%s derives %s.%s from several message fields (%s)", dec.F.Name, p.G.Obj().Name(), g.Name(), dec.F.Str(dsrc.Expr))
			out = append(out, v)
			continue
		}
		m := dsrc.Fields[0]
		var esrc *kit.FieldSrc
		for _, t := range targets {
			if t.Out == m {
				esrc = t
			}
		}
		if esrc == nil {
			var names []string
			for _, t := range targets {
				names = append(names, t.Out.Name())
			}
			v.Status = "violation"
			v.Msg = fmt.Sprintf("%s stores %s.%s in message field %s but %s reads it back from message field %s",
				enc.F.Name, p.G.Obj().Name(), g.Name(), strings.Join(names, "/"), dec.F.Name, m.Name())
			out = append(out, v)
			continue
		}
		if other := usedM[m]; other != nil {
			v.Status = "violation"
			v.Msg = fmt.Sprintf("message field %s carries both %s and %s", m.Name(), other.Name(), g.Name())
			out = append(out, v)
			continue
		}
		usedM[m] = g
		if dsrc.Out != g {
			v.Status = "undecided"
			v.Msg = "internal: decoder entry mismatch"
			out = append(out, v)
			continue
		}
		// transforms
		ex := c12ClassifyInl(c, enc.F, esrc.Steps, g.Type(), m.Type(), true, codecs)
		dx := c12ClassifyInl(c, dec.F, dsrc.Steps, m.Type(), g.Type(), false, codecs)
		switch {
		case ex.kind == "lossy" || dx.kind == "lossy":
			v.Status = "violation"
			v.Site = enc.F
			why := ex.why
			if dx.kind == "lossy" {
				v.Site, why = dec.F, dx.why
			}
			v.Msg = fmt.Sprintf("%s.%s <-> pb.%s.%s: %s", p.G.Obj().Name(), g.Name(), p.M.Obj().Name(), m.Name(), why)
		case ex.kind == "unknown" || dx.kind == "unknown":
			v.Status = "undecided"
			v.Msg = fmt.Sprintf("%s.%s <-> pb.%s.%s: encoder %s, decoder %s", p.G.Obj().Name(), g.Name(), p.M.Obj().Name(), m.Name(), c12XformStr(ex), c12XformStr(dx))
		case ex.kind == "time" || dx.kind == "time":
			switch {
			case ex.kind != dx.kind:
				v.Status = "undecided"
				v.Msg = fmt.Sprintf("time field %s: encoder %s, decoder %s", g.Name(), c12XformStr(ex), c12XformStr(dx))
			case ex.tag != dx.tag:
				v.Status = "violation"
				v.Site = dec.F
				v.Msg = fmt.Sprintf("%s.%s is written as %s by %s but read back as %s by %s (%s vs %s): the time does not survive the round trip",
					p.G.Obj().Name(), g.Name(), ex.tag, enc.F.Name, dx.tag, dec.F.Name, enc.F.Str(esrc.Expr), dec.F.Str(dsrc.Expr))
			case ex.tag != "tspb" && ex.tag != "unixnano":
				v.Status = "violation"
				v.Msg = fmt.Sprintf("%s.%s travels as %s, which drops the nanoseconds the property requires", p.G.Obj().Name(), g.Name(), ex.tag)
			default:
				v.Status = "ok"
				v.By = fmt.Sprintf("%s: %s -> pb.%s; %s: %s -> %s (%s, nanoseconds kept)", enc.F.Name, enc.F.Str(esrc.Expr), m.Name(), dec.F.Name, dec.F.Str(dsrc.Expr), g.Name(), ex.tag)
			}
		case ex.kind == "nested" || dx.kind == "nested":
			if ex.kind != dx.kind || ex.tag != dx.tag {
				v.Status = "undecided"
				v.Msg = fmt.Sprintf("list field %s: encoder %s, decoder %s", g.Name(), c12XformStr(ex), c12XformStr(dx))
			} else {
				v.Status = "ok"
				v.By = fmt.Sprintf("element-wise through the %s codec in both directions (pb.%s)", ex.tag, m.Name())
			}
		default:
			v.Status = "ok"
			v.By = fmt.Sprintf("%s: %s -> pb.%s; %s: %s -> %s", enc.F.Name, enc.F.Str(esrc.Expr), m.Name(), dec.F.Name, dec.F.Str(dsrc.Expr), g.Name())
		}
		out = append(out, v)
	}
	return out, ""
}

func c12XformStr(x c12Xform) string {
	s := x.kind
	if x.tag != "" {
		s += ":" + x.tag
	}
	if x.why != "" {
		s += " (" + x.why + ")"
	}
	return s
}

// c12ReportPair turns the verdicts of a pair into obligations of rule r.
func c12ReportPair(c *kit.Ctx, r *kit.Rule, p *c12Pair, codecs map[types.Object]*c12Codec) {
	vs, problem := c12CheckPair(c, p, codecs)
	if problem != "" {
		var f *kit.Func
		if len(p.Enc) > 0 {
			f = p.Enc[0].F
		} else if len(p.Dec) > 0 {
			f = p.Dec[0].F
		}
		r.Ob(f, nil, "codec pair "+p.name(), "encoder and decoder field maps can be extracted").Undecided("%s", problem)
		return
	}
	// extraction problems that do not prevent a map make every field undecided
	var probs []string
	c12HelperMu.Lock()
	resolved := c12ResolvedOf(c.P)
	for _, pr := range append(append([]string{}, p.Enc[0].Map.Problems...), p.Dec[0].Map.Problems...) {
		// remarks about an element helper that its summary has answered (c12_wrap.go)
		if !resolved[pr] {
			probs = append(probs, pr)
		}
	}
	c12HelperMu.Unlock()
	for _, v := range vs {
		var node ast.Node
		if v.Site == p.Enc[0].F && p.Enc[0].Map.Lit != nil {
			node = p.Enc[0].Map.Lit
		} else if v.Site == p.Dec[0].F && p.Dec[0].Map.Lit != nil {
			node = p.Dec[0].Map.Lit
		}
		o := r.Ob(v.Site, node, fmt.Sprintf("field %s.%s via pb.%s", p.G.Obj().Name(), v.Field.Name(), p.M.Obj().Name()),
			"the field is the only source of exactly one message field, is read back from that field, and the two transforms are inverse")
		switch {
		case len(probs) > 0:
			// an unreliable map must not produce a violation
			o.Undecided("field map extraction: %s", strings.Join(c12Uniq(probs), "; "))
		case v.Status == "violation":
			o.Violation("%s", v.Msg)
		case v.Status == "ok":
			o.OK("%s", v.By)
		default:
			o.Undecided("%s", v.Msg)
		}
	}
}

func c12Uniq(in []string) []string {
	seen := map[string]bool{}
	var out []string
	for _, s := range in {
		if !seen[s] {
			seen[s] = true
			out = append(out, s)
		}
	}
	return out
}

// ---------------------------------------------------------------------------
// module helpers inside a transform chain

// c12Helper is the summary of a module function with one parameter and one
// result, used as a conversion helper in a codec (`serialNsToTime(ns)`).
type c12Helper struct {
	status string          // "ok" | "lossy" | "unknown"
	steps  []kit.FieldStep // ok: the transform every return applies to the parameter
	why    string
}

// summaries are cached per program (properties run concurrently in the sensitivity sweep)
var c12HelperMu sync.Mutex

func c12HelperMemoOf(fn *kit.Func) map[*kit.Func]*c12Helper {
	return fn.Prog.Aux("c12.helperMemo", func() any { return map[*kit.Func]*c12Helper{} }).(map[*kit.Func]*c12Helper)
}

// c12ParamChain traces e back to parameter prm of f: the transform steps
// (innermost first), whether the value depends on prm at all, and whether the
// shape is understood.
func c12ParamChain(f *kit.Func, prm types.Object, e ast.Expr, depth int) (steps []kit.FieldStep, depends, ok bool) {
	info := f.Info()
	e = ast.Unparen(e)
	if depth > 6 {
		return nil, false, false
	}
	if tv, has := info.Types[e]; has && tv.Value != nil {
		return nil, false, true
	}
	switch x := e.(type) {
	case *ast.Ident:
		o := kit.ObjOf(info, x)
		if o == prm {
			return nil, true, true
		}
		if _, isNil := o.(*types.Nil); isNil {
			return nil, false, true
		}
		if v, isVar := o.(*types.Var); isVar && !v.IsField() && v.Pkg() != nil && v.Parent() != v.Pkg().Scope() {
			if def := c12SingleDef(f, o); def != nil {
				return c12ParamChain(f, prm, def, depth+1)
			}
		}
		return nil, false, false
	case *ast.CompositeLit:
		for _, el := range x.Elts {
			v := el
			if kv, isKV := el.(*ast.KeyValueExpr); isKV {
				v = kv.Value
			}
			if _, d, k := c12ParamChain(f, prm, v, depth+1); !k || d {
				return nil, d, false
			}
		}
		return nil, false, true
	case *ast.CallExpr:
		if tv, has := info.Types[x.Fun]; has && tv.IsType() && len(x.Args) == 1 {
			st, d, k := c12ParamChain(f, prm, x.Args[0], depth+1)
			if !k {
				return nil, d, false
			}
			if !d {
				return nil, false, true
			}
			return append(st, kit.FieldStep{Kind: "conv", Type: tv.Type, From: info.TypeOf(x.Args[0])}), true, true
		}
		callee := kit.Callee(info, x)
		if _, isFn := callee.(*types.Func); !isFn {
			return nil, false, false
		}
		kind := "call"
		var inner []kit.FieldStep
		pos, n := -2, 0
		var consts []kit.FieldArg
		if sel, isSel := ast.Unparen(x.Fun).(*ast.SelectorExpr); isSel {
			if s2, has := info.Selections[sel]; has && s2.Kind() == types.MethodVal {
				kind = "method"
				st, d, k := c12ParamChain(f, prm, sel.X, depth+1)
				if !k {
					return nil, d, false
				}
				if d {
					inner, pos = st, -1
					n++
				}
			}
		}
		for i, a := range x.Args {
			if cv, isC := kit.ConstInt(info, a); isC {
				consts = append(consts, kit.FieldArg{Pos: i, Val: cv})
				continue
			}
			st, d, k := c12ParamChain(f, prm, a, depth+1)
			if !k {
				return nil, d, false
			}
			if d {
				inner, pos = st, i
				n++
			}
		}
		switch n {
		case 0:
			return nil, false, true // e.g. time.Now(): independent of the parameter
		case 1:
			return append(inner, kit.FieldStep{Kind: kind, Callee: callee, Call: x, Arg: pos, Consts: consts}), true, true
		}
		return nil, true, false
	}
	// anything else that mentions the parameter is not understood
	mention := false
	ast.Inspect(e, func(n ast.Node) bool {
		if id, isId := n.(*ast.Ident); isId && kit.ObjOf(info, id) == prm {
			mention = true
		}
		return !mention
	})
	return nil, mention, false
}

func c12StepsKey(steps []kit.FieldStep) string {
	var p []string
	for _, s := range steps {
		k := s.Kind
		switch s.Kind {
		case "conv":
			k += ":" + s.Type.String()
		case "call", "method":
			k += fmt.Sprintf(":%s@%d%v", kit.QualName(s.Callee), s.Arg, s.Consts)
		}
		p = append(p, k)
	}
	return strings.Join(p, ",")
}

// c12SummariseHelper decides what fn does to its only parameter on every
// path.  For an integer parameter the values reaching each return are
// computed (value-mode interval analysis), so that "returns time.Now() when
// ns == 0" is a witnessed loss, not a guess.
func c12SummariseHelper(c *kit.Ctx, fn *kit.Func, codecs map[types.Object]*c12Codec) *c12Helper {
	c12HelperMu.Lock()
	hm := c12HelperMemoOf(fn)[fn]
	c12HelperMu.Unlock()
	if h := hm; h != nil {
		return h
	}
	h := &c12Helper{status: "unknown"}
	c12HelperMu.Lock()
	c12HelperMemoOf(fn)[fn] = h
	c12HelperMu.Unlock()
	sig := fn.Signature()
	ps := fn.Params()
	if fn.Decl == nil || fn.Body == nil || sig == nil || sig.Recv() != nil || len(ps) != 1 || sig.Variadic() {
		h.why = "helper " + fn.Name + " does not have exactly one parameter"
		return h
	}
	// list converter: (xs []A) ([]B, error), or (xs []A) []B — summarised by the
	// element-wise chain of its successful return
	if _, isSlice := ps[0].Type().Underlying().(*types.Slice); isSlice && sig.Results().Len() >= 1 && sig.Results().Len() <= 2 {
		okSig := true
		if sig.Results().Len() == 2 && !types.Identical(sig.Results().At(1).Type(), types.Universe.Lookup("error").Type()) {
			okSig = false
		}
		if okSig {
			c.Analysed(fn)
			steps, why := kit.ExtractParamChain(fn, ps[0])
			if why != "" {
				h.why = "helper " + fn.Name + ": " + why
				return h
			}
			// the list converter is where the element codec is called: nothing
			// else in it may write the elements (c12_wrap.go)
			for _, st := range steps {
				if cd := codecs[st.Callee]; cd != nil && (st.Kind == "call" || st.Kind == "method") {
					switch status, why := c12InlineEdits(fn, st, cd); status {
					case "lossy":
						h.status, h.why = "lossy", why
						return h
					case "unknown":
						h.why = why
						return h
					}
				}
			}
			h.status, h.steps = "ok", steps
			return h
		}
	}
	if sig.Results().Len() != 1 {
		h.why = "helper " + fn.Name + " does not have exactly one result"
		return h
	}
	prm := ps[0]
	c.Analysed(fn)
	type retInfo struct {
		ret        *ast.ReturnStmt
		set        string
		sample     int64
		correlated bool
		haveSet    bool
	}
	var rets []retInfo
	isInt := false
	if b, ok := prm.Type().Underlying().(*types.Basic); ok && b.Info()&types.IsInteger != 0 {
		isInt = true
		lf := &kit.LenFlow{F: fn, X: prm, Value: true, MinLen: kit.LenNegInf}
		if b.Info()&types.IsUnsigned != 0 {
			lf.MinLen = 0
		}
		lf.Run()
		if lf.Problem != "" || lf.Result == nil || lf.Result.Overflow {
			h.why = "helper " + fn.Name + ": " + lf.Problem
			return h
		}
		for _, e := range lf.Result.Exits {
			if e.Return == nil {
				h.why = "helper " + fn.Name + " can leave without returning (panic)"
				return h
			}
			set, sample, corr, ok := lf.ValueSet(e.State)
			if !ok {
				continue
			}
			rets = append(rets, retInfo{e.Return, set, sample, corr, true})
		}
	} else {
		ast.Inspect(fn.Body, func(x ast.Node) bool {
			switch y := x.(type) {
			case *ast.FuncLit:
				return false
			case *ast.ReturnStmt:
				rets = append(rets, retInfo{ret: y})
			}
			return true
		})
	}
	if len(rets) == 0 {
		h.why = "helper " + fn.Name + " has no reachable return"
		return h
	}
	key, first := "", true
	var steps []kit.FieldStep
	unknown := ""
	var indep []retInfo
	for _, r := range rets {
		if len(r.ret.Results) != 1 {
			h.why = "helper " + fn.Name + ": naked return"
			return h
		}
		st, depends, ok := c12ParamChain(fn, prm, r.ret.Results[0], 0)
		switch {
		case !ok:
			unknown = fmt.Sprintf("helper %s: `%s` is not understood", fn.Name, fn.Str(r.ret))
		case !depends:
			indep = append(indep, r)
		default:
			k := c12StepsKey(st)
			if first {
				key, steps, first = k, st, false
			} else if k != key {
				unknown = fmt.Sprintf("helper %s applies different transforms on different paths (%s vs %s)", fn.Name, key, k)
			}
		}
	}
	// returns whose value ignores the argument
	info := fn.Info()
	for _, r := range indep {
		e := ast.Unparen(r.ret.Results[0])
		single := r.haveSet && !strings.Contains(r.set, "..") && !strings.Contains(r.set, ",")
		lossy := func(when string) *c12Helper {
			h.status = "lossy"
			h.why = fmt.Sprintf("helper %s returns %s, which does not depend on its argument, %s (at %s): e.g. the wire value %d does not decode to the value that was encoded",
				fn.Name, fn.Str(e), when, fn.At(r.ret), r.sample)
			return h
		}
		switch {
		case isInt && r.haveSet && !r.correlated && !single:
			// one result for several distinct arguments: not injective
			return lossy(fmt.Sprintf("for every %s in {%s}", prm.Name(), r.set))
		case isInt && r.haveSet && !r.correlated && single:
			// a special case for exactly one value: harmless iff it equals the general transform at that value
			// general transform: optional 64-bit integer conversions, then one call
			var last kit.FieldStep
			shapeOK := len(steps) > 0 && unknown == ""
			for i, st := range steps {
				if i == len(steps)-1 {
					last = st
					shapeOK = shapeOK && st.Kind == "call"
				} else if cl, bits := c12Bits(st.Type); st.Kind != "conv" || cl != "int" || bits != 64 {
					shapeOK = false
				}
			}
			if call, ok := e.(*ast.CallExpr); ok && shapeOK && kit.Callee(info, call) == last.Callee && len(call.Args) == len(last.Consts)+1 {
				steps0 := []kit.FieldStep{last}
				same := true
				for i, a := range call.Args {
					v, isC := kit.ConstInt(info, a)
					if !isC {
						same = false
						break
					}
					want, found := int64(0), false
					if i == steps0[0].Arg {
						want, found = r.sample, true
					}
					for _, cst := range steps0[0].Consts {
						if cst.Pos == i {
							want, found = cst.Val, true
						}
					}
					if !found || v != want {
						same = false
					}
				}
				if same {
					continue
				}
			}
			impure := false
			ast.Inspect(e, func(n ast.Node) bool {
				if call, ok := n.(*ast.CallExpr); ok && kit.CallIs(info, call, "time.Now", "time.Since", "math/rand.Int63", "math/rand.Int") {
					impure = true
				}
				return !impure
			})
			if impure {
				return lossy(fmt.Sprintf("when %s == %s", prm.Name(), r.set))
			}
			unknown = fmt.Sprintf("helper %s: `%s` replaces the result for %s == %s by a value that cannot be compared with the general transform", fn.Name, fn.Str(r.ret), prm.Name(), r.set)
		case !isInt && len(rets) == 1:
			h.status = "lossy"
			h.why = fmt.Sprintf("helper %s always returns %s, which does not depend on its argument", fn.Name, fn.Str(e))
			return h
		default:
			unknown = fmt.Sprintf("helper %s: `%s` ignores the argument under a condition that is not decided", fn.Name, fn.Str(r.ret))
		}
	}
	if unknown != "" {
		h.why = unknown
		return h
	}
	if first {
		h.why = "helper " + fn.Name + ": no return depends on the argument"
		return h
	}
	h.status, h.steps = "ok", steps
	return h
}

// c12ClassifyInl replaces calls of one-parameter module helpers in the chain
// by their summary, and calls of element helpers (c12_wrap.go) by the element
// codec they stand for, then classifies.  site is the codec function the
// chain was extracted from.
func c12ClassifyInl(c *kit.Ctx, site *kit.Func, steps []kit.FieldStep, from, to types.Type, enc bool, codecs map[types.Object]*c12Codec) c12Xform {
	for round := 0; round < 4; round++ {
		changed := false
		var out []kit.FieldStep
		for _, st := range steps {
			// an element codec called here: nothing else in this function may write the element
			if cd := codecs[st.Callee]; cd != nil && cd.Enc == enc && (st.Kind == "call" || st.Kind == "method") {
				switch status, why := c12InlineEdits(site, st, cd); status {
				case "lossy":
					return c12Xform{kind: "lossy", why: why}
				case "unknown":
					return c12Xform{kind: "unknown", why: why}
				}
			}
			helperWhy := ""
			if st.Kind == "call" && st.Arg == 0 && st.Result == 0 && len(st.Consts) == 0 && codecs[st.Callee] == nil {
				if fn := c.P.FuncOf(st.Callee); fn != nil && fn.Body != nil {
					h := c12SummariseHelper(c, fn, codecs)
					switch h.status {
					case "lossy":
						return c12Xform{kind: "lossy", why: h.why}
					case "ok":
						out = append(out, h.steps...)
						changed = true
						continue
					default:
						helperWhy = h.why
					}
				}
			}
			if w, is := c12WrapStep(c, st, enc, codecs); is {
				switch w.status {
				case "lossy":
					return c12Xform{kind: "lossy", why: w.why}
				case "pure":
					kind := "call"
					if sg := w.cd.F.Signature(); sg != nil && sg.Recv() != nil {
						kind = "method"
					}
					out = append(out, kit.FieldStep{Kind: kind, Callee: w.cd.F.Obj, Call: w.call})
					changed = true
					continue
				default:
					if helperWhy == "" {
						helperWhy = w.why
					}
				}
			}
			if helperWhy != "" {
				return c12Xform{kind: "unknown", why: helperWhy}
			}
			out = append(out, st)
		}
		steps = out
		if !changed {
			break
		}
	}
	return c12Classify(steps, from, to, enc, codecs)
}
