package props

import (
	"fmt"
	"go/ast"
	"go/token"
	"go/types"
	"sync"

	"siotcheck/kit"
)

// C12/R1, element clause: a nested element reaches the other side exactly
// as its own codec made it.
//
// The list fields of a node travel element-wise through the point codec.  R1
// proves the point codec field by field; that proof carries over to the
// elements of a node only if nothing touches an element between the point
// codec and the list (or between the list and the point codec): a statement
// that stores a value which does not come from the element into one of its
// carried fields makes two different elements share one wire image on that
// path (`if pPb.Origin == n.ID { pPb.Origin = "" }` sends "own ID" and "blank"
// as the same bytes), and the other side, which reads the field back verbatim,
// cannot tell them apart.
//
// Decided here, in the function that calls the element codec — the outer
// codec itself, or a helper it converts each element with (a method of the
// outer struct, a function with further parameters):
//
//   - every assignment to a field of the element's Go struct or message type
//     is found by the TYPE of the selected value, whatever variable or alias
//     it goes through;
//   - a write to a field the element codec carries, with a value that reads no
//     element (a constant, a field of the outer struct), is a VIOLATION,
//     conditional or not; `if x.F == c { x.F = c }` is no write;
//   - a write whose value is computed from an element, ++/--/op=, or a field
//     map that cannot be extracted is undecided;
//   - a helper without such writes that returns what the element codec
//     returned for its element parameter, and uses nothing else, stands for
//     the element codec (then the extractor's "method of the whole input
//     struct" remark is answered: the helper reads no other field).

// c12ElemEdit is one statement that writes a field of an element.
type c12ElemEdit struct {
	stmt ast.Stmt
	sel  *ast.SelectorExpr
	fld  *types.Var
	in   bool     // the value handed to the element codec (else: its result)
	val  ast.Expr // nil: ++/--, op=, multi-value
	cond ast.Expr // condition of the innermost enclosing if statement
	then bool     // the statement stands directly in that if's then-block
}

// c12StructOfSel returns the named struct whose field sel selects (through
// pointers and embedding), and the field.
func c12StructOfSel(info *types.Info, sel *ast.SelectorExpr) (*types.Named, *types.Var) {
	s, ok := info.Selections[sel]
	if !ok || s.Kind() != types.FieldVal {
		return nil, nil
	}
	fld, _ := s.Obj().(*types.Var)
	if fld == nil {
		return nil, nil
	}
	// the struct that declares the field: walk the embedding path
	t := s.Recv()
	idx := s.Index()
	for i, k := range idx {
		n := kit.NamedStructOf(t)
		if n == nil {
			return nil, nil
		}
		if i == len(idx)-1 {
			return n, fld
		}
		st, ok := n.Underlying().(*types.Struct)
		if !ok || k >= st.NumFields() {
			return nil, nil
		}
		t = st.Field(k).Type()
	}
	return nil, nil
}

// c12ElemEdits lists the statements of f (nested literals included) that
// write a field of the Go struct or the message of element codec cd.
func c12ElemEdits(f *kit.Func, cd *c12Codec) []c12ElemEdit {
	info := f.Info()
	var out []c12ElemEdit
	add := func(stmt ast.Stmt, lhs, val ast.Expr) {
		sel, ok := ast.Unparen(lhs).(*ast.SelectorExpr)
		if !ok {
			return
		}
		n, fld := c12StructOfSel(info, sel)
		if n == nil || (n.Obj() != cd.G.Obj() && n.Obj() != cd.M.Obj()) {
			return
		}
		ed := c12ElemEdit{stmt: stmt, sel: sel, fld: fld, in: n.Obj() == cd.InType.Obj(), val: val}
		if ifs, ok := f.Enclosing(stmt, func(x ast.Node) bool { _, is := x.(*ast.IfStmt); return is }).(*ast.IfStmt); ok {
			ed.cond = ifs.Cond
			for _, s := range ifs.Body.List {
				if s == stmt {
					ed.then = true
				}
			}
		}
		out = append(out, ed)
	}
	ast.Inspect(f.Body, func(x ast.Node) bool {
		switch y := x.(type) {
		case *ast.AssignStmt:
			for i, l := range y.Lhs {
				var val ast.Expr
				if len(y.Lhs) == len(y.Rhs) && y.Tok == token.ASSIGN {
					val = y.Rhs[i]
				}
				add(y, l, val)
			}
		case *ast.IncDecStmt:
			add(y, y.X, nil)
		}
		return true
	})
	return out
}

// c12ReadsElem: e reads a value of the element's struct or message type.
func c12ReadsElem(info *types.Info, e ast.Expr, cd *c12Codec) bool {
	found := false
	ast.Inspect(e, func(x ast.Node) bool {
		if ex, ok := x.(ast.Expr); ok && !found {
			if tv, has := info.Types[ex]; has && tv.Type != nil && !tv.IsType() {
				if n := kit.NamedStructOf(tv.Type); n != nil && (n.Obj() == cd.G.Obj() || n.Obj() == cd.M.Obj()) {
					found = true
				}
			}
		}
		return !found
	})
	return found
}

// c12CodecMap returns the field map of a codec function (extracted on demand).
func c12CodecMap(cd *c12Codec) *kit.FieldMap {
	c12WrapMu.Lock()
	defer c12WrapMu.Unlock()
	if cd.Map == nil {
		cd.Map = kit.ExtractFieldMap(cd.F, cd.In)
	}
	return cd.Map
}

var c12WrapMu sync.Mutex

// c12JudgeEdits decides the element writes of f for element codec cd.
// status: "" nothing that matters | "lossy" | "unknown".
func c12JudgeEdits(f *kit.Func, cd *c12Codec, edits []c12ElemEdit) (status, why string) {
	if len(edits) == 0 {
		return "", ""
	}
	info := f.Info()
	m := c12CodecMap(cd)
	other := "the decoder reads the field back verbatim"
	if !cd.Enc {
		other = "the value the encoder put on the wire is gone"
	}
	unknown := ""
	for _, ed := range edits {
		where := fmt.Sprintf("`%s` at %s", f.Str(ed.stmt), f.At(ed.stmt))
		if m == nil || m.Lit == nil || len(m.Problems) > 0 {
			unknown = fmt.Sprintf("%s writes a field of an element, and the field map of the element codec %s is not available", where, cd.F.Name)
			continue
		}
		// does the element codec carry this field?
		carried := false
		var peer *types.Var
		if ed.in {
			for _, o := range m.Order {
				for _, sf := range m.Entries[o].Fields {
					if sf == ed.fld {
						carried, peer = true, o
					}
				}
			}
		} else if src := m.Entries[ed.fld]; src != nil && len(src.Fields) > 0 {
			carried, peer = true, src.Fields[0]
		}
		if !carried {
			continue
		}
		if ed.val == nil {
			unknown = fmt.Sprintf("%s changes field %s of an element in place", where, ed.fld.Name())
			continue
		}
		// `if x.F == v { x.F = v }` writes nothing
		if ed.cond != nil && ed.then {
			if a, b, op, ok := kit.CmpAtom(ed.cond); ok && op == token.EQL {
				if kit.SameExpr(info, b, ed.sel) {
					a, b = b, a
				}
				if kit.SameExpr(info, a, ed.sel) {
					same := kit.SameExpr(info, b, ed.val)
					if s1, ok1 := kit.ConstString(info, b); ok1 {
						if s2, ok2 := kit.ConstString(info, ed.val); ok2 && s1 == s2 {
							same = true
						}
					}
					if k1, ok1 := kit.ConstInt(info, b); ok1 {
						if k2, ok2 := kit.ConstInt(info, ed.val); ok2 && k1 == k2 {
							same = true
						}
					}
					if same {
						continue
					}
				}
			}
		}
		if tv, has := info.Types[ed.val]; (has && tv.Value != nil) || !c12ReadsElem(info, ed.val, cd) {
			under := "on every path"
			if ed.cond != nil && ed.then {
				under = fmt.Sprintf("where `%s` holds", f.Str(ed.cond))
			} else if ed.cond != nil {
				under = fmt.Sprintf("in a branch of `if %s`", f.Str(ed.cond))
			}
			dir := "encoded element"
			switch {
			case cd.Enc && ed.in:
				dir = "element before it is encoded"
			case !cd.Enc && ed.in:
				dir = "element message before it is decoded"
			case !cd.Enc:
				dir = "decoded element"
			}
			elemT, fldT := cd.G.Obj().Name(), ed.fld.Name()
			if (cd.Enc && ed.in) || (!cd.Enc && !ed.in) {
				// the written field is the Go struct's own
			} else if peer != nil {
				fldT = peer.Name()
			}
			return "lossy", fmt.Sprintf("%s in %s stores %s, a value that does not come from the element, into field %s of the %s %s; there the element's own %s.%s is not what travels (%s), so elements that differ in it, e.g. one holding %s and one holding the original value, come out equal: the field does not survive the round trip inside the enclosing message",
				where, f.Name, f.Str(ed.val), ed.fld.Name(), dir, under, elemT, fldT, other, f.Str(ed.val))
		}
		unknown = fmt.Sprintf("%s recomputes field %s of an element from element data (not compared with the other direction)", where, ed.fld.Name())
	}
	if unknown != "" {
		return "unknown", unknown
	}
	return "", ""
}

// c12Wrap is the summary of a helper that converts one element.
type c12Wrap struct {
	status string // "pure" | "lossy" | "unknown"
	cd     *c12Codec
	call   *ast.CallExpr // the element codec call inside the helper
	why    string
}

func c12WrapMemoOf(fn *kit.Func) map[string]*c12Wrap {
	return fn.Prog.Aux("c12.wrapMemo", func() any { return map[string]*c12Wrap{} }).(map[string]*c12Wrap)
}

// c12ResolvedOf: extractor remarks that a helper summary has answered.
func c12ResolvedOf(p *kit.Prog) map[string]bool {
	return p.Aux("c12.wrapResolved", func() any { return map[string]bool{} }).(map[string]bool)
}

// c12StripAddr removes parentheses, & and *.
func c12StripAddr(e ast.Expr) ast.Expr {
	for {
		e = ast.Unparen(e)
		switch x := e.(type) {
		case *ast.UnaryExpr:
			if x.Op == token.AND {
				e = x.X
				continue
			}
		case *ast.StarExpr:
			e = x.X
			continue
		}
		return e
	}
}

// c12CodecOperand returns the expression the codec call converts.
func c12CodecOperand(info *types.Info, call *ast.CallExpr, cd *c12Codec) ast.Expr {
	if sig := cd.F.Signature(); sig != nil && sig.Recv() != nil {
		if sel, ok := ast.Unparen(call.Fun).(*ast.SelectorExpr); ok {
			return sel.X
		}
		return nil
	}
	if len(call.Args) == 1 {
		return call.Args[0]
	}
	return nil
}

// c12SummariseWrapper decides what helper fn does to the operand in position
// arg (-1: receiver) of the chain step that calls it.
func c12SummariseWrapper(c *kit.Ctx, fn *kit.Func, arg int, enc bool, codecs map[types.Object]*c12Codec) *c12Wrap {
	key := fmt.Sprintf("%s|%d|%v", kit.QualName(fn.Obj), arg, enc)
	c12HelperMu.Lock()
	if w := c12WrapMemoOf(fn)[key]; w != nil {
		c12HelperMu.Unlock()
		return w
	}
	w := &c12Wrap{status: "unknown"}
	c12WrapMemoOf(fn)[key] = w
	c12HelperMu.Unlock()

	sig := fn.Signature()
	if fn.Decl == nil || fn.Body == nil || fn.Obj == nil || sig == nil || sig.Variadic() {
		w.why = "helper " + fn.Name + " has no analysable body"
		return w
	}
	info := fn.Info()
	nres := sig.Results().Len()
	hasErr := nres == 2 && types.Identical(sig.Results().At(1).Type(), types.Universe.Lookup("error").Type())
	if nres != 1 && !hasErr {
		w.why = "helper " + fn.Name + " does not return (value) or (value, error)"
		return w
	}
	// the traced operand and the other inputs
	var prm types.Object
	others := map[types.Object]bool{}
	if fn.Decl.Recv != nil && len(fn.Decl.Recv.List) == 1 && len(fn.Decl.Recv.List[0].Names) == 1 {
		r := info.Defs[fn.Decl.Recv.List[0].Names[0]]
		if arg == -1 {
			prm = r
		} else if r != nil {
			others[r] = true
		}
	}
	for i, p := range fn.Params() {
		if i == arg {
			prm = p
		} else {
			others[p] = true
		}
	}
	if prm == nil {
		w.why = "helper " + fn.Name + ": the converted operand is not a named parameter"
		return w
	}
	c.Analysed(fn)
	// exactly one element codec call, on the traced operand
	var call *ast.CallExpr
	var cd *c12Codec
	ncalls := 0
	for _, cl := range fn.AllCalls(true) {
		if k := codecs[kit.Callee(info, cl)]; k != nil && k.Enc == enc {
			call, cd = cl, k
			ncalls++
		}
	}
	if ncalls != 1 {
		w.why = fmt.Sprintf("helper %s calls %d element codec functions (exactly one is understood)", fn.Name, ncalls)
		return w
	}
	w.cd, w.call = cd, call
	op := c12CodecOperand(info, call, cd)
	if op == nil {
		w.why = "helper " + fn.Name + ": operand of the element codec call not found"
		return w
	}
	if id, ok := c12StripAddr(op).(*ast.Ident); !ok || kit.ObjOf(info, id) != prm {
		w.why = fmt.Sprintf("helper %s converts %s, not its element parameter %s", fn.Name, fn.Str(op), prm.Name())
		return w
	}
	// writes to element fields decide first: a loss is a loss whatever else the helper does
	status, why := c12JudgeEdits(fn, cd, c12ElemEdits(fn, cd))
	if status == "lossy" {
		w.status, w.why = "lossy", why
		return w
	}
	// the successful return hands back the codec's result
	var res types.Object
	var def ast.Node
	switch par := c.P.Parent(fn.File, call).(type) {
	case *ast.AssignStmt:
		if len(par.Rhs) == 1 && len(par.Lhs) >= 1 {
			if id, ok := ast.Unparen(par.Lhs[0]).(*ast.Ident); ok {
				res, def = kit.ObjOf(info, id), par
			}
		}
	case *ast.ValueSpec:
		if len(par.Values) == 1 && len(par.Names) >= 1 {
			res, def = info.Defs[par.Names[0]], par
		}
	case *ast.ReturnStmt:
		if len(par.Results) == 1 {
			def = par // return codec(p): the result passes through untouched
		}
	}
	if def == nil {
		w.why = fmt.Sprintf("helper %s: the result of %s is not bound to a variable or returned", fn.Name, fn.Str(call))
		return w
	}
	var rets []*ast.ReturnStmt
	ast.Inspect(fn.Body, func(x ast.Node) bool {
		switch y := x.(type) {
		case *ast.FuncLit:
			return false
		case *ast.ReturnStmt:
			if hasErr && len(y.Results) == 2 && !kit.IsNilIdent(info, y.Results[1]) {
				return true
			}
			rets = append(rets, y)
		}
		return true
	})
	if len(rets) != 1 {
		w.why = fmt.Sprintf("helper %s has %d successful return statements (exactly one is understood)", fn.Name, len(rets))
		return w
	}
	if res != nil {
		if len(rets[0].Results) != nres {
			w.why = "helper " + fn.Name + ": return with implicit results"
			return w
		}
		id, ok := c12StripAddr(rets[0].Results[0]).(*ast.Ident)
		if !ok || kit.ObjOf(info, id) != res {
			w.why = fmt.Sprintf("helper %s returns %s, not the result of %s", fn.Name, fn.Str(rets[0].Results[0]), fn.Str(call))
			return w
		}
		// the result variable: defined once, then only its fields are read or
		// written (writes are judged by type above) and it is returned
		bad := ""
		ast.Inspect(fn.Body, func(x ast.Node) bool {
			id, ok := x.(*ast.Ident)
			if !ok || kit.ObjOf(info, id) != res || bad != "" {
				return true
			}
			par := c.P.Parent(fn.File, id)
			for {
				if p, ok := par.(*ast.ParenExpr); ok {
					par = c.P.Parent(fn.File, p)
					continue
				}
				break
			}
			switch y := par.(type) {
			case *ast.AssignStmt:
				if ast.Node(y) == def {
					return true
				}
			case *ast.ValueSpec:
				if ast.Node(y) == def {
					return true
				}
			case *ast.SelectorExpr:
				if y.X == ast.Expr(id) {
					if _, isField := info.Selections[y]; isField && info.Selections[y].Kind() == types.FieldVal {
						return true
					}
				}
			case *ast.ReturnStmt:
				return true
			case *ast.UnaryExpr:
				if _, isRet := c.P.Parent(fn.File, y).(*ast.ReturnStmt); isRet && y.Op == token.AND {
					return true
				}
			}
			bad = fmt.Sprintf("helper %s uses the converted element %s at %s in a way that may change it out of sight", fn.Name, id.Name, fn.At(id))
			return true
		})
		if bad != "" {
			w.why = bad
			return w
		}
	}
	if status == "unknown" {
		w.why = why
		return w
	}
	// the other inputs: not used at all (the helper is a function of the element)
	used := ""
	ast.Inspect(fn.Body, func(x ast.Node) bool {
		if id, ok := x.(*ast.Ident); ok && used == "" && others[kit.ObjOf(info, id)] {
			used = fmt.Sprintf("helper %s also reads %s (at %s); what that does to the element is not decided", fn.Name, id.Name, fn.At(id))
		}
		return true
	})
	if used != "" {
		w.why = used
		return w
	}
	w.status = "pure"
	return w
}

// c12WrapStep tries to read chain step st (a call of a module function that
// is no codec) as an element helper.  ok=false: not that shape.
func c12WrapStep(c *kit.Ctx, st kit.FieldStep, enc bool, codecs map[types.Object]*c12Codec) (*c12Wrap, bool) {
	if (st.Kind != "call" && st.Kind != "method") || st.Result != 0 || len(st.Consts) != 0 || codecs[st.Callee] != nil {
		return nil, false
	}
	fn := c.P.FuncOf(st.Callee)
	if fn == nil || fn.Body == nil || fn.Decl == nil {
		return nil, false
	}
	w := c12SummariseWrapper(c, fn, st.Arg, enc, codecs)
	if w.status == "pure" || w.status == "lossy" {
		// the extractor's remarks about this call are answered by the summary
		if st.Call != nil {
			q, at := kit.QualName(st.Callee), c.P.Pos(st.Call.Pos())
			c12HelperMu.Lock()
			rs := c12ResolvedOf(c.P)
			rs["a method of the whole input struct ("+q+") feeds the result at "+at] = true
			rs["the whole input struct is passed to "+q+" at "+at] = true
			c12HelperMu.Unlock()
		}
	}
	return w, true
}

// c12InlineEdits judges element writes in the codec function itself (site)
// for a chain that calls element codec cd at step st: writes inside a loop
// that converts other elements with the same codec belong to that loop.
func c12InlineEdits(site *kit.Func, st kit.FieldStep, cd *c12Codec) (status, why string) {
	if site == nil || site.Body == nil {
		return "", ""
	}
	info := site.Info()
	var mine []c12ElemEdit
	for _, ed := range c12ElemEdits(site, cd) {
		loop := site.Enclosing(ed.stmt, func(x ast.Node) bool {
			switch x.(type) {
			case *ast.ForStmt, *ast.RangeStmt:
				return true
			}
			return false
		})
		if loop != nil && st.Call != nil {
			own, foreign := false, false
			ast.Inspect(loop, func(x ast.Node) bool {
				if cl, ok := x.(*ast.CallExpr); ok {
					if cl == st.Call {
						own = true
					} else if kit.Callee(info, cl) == st.Callee {
						foreign = true
					}
				}
				return true
			})
			if foreign && !own {
				continue
			}
		}
		mine = append(mine, ed)
	}
	return c12JudgeEdits(site, cd, mine)
}

// c12DropAliases removes from the codec functions of one direction of a pair
// those that only hand their input to another codec function of the same pair
// and return its result (`func pointPtr(p Point) (*pb.Point, error)` around
// Point.ToPb): they are a second name for that codec, not a second codec.
func c12DropAliases(c *kit.Ctx, list []*c12Codec, codecs map[types.Object]*c12Codec) []*c12Codec {
	if len(list) < 2 {
		return list
	}
	var keep []*c12Codec
	for _, cd := range list {
		arg := 0
		if sg := cd.F.Signature(); sg != nil && sg.Recv() != nil {
			arg = -1
		}
		w := c12SummariseWrapper(c, cd.F, arg, cd.Enc, codecs)
		if w.status == "pure" && w.cd != nil && w.cd != cd && w.cd.G.Obj() == cd.G.Obj() && w.cd.M.Obj() == cd.M.Obj() {
			c.Note("R1: %s only wraps %s (same codec under a second name)", cd.F.Name, w.cd.F.Name)
			continue
		}
		keep = append(keep, cd)
	}
	if len(keep) == 0 {
		return list
	}
	return keep
}
