package props

import (
	"go/ast"
	"go/token"
	"go/types"
	"sort"

	"siotcheck/kit"
)

// R8: every "link is up" report of the REMOTE connection reaches the run loop.
//
// The run loop learns the state of the upstream link only from the values the
// connection callbacks put on the link-state channel: the value that makes it
// catch up (arm the ticker, call the comparing function) is also the one that
// enables forwarding.  The last state it reads must therefore be "up" whenever
// the link is up.  Necessary:
//
//   - the callbacks installed for "connected" and "reconnected" (typed by the
//     nats option the connect function registers them with) deliver that value
//     on every path, with a send that cannot be skipped: a plain send, or a
//     select whose only alternatives end the client (a channel that is only
//     ever closed).  A `default` arm or a timeout drops the report when the run
//     loop is busy — it sits in the catch-up for many round trips — and if the
//     dropped one is the latest, the loop believes the link is down for as
//     long as it stays up: no catch-up is scheduled, local changes are not
//     forwarded;
//   - no callback reports from a goroutine of its own (the reports of one
//     connection are made in order by the library; a concurrent send can
//     overtake a later one).
//
// A "disconnected" report may be lossy: the next "up" report still arrives
// after it.  Not decided: how long the run loop takes to come back to its
// select, the buffer size of the channel (irrelevant for blocking sends).

type c02LinkModel struct {
	m      *c02Model
	ch     *types.Var            // link-state channel field of the sync client
	kinds  map[*types.Var]string // options field -> "up" / "down"
	how    map[*types.Var]string // options field -> nats option it is registered with
	closed map[*types.Var]bool   // channel fields that are closed and never sent on
	touch  map[*kit.Func]bool    // methods of the sync client that (transitively) use ch
	reach  map[*kit.Func]bool    // methods from which the comparing function is reached
	upVal  string                // the reported value that makes the run loop catch up
}

func (lm *c02LinkModel) fieldOf(e ast.Expr) *types.Var {
	sel, ok := ast.Unparen(e).(*ast.SelectorExpr)
	if !ok {
		return nil
	}
	v, ok := kit.ObjOf(lm.m.info, sel).(*types.Var)
	if !ok || !v.IsField() {
		return nil
	}
	return v
}

func (lm *c02LinkModel) mentions(n ast.Node, fld *types.Var) bool {
	found := false
	ast.Inspect(n, func(x ast.Node) bool {
		if sel, ok := x.(*ast.SelectorExpr); ok && lm.fieldOf(sel) == fld {
			found = true
		}
		return true
	})
	return found
}

func c02IsBoolChan(t types.Type) bool {
	ch, ok := t.Underlying().(*types.Chan)
	if !ok {
		return false
	}
	b, ok := ch.Elem().Underlying().(*types.Basic)
	return ok && b.Kind() == types.Bool
}

// handlerKinds types the callback fields of the connect options by the nats
// option (or nats.Options field) the connect function registers them with.
func (lm *c02LinkModel) handlerKinds() {
	m := lm.m
	f := m.connect
	opt := f.Params()[0]
	kindOf := map[string]string{
		"ConnectHandler": "up", "ReconnectHandler": "up", "DisconnectHandler": "down", "DisconnectErrHandler": "down",
		"ConnectedCB": "up", "ReconnectedCB": "up", "DisconnectedCB": "down", "DisconnectedErrCB": "down",
	}
	// option fields invoked inside a node
	invoked := func(n ast.Node) []*types.Var {
		var out []*types.Var
		ast.Inspect(n, func(x ast.Node) bool {
			sel, ok := x.(*ast.SelectorExpr)
			if !ok || kit.ObjOf(m.info, sel.X) != types.Object(opt) {
				return true
			}
			if v, ok := kit.ObjOf(m.info, sel).(*types.Var); ok && v.IsField() {
				if _, isFn := v.Type().Underlying().(*types.Signature); isFn {
					out = append(out, v)
				}
			}
			return true
		})
		return out
	}
	note := func(name string, arg ast.Node) {
		k, ok := kindOf[name]
		if !ok {
			return
		}
		for _, v := range invoked(arg) {
			lm.kinds[v] = k
			lm.how[v] = "nats." + name
		}
	}
	ast.Inspect(f.Body, func(x ast.Node) bool {
		switch y := x.(type) {
		case *ast.CallExpr:
			if fn, ok := kit.Callee(m.info, y).(*types.Func); ok && fn.Pkg() != nil && fn.Pkg().Path() == natsPkg &&
				fn.Type().(*types.Signature).Recv() == nil && len(y.Args) == 1 {
				note(fn.Name(), y.Args[0])
			}
		case *ast.AssignStmt:
			for i, l := range y.Lhs {
				sel, ok := ast.Unparen(l).(*ast.SelectorExpr)
				if !ok || i >= len(y.Rhs) {
					continue
				}
				if v, ok := kit.ObjOf(m.info, sel).(*types.Var); ok && v.IsField() && v.Pkg() != nil && v.Pkg().Path() == natsPkg {
					note(v.Name(), y.Rhs[i])
				}
			}
		}
		return true
	})
}

// callbackFunc resolves the value of a callback field to a function body.
func (lm *c02LinkModel) callbackFunc(f *kit.Func, e ast.Expr) *kit.Func {
	c := lm.m.c
	switch x := ast.Unparen(e).(type) {
	case *ast.FuncLit:
		return c.P.LitFunc("client", x)
	case *ast.SelectorExpr:
		if fn, ok := kit.ObjOf(lm.m.info, x).(*types.Func); ok {
			return c.P.FuncOf(fn)
		}
	case *ast.Ident:
		switch o := kit.ObjOf(lm.m.info, x).(type) {
		case *types.Func:
			return c.P.FuncOf(o)
		case *types.Var:
			return f.LocalClosure(o)
		}
	}
	return nil
}

// selectOf returns the select statement of a communication clause.
func c02SelectOf(p *kit.Prog, file *ast.File, cc *ast.CommClause) *ast.SelectStmt {
	if blk, ok := p.Parent(file, cc).(*ast.BlockStmt); ok {
		sel, _ := p.Parent(file, blk).(*ast.SelectStmt)
		return sel
	}
	return nil
}

// lastCommNoDefault: cc is the last communication of a select without default,
// so "not taken" does not happen there (the select blocks instead).
func c02LastCommNoDefault(sel *ast.SelectStmt, cc *ast.CommClause) bool {
	if sel == nil {
		return false
	}
	var last *ast.CommClause
	for _, x := range sel.Body.List {
		c := x.(*ast.CommClause)
		if c.Comm == nil {
			return false
		}
		last = c
	}
	return last == cc
}

// recvChan returns the channel expression a communication receives from.
func c02RecvChan(comm ast.Stmt) ast.Expr {
	var e ast.Expr
	switch c := comm.(type) {
	case *ast.AssignStmt:
		if len(c.Rhs) == 1 {
			e = c.Rhs[0]
		}
	case *ast.ExprStmt:
		e = c.X
	}
	if u, ok := ast.Unparen(e).(*ast.UnaryExpr); ok && u.Op == token.ARROW {
		return u.X
	}
	return nil
}

// altKind classifies an alternative of a select that sends a link report:
// "end" (the client is being stopped), "drop" (the report is given up), "?".
func (lm *c02LinkModel) altKind(cc *ast.CommClause) string {
	if cc.Comm == nil {
		return "drop" // default
	}
	ch := c02RecvChan(cc.Comm)
	if ch == nil {
		return "?"
	}
	if fld := lm.fieldOf(ch); fld != nil && lm.closed[fld] {
		return "end"
	}
	info := lm.m.info
	if call, ok := ast.Unparen(ch).(*ast.CallExpr); ok && kit.CallIs(info, call, "time.After", "time.Tick") {
		return "drop"
	}
	if sel, ok := ast.Unparen(ch).(*ast.SelectorExpr); ok {
		if v, ok := kit.ObjOf(info, sel).(*types.Var); ok && v.IsField() && v.Pkg() != nil && v.Pkg().Path() == "time" {
			return "drop" // Timer.C / Ticker.C
		}
	}
	return "?"
}

type c02LinkVerdict struct {
	exits               int
	vals                map[string]bool // last value reported at an exit ("" = none)
	async, deferred     string
	dropSel, unknownSel string
	ended               int
}

// runCallback follows a connection callback (with the sync client's methods
// that use the channel evaluated inline) and records what it has reported when
// it returns.
func (lm *c02LinkModel) runCallback(cb *kit.Func) *c02LinkVerdict {
	m := lm.m
	c := m.c
	v := &c02LinkVerdict{vals: map[string]bool{}}
	st := &kit.Std{F: cb, MaxInline: 3}
	st.ShouldInline = func(cf *kit.Func, call *ast.CallExpr) bool { return cf.Decl != nil && lm.touch[cf] }
	val := func(e ast.Expr, s kit.S) string {
		if cv, ok := st.FoldExpr(e, s); ok {
			return cv.ExactString()
		}
		return "?"
	}
	usesCh := func(call *ast.CallExpr) bool {
		cur := st.Cur()
		if lit, ok := ast.Unparen(call.Fun).(*ast.FuncLit); ok {
			return lm.mentions(lit.Body, lm.ch)
		}
		if cf := cur.CalleeFunc(call); cf != nil {
			return lm.touch[cf] || (cf.Lit != nil && lm.mentions(cf.Body, lm.ch))
		}
		return false
	}
	st.OnNode = func(n ast.Node, s kit.S) []kit.S {
		cur := st.Cur()
		switch y := n.(type) {
		case *ast.SendStmt:
			if lm.fieldOf(y.Chan) != lm.ch {
				break
			}
			if _, inSelect := c.P.Parent(cur.File, y).(*ast.CommClause); inSelect {
				break // decided at the branch
			}
			return []kit.S{s.Set("ls", val(y.Value, s))}
		case *ast.GoStmt:
			if usesCh(y.Call) {
				v.async = cur.At(y)
			}
		case *ast.DeferStmt:
			if usesCh(y.Call) {
				v.deferred = cur.At(y)
			}
		}
		return []kit.S{s}
	}
	st.OnBranch = func(br kit.Branch, s kit.S) (t, f []kit.S, handled bool) {
		if br.Kind != kit.BrSelect || br.Comm == nil {
			return nil, nil, false
		}
		cur := st.Cur()
		sel := c02SelectOf(c.P, cur.File, br.Comm)
		if sel == nil {
			return nil, nil, false
		}
		// does this select report on the channel at all?
		var send *ast.SendStmt
		for _, x := range sel.Body.List {
			if ss, ok := x.(*ast.CommClause).Comm.(*ast.SendStmt); ok && lm.fieldOf(ss.Chan) == lm.ch {
				send = ss
			}
		}
		if send == nil {
			return nil, nil, false
		}
		for _, x := range sel.Body.List {
			cc := x.(*ast.CommClause)
			if cc.Comm == ast.Stmt(send) {
				continue
			}
			switch lm.altKind(cc) {
			case "drop":
				v.dropSel = cur.At(sel)
			case "?":
				v.unknownSel = cur.At(sel)
			}
		}
		f = []kit.S{s}
		if c02LastCommNoDefault(sel, br.Comm) {
			f = nil
		}
		switch {
		case br.Comm.Comm == ast.Stmt(send):
			t = []kit.S{s.Set("ls", val(send.Value, s))}
		case lm.altKind(br.Comm) == "end":
			t = []kit.S{s.Set("end", "1")}
		default:
			t = []kit.S{s}
		}
		return t, f, true
	}
	res := c.P.Graph(cb).Run(kit.NewS(), st.Client())
	if res.Overflow {
		c.Fatalf("R8: state overflow in %s", cb.Name)
	}
	for _, e := range res.Exits {
		if e.State.Get("end") == "1" {
			v.ended++
			continue
		}
		v.exits++
		v.vals[e.State.Get("ls")] = true
	}
	c.Analysed(cb)
	return v
}

// receiver finds the arm of the run loop that reads the link-state channel
// and decides which reported value makes it catch up.
func (lm *c02LinkModel) receiver(r8 *kit.Rule) {
	m := lm.m
	c := m.c
	info := m.info
	var arms []*ast.CommClause
	var armFn []*kit.Func
	others := 0
	for _, f := range m.funcs {
		ast.Inspect(f.Body, func(x ast.Node) bool {
			if lit, ok := x.(*ast.FuncLit); ok && (f.Lit == nil || lit != f.Lit) {
				return false
			}
			switch y := x.(type) {
			case *ast.CommClause:
				if y.Comm != nil {
					if ch := c02RecvChan(y.Comm); ch != nil && lm.fieldOf(ch) == lm.ch {
						arms = append(arms, y)
						armFn = append(armFn, f)
					}
				}
			case *ast.UnaryExpr:
				if y.Op == token.ARROW && lm.fieldOf(y.X) == lm.ch {
					others++
				}
			}
			return true
		})
	}
	if len(arms) != 1 || others != 1 {
		c.Fatalf("R8: the link-state channel %s is received from at %d select arm(s) and %d place(s) in all; expected one arm of the run loop", lm.ch.Name(), len(arms), others)
	}
	arm, f := arms[0], armFn[0]
	o := r8.Ob(f, arm, "run loop reads the link state", "the arm that receives a link report keeps the reported value, and one of the two values makes it catch up (arm the catch-up ticker or call the comparing function) on every path")
	as, ok := arm.Comm.(*ast.AssignStmt)
	if !ok || len(as.Lhs) != 1 {
		o.Undecided("the reported value is not kept (`%s`)", f.Str(arm.Comm))
		return
	}
	bound := kit.ObjOf(info, as.Lhs[0])
	if bound == nil {
		o.Undecided("the reported value is not kept (`%s`)", f.Str(arm.Comm))
		return
	}
	// outcome[value] -> set of "1" (caught up) / "0" when the arm is left
	outcome := map[string]map[string]bool{"true": {}, "false": {}}
	st := &kit.Std{F: f, MaxInline: 2}
	// a method of the sync client that is handed the reported value is evaluated
	// inline (the arm's body moved into a method)
	getsValue := func(call *ast.CallExpr) bool {
		for _, a := range call.Args {
			if st.ObjOf(a) == bound {
				return true
			}
		}
		return false
	}
	st.ShouldInline = func(cf *kit.Func, call *ast.CallExpr) bool {
		return cf.Decl != nil && cf != m.F && m.isMethodOfSync(cf) && getsValue(call)
	}
	st.Fold = func(e ast.Expr, s kit.S) (bool, bool) {
		if id, ok := ast.Unparen(e).(*ast.Ident); ok && s.Has("lv") && st.ObjOf(id) == bound {
			return s.Get("lv") == "true", true
		}
		return false, false
	}
	inArm := func(n ast.Node) bool { return st.Cur() != f || (n.Pos() >= arm.Pos() && n.End() <= arm.End()) }
	leave := func(s kit.S) {
		cu := "0"
		if s.Get("cu") == "1" {
			cu = "1"
		}
		outcome[s.Get("lv")][cu] = true
	}
	st.OnCall = func(call *ast.CallExpr, n ast.Node, s kit.S) []kit.S {
		if !s.Has("lv") {
			return nil
		}
		if !inArm(n) {
			leave(s)
			return []kit.S{}
		}
		cur := st.Cur()
		if cf := cur.CalleeFunc(call); cf != nil && lm.reach[cf] && (cf == m.F || !getsValue(call)) {
			return []kit.S{s.Set("cu", "1")}
		}
		if kit.CallIs(info, call, "time.(*Ticker).Reset") {
			return []kit.S{s.Set("cu", "1")}
		}
		return nil
	}
	st.OnNode = func(n ast.Node, s kit.S) []kit.S {
		if id, ok := n.(*ast.Ident); ok && st.Cur() == f && kit.ObjOf(info, id) == bound && id.Pos() == as.Lhs[0].Pos() {
			out := []kit.S{}
			for _, v := range []string{"true", "false"} {
				out = append(out, s.Set("lv", v).Set("v:"+kit.VarID(bound), v))
			}
			return out
		}
		if s.Has("lv") && !inArm(n) {
			leave(s)
			return []kit.S{}
		}
		return []kit.S{s}
	}
	cl := st.Client()
	inner := cl.Cond
	cl.Cond = func(cond ast.Expr, s kit.S) (ts, fs []kit.S) {
		if s.Has("lv") && !inArm(cond) {
			leave(s)
			return nil, nil
		}
		return inner(cond, s)
	}
	res := c.P.Graph(f).Run(kit.NewS(), cl)
	if res.Overflow {
		c.Fatalf("R8: state overflow in %s", f.Name)
	}
	for _, e := range res.Exits {
		if e.State.Has("lv") {
			leave(e.State)
		}
	}
	all := func(v string) bool { return outcome[v]["1"] && !outcome[v]["0"] }
	none := func(v string) bool { return !outcome[v]["1"] && outcome[v]["0"] }
	switch {
	case all("true") && none("false"):
		lm.upVal = "true"
	case all("false") && none("true"):
		lm.upVal = "false"
	}
	if lm.upVal == "" {
		o.Undecided("cannot tell which reported value makes the run loop catch up: with `true` the arm %s, with `false` it %s", c02CuText(outcome["true"]), c02CuText(outcome["false"]))
		return
	}
	o.OK("reading `%s` arms the catch-up on every path through the arm, reading the opposite on none", lm.upVal)
}

func c02CuText(set map[string]bool) string {
	switch {
	case set["1"] && set["0"]:
		return "catches up on some paths only"
	case set["1"]:
		return "always catches up"
	case set["0"]:
		return "never catches up"
	}
	return "is not reached"
}

func c02LinkState(m *c02Model, r8 *kit.Rule) {
	c := m.c
	info := m.info
	lm := &c02LinkModel{m: m, kinds: map[*types.Var]string{}, how: map[*types.Var]string{}, closed: map[*types.Var]bool{},
		touch: map[*kit.Func]bool{}, reach: map[*kit.Func]bool{}}
	lm.handlerKinds()
	nUp := 0
	for _, k := range lm.kinds {
		if k == "up" {
			nUp++
		}
	}
	if nUp == 0 {
		c.Fatalf("R8: the connect function %s registers no option field with nats.ConnectHandler / nats.ReconnectHandler", m.connect.Name)
	}

	// channel fields of the sync client: who sends, who closes
	st := m.syncT.Underlying().(*types.Struct)
	sent := map[*types.Var]bool{}
	closedAt := map[*types.Var]bool{}
	for _, f := range m.decls {
		ast.Inspect(f.Body, func(x ast.Node) bool {
			switch y := x.(type) {
			case *ast.SendStmt:
				if fld := lm.fieldOf(y.Chan); fld != nil {
					sent[fld] = true
				}
			case *ast.CallExpr:
				if b, ok := kit.Callee(info, y).(*types.Builtin); ok && b.Name() == "close" && len(y.Args) == 1 {
					if fld := lm.fieldOf(y.Args[0]); fld != nil {
						closedAt[fld] = true
					}
				}
			}
			return true
		})
	}
	var cands []*types.Var
	for i := 0; i < st.NumFields(); i++ {
		fld := st.Field(i)
		if _, isChan := fld.Type().Underlying().(*types.Chan); !isChan {
			continue
		}
		if closedAt[fld] && !sent[fld] {
			lm.closed[fld] = true
		}
		if c02IsBoolChan(fld.Type()) && sent[fld] {
			cands = append(cands, fld)
		}
	}
	if len(cands) != 1 {
		c.Fatalf("R8: link-state channel not identified: %d `chan bool` fields of %s are sent on", len(cands), m.syncT.Obj().Name())
	}
	lm.ch = cands[0]

	// methods that use the channel / reach the comparing function
	callees := map[*kit.Func][]*kit.Func{}
	for _, f := range m.funcs {
		if f.Decl == nil {
			continue
		}
		if lm.mentions(f.Body, lm.ch) {
			lm.touch[f] = true
		}
		for _, call := range f.AllCalls(true) {
			if cf := f.CalleeFunc(call); cf != nil && cf.Decl != nil && m.isMethodOfSync(cf) {
				callees[f] = append(callees[f], cf)
			}
		}
	}
	lm.reach[m.F] = true
	for round := 0; round < 4; round++ {
		for f, cs := range callees {
			for _, cf := range cs {
				if lm.touch[cf] {
					lm.touch[f] = true
				}
				if lm.reach[cf] {
					lm.reach[f] = true
				}
			}
		}
	}

	lm.receiver(r8)

	// the REMOTE connect calls and their callbacks
	type site struct {
		f    *kit.Func
		call *ast.CallExpr
		lit  *ast.CompositeLit
	}
	var sites []site
	for _, f := range m.funcs {
		for _, call := range f.AllCalls(false) {
			if f.CalleeFunc(call) != m.connect || len(call.Args) != 1 {
				continue
			}
			lit := m.optionsLiteral(f.Root(), call.Args[0])
			if lit == nil {
				r8.Ob(f.Root(), call, "connect options", "the options of every connect call of the sync client are one composite literal").
					Undecided("the options `%s` are not built by a single literal", f.Str(call.Args[0]))
				continue
			}
			var uri ast.Expr
			for _, el := range lit.Elts {
				if kv, ok := el.(*ast.KeyValueExpr); ok {
					if id, ok := kv.Key.(*ast.Ident); ok && kit.ObjOf(info, id) == types.Object(m.connectURI) {
						uri = kv.Value
					}
				}
			}
			if uri == nil || m.uriSide(f.Root(), uri, 0) != c02Remote {
				continue
			}
			sites = append(sites, site{f, call, lit})
		}
	}
	if len(sites) == 0 {
		c.Fatalf("R8: no connect call with the REMOTE URI found in the sync client")
	}
	var flds []*types.Var
	for v := range lm.kinds {
		flds = append(flds, v)
	}
	sort.Slice(flds, func(i, j int) bool { return flds[i].Pos() < flds[j].Pos() })
	upVal := lm.upVal
	const lost = ": when the run loop is busy (it stays in the catch-up for many round trips) the report is given up; if it is the latest one, the loop keeps the state it read last, believes the link is down for as long as it stays up, schedules no catch-up and drops local changes instead of forwarding them, so the instances never converge"
	for _, s := range sites {
		f := s.f.Root()
		val := map[*types.Var]ast.Expr{}
		for _, el := range s.lit.Elts {
			if kv, ok := el.(*ast.KeyValueExpr); ok {
				if id, ok := kv.Key.(*ast.Ident); ok {
					if v, ok := kit.ObjOf(info, id).(*types.Var); ok {
						val[v] = kv.Value
					}
				}
			}
		}
		for _, fld := range flds {
			kind := lm.kinds[fld]
			e := val[fld]
			if kind == "down" {
				if e == nil {
					continue
				}
				o := r8.Ob(f, e, "REMOTE "+fld.Name()+" callback keeps the order of reports", "a \"link is down\" report is not made from a goroutine of its own, where it could overtake the \"up\" report that follows")
				cb := lm.callbackFunc(s.f, e)
				if cb == nil || cb.Body == nil {
					o.Undecided("the callback `%s` is not a function of this package", f.Str(e))
					continue
				}
				v := lm.runCallback(cb)
				switch {
				case v.async != "":
					o.Violation("the %s callback (%s) reports from a goroutine started at %s: the \"down\" report can reach the run loop after the \"up\" report of the reconnect that follows; the loop then believes the link is down for as long as it stays up, schedules no catch-up and drops local changes instead of forwarding them", fld.Name(), lm.how[fld], v.async)
				case v.deferred != "":
					o.Undecided("the report is made by a deferred call at %s", v.deferred)
				default:
					o.OK("reports in the callback's own goroutine (%d exit(s))", v.exits+v.ended)
				}
				continue
			}
			// "up" callbacks
			if e == nil {
				o := r8.Ob(f, s.lit, "REMOTE "+fld.Name()+" callback reports \"up\"", "the callback is installed")
				o.Violation("the REMOTE connection is opened without a %s callback (%s): the run loop is never told that the link is up after that event; it keeps the \"down\" it read last, schedules no catch-up and does not forward local changes", fld.Name(), lm.how[fld])
				continue
			}
			o := r8.Ob(f, e, "REMOTE "+fld.Name()+" callback reports \"up\"", "on every path the callback's last report on the link-state channel is the value that makes the run loop catch up, made by a send that cannot be skipped")
			cb := lm.callbackFunc(s.f, e)
			if cb == nil || cb.Body == nil {
				o.Undecided("the callback `%s` is not a function of this package", f.Str(e))
				continue
			}
			v := lm.runCallback(cb)
			wrong := ""
			for x := range v.vals {
				if x != "" && x != "?" && upVal != "" && x != upVal {
					wrong = x
				}
			}
			switch {
			case v.async != "":
				o.Violation("the %s callback (%s) reports from a goroutine started at %s: reports of one connection are made in order, a concurrent send can be overtaken by the \"down\" report of a later disconnect or overtake it, and the run loop ends up with a state that is not the latest", fld.Name(), lm.how[fld], v.async)
			case v.vals[""] && v.dropSel != "":
				o.Violation("the %s callback (%s) can return without having reported: the send on %s sits in the select at %s next to an arm that gives the report up (default or timeout)%s", fld.Name(), lm.how[fld], lm.ch.Name(), v.dropSel, lost)
			case v.vals[""] && v.unknownSel != "":
				o.Undecided("the send on %s sits in the select at %s next to an alternative the checker cannot classify", lm.ch.Name(), v.unknownSel)
			case v.vals[""] && v.deferred != "":
				o.Undecided("the report is made by a deferred call at %s", v.deferred)
			case v.vals[""]:
				o.Violation("the %s callback (%s) can return without any report on %s: the run loop is not told that the link is up; it keeps the \"down\" it read last, schedules no catch-up and does not forward local changes", fld.Name(), lm.how[fld], lm.ch.Name())
			case wrong != "":
				o.Violation("the %s callback (%s) reports `%s`, but the run loop catches up and forwards on `%s`: after this event it treats the link as down while it is up, schedules no catch-up and drops local changes", fld.Name(), lm.how[fld], wrong, upVal)
			case v.vals["?"]:
				o.Undecided("the reported value is not a constant")
			case v.exits == 0:
				o.Undecided("the callback has no exit")
			case upVal == "":
				o.Undecided("the callback always reports, but which value means \"up\" to the run loop is undecided")
			default:
				o.OK("every path ends with `%s <- %s` by a send that cannot be skipped (%d exit state(s))", lm.ch.Name(), upVal, v.exits)
			}
		}
	}
}
