package props

import (
	"fmt"
	"go/ast"
	"go/token"
	"go/types"
	"sort"
	"strings"

	"siotcheck/kit"
)

// C11/R5 — "points whose type the configuration does not declare are ignored".
//
// Decoding first groups the incoming points in maps keyed by the point's own
// Type (Point.Type, NodeEdge.Type: data) and then, per field of the
// configuration struct, looks a group up and writes it.  The sender chooses the
// key space of those maps, the configuration chooses which keys are looked up.
// A type is declared by a non-empty struct tag of the field, so the necessary
// condition is a provenance one: on every path, the key of a lookup in a map
// populated under data-chosen types is the value of reflect.StructTag.Get /
// Lookup that was compared non-empty on that path (or a non-empty constant).
// A key that may be the empty string hands the points of the empty type to a
// field without tag; a key derived from anything else (the field's Go name, a
// counter) lets an undeclared type address a field — bookkeeping fields get
// overwritten, and an unexported pointer field makes reflect.Value.Set panic.
//
// Origins of a string value (set per variable and path):
//
//	T        tag value known to be non-empty
//	t        tag value, may be empty (tag absent)
//	e        the empty string
//	c        non-empty constant
//	x:<src>  something else, not derived from a tag
//	u:<src>  derived from a tag value through an operation that is not modelled
//
// The analysis is interprocedural inside package data: a map is "populated
// under data-chosen types" when a store keyed by Point.Type / NodeEdge.Type
// reaches it directly, through an assignment, as the result of a function that
// returns such a map or as a parameter that receives one.  Helpers are run in
// the context of their callers (string parameters carry the origin of their
// argument, results are collected per exit), so a key computed in a function
// and a lookup moved into a function are both followed; an unexported helper
// all of whose callers are analysed is judged only in those contexts.

type c11kSite struct {
	expr   *ast.IndexExpr
	states int
	bad    string
	und    string
	by     map[string]bool
}

// c11kRun is what the engines of one run share.
type c11kRun struct {
	c          *kit.Ctx
	scope      []*kit.Func
	typed      map[types.Object]bool
	retTyped   map[*kit.Func]bool
	sites      map[*ast.IndexExpr]*c11kSite
	order      map[*kit.Func][]*ast.IndexExpr
	reach      map[*kit.Func]bool // has lookups or calls something that has
	contextual map[*kit.Func]bool // judged in the contexts of its callers only
	memo       map[string][][]string
	visited    int
	over       bool
}

type c11kEng struct {
	r      *c11kRun
	f      *kit.Func
	info   *types.Info
	ce     kit.CondEval
	depth  int
	stack  []*kit.Func
	lo, hi token.Pos
	init   kit.S
}

// c11kTypeSel reports whether e reads the Type field of a data.Point or
// data.NodeEdge: the type a point (or child node) carries on the wire.
func c11kTypeSel(f *kit.Func, e ast.Expr) bool {
	sel, ok := ast.Unparen(e).(*ast.SelectorExpr)
	if !ok {
		return false
	}
	s, ok := f.Info().Selections[sel]
	if !ok || s.Kind() != types.FieldVal || s.Obj().Name() != "Type" {
		return false
	}
	rt := f.Info().TypeOf(sel.X)
	// the field may be promoted; the struct that declares it decides
	for _, n := range []string{"Point", "NodeEdge"} {
		if kit.IsNamedType(rt, f.Pkg.PkgPath, n) {
			return true
		}
	}
	if fv, ok := s.Obj().(*types.Var); ok && fv.Pkg() != nil && fv.Pkg().Path() == f.Pkg.PkgPath {
		// promoted through an embedded NodeEdge
		for _, n := range []string{"Point", "NodeEdge"} {
			if tn, ok := fv.Pkg().Scope().Lookup(n).(*types.TypeName); ok {
				if st, ok := tn.Type().Underlying().(*types.Struct); ok {
					for i := 0; i < st.NumFields(); i++ {
						if st.Field(i) == fv {
							return true
						}
					}
				}
			}
		}
	}
	return false
}

func c11kStringMap(t types.Type) bool {
	if t == nil {
		return false
	}
	m, ok := t.Underlying().(*types.Map)
	if !ok {
		return false
	}
	b, ok := m.Key().Underlying().(*types.Basic)
	return ok && b.Info()&types.IsString != 0
}

// typedExpr reports whether x denotes a map populated under data-chosen types.
func (r *c11kRun) typedExpr(f *kit.Func, x ast.Expr) bool {
	x = ast.Unparen(x)
	if o := kit.ObjOf(f.Info(), x); o != nil && r.typed[o] {
		return true
	}
	if call, ok := x.(*ast.CallExpr); ok {
		if g := f.CalleeFunc(call); g != nil && r.retTyped[g] {
			return true
		}
	}
	return false
}

// c11Keys runs R5 over the functions the untrusted-input set can reach.
func c11Keys(c *kit.Ctx, scope []*kit.Func) {
	r5 := c.Rule("R5", "a group of points is looked up for a configuration field only under a non-empty tag value of that field", 2)
	r := &c11kRun{c: c, scope: scope, typed: map[types.Object]bool{}, retTyped: map[*kit.Func]bool{}, sites: map[*ast.IndexExpr]*c11kSite{},
		order: map[*kit.Func][]*ast.IndexExpr{}, reach: map[*kit.Func]bool{}, contextual: map[*kit.Func]bool{}, memo: map[string][][]string{}}
	inScope := map[*kit.Func]bool{}
	for _, f := range scope {
		inScope[f] = true
	}
	// maps populated under data-chosen types: fixpoint over stores, copies,
	// results and parameters
	mark := func(o types.Object) bool {
		if o == nil || r.typed[o] || !c11kStringMap(o.Type()) {
			return false
		}
		r.typed[o] = true
		return true
	}
	for changed := true; changed; {
		changed = false
		for _, f := range scope {
			info := f.Info()
			ast.Inspect(f.Body, func(n ast.Node) bool {
				switch y := n.(type) {
				case *ast.FuncLit:
					return false
				case *ast.AssignStmt:
					for i, l := range y.Lhs {
						if ix, ok := ast.Unparen(l).(*ast.IndexExpr); ok {
							if c11kStringMap(info.TypeOf(ix.X)) && c11kTypeSel(f, ix.Index) && mark(kit.ObjOf(info, ix.X)) {
								changed = true
							}
							continue
						}
						if len(y.Lhs) == len(y.Rhs) && r.typedExpr(f, y.Rhs[i]) && mark(kit.ObjOf(info, l)) {
							changed = true
						}
						// a map is a reference: what is stored through the copy is in the original
						if len(y.Lhs) == len(y.Rhs) && r.typedExpr(f, l) && mark(kit.ObjOf(info, y.Rhs[i])) {
							changed = true
						}
					}
				case *ast.ValueSpec:
					for i, nm := range y.Names {
						if len(y.Values) == len(y.Names) && r.typedExpr(f, y.Values[i]) && mark(info.Defs[nm]) {
							changed = true
						}
					}
				case *ast.ReturnStmt:
					for _, res := range y.Results {
						if r.typedExpr(f, res) && !r.retTyped[f] {
							r.retTyped[f] = true
							changed = true
						}
					}
				case *ast.CallExpr:
					g := f.CalleeFunc(y)
					if g == nil || g.Body == nil || y.Ellipsis.IsValid() {
						return true
					}
					if ps := g.Params(); len(ps) == len(y.Args) {
						for i, a := range y.Args {
							if r.typedExpr(f, a) && mark(ps[i]) {
								changed = true
							}
							// the callee stores into the caller's map
							if r.typed[ps[i]] && mark(kit.ObjOf(info, a)) {
								changed = true
							}
						}
					}
				}
				return true
			})
		}
	}
	if len(r.typed) == 0 {
		r5.Ob(nil, nil, "maps of points grouped by type", "the grouping of incoming points by Point.Type / NodeEdge.Type is found").
			Undecided("no map with a store keyed by the Type field of data.Point or data.NodeEdge in the functions the untrusted-input set reaches: the grouping step is not recognised")
		return
	}
	var names []string
	for o := range r.typed {
		names = append(names, o.Name())
	}
	sort.Strings(names)
	c.Note("R5: maps populated under data-chosen types: %s", strings.Join(uniqStrings(names), ", "))

	// lookups whose key is chosen by the configuration side: index expressions
	// on such a map under a key that is not the point's own type (a store
	// under such a key is judged like a lookup)
	for _, f := range scope {
		ast.Inspect(f.Body, func(n ast.Node) bool {
			switch y := n.(type) {
			case *ast.FuncLit:
				return false
			case *ast.IndexExpr:
				if r.typedExpr(f, y.X) && !c11kTypeSel(f, y.Index) {
					if _, ok := r.sites[y]; !ok {
						r.sites[y] = &c11kSite{expr: y, by: map[string]bool{}}
						r.order[f] = append(r.order[f], y)
					}
				}
			}
			return true
		})
	}
	// who calls whom (all functions of the package, literals included)
	callers := map[*kit.Func][]*kit.Func{}
	callees := map[*kit.Func][]*kit.Func{}
	if len(scope) > 0 {
		for _, f := range c.P.Funcs(scope[0].PkgRel()) {
			if f.Body == nil {
				continue
			}
			for _, call := range f.AllCalls(false) {
				if g := f.CalleeFunc(call); g != nil {
					callers[g] = append(callers[g], f)
					callees[f] = append(callees[f], g)
				}
			}
			if f.Outer != nil {
				callees[f.Outer] = append(callees[f.Outer], f)
			}
		}
	}
	for _, f := range scope {
		r.reach[f] = len(r.order[f]) > 0
	}
	for changed := true; changed; {
		changed = false
		for _, f := range scope {
			if r.reach[f] {
				continue
			}
			for _, g := range callees[f] {
				if r.reach[g] {
					r.reach[f] = true
					changed = true
				}
			}
		}
	}
	sums := kit.NewRSummaries(c.P)
	for _, f := range scope {
		if f.Decl == nil || ast.IsExported(f.Decl.Name.Name) || len(callers[f]) == 0 || sums.Recursive(f) {
			continue
		}
		ctx := true
		for _, g := range callers[f] {
			if !inScope[g] {
				ctx = false
			}
		}
		if sig, ok := f.Obj.Type().(*types.Signature); ok && sig.Variadic() {
			ctx = false
		}
		r.contextual[f] = ctx
	}
	var roots []string
	for _, f := range scope {
		if r.reach[f] && !r.contextual[f] {
			roots = append(roots, f.Name)
			c11kNew(r, f).run()
		}
	}
	c.Note("R5: analysed with arbitrary arguments: %s; unexported helpers are judged in the contexts of their callers", strings.Join(roots, ", "))
	for _, f := range scope {
		for i, ix := range r.order[f] {
			st := r.sites[ix]
			o := r5.Ob(f, ix, fmt.Sprintf("group lookup #%d in %s", i+1, f.Str(ix.X)),
				"the key is, on every path, a struct-tag value of the field that was tested non-empty (or a non-empty constant)")
			switch {
			case st.bad != "":
				o.Violation("%s", st.bad)
			case r.over:
				o.Undecided("state bound exceeded after %d states", r.visited)
			case st.und != "":
				o.Undecided("%s", st.und)
			case st.states == 0:
				o.Undecided("the lookup is not reached by the path engine")
			default:
				var by []string
				for b := range st.by {
					by = append(by, b)
				}
				sort.Strings(by)
				o.OK("%d states: %s", st.states, strings.Join(by, "; "))
			}
		}
	}
	c.AddValuations(r.visited)
}

func c11kNew(r *c11kRun, f *kit.Func) *c11kEng {
	e := &c11kEng{r: r, f: f, info: f.Info(), lo: f.Node().Pos(), hi: f.Node().End(), init: kit.NewS()}
	e.ce = kit.CondEval{Info: e.info, Leaf: e.leaf}
	return e
}

func (e *c11kEng) run() []kit.Exit {
	res := e.r.c.P.Graph(e.f).Run(e.init, kit.Client{
		Node:      e.node,
		Cond:      func(cond ast.Expr, s kit.S) (t, f []kit.S) { return e.ce.Eval(cond, s) },
		MaxStates: 40000,
	})
	e.r.visited += res.Visited
	if res.Overflow {
		e.r.over = true
	}
	return res.Exits
}

// local string variable of the analysed function.
func (e *c11kEng) strVar(x ast.Expr) *types.Var {
	id, ok := ast.Unparen(x).(*ast.Ident)
	if !ok {
		return nil
	}
	v, ok := kit.ObjOf(e.info, id).(*types.Var)
	if !ok || v.IsField() || v.Pos() < e.lo || v.Pos() > e.hi {
		return nil
	}
	if b, ok := v.Type().Underlying().(*types.Basic); !ok || b.Info()&types.IsString == 0 {
		return nil
	}
	return v
}

// tagCall recognises X.Get(c) / X.Lookup(c) on a reflect.StructTag and names
// it as a pseudo-variable (the same field and tag name give the same value).
func (e *c11kEng) tagCall(x ast.Expr) (string, bool) {
	call, ok := ast.Unparen(x).(*ast.CallExpr)
	if !ok || !kit.CallIs(e.info, call, "reflect.(StructTag).Get", "reflect.(StructTag).Lookup") || len(call.Args) != 1 {
		return "", false
	}
	name, isConst := kit.ConstString(e.info, call.Args[0])
	if !isConst {
		return "", true
	}
	sel := ast.Unparen(call.Fun).(*ast.SelectorExpr)
	// sf.Tag.Get: the root variable holding the StructField
	x2 := ast.Unparen(sel.X)
	for {
		if s, ok := x2.(*ast.SelectorExpr); ok {
			x2 = ast.Unparen(s.X)
			continue
		}
		break
	}
	if id, ok := x2.(*ast.Ident); ok {
		if v, ok := kit.ObjOf(e.info, id).(*types.Var); ok && v.Pos() >= e.lo && v.Pos() <= e.hi {
			return "tg:" + kit.VarID(v) + ":" + e.f.Str(sel.X) + ":" + name, true
		}
	}
	return "", true
}

// term names what the state tracks: a local string variable or a tag call.
func (e *c11kEng) term(x ast.Expr) string {
	if v := e.strVar(x); v != nil {
		return kit.VarID(v)
	}
	if k, ok := e.tagCall(x); ok && k != "" {
		return k
	}
	return ""
}

func c11kSplit(o string) []string {
	if o == "" {
		return nil
	}
	return strings.Split(o, "|")
}

func c11kJoin(parts []string) string {
	seen := map[string]bool{}
	var out []string
	for _, p := range parts {
		if p != "" && !seen[p] {
			seen[p] = true
			out = append(out, p)
		}
	}
	sort.Strings(out)
	return strings.Join(out, "|")
}

func c11kClean(s string) string {
	s = strings.ReplaceAll(s, "|", "/")
	if len(s) > 60 {
		s = s[:57] + "…"
	}
	return s
}

// origin evaluates the origin set of a string expression; helper calls may
// yield several alternatives (one per exit of the helper), so the result is a
// list of origin sets.
func (e *c11kEng) origin(x ast.Expr, s kit.S) string {
	x = ast.Unparen(x)
	if c, ok := kit.ConstString(e.info, x); ok {
		if c == "" {
			return "e"
		}
		return "c"
	}
	if k, isTag := e.tagCall(x); isTag {
		if k == "" {
			return "u:" + c11kClean(e.f.Str(x))
		}
		if o := s.Get("o:" + k); o != "" {
			return o
		}
		return "t"
	}
	if v := e.strVar(x); v != nil {
		if o := s.Get("o:" + kit.VarID(v)); o != "" {
			return o
		}
		return "u:" + v.Name() + " (assigned where the engine does not follow it)"
	}
	if call, ok := x.(*ast.CallExpr); ok {
		// string(x) / named string conversion
		if tv, ok := e.info.Types[call.Fun]; ok && tv.IsType() && len(call.Args) == 1 {
			if at := e.info.TypeOf(call.Args[0]); at != nil {
				if b, ok := at.Underlying().(*types.Basic); ok && b.Info()&types.IsString != 0 {
					return e.origin(call.Args[0], s)
				}
			}
		}
	}
	// anything else: does it mention a tag-derived value?
	fromTag := false
	ast.Inspect(x, func(n ast.Node) bool {
		ex, ok := n.(ast.Expr)
		if !ok {
			return true
		}
		if _, isTag := e.tagCall(ex); isTag {
			fromTag = true
		}
		if v := e.strVar(ex); v != nil {
			if s.Get("o:"+kit.VarID(v)) == "" {
				fromTag = true // not followed: may be anything
			}
			for _, p := range c11kSplit(s.Get("o:" + kit.VarID(v))) {
				if p == "T" || p == "t" || strings.HasPrefix(p, "u:") {
					fromTag = true
				}
			}
		}
		return true
	})
	if fromTag {
		return "u:" + c11kClean(e.f.Str(x))
	}
	return "x:" + c11kClean(e.f.Str(x))
}

// summary runs a function of the same package in the context of this call and
// returns, per exit, the origins of its results ("" for results that are not
// strings); the lookups inside it are judged in that context.
func (e *c11kEng) summary(call *ast.CallExpr, s kit.S) [][]string {
	callee := e.f.CalleeFunc(call)
	if callee == nil || callee.Body == nil || callee.Pkg != e.f.Pkg || e.depth >= 4 || callee == e.f {
		return nil
	}
	for _, g := range e.stack {
		if g == callee {
			return nil
		}
	}
	sub := c11kNew(e.r, callee)
	sub.depth = e.depth + 1
	sub.stack = append(append([]*kit.Func{}, e.stack...), e.f)
	// string parameters carry the origin of their argument
	if ps := callee.Params(); len(ps) == len(call.Args) && !call.Ellipsis.IsValid() {
		for i, pv := range ps {
			if b, ok := pv.Type().Underlying().(*types.Basic); ok && b.Info()&types.IsString != 0 {
				sub.init = sub.init.Set("o:"+kit.VarID(pv), e.origin(call.Args[i], s))
			}
		}
	}
	key := callee.Name + "\x00" + sub.init.Key()
	if rows, ok := e.r.memo[key]; ok {
		return rows
	}
	e.r.memo[key] = nil // a cycle through the memo yields "not followed"
	exits := sub.run()
	if e.r.over {
		return nil
	}
	rows := sub.rows(callee, exits)
	e.r.memo[key] = rows
	return rows
}

// rows collects the origins of the results at the exits of callee.
func (sub *c11kEng) rows(callee *kit.Func, exits []kit.Exit) [][]string {
	var named []*types.Var
	if callee.Type.Results != nil {
		for _, fl := range callee.Type.Results.List {
			for _, nm := range fl.Names {
				if v, ok := callee.Info().Defs[nm].(*types.Var); ok {
					named = append(named, v)
				}
			}
		}
	}
	var out [][]string
	seen := map[string]bool{}
	for _, ex := range exits {
		if ex.Return == nil {
			continue
		}
		var row []string
		isStr := func(t types.Type) bool {
			b, ok := t.Underlying().(*types.Basic)
			return ok && b.Info()&types.IsString != 0
		}
		switch {
		case len(ex.Return.Results) > 0:
			for _, r := range ex.Return.Results {
				t := sub.info.TypeOf(r)
				if _, isTuple := t.(*types.Tuple); isTuple {
					return nil // return f(): not followed
				}
				if isStr(t) {
					row = append(row, sub.origin(r, ex.State))
				} else {
					row = append(row, "")
				}
			}
		default:
			for _, v := range named {
				if isStr(v.Type()) {
					o := ex.State.Get("o:" + kit.VarID(v))
					if o == "" {
						o = "e" // named result never assigned
					}
					row = append(row, o)
				} else {
					row = append(row, "")
				}
			}
		}
		if k := strings.Join(row, "\x00"); !seen[k] {
			seen[k] = true
			out = append(out, row)
		}
	}
	return out
}

// node is the transfer function: sites are judged, then assignments move
// origins.
func (e *c11kEng) node(n ast.Node, s kit.S) []kit.S {
	e.scan(n, s)
	e.descend(n, s)
	switch y := n.(type) {
	case *ast.AssignStmt:
		return e.assign(y, s)
	case *ast.ValueSpec:
		for i, nm := range y.Names {
			v := e.strVar(nm)
			if v == nil {
				continue
			}
			switch {
			case len(y.Values) == len(y.Names):
				s = s.Set("o:"+kit.VarID(v), e.origin(y.Values[i], s))
			case len(y.Values) == 0:
				s = s.Set("o:"+kit.VarID(v), "e")
			default:
				s = s.Set("o:"+kit.VarID(v), "u:"+v.Name())
			}
		}
	case *ast.Ident:
		if rs, ok := e.f.Prog.Parent(e.f.File, y).(*ast.RangeStmt); ok && (rs.Key == ast.Expr(y) || rs.Value == ast.Expr(y)) {
			if v := e.strVar(y); v != nil {
				s = s.Set("o:"+kit.VarID(v), "x:"+c11kClean("element of "+e.f.Str(rs.X)))
			}
		}
	}
	return []kit.S{s}
}

// descend runs the helpers called by n that contain lookups (or reach some) in
// the context of the call, so that their lookups are judged with the origins
// of the arguments.
func (e *c11kEng) descend(n ast.Node, s kit.S) {
	for _, call := range kit.CallsIn(n) {
		if g := e.f.CalleeFunc(call); g != nil && e.r.reach[g] && e.r.contextual[g] {
			e.summary(call, s)
		}
	}
}

// killRoot forgets the tag pseudo-variables that hang off an assigned variable.
func (e *c11kEng) killRoot(s kit.S, l ast.Expr) kit.S {
	id, ok := ast.Unparen(l).(*ast.Ident)
	if !ok {
		return s
	}
	v, ok := kit.ObjOf(e.info, id).(*types.Var)
	if !ok {
		return s
	}
	pre := "o:tg:" + kit.VarID(v) + ":"
	for _, k := range s.Keys() {
		if strings.HasPrefix(k, pre) {
			s = s.Del(k)
		}
	}
	return s
}

func (e *c11kEng) assign(as *ast.AssignStmt, s kit.S) []kit.S {
	pre := s
	for _, l := range as.Lhs {
		s = e.killRoot(s, l)
	}
	switch {
	case len(as.Lhs) == len(as.Rhs) && (as.Tok == token.ASSIGN || as.Tok == token.DEFINE):
		outs := []kit.S{s}
		for i, l := range as.Lhs {
			v := e.strVar(l)
			if v == nil {
				continue
			}
			r := as.Rhs[i]
			// a single-result helper
			if call, ok := ast.Unparen(r).(*ast.CallExpr); ok {
				if rows := e.summary(call, pre); len(rows) > 0 && len(rows[0]) == 1 && rows[0][0] != "" {
					var next []kit.S
					for _, st := range outs {
						for _, row := range rows {
							next = append(next, st.Set("o:"+kit.VarID(v), c11kRebase(row[0], e.f.Str(call))))
						}
					}
					outs = next
					continue
				}
			}
			o := e.origin(r, pre)
			for j := range outs {
				outs[j] = outs[j].Set("o:"+kit.VarID(v), o)
			}
		}
		return outs
	case len(as.Rhs) == 1 && len(as.Lhs) > 1:
		call, _ := ast.Unparen(as.Rhs[0]).(*ast.CallExpr)
		if call != nil {
			if _, isTag := e.tagCall(call); isTag {
				// v, ok := sf.Tag.Lookup("point")
				if v := e.strVar(as.Lhs[0]); v != nil {
					s = s.Set("o:"+kit.VarID(v), e.origin(call, pre))
				}
				return []kit.S{s}
			}
			if rows := e.summary(call, pre); len(rows) > 0 && len(rows[0]) == len(as.Lhs) {
				var outs []kit.S
				for _, row := range rows {
					st := s
					for i, l := range as.Lhs {
						if v := e.strVar(l); v != nil {
							o := row[i]
							if o == "" {
								o = "u:" + v.Name()
							}
							st = st.Set("o:"+kit.VarID(v), c11kRebase(o, e.f.Str(call)))
						}
					}
					outs = append(outs, st)
				}
				return outs
			}
		}
		for _, l := range as.Lhs {
			if v := e.strVar(l); v != nil {
				src := e.f.Str(as.Rhs[0])
				if _, isIx := ast.Unparen(as.Rhs[0]).(*ast.IndexExpr); isIx {
					s = s.Set("o:"+kit.VarID(v), "x:"+c11kClean(src))
				} else {
					s = s.Set("o:"+kit.VarID(v), "u:"+c11kClean(src))
				}
			}
		}
	default:
		// += and friends: concatenation is not a tag value any more
		for _, l := range as.Lhs {
			if v := e.strVar(l); v != nil {
				s = s.Set("o:"+kit.VarID(v), "u:"+c11kClean(e.f.Str(as)))
			}
		}
	}
	return []kit.S{s}
}

// c11kRebase prefixes the descriptions that come out of a helper with the
// call they came through, so that the report names the construct at the site.
func c11kRebase(o, call string) string {
	parts := c11kSplit(o)
	for i, p := range parts {
		if strings.HasPrefix(p, "x:") || strings.HasPrefix(p, "u:") {
			parts[i] = p[:2] + c11kClean(p[2:]+" returned by "+call)
		}
	}
	return c11kJoin(parts)
}

// leaf refines origins on emptiness tests (`x == ""`, `x != ""`, len(x) tests
// are normalised by CondEval).
func (e *c11kEng) leaf(x ast.Expr, s kit.S) (t, f []kit.S, handled bool) {
	e.scan(x, s)
	e.descend(x, s)
	a, b, op, ok := kit.CmpAtom(x)
	if !ok || (op != token.EQL && op != token.NEQ) {
		return nil, nil, false
	}
	if c, isC := kit.ConstString(e.info, ast.Unparen(a)); isC && c == "" {
		a, b = b, a
	}
	c, isC := kit.ConstString(e.info, ast.Unparen(b))
	if !isC || c != "" {
		return nil, nil, false
	}
	k := e.term(a)
	if k == "" {
		return nil, nil, false
	}
	o := s.Get("o:" + k)
	if o == "" {
		if strings.HasPrefix(k, "tg:") {
			o = "t"
		} else {
			return nil, nil, false
		}
	}
	var ne, em []string
	for _, p := range c11kSplit(o) {
		switch {
		case p == "T" || p == "c":
			ne = append(ne, p)
		case p == "t":
			ne = append(ne, "T")
			em = append(em, "e")
		case p == "e":
			em = append(em, "e")
		default: // x: / u: may or may not be empty
			ne = append(ne, p)
			em = append(em, "e")
		}
	}
	var nonEmpty, empty []kit.S
	if len(ne) > 0 {
		nonEmpty = []kit.S{s.Set("o:"+k, c11kJoin(ne))}
	}
	if len(em) > 0 {
		empty = []kit.S{s.Set("o:"+k, c11kJoin(em))}
	}
	if op == token.NEQ {
		return nonEmpty, empty, true
	}
	return empty, nonEmpty, true
}

// scan judges the lookups of one node (or condition leaf) in state s.
func (e *c11kEng) scan(n ast.Node, s kit.S) {
	ast.Inspect(n, func(m ast.Node) bool {
		switch y := m.(type) {
		case *ast.FuncLit:
			return false
		case *ast.BinaryExpr:
			if (y.Op == token.LAND || y.Op == token.LOR) && m != n {
				e.ce.Eval(y, s)
				return false
			}
		case *ast.IndexExpr:
			if st := e.r.sites[y]; st != nil {
				e.check(st, y, s)
			}
		}
		return true
	})
}

func (e *c11kEng) check(st *c11kSite, ix *ast.IndexExpr, s kit.S) {
	st.states++
	key := e.f.Str(ix.Index)
	os := []string{e.origin(ix.Index, s)}
	// a helper call as key
	if call, ok := ast.Unparen(ix.Index).(*ast.CallExpr); ok {
		if rows := e.summary(call, s); len(rows) > 0 && len(rows[0]) == 1 && rows[0][0] != "" {
			os = os[:0]
			for _, row := range rows {
				os = append(os, c11kRebase(row[0], e.f.Str(call)))
			}
		}
	}
	for _, o := range os {
		for _, p := range c11kSplit(o) {
			switch {
			case p == "T":
				st.by["tag value tested non-empty on the path"] = true
			case p == "c":
				st.by["non-empty constant"] = true
			case p == "t" || p == "e":
				if st.bad == "" {
					st.bad = fmt.Sprintf("%s[%s]: the key may be the empty string here (tag absent and not tested non-empty): a field that declares no type receives the points (child nodes) whose type is empty, "+
						"so a point of an undeclared type is not ignored — it overwrites the field or, for an unexported pointer field, makes reflect.Value.Set panic", e.f.Str(ix.X), key)
				}
			case strings.HasPrefix(p, "x:"):
				if st.bad == "" {
					st.bad = fmt.Sprintf("%s[%s]: the key may be %s, which is not a struct-tag value of the field: a field the configuration does not declare becomes addressable by a point type the sender picks "+
						"(bookkeeping fields are overwritten; an unexported pointer field makes reflect.Value.Set panic), so points of undeclared types are not ignored", e.f.Str(ix.X), key, p[2:])
				}
			default:
				if st.und == "" {
					st.und = fmt.Sprintf("%s[%s]: the key derives from a tag value through %s, which the engine does not model", e.f.Str(ix.X), key, strings.TrimPrefix(p, "u:"))
				}
			}
		}
	}
}
