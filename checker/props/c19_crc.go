package props

import (
	"fmt"
	"go/ast"
	"go/types"
	"sort"

	"siotcheck/kit"
)

// C19/R2, checksum clause: the checksum function consumes every byte of its
// argument, and every lookup table it indexes is fully initialised (literal
// with all entries, or a generator / init function whose stores, evaluated
// concretely, cover every index).  The arithmetic of the checksum itself is
// not judged.
func c19ChecksumTotal(c *kit.Ctx, m *c19Model, r *kit.Rule, fn *types.Func) {
	f := c.P.FuncOf(fn)
	o := r.Ob(f, nil, "checksum: every byte, complete tables", "the checksum function folds in every byte of its argument and every table it indexes has all its entries initialised")
	if f == nil {
		o.Undecided("body of %s not found", fn.Name())
		return
	}
	c.Analysed(f)
	info := f.Info()
	param := f.Params()[0]
	// one loop over the whole argument (range, or the equivalent counting
	// loop), no way out of it
	var rs *ast.RangeStmt
	nRanges := 0
	for _, l := range f.SliceLoops(f.Body) {
		if kit.ObjOf(info, l.X) == types.Object(param) {
			rs = l
			nRanges++
		}
	}
	if nRanges != 1 || kit.LoopElemVar(info, rs) == nil {
		o.Undecided("%s does not consist of one loop over every byte of its argument", fn.Name())
		return
	}
	early := false
	ast.Inspect(rs.Body, func(n ast.Node) bool {
		switch y := n.(type) {
		case *ast.ReturnStmt:
			early = true
		case *ast.BranchStmt:
			if y.Label != nil || f.Enclosing(y, func(p ast.Node) bool {
				_, isFor := p.(*ast.ForStmt)
				return isFor && p.Pos() > rs.Pos()
			}) == nil {
				early = true
			}
		}
		return true
	})
	if early {
		o.Undecided("the byte loop of %s can be left early", fn.Name())
		return
	}
	// tables
	tables := map[*types.Var]*ast.IndexExpr{}
	ast.Inspect(f.Body, func(n ast.Node) bool {
		ix, ok := n.(*ast.IndexExpr)
		if !ok {
			return true
		}
		id, ok := ast.Unparen(ix.X).(*ast.Ident)
		if !ok {
			return true
		}
		v, ok := info.Uses[id].(*types.Var)
		if !ok || v.Pkg() == nil || v.Parent() != v.Pkg().Scope() {
			return true
		}
		if _, isArr := v.Type().Underlying().(*types.Array); isArr {
			tables[v] = ix
		} else if _, isSl := v.Type().Underlying().(*types.Slice); isSl {
			tables[v] = ix
		}
		return true
	})
	var tvs []*types.Var
	for v := range tables {
		tvs = append(tvs, v)
	}
	sort.Slice(tvs, func(i, j int) bool { return tvs[i].Pos() < tvs[j].Pos() })
	var notes []string
	for _, tv := range tvs {
		bad, und, okNote := c19TableComplete(c, m, tv)
		switch {
		case bad != "":
			o.Violation("%s indexes %s, %s", fn.Name(), tv.Name(), bad)
			return
		case und != "":
			o.Undecided("%s indexes %s: %s", fn.Name(), tv.Name(), und)
			return
		}
		notes = append(notes, okNote)
	}
	if len(tvs) == 0 {
		o.OK("range over the whole argument, no lookup table")
	} else {
		o.OK("range over the whole argument; %v", notes)
	}
}

// c19TableComplete decides whether a package-level array is fully initialised.
func c19TableComplete(c *kit.Ctx, m *c19Model, tv *types.Var) (bad, und, note string) {
	arr, ok := tv.Type().Underlying().(*types.Array)
	if !ok {
		return "", "the table is a slice, not a fixed-size array", ""
	}
	N := arr.Len()
	pk := c.P.ByPath[tv.Pkg().Path()]
	info := pk.TypesInfo
	var initExpr ast.Expr
	for _, file := range pk.Syntax {
		ast.Inspect(file, func(n ast.Node) bool {
			if vs, ok := n.(*ast.ValueSpec); ok {
				for i, nm := range vs.Names {
					if info.Defs[nm] == types.Object(tv) && i < len(vs.Values) {
						initExpr = vs.Values[i]
					}
				}
			}
			return true
		})
	}
	covered := map[int64]bool{}
	values := map[int64]kit.IVal{}
	how := ""
	var gen *kit.Func
	var genTarget func(e ast.Expr) bool
	run := func(g *kit.Func, target func(e ast.Expr) bool) string {
		gen, genTarget = g, target
		ip := &kit.Interp{P: c.P, F: g, MaxSteps: 3000000}
		taintedStore, unknownIdx := false, false
		ip.OnStore = func(lhs *ast.IndexExpr, idx, val kit.IVal, tainted bool) {
			if !target(lhs.X) {
				return
			}
			if tainted {
				taintedStore = true
			}
			if idx.K != 'i' {
				unknownIdx = true
				return
			}
			covered[idx.I] = true
			values[idx.I] = val
		}
		res := ip.Run()
		c.AddValuations(1)
		c.Analysed(g)
		switch {
		case len(res.Unsupported) > 0:
			return fmt.Sprintf("%s cannot be evaluated: %v", g.Name, res.Unsupported)
		case res.Overflow:
			return g.Name + " does not finish within the step budget"
		case len(res.Crashes) > 0:
			return fmt.Sprintf("%s panics: %s", g.Name, res.Crashes[0].Msg)
		case taintedStore || unknownIdx:
			return g.Name + " stores at positions the evaluator cannot follow"
		case len(res.Exits) != 1 || res.Exits[0].Tainted:
			return g.Name + " does not have a single deterministic path"
		}
		return ""
	}
	switch x := ast.Unparen(initExpr).(type) {
	case *ast.CompositeLit:
		next := int64(0)
		for _, el := range x.Elts {
			k := next
			if kv, ok := el.(*ast.KeyValueExpr); ok {
				v, isC := kit.ConstInt(info, kv.Key)
				if !isC {
					return "", "literal with a non-constant key", ""
				}
				k = v
			}
			covered[k] = true
			next = k + 1
		}
		how = "literal"
		if int64(len(covered)) < N {
			return "", fmt.Sprintf("its literal lists %d of %d entries (the others are zero; whether that is intended cannot be decided)", len(covered), N), ""
		}
	case *ast.CallExpr:
		var g *kit.Func
		if fn, ok := kit.Callee(info, x).(*types.Func); ok {
			g = c.P.FuncOf(fn)
		}
		if g == nil || g.Decl == nil || len(g.Params()) != 0 || len(x.Args) != 0 {
			return "", "it is initialised by a call that cannot be evaluated", ""
		}
		// the array the generator returns
		var retObj types.Object
		nret := 0
		ast.Inspect(g.Body, func(n ast.Node) bool {
			if rt, ok := n.(*ast.ReturnStmt); ok {
				nret++
				if len(rt.Results) == 1 {
					retObj = kit.ObjOf(g.Info(), rt.Results[0])
				}
			}
			return true
		})
		if nret != 1 || retObj == nil {
			return "", g.Name + " does not return one local array", ""
		}
		if why := run(g, func(e ast.Expr) bool { return kit.ObjOf(g.Info(), e) == retObj }); why != "" {
			return "", why, ""
		}
		how = "generator " + g.Name
	case nil:
		// filled by init functions
		n := 0
		for _, g := range c.P.Funcs("modbus") {
			if g.Decl == nil || g.Decl.Recv != nil || g.Decl.Name.Name != "init" {
				continue
			}
			n++
			if why := run(g, func(e ast.Expr) bool { return kit.ObjOf(g.Info(), e) == types.Object(tv) }); why != "" {
				return "", why, ""
			}
		}
		if n == 0 {
			return "", "it has no initialiser and the package has no init function", ""
		}
		how = "init function"
	default:
		return "", "its initialiser is neither a literal nor a generator call", ""
	}
	for idx := int64(0); idx < N; idx++ {
		if covered[idx] {
			continue
		}
		// an entry that is never written is zero; that is a defect only if the
		// generator's own loop body yields a non-zero value for this index
		if gen == nil {
			return "", fmt.Sprintf("entry %d is never written and its intended value cannot be determined", idx), ""
		}
		want, why := c19ReplayEntry(c, gen, genTarget, idx, values)
		switch {
		case why != "":
			return "", fmt.Sprintf("entry %d (0x%02X) is never written (%s covers %d of %d entries), but its intended value cannot be determined: %s", idx, idx, how, len(covered), N, why), ""
		case want != 0:
			return fmt.Sprintf("whose entry %d (0x%02X) is never initialised (%s covers %d of %d entries; the generator's loop body yields 0x%X for that index): every frame whose running checksum selects that entry gets a wrong checksum", idx, idx, how, len(covered), N, want), "", ""
		}
	}
	return "", "", fmt.Sprintf("%s: all %d entries initialised by %s", tv.Name(), N, how)
}

// c19ReplayEntry evaluates the generator's loop body for counter value k (the
// loop is entered with its counter forced to k and stopped at the first store
// to the table) and returns the value it would store at index k.  The replay
// is validated against an index the real run did write.
func c19ReplayEntry(c *kit.Ctx, g *kit.Func, target func(e ast.Expr) bool, k int64, values map[int64]kit.IVal) (int64, string) {
	info := g.Info()
	// the outermost three-clause loop that contains a store to the table
	var loop *ast.ForStmt
	ast.Inspect(g.Body, func(n ast.Node) bool {
		fs, ok := n.(*ast.ForStmt)
		if !ok || loop != nil {
			return true
		}
		has := false
		ast.Inspect(fs.Body, func(x ast.Node) bool {
			if as, ok := x.(*ast.AssignStmt); ok {
				for _, l := range as.Lhs {
					if ix, ok := ast.Unparen(l).(*ast.IndexExpr); ok && target(ix.X) {
						has = true
					}
				}
			}
			return true
		})
		if has {
			loop = fs
			return false
		}
		return true
	})
	if loop == nil || loop.Cond == nil {
		return 0, "the table is not filled by a three-clause loop"
	}
	init, ok := loop.Init.(*ast.AssignStmt)
	if !ok || len(init.Lhs) != 1 || len(init.Rhs) != 1 || kit.ObjOf(info, init.Lhs[0]) == nil {
		return 0, "the loop does not start with `i := …`"
	}
	replay := func(j int64) (kit.IVal, string) {
		ip := &kit.Interp{P: c.P, F: g, MaxSteps: 200000}
		ip.Override = map[ast.Expr]kit.IVal{init.Rhs[0]: {K: 'i', I: j}, loop.Cond: {K: 'b', I: 1}}
		var got *kit.IVal
		var at kit.IVal
		ip.OnStore = func(lhs *ast.IndexExpr, idx, val kit.IVal, tainted bool) {
			if target(lhs.X) && got == nil && !tainted {
				v := val
				got, at = &v, idx
			}
		}
		ip.Stop = func(n ast.Node) bool { return got != nil }
		res := ip.Run()
		c.AddValuations(1)
		if got == nil || len(res.Unsupported) > 0 {
			return kit.IVal{}, "the loop body could not be replayed"
		}
		if at.K != 'i' || at.I != j || got.K != 'i' {
			return kit.IVal{}, fmt.Sprintf("the replayed body stores at %s, not at the counter value %d", at, j)
		}
		return *got, ""
	}
	// validation on written indices
	checked := 0
	for _, j := range []int64{k - 1, k + 1, 1, 2} {
		rec, ok := values[j]
		if !ok || rec.K != 'i' {
			continue
		}
		v, why := replay(j)
		if why != "" {
			return 0, why
		}
		if v.I != rec.I {
			return 0, "the loop body depends on earlier iterations"
		}
		checked++
	}
	if checked == 0 {
		return 0, "no written entry to validate the replay against"
	}
	v, why := replay(k)
	if why != "" {
		return 0, why
	}
	return v.I, ""
}
