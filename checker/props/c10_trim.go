package props

import (
	"fmt"
	"go/ast"
	"go/token"
	"go/types"
	"reflect"

	"siotcheck/kit"
)

// C10/R8: in the setter's slice arm the slice is shortened only by the
// trailing-tombstone trim.
//
// A diff batch names only the elements that changed, so every element it does
// not name must survive Merge.  Resize sites are X.Set(X.Slice(0, n)) and
// X.SetLen(n).  Each is either
//   - growing: guarded by `n-1 > X.Len()-1` (n > Len()), or
//   - the trim: n = B+1 with B := X.Len()-1, and every later definition of B
//     is a decrement by one inside the true branch of a membership test
//     `d[i] == B` on a collection d that receives indexes only under a
//     tombstone test.  After the loop B is the largest index not deleted in
//     this batch; lowering it further (e.g. to the largest live key of the
//     batch) drops unchanged elements.

func c10Leaves(e ast.Expr, op token.Token) []ast.Expr {
	if be, ok := ast.Unparen(e).(*ast.BinaryExpr); ok && be.Op == op {
		return append(c10Leaves(be.X, op), c10Leaves(be.Y, op)...)
	}
	return []ast.Expr{ast.Unparen(e)}
}

// c10PlusConst splits e into (t, c) with e == t + c.
func c10PlusConst(info *types.Info, e ast.Expr) (ast.Expr, int64) {
	e = ast.Unparen(e)
	if be, ok := e.(*ast.BinaryExpr); ok && (be.Op == token.ADD || be.Op == token.SUB) {
		if c, ok := kit.ConstInt(info, be.Y); ok {
			t, c0 := c10PlusConst(info, be.X)
			if be.Op == token.SUB {
				c = -c
			}
			return t, c0 + c
		}
	}
	return e, 0
}

type c10Guard struct {
	cond ast.Expr
	neg  bool // the node sits in the else part
}

// c10Guards lists the conditions of the enclosing if/case statements of n up to (not including) stop.
func c10Guards(f *kit.Func, n ast.Node, stop ast.Node) []c10Guard {
	var out []c10Guard
	child := n
	for p := f.Prog.Parent(f.File, n); p != nil && p != stop; p = f.Prog.Parent(f.File, p) {
		switch x := p.(type) {
		case *ast.IfStmt:
			if child == ast.Node(x.Body) {
				out = append(out, c10Guard{x.Cond, false})
			} else if child == x.Else {
				out = append(out, c10Guard{x.Cond, true})
			}
		case *ast.CaseClause:
			if sw, ok := f.Prog.Parent(f.File, f.Prog.Parent(f.File, x)).(*ast.SwitchStmt); ok && sw.Tag == nil {
				for _, e := range x.List {
					out = append(out, c10Guard{e, false})
				}
			}
		case *ast.ForStmt:
			if x.Cond != nil && child == ast.Node(x.Body) {
				out = append(out, c10Guard{x.Cond, false})
			}
		}
		child = p
	}
	return out
}

func c10R8(c *kit.Ctx, m *c10Model) {
	r8 := c.Rule("R8", "setter: the slice is shortened only by the trailing-tombstone trim", 3)
	f := m.setter.f
	info := f.Info()
	cl := m.setter.labels()[reflect.Slice]
	if cl == nil {
		c.Fatalf("setter %s has no Slice arm", f.Name)
	}
	mentionsObj := func(n ast.Node, o types.Object) bool {
		hit := false
		ast.Inspect(n, func(x ast.Node) bool {
			if id, ok := x.(*ast.Ident); ok && info.Uses[id] == o {
				hit = true
			}
			return true
		})
		return hit
	}
	isLenOf := func(e ast.Expr, X ast.Expr) bool {
		call, ok := ast.Unparen(e).(*ast.CallExpr)
		return ok && kit.RCallName(info, call) == "Value.Len" && kit.SameExpr(info, call.Fun.(*ast.SelectorExpr).X, X)
	}
	// ---- resize sites
	type site struct {
		call *ast.CallExpr
		X    ast.Expr
		n    ast.Expr
		what string
	}
	var sites []site
	for _, st := range cl.cc.Body {
		ast.Inspect(st, func(x ast.Node) bool {
			call, ok := x.(*ast.CallExpr)
			if !ok {
				return true
			}
			switch kit.RCallName(info, call) {
			case "Value.Set":
				X := call.Fun.(*ast.SelectorExpr).X
				if a, ok := ast.Unparen(call.Args[0]).(*ast.CallExpr); ok && len(call.Args) == 1 {
					if nm := kit.RCallName(info, a); (nm == "Value.Slice" || nm == "Value.Slice3") && kit.SameExpr(info, a.Fun.(*ast.SelectorExpr).X, X) {
						sites = append(sites, site{call, X, a.Args[1], "Set(Slice)"})
					}
				}
			case "Value.SetLen":
				sites = append(sites, site{call, call.Fun.(*ast.SelectorExpr).X, call.Args[0], "SetLen"})
			}
			return true
		})
	}
	if len(sites) == 0 {
		c.Fatalf("setter %s: no resize of the slice (Set(Slice(0,n)) / SetLen) in the Slice arm: trailing deletions can no longer shrink it", f.Name)
	}
	deleted := map[types.Object]bool{}
	nTrim := 0
	for i, s := range sites {
		o := r8.Ob(f, s.call, fmt.Sprintf("resize #%d %s to %s", i+1, s.what, f.Str(s.n)), "the new length is above Len(), or the trim bound lowered only for indexes tombstoned in this batch")
		T, c1 := c10PlusConst(info, s.n)
		// growing: an enclosing condition establishes T + c1 > Len
		grow := ""
		for _, gd := range c10Guards(f, s.call, cl.cc) {
			if gd.neg {
				continue
			}
			for _, leaf := range c10Leaves(gd.cond, token.LAND) {
				be, ok := leaf.(*ast.BinaryExpr)
				if !ok {
					continue
				}
				a, b, op := be.X, be.Y, be.Op
				switch op {
				case token.LSS:
					a, b, op = b, a, token.GTR
				case token.LEQ:
					a, b, op = b, a, token.GEQ
				}
				if op != token.GTR && op != token.GEQ {
					continue
				}
				ta, ca := c10PlusConst(info, a)
				tb, cb := c10PlusConst(info, b)
				if !kit.SameExpr(info, ta, T) || !isLenOf(tb, s.X) {
					continue
				}
				// T + ca (>|>=) Len + cb   ⇒   T + c1 >= Len + cb - ca + c1 (+1 if >)
				slack := cb - ca + c1
				if op == token.GTR {
					slack++
				}
				if slack >= 0 {
					grow = f.Str(leaf)
				}
			}
		}
		if grow != "" {
			o.OK("never shortens: guarded by `%s`", grow)
			continue
		}
		B, _ := kit.ObjOf(info, T).(*types.Var)
		if _, isIdent := ast.Unparen(T).(*ast.Ident); !isIdent || B == nil || B.IsField() {
			// not a local bound: unless some enclosing condition speaks about
			// Len() of the slice, nothing keeps the new length from being shorter
			lenVars := map[types.Object]bool{}
			hasLen := func(n ast.Node) bool {
				hit := false
				ast.Inspect(n, func(x ast.Node) bool {
					switch y := x.(type) {
					case *ast.CallExpr:
						if isLenOf(y, s.X) {
							hit = true
						}
					case *ast.Ident:
						if o := info.Uses[y]; o != nil && lenVars[o] {
							hit = true
						}
					}
					return true
				})
				return hit
			}
			for changed := true; changed; {
				changed = false
				ast.Inspect(f.Body, func(x ast.Node) bool {
					if as, ok := x.(*ast.AssignStmt); ok {
						for _, r := range as.Rhs {
							if hasLen(r) {
								for _, l := range as.Lhs {
									if lo := kit.ObjOf(info, l); lo != nil && !lenVars[lo] {
										lenVars[lo] = true
										changed = true
									}
								}
							}
						}
					}
					return true
				})
			}
			related := hasLen(s.n)
			for _, gd := range c10Guards(f, s.call, cl.cc) {
				related = related || hasLen(gd.cond)
			}
			if related {
				o.Undecided("cannot tell whether the new length %s is below Len()", f.Str(s.n))
			} else {
				o.Violation("the slice is cut to %s under conditions that do not relate it to Len(): when that is shorter, elements a diff batch does not mention are dropped", f.Str(s.n))
			}
			continue
		}
		// definitions of B
		var initOK, bad, und string
		ndefs := 0
		ast.Inspect(f.Body, func(x ast.Node) bool {
			var rhs ast.Expr
			var stmt ast.Stmt
			dec := false
			switch y := x.(type) {
			case *ast.AssignStmt:
				for k, l := range y.Lhs {
					if kit.ObjOf(info, l) != B {
						continue
					}
					stmt = y
					if len(y.Lhs) == len(y.Rhs) {
						rhs = y.Rhs[k]
					}
					switch y.Tok {
					case token.SUB_ASSIGN:
						if v, ok := kit.ConstInt(info, y.Rhs[0]); ok && v == 1 {
							dec = true
						}
					case token.ASSIGN, token.DEFINE:
						if rhs != nil {
							if t, cc := c10PlusConst(info, rhs); cc == -1 && kit.ObjOf(info, t) == B {
								dec = true
							}
						}
					}
				}
			case *ast.IncDecStmt:
				if kit.ObjOf(info, y.X) == B {
					stmt = y
					dec = y.Tok == token.DEC
				}
			}
			if stmt == nil {
				return true
			}
			ndefs++
			if as, ok := stmt.(*ast.AssignStmt); ok && as.Tok == token.DEFINE && !dec {
				t, c0 := c10PlusConst(info, rhs)
				switch {
				case !isLenOf(t, s.X):
					und = fmt.Sprintf("trim bound %s starts from %s, not from Len()", B.Name(), f.Str(rhs))
				case c0+c1 != 0:
					bad = fmt.Sprintf("the trim bound starts at %s and the slice is cut to %s: the length changes even when nothing was deleted", f.Str(rhs), f.Str(s.n))
				default:
					initOK = f.At(stmt)
				}
				return true
			}
			guards := c10Guards(f, stmt, cl.cc)
			member := ""
			readsDeleted := false
			for _, gd := range guards {
				for _, leaf := range c10Leaves(gd.cond, token.LAND) {
					be, ok := leaf.(*ast.BinaryExpr)
					if ok && be.Op == token.EQL && !gd.neg {
						for _, p := range [][2]ast.Expr{{be.X, be.Y}, {be.Y, be.X}} {
							if kit.ObjOf(info, p[0]) != B {
								continue
							}
							if ix, ok := ast.Unparen(p[1]).(*ast.IndexExpr); ok {
								if d, ok := kit.ObjOf(info, ix.X).(*types.Var); ok && !d.IsField() {
									if _, isSl := d.Type().Underlying().(*types.Slice); isSl {
										deleted[d] = true
										member = f.Str(leaf)
									}
								}
							}
						}
					}
				}
			}
			for _, gd := range guards {
				for d := range deleted {
					if mentionsObj(gd.cond, d) {
						readsDeleted = true
					}
				}
			}
			switch {
			case dec && member != "":
				// fine
			case dec && !readsDeleted:
				bad = fmt.Sprintf("%s at %s lowers the trim bound without testing that the last index is among the indexes tombstoned in this batch", f.Str(stmt), f.At(stmt))
			case dec:
				und = fmt.Sprintf("%s at %s: no `deleted[i] == %s` test encloses the decrement", f.Str(stmt), f.At(stmt), B.Name())
			default:
				// B = E
				dependsOnDeleted := rhs != nil && mentionsObj(rhs, B)
				for d := range deleted {
					if rhs != nil && mentionsObj(rhs, d) {
						dependsOnDeleted = true
					}
				}
				_, isConst := kit.ConstInt(info, rhs)
				if rhs != nil && !dependsOnDeleted && !readsDeleted && !isConst {
					bad = fmt.Sprintf("`%s` at %s lowers the trim bound to a value that does not come from the indexes tombstoned in this batch: "+
						"after the trim loop the bound is the last element the batch did not delete, and elements between %s and it are unchanged elements that a diff does not mention",
						f.Str(stmt), f.At(stmt), f.Str(rhs))
				} else {
					und = fmt.Sprintf("`%s` at %s assigns the trim bound", f.Str(stmt), f.At(stmt))
				}
			}
			return true
		})
		switch {
		case bad != "":
			o.Violation("%s", bad)
		case und != "":
			o.Undecided("%s", und)
		case initOK == "":
			o.Undecided("no `%s := Len()-1` definition of the trim bound found", B.Name())
		default:
			nTrim++
			o.OK("trim: %s starts at Len()%+d (%s); %d later definitions, each a decrement under a `deleted[i] == %s` test", B.Name(), -c1, initOK, ndefs-1, B.Name())
		}
	}
	// ---- the deleted collection receives indexes only under a tombstone test
	if len(deleted) == 0 {
		if nTrim > 0 {
			c.Fatalf("setter %s: trim without a deleted-index collection", f.Name)
		}
		return
	}
	for d := range deleted {
		o := r8.Ob(f, nil, "deleted-index collection "+d.Name(), "indexes are added only for points whose tombstone test holds")
		o.Site = c.P.Pos(d.Pos())
		var bad, und string
		n := 0
		ast.Inspect(f.Body, func(x ast.Node) bool {
			as, ok := x.(*ast.AssignStmt)
			if !ok {
				return true
			}
			for k, l := range as.Lhs {
				if kit.ObjOf(info, l) != d || k >= len(as.Rhs) {
					continue
				}
				rhs := ast.Unparen(as.Rhs[k])
				if lit, ok := rhs.(*ast.CompositeLit); ok && len(lit.Elts) == 0 {
					continue
				}
				call, ok := rhs.(*ast.CallExpr)
				if b, isB := kit.Callee(info, call).(*types.Builtin); !ok || !isB || b.Name() != "append" || kit.ObjOf(info, call.Args[0]) != d {
					und = fmt.Sprintf("%s at %s", f.Str(as), f.At(as))
					continue
				}
				n++
				tomb, anyGuard := false, false
				for _, gd := range c10Guards(f, as, cl.cc) {
					hasT := false
					ast.Inspect(gd.cond, func(y ast.Node) bool {
						if sel, ok := y.(*ast.SelectorExpr); ok && sel.Sel.Name == "Tombstone" && kit.IsNamedType(info.TypeOf(sel.X), kit.ModPath+"/data", "Point") {
							hasT = true
						}
						return true
					})
					if hasT && !gd.neg {
						tomb = true
					}
					if _, isLoop := gd.cond.(*ast.CallExpr); !isLoop {
						anyGuard = true
					}
				}
				switch {
				case tomb:
				case !anyGuard:
					bad = fmt.Sprintf("%s at %s adds the index of every point, live ones included, to the deleted set: a live point at the end of the slice is trimmed away", f.Str(as), f.At(as))
				default:
					und = fmt.Sprintf("%s at %s is not under a tombstone test", f.Str(as), f.At(as))
				}
			}
			return true
		})
		switch {
		case bad != "":
			o.Violation("%s", bad)
		case und != "":
			o.Undecided("%s", und)
		case n == 0:
			o.Undecided("nothing is ever appended to %s", d.Name())
		default:
			o.OK("%d append(s), each under a Tombstone test", n)
		}
	}
}
