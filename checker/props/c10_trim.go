package props

import (
	"fmt"
	"go/ast"
	"go/token"
	"go/types"
	"reflect"

	"siotcheck/kit"
)

// C10/R8: in the setter's slice arm the slice is shortened only by the
// trailing-tombstone trim.
//
// A diff batch names only the elements that changed, so every element it does
// not name must survive Merge.  Resize sites are X.Set(X.Slice(0, n)) and
// X.SetLen(n).  Each is either
//   - growing: guarded by `n-1 > X.Len()-1` (n > Len()), or
//   - the trim: n = B+1 with B := X.Len()-1, and every later definition of B
//     is a decrement by one inside the true branch of a membership test
//     `d[i] == B` on a collection d that receives indexes only under a
//     tombstone test.  After the loop B is the largest index not deleted in
//     this batch; lowering it further (e.g. to the largest live key of the
//     batch) drops unchanged elements.
//
// Plain helpers called from the arm are followed: a resize inside a helper is
// judged with the conditions at its (single) call site, and a trim bound may
// be computed by a helper that returns its length parameter.

func c10Leaves(e ast.Expr, op token.Token) []ast.Expr {
	if be, ok := ast.Unparen(e).(*ast.BinaryExpr); ok && be.Op == op {
		return append(c10Leaves(be.X, op), c10Leaves(be.Y, op)...)
	}
	return []ast.Expr{ast.Unparen(e)}
}

// c10PlusConst splits e into (t, c) with e == t + c.
func c10PlusConst(info *types.Info, e ast.Expr) (ast.Expr, int64) {
	e = ast.Unparen(e)
	if be, ok := e.(*ast.BinaryExpr); ok && (be.Op == token.ADD || be.Op == token.SUB) {
		if c, ok := kit.ConstInt(info, be.Y); ok {
			t, c0 := c10PlusConst(info, be.X)
			if be.Op == token.SUB {
				c = -c
			}
			return t, c0 + c
		}
	}
	return e, 0
}

type c10Guard struct {
	cond ast.Expr
	neg  bool // the node sits in the else part
}

// c10Guards lists the conditions of the enclosing if/case statements of n up to (not including) stop.
func c10Guards(f *kit.Func, n ast.Node, stop ast.Node) (out []c10Guard) {
	defer func() {
		// a condition kept in a boolean local stands for its definition
		for i := range out {
			e := ast.Unparen(out[i].cond)
			for {
				if u, ok := e.(*ast.UnaryExpr); ok && u.Op == token.NOT {
					if _, isId := ast.Unparen(u.X).(*ast.Ident); isId {
						if r := c10ResolveLocal(f, u.X); r != u.X {
							out[i].neg = !out[i].neg
							e = ast.Unparen(r)
							continue
						}
					}
				}
				if _, isId := e.(*ast.Ident); isId {
					if r := c10ResolveLocal(f, e); r != e {
						e = ast.Unparen(r)
						continue
					}
				}
				break
			}
			out[i].cond = e
		}
	}()
	child := n
	for p := f.Prog.Parent(f.File, n); p != nil && p != stop; p = f.Prog.Parent(f.File, p) {
		switch x := p.(type) {
		case *ast.IfStmt:
			if child == ast.Node(x.Body) {
				out = append(out, c10Guard{x.Cond, false})
			} else if child == x.Else {
				out = append(out, c10Guard{x.Cond, true})
			}
		case *ast.CaseClause:
			if sw, ok := f.Prog.Parent(f.File, f.Prog.Parent(f.File, x)).(*ast.SwitchStmt); ok && sw.Tag == nil {
				// `case a, b:` is a disjunction: only a single expression is a
				// (conjunctive) guard; every expression of the clauses above
				// (of all clauses, for default) is known false
				if len(x.List) == 1 {
					out = append(out, c10Guard{x.List[0], false})
				}
				for _, st := range sw.Body.List {
					cc := st.(*ast.CaseClause)
					if cc == x {
						if x.List != nil {
							break
						}
						continue
					}
					if x.List != nil && cc.Pos() > x.Pos() {
						break
					}
					for _, e := range cc.List {
						out = append(out, c10Guard{e, true})
					}
				}
			}
		case *ast.ForStmt:
			if x.Cond != nil && child == ast.Node(x.Body) {
				out = append(out, c10Guard{x.Cond, false})
			}
		}
		child = p
	}
	return out
}

// c10Frame is a region of a function analysed for R8: the Slice arm, or the
// body of a plain helper entered through `call` in the parent frame.
type c10Frame struct {
	f      *kit.Func
	root   ast.Node
	parent *c10Frame
	call   *ast.CallExpr
}

// argOf translates a parameter of the frame's function into the argument at
// the call that entered the frame.
func (fr *c10Frame) argOf(e ast.Expr) ast.Expr {
	if fr.parent == nil || fr.call == nil {
		return nil
	}
	o := kit.ObjOf(fr.f.Info(), e)
	if _, isIdent := ast.Unparen(e).(*ast.Ident); !isIdent || o == nil {
		return nil
	}
	for i, p := range fr.f.Params() {
		if types.Object(p) == o && i < len(fr.call.Args) {
			return fr.call.Args[i]
		}
	}
	if fr.f.Decl != nil && fr.f.Decl.Recv != nil && len(fr.f.Decl.Recv.List) == 1 && len(fr.f.Decl.Recv.List[0].Names) == 1 {
		if fr.f.Info().Defs[fr.f.Decl.Recv.List[0].Names[0]] == o {
			if sel, ok := ast.Unparen(fr.call.Fun).(*ast.SelectorExpr); ok {
				return sel.X
			}
		}
	}
	return nil
}

func c10IsLenOf(f *kit.Func, e ast.Expr, X ast.Expr) bool {
	call, ok := ast.Unparen(e).(*ast.CallExpr)
	return ok && kit.RCallName(f.Info(), call) == "Value.Len" && kit.SameExpr(f.Info(), call.Fun.(*ast.SelectorExpr).X, X)
}

func c10Mentions(f *kit.Func, n ast.Node, o types.Object) bool {
	hit := false
	if n == nil {
		return false
	}
	ast.Inspect(n, func(x ast.Node) bool {
		if id, ok := x.(*ast.Ident); ok && f.Info().Uses[id] == o {
			hit = true
		}
		return true
	})
	return hit
}

// c10GrowGuard looks for an enclosing condition that establishes T + c1 >= X.Len();
// when the frame was entered through a call, the search continues at the call site.
func c10GrowGuard(fr *c10Frame, at ast.Node, T ast.Expr, c1 int64, X ast.Expr) string {
	f := fr.f
	info := f.Info()
	for _, gd := range c10Guards(f, at, fr.root) {
		leaves := c10Leaves(gd.cond, token.LAND)
		if gd.neg {
			// ¬(a || b) = ¬a && ¬b; the negation of a conjunction says nothing usable
			leaves = c10Leaves(gd.cond, token.LOR)
			if len(c10Leaves(gd.cond, token.LAND)) > 1 {
				continue
			}
		}
		for _, leaf := range leaves {
			be, ok := leaf.(*ast.BinaryExpr)
			if !ok {
				continue
			}
			a, b, op := be.X, be.Y, be.Op
			if gd.neg {
				op = map[token.Token]token.Token{token.LSS: token.GEQ, token.LEQ: token.GTR, token.GTR: token.LEQ, token.GEQ: token.LSS}[op]
			}
			switch op {
			case token.LSS:
				a, b, op = b, a, token.GTR
			case token.LEQ:
				a, b, op = b, a, token.GEQ
			}
			if op != token.GTR && op != token.GEQ {
				continue
			}
			ta, ca := c10PlusConst(info, a)
			tb, cb := c10PlusConst(info, b)
			if !kit.SameExpr(info, ta, T) || !c10IsLenOf(f, tb, X) {
				continue
			}
			// T + ca (>|>=) Len + cb   ⇒   T + c1 >= Len + cb - ca + c1 (+1 if >)
			slack := cb - ca + c1
			if op == token.GTR {
				slack++
			}
			if slack >= 0 {
				return "`" + f.Str(leaf) + "` (" + f.At(leaf) + ")"
			}
		}
	}
	if fr.parent != nil {
		T2, X2 := fr.argOf(T), fr.argOf(X)
		if T2 != nil && X2 != nil {
			t, ct := c10PlusConst(fr.parent.f.Info(), T2)
			return c10GrowGuard(fr.parent, fr.call, t, c1+ct, X2)
		}
	}
	return ""
}

// c10IsBoolSet: []bool or map[<integer>]bool, a set of indexes kept as flags.
func c10IsBoolSet(t types.Type) bool {
	if t == nil {
		return false
	}
	var el types.Type
	switch u := t.Underlying().(type) {
	case *types.Slice:
		el = u.Elem()
	case *types.Map:
		if kb, ok := u.Key().Underlying().(*types.Basic); !ok || kb.Info()&types.IsInteger == 0 {
			return false
		}
		el = u.Elem()
	default:
		return false
	}
	bt, ok := el.Underlying().(*types.Basic)
	return ok && bt.Info()&types.IsBoolean != 0
}

// c10ResizedBetween: some X.Set(..) / X.SetLen(..) of f lies between the two positions.
func c10ResizedBetween(f *kit.Func, X ast.Expr, from, to token.Pos) bool {
	hit := false
	ast.Inspect(f.Body, func(x ast.Node) bool {
		if call, ok := x.(*ast.CallExpr); ok && call.Pos() > from && call.Pos() < to {
			switch kit.RCallName(f.Info(), call) {
			case "Value.Set", "Value.SetLen":
				if kit.SameExpr(f.Info(), call.Fun.(*ast.SelectorExpr).X, X) {
					hit = true
				}
			}
		}
		return true
	})
	return hit
}

type c10TrimVerdict struct {
	initAt, bad, und string
	ndefs            int
	deleted          []ast.Expr // collections tested for membership (expressions of the frame)
}

// c10TrimDefs judges the definitions of trim bound B in frame fr; the slice is
// cut to B + c1.  needInit: B must start as X.Len() - c1 inside the frame.
func c10TrimDefs(fr *c10Frame, B *types.Var, c1 int64, X ast.Expr, needInit bool) c10TrimVerdict {
	f := fr.f
	info := f.Info()
	var v c10TrimVerdict
	seenD := map[types.Object]bool{}
	ast.Inspect(f.Body, func(x ast.Node) bool {
		var rhs ast.Expr
		var stmt ast.Stmt
		dec := false
		switch y := x.(type) {
		case *ast.AssignStmt:
			for k, l := range y.Lhs {
				if kit.ObjOf(info, l) != types.Object(B) {
					continue
				}
				stmt = y
				if len(y.Lhs) == len(y.Rhs) {
					rhs = y.Rhs[k]
				}
				switch y.Tok {
				case token.SUB_ASSIGN:
					if c, ok := kit.ConstInt(info, y.Rhs[0]); ok && c == 1 {
						dec = true
					}
				case token.ASSIGN, token.DEFINE:
					if rhs != nil {
						if t, cc := c10PlusConst(info, rhs); cc == -1 && kit.ObjOf(info, t) == types.Object(B) {
							dec = true
						}
					}
				}
			}
		case *ast.IncDecStmt:
			if kit.ObjOf(info, y.X) == types.Object(B) {
				stmt = y
				dec = y.Tok == token.DEC
			}
		}
		if stmt == nil {
			return true
		}
		v.ndefs++
		if as, ok := stmt.(*ast.AssignStmt); ok && as.Tok == token.DEFINE && !dec {
			t, c0 := c10PlusConst(info, rhs)
			// the length kept in a local (`n := X.Len()`) stands for Len() as
			// long as no resize of X lies between its definition and this use
			if needInit && X != nil && !c10IsLenOf(f, t, X) {
				if r := c10ResolveLocal(f, t); r != t {
					t2, c2 := c10PlusConst(info, r)
					if c10IsLenOf(f, t2, X) && !c10ResizedBetween(f, X, t2.Pos(), stmt.Pos()) {
						t, c0 = t2, c0+c2
					}
				}
			}
			switch {
			case !needInit || X == nil || !c10IsLenOf(f, t, X):
				v.und = fmt.Sprintf("trim bound %s starts from %s, not from Len()", B.Name(), f.Str(rhs))
			case c0+c1 != 0:
				v.bad = fmt.Sprintf("the trim bound starts at %s and the slice is cut to %s%+d: the length changes even when nothing was deleted", f.Str(rhs), B.Name(), c1)
			default:
				v.initAt = f.At(stmt)
			}
			return true
		}
		guards := c10Guards(f, stmt, fr.root)
		member := ""
		readsDeleted := false
		// an int-slice element read in a guard may be a membership test in a
		// shape not recognised here: then the verdict is "undecided"
		for _, gd := range guards {
			ast.Inspect(gd.cond, func(y ast.Node) bool {
				if ix, ok := y.(*ast.IndexExpr); ok {
					if sl, ok := info.TypeOf(ix.X).Underlying().(*types.Slice); ok {
						if bt, ok := sl.Elem().Underlying().(*types.Basic); ok && bt.Info()&types.IsInteger != 0 {
							readsDeleted = true
						}
					}
					if c10IsBoolSet(info.TypeOf(ix.X)) {
						readsDeleted = true
					}
				}
				return true
			})
		}
		for _, gd := range guards {
			if gd.neg {
				continue
			}
			for _, leaf := range c10Leaves(gd.cond, token.LAND) {
				// membership kept as a set of flags: `d[<last index>]` with d a
				// local []bool / map[int]bool
				if ix, ok := leaf.(*ast.IndexExpr); ok && c10IsBoolSet(info.TypeOf(ix.X)) {
					t0, k0 := c10PlusConst(info, ix.Index)
					if r := c10ResolveLocal(f, t0); r != t0 && kit.ObjOf(info, t0) != types.Object(B) {
						t1, k1 := c10PlusConst(info, r)
						t0, k0 = t1, k0+k1
					}
					d, isVar := kit.ObjOf(info, ix.X).(*types.Var)
					if kit.ObjOf(info, t0) == types.Object(B) && k0 == c1-1 && isVar && !d.IsField() {
						member = f.Str(leaf)
						if !seenD[d] {
							seenD[d] = true
							v.deleted = append(v.deleted, ix.X)
						}
					}
					continue
				}
				be, ok := leaf.(*ast.BinaryExpr)
				if !ok || be.Op != token.EQL {
					continue
				}
				for _, p := range [][2]ast.Expr{{be.X, be.Y}, {be.Y, be.X}} {
					// the tested index must be the current last index: B + c1 - 1
					t0, k0 := c10PlusConst(info, p[0])
					if r := c10ResolveLocal(f, t0); r != t0 && kit.ObjOf(info, t0) != types.Object(B) {
						t1, k1 := c10PlusConst(info, r)
						t0, k0 = t1, k0+k1
					}
					if kit.ObjOf(info, t0) != types.Object(B) || k0 != c1-1 {
						continue
					}
					ix, ok := ast.Unparen(p[1]).(*ast.IndexExpr)
					if !ok {
						continue
					}
					d, ok := kit.ObjOf(info, ix.X).(*types.Var)
					if !ok || d.IsField() {
						continue
					}
					if _, isSl := d.Type().Underlying().(*types.Slice); isSl {
						member = f.Str(leaf)
						if !seenD[d] {
							seenD[d] = true
							v.deleted = append(v.deleted, ix.X)
						}
					}
				}
			}
		}
		switch {
		case dec && member != "":
		case dec && !readsDeleted:
			v.bad = fmt.Sprintf("%s at %s lowers the trim bound without testing that the last index is among the indexes tombstoned in this batch", f.Str(stmt), f.At(stmt))
		case dec:
			v.und = fmt.Sprintf("%s at %s: no `deleted[i] == <last index>` test encloses the decrement", f.Str(stmt), f.At(stmt))
		default:
			dependsOnDeleted := rhs != nil && c10Mentions(f, rhs, B)
			for _, gd := range guards {
				_ = gd
			}
			_, isConst := kit.ConstInt(info, rhs)
			if rhs != nil && !dependsOnDeleted && !readsDeleted && !isConst {
				hasSliceRead := false
				ast.Inspect(rhs, func(y ast.Node) bool {
					if _, ok := y.(*ast.IndexExpr); ok {
						hasSliceRead = true
					}
					return true
				})
				if !hasSliceRead {
					v.bad = fmt.Sprintf("`%s` at %s lowers the trim bound to a value that does not come from the indexes tombstoned in this batch: "+
						"after the trim loop the bound is the last element the batch did not delete, and elements between %s and it are unchanged elements that a diff does not mention",
						f.Str(stmt), f.At(stmt), f.Str(rhs))
					return true
				}
			}
			v.und = fmt.Sprintf("`%s` at %s assigns the trim bound", f.Str(stmt), f.At(stmt))
		}
		return true
	})
	return v
}

// c10DeletedPure checks that collection d (an expression of frame fr) receives
// indexes only under a tombstone test; a parameter is followed to the caller.
func c10DeletedPure(fr *c10Frame, d ast.Expr) (okMsg, bad, und string) {
	f := fr.f
	info := f.Info()
	obj := kit.ObjOf(info, d)
	if a := fr.argOf(d); a != nil {
		return c10DeletedPure(fr.parent, a)
	}
	if obj == nil {
		return "", "", "deleted-index collection " + f.Str(d) + " is not a local variable"
	}
	n := 0
	boolSet := c10IsBoolSet(obj.Type())
	ast.Inspect(f.Body, func(x ast.Node) bool {
		as, ok := x.(*ast.AssignStmt)
		if !ok {
			return true
		}
		for k, l := range as.Lhs {
			// a set of flags: `d[i] = true` is what append is for a list of indexes
			isFlag := false
			if ix, ok := ast.Unparen(l).(*ast.IndexExpr); ok && boolSet && kit.ObjOf(info, ix.X) == obj && k < len(as.Rhs) && len(as.Lhs) == len(as.Rhs) {
				if tv, ok := info.Types[as.Rhs[k]]; ok && tv.Value != nil {
					if tv.Value.String() == "false" {
						continue
					}
					isFlag = true
				} else {
					und = fmt.Sprintf("%s at %s", f.Str(as), f.At(as))
					continue
				}
			}
			if !isFlag && (kit.ObjOf(info, l) != obj || k >= len(as.Rhs)) {
				continue
			}
			rhs := ast.Unparen(as.Rhs[k])
			if lit, ok := rhs.(*ast.CompositeLit); ok && len(lit.Elts) == 0 {
				continue
			}
			// make: no flag is set; a list of indexes must start empty
			if mk, ok := rhs.(*ast.CallExpr); ok && !isFlag {
				if b, isB := kit.Callee(info, mk).(*types.Builtin); isB && b.Name() == "make" {
					if boolSet {
						continue
					}
					if len(mk.Args) >= 2 {
						if c, isC := kit.ConstInt(info, mk.Args[1]); isC && c == 0 {
							continue
						}
					}
				}
			}
			// taken from a pool, or cut to length 0: where the collection starts;
			// that it holds nothing of an earlier call then is R10's obligation
			if _, isGet := c10GetExpr(info, rhs); isGet {
				continue
			}
			if sl, ok := rhs.(*ast.SliceExpr); ok && kit.ObjOf(info, sl.X) == obj && sl.Low == nil && sl.High != nil {
				if c, isC := kit.ConstInt(info, sl.High); isC && c == 0 {
					continue
				}
			}
			if !isFlag {
				call, ok := rhs.(*ast.CallExpr)
				if !ok {
					und = fmt.Sprintf("%s at %s", f.Str(as), f.At(as))
					continue
				}
				if b, isB := kit.Callee(info, call).(*types.Builtin); !isB || b.Name() != "append" || kit.ObjOf(info, call.Args[0]) != obj {
					und = fmt.Sprintf("%s at %s", f.Str(as), f.At(as))
					continue
				}
			}
			n++
			tomb, anyGuard := false, false
			for _, gd := range c10Guards(f, as, f.Body) {
				hasT := false
				ast.Inspect(c10ResolveLocal(f, gd.cond), func(y ast.Node) bool {
					if sel, ok := y.(*ast.SelectorExpr); ok && sel.Sel.Name == "Tombstone" && kit.IsNamedType(info.TypeOf(sel.X), kit.ModPath+"/data", "Point") {
						hasT = true
					}
					return true
				})
				if hasT && !gd.neg {
					tomb = true
				}
				if hasT || c10Mentions(f, gd.cond, obj) {
					anyGuard = true
				}
			}
			_ = anyGuard
			switch {
			case tomb:
			default:
				// no enclosing condition speaks about the point's tombstone
				points := false
				for _, gd := range c10Guards(f, as, f.Body) {
					ast.Inspect(c10ResolveLocal(f, gd.cond), func(y ast.Node) bool {
						if e, ok := y.(ast.Expr); ok && kit.IsNamedType(info.TypeOf(e), kit.ModPath+"/data", "Point") {
							points = true
						}
						return true
					})
				}
				if !points {
					bad = fmt.Sprintf("%s at %s adds the index of every point, live ones included, to the deleted set: a live point at the end of the slice is trimmed away", f.Str(as), f.At(as))
				} else {
					und = fmt.Sprintf("%s at %s is not under a tombstone test", f.Str(as), f.At(as))
				}
			}
		}
		return true
	})
	if bad == "" && und == "" && n == 0 {
		und = "nothing is ever appended to " + f.Str(d)
	}
	if boolSet {
		return fmt.Sprintf("%s in %s: %d flag(s) set, each under a Tombstone test", f.Str(d), f.Name, n), bad, und
	}
	return fmt.Sprintf("%s in %s: %d append(s), each under a Tombstone test", f.Str(d), f.Name, n), bad, und
}

func c10R8(c *kit.Ctx, m *c10Model) {
	r8 := c.Rule("R8", "setter: the slice is shortened only by the trailing-tombstone trim", 3)
	cl := m.setter.labels()[reflect.Slice]
	if cl == nil {
		c.Fatalf("setter %s has no Slice arm", m.setter.f.Name)
	}
	// call sites of plain helpers (a helper with several call sites is entered without context)
	nCalls := map[*kit.Func]int{}
	for _, g := range c.P.Funcs("data") {
		if g.Body == nil {
			continue
		}
		for _, call := range g.AllCalls(false) {
			if h := g.CalleeFunc(call); h != nil {
				nCalls[h]++
			}
		}
	}
	type site struct {
		fr   *c10Frame
		call *ast.CallExpr
		X    ast.Expr
		n    ast.Expr
		what string
	}
	var sites []site
	visited := map[*kit.Func]bool{}
	var collect func(fr *c10Frame, region ast.Node, depth int)
	collect = func(fr *c10Frame, region ast.Node, depth int) {
		f := fr.f
		info := f.Info()
		ast.Inspect(region, func(x ast.Node) bool {
			call, ok := x.(*ast.CallExpr)
			if !ok {
				return true
			}
			switch kit.RCallName(info, call) {
			case "Value.Set":
				X := call.Fun.(*ast.SelectorExpr).X
				if a, ok := ast.Unparen(call.Args[0]).(*ast.CallExpr); ok && len(call.Args) == 1 {
					if nm := kit.RCallName(info, a); (nm == "Value.Slice" || nm == "Value.Slice3") && kit.SameExpr(info, a.Fun.(*ast.SelectorExpr).X, X) {
						sites = append(sites, site{fr, call, X, a.Args[1], "Set(Slice)"})
					}
				}
			case "Value.SetLen":
				sites = append(sites, site{fr, call, call.Fun.(*ast.SelectorExpr).X, call.Args[0], "SetLen"})
			case "":
				if h := f.CalleeFunc(call); h != nil && depth < 3 && c10IsPlainHelper(f, h) && h != m.decF && h != m.encF && !visited[h] {
					visited[h] = true
					child := &c10Frame{f: h, root: h.Body}
					if nCalls[h] == 1 {
						child.parent, child.call = fr, call
					}
					collect(child, h.Body, depth+1)
				}
			}
			return true
		})
	}
	top := &c10Frame{f: m.setter.f, root: cl.cc}
	for _, st := range cl.cc.Body {
		collect(top, st, 0)
	}
	if len(sites) == 0 {
		c.Fatalf("setter %s: no resize of the slice (Set(Slice(0,n)) / SetLen) in the Slice arm or its helpers: trailing deletions can no longer shrink it", m.setter.f.Name)
	}
	type delRef struct {
		fr *c10Frame
		e  ast.Expr
	}
	var deleted []delRef
	nTrim := 0
	for i, s := range sites {
		fr := s.fr
		f := fr.f
		info := f.Info()
		where := ""
		if fr != top {
			where = " in " + f.Name
		}
		o := r8.Ob(f, s.call, fmt.Sprintf("resize #%d %s to %s%s", i+1, s.what, f.Str(s.n), where), "the new length is above Len(), or the trim bound lowered only for indexes tombstoned in this batch")
		T, c1 := c10PlusConst(info, s.n)
		if g := c10GrowGuard(fr, s.call, T, c1, s.X); g != "" {
			o.OK("never shortens: guarded by %s", g)
			continue
		}
		// trim bound computed by a helper that returns its length parameter
		if kcall, ok := ast.Unparen(T).(*ast.CallExpr); ok {
			k := f.CalleeFunc(kcall)
			if k == nil || !c10IsPlainHelper(f, k) {
				o.Undecided("cannot tell whether the new length %s is below Len()", f.Str(s.n))
				continue
			}
			kfr := &c10Frame{f: k, root: k.Body, parent: fr, call: kcall}
			var P *types.Var
			same := true
			nret := 0
			ast.Inspect(k.Body, func(x ast.Node) bool {
				if _, isLit := x.(*ast.FuncLit); isLit {
					return false
				}
				if r, ok := x.(*ast.ReturnStmt); ok {
					nret++
					if len(r.Results) != 1 {
						same = false
						return true
					}
					v, _ := kit.ObjOf(k.Info(), r.Results[0]).(*types.Var)
					if _, isIdent := ast.Unparen(r.Results[0]).(*ast.Ident); !isIdent || v == nil || (P != nil && v != P) {
						same = false
					}
					P = v
				}
				return true
			})
			var arg ast.Expr
			if P != nil {
				arg = kfr.argOf(ast.NewIdent(P.Name()))
				for i, p := range k.Params() {
					if p == P && i < len(kcall.Args) {
						arg = kcall.Args[i]
					}
				}
			}
			if !same || P == nil || nret == 0 || arg == nil {
				o.Undecided("the new length is computed by %s, which does not simply return its length parameter", k.Name)
				continue
			}
			// the parameter starts as X.Len() - c1 at the call
			t, c0 := c10PlusConst(info, c10ResolveLocal(f, arg))
			if te, ce := c10PlusConst(info, arg); !c10IsLenOf(f, t, s.X) {
				t, c0 = te, ce
			}
			switch {
			case !c10IsLenOf(f, t, s.X):
				o.Undecided("%s is called with %s, which is not Len() of the slice", k.Name, f.Str(arg))
				continue
			case c0+c1 != 0:
				o.Violation("%s starts from %s and the slice is cut to its result%+d: the length changes even when nothing was deleted", k.Name, f.Str(arg), c1)
				continue
			}
			v := c10TrimDefs(kfr, P, c1, nil, false)
			switch {
			case v.bad != "":
				o.Violation("%s", v.bad)
			case v.und != "":
				o.Undecided("%s", v.und)
			default:
				nTrim++
				for _, d := range v.deleted {
					deleted = append(deleted, delRef{kfr, d})
				}
				o.OK("trim through %s: its length parameter starts as %s; %d definitions, each a decrement under a `deleted[i] == <last index>` test", k.Name, f.Str(arg), v.ndefs)
			}
			continue
		}
		B, _ := kit.ObjOf(info, T).(*types.Var)
		if _, isIdent := ast.Unparen(T).(*ast.Ident); !isIdent || B == nil || B.IsField() {
			// not a local bound: unless some enclosing condition speaks about
			// Len() of the slice, nothing keeps the new length from being shorter
			lenVars := map[types.Object]bool{}
			hasLen := func(n ast.Node) bool {
				hit := false
				ast.Inspect(n, func(x ast.Node) bool {
					switch y := x.(type) {
					case *ast.CallExpr:
						if c10IsLenOf(f, y, s.X) {
							hit = true
						}
					case *ast.Ident:
						if ob := info.Uses[y]; ob != nil && lenVars[ob] {
							hit = true
						}
					}
					return true
				})
				return hit
			}
			for changed := true; changed; {
				changed = false
				ast.Inspect(f.Body, func(x ast.Node) bool {
					if as, ok := x.(*ast.AssignStmt); ok {
						for _, r := range as.Rhs {
							if hasLen(r) {
								for _, l := range as.Lhs {
									if lo := kit.ObjOf(info, l); lo != nil && !lenVars[lo] {
										lenVars[lo] = true
										changed = true
									}
								}
							}
						}
					}
					return true
				})
			}
			related := hasLen(s.n) || fr != top
			for _, gd := range c10Guards(f, s.call, fr.root) {
				related = related || hasLen(gd.cond)
			}
			if related {
				o.Undecided("cannot tell whether the new length %s is below Len()", f.Str(s.n))
			} else {
				o.Violation("the slice is cut to %s under conditions that do not relate it to Len(): when that is shorter, elements a diff batch does not mention are dropped", f.Str(s.n))
			}
			continue
		}
		// a parameter of a helper: nothing is known about it here
		isParam := false
		for _, p := range f.Params() {
			if p == B {
				isParam = true
			}
		}
		if isParam {
			o.Undecided("the new length %s is a parameter of %s and no condition at the call site establishes that it is above Len()", B.Name(), f.Name)
			continue
		}
		v := c10TrimDefs(fr, B, c1, s.X, true)
		switch {
		case v.bad != "":
			o.Violation("%s", v.bad)
		case v.und != "":
			o.Undecided("%s", v.und)
		case v.initAt == "":
			o.Undecided("no `%s := Len()%+d` definition of the trim bound found", B.Name(), -c1)
		default:
			nTrim++
			for _, d := range v.deleted {
				deleted = append(deleted, delRef{fr, d})
			}
			o.OK("trim: %s starts at Len()%+d (%s); %d later definitions, each a decrement under a `deleted[i] == <last index>` test", B.Name(), -c1, v.initAt, v.ndefs-1)
		}
	}
	// ---- the deleted collection receives indexes only under a tombstone test
	if len(deleted) == 0 && nTrim > 0 {
		c.Fatalf("setter %s: trim without a deleted-index collection", m.setter.f.Name)
	}
	for _, d := range deleted {
		o := r8.Ob(d.fr.f, d.e, "deleted-index collection "+d.fr.f.Str(d.e), "indexes are added only for points whose tombstone test holds")
		okMsg, bad, und := c10DeletedPure(d.fr, d.e)
		switch {
		case bad != "":
			o.Violation("%s", bad)
		case und != "":
			o.Undecided("%s", und)
		default:
			o.OK("%s", okMsg)
		}
	}
}
