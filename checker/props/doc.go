// Package props holds one file per property (cNN.go); each registers itself
// with kit.Register in init.
package props
