package props

import (
	"fmt"
	"go/ast"
	"go/token"
	"go/types"
	"strings"

	"siotcheck/kit"
)

// R4 — token issuance in the store's auth handler; R5 — credential check.

func c09Store(c *kit.Ctx, a *c09Anchors) {
	m := newStoreModel(c)
	c09Issuance(c, a)
	c09CredCheck(c, a, m)
}

// ---------------------------------------------------------------------------
// R4

func c09Issuance(c *kit.Ctx, a *c09Anchors) {
	r4 := c.Rule("R4", "token issued only after a successful credential check, and delivered", 5)
	f := a.authHandler
	c.Analysed(f)
	info := f.Info()
	msg := msgParam(f)
	// the credential check and the issuer may be called from the handler or from
	// one of its helpers (interpreted inline)
	nCred, nIssue := 0, 0
	var issueCall *ast.CallExpr
	for _, g := range c09Closure(f) {
		if g.Body == nil || g == a.credFn {
			continue
		}
		for _, call := range g.AllCalls(false) {
			if g.CalleeFunc(call) == a.credFn {
				nCred++
			}
			if a.issuerObjs[kit.Callee(info, call)] {
				nIssue++
				issueCall = call
			}
		}
	}
	if nCred == 0 {
		c.Fatalf("%s issues a token but neither it nor its helpers call the credential check %s", f.Name, a.credFn.Name)
	}
	if nIssue != 1 {
		c.Fatalf("%s and its helpers issue tokens at %d sites", f.Name, nIssue)
	}

	fl := newC09Flow(f)
	fl.inline = c09SamePkg(a.credFn)
	isMsg := func(e ast.Expr) bool { return fl.obj(e) == types.Object(msg) }
	isReplySubject := func(e ast.Expr) bool {
		sel, ok := ast.Unparen(e).(*ast.SelectorExpr)
		if !ok || !isMsg(sel.X) {
			return false
		}
		v, ok := kit.ObjOf(info, sel).(*types.Var)
		return ok && v.IsField() && c09IsString(v.Type()) && v.Name() == "Reply"
	}
	// a reply that carries a payload: a call that is handed msg.Reply and a
	// non-nil payload, or msg.Respond(x)
	mentionsReply := func(e ast.Expr) bool {
		found := false
		ast.Inspect(fl.st.Resolve(e), func(n ast.Node) bool {
			if x, ok := n.(ast.Expr); ok && isReplySubject(x) {
				found = true
			}
			return !found
		})
		return found
	}
	payloadReply := func(call *ast.CallExpr) bool {
		hasReply, hasPayload := false, false
		for _, arg := range call.Args {
			switch {
			case mentionsReply(arg):
				hasReply = true
				if _, isSel := ast.Unparen(fl.st.Resolve(arg)).(*ast.SelectorExpr); !isSel {
					hasPayload = true // a message value built around the reply subject
				}
			case kit.IsNilIdent(info, arg):
			default:
				hasPayload = true
			}
		}
		// msg.Respond(x), msg.RespondMsg(m): methods of the request message
		if sel, ok := ast.Unparen(call.Fun).(*ast.SelectorExpr); ok && isMsg(sel.X) && c09NatsRecv(kit.Callee(info, call)) {
			hasReply = true
		}
		return hasReply && hasPayload
	}
	fl.roles = func(call *ast.CallExpr) []string {
		switch {
		case fl.cur().CalleeFunc(call) == a.credFn:
			return []string{"cn", "ce"}
		case a.issuerObjs[kit.Callee(info, call)]:
			return []string{"tokv", "ie"}
		}
		return nil
	}
	// the reply may be sent by code that is not interpreted
	fl.opaque = func(call *ast.CallExpr, s kit.S) []string {
		for _, arg := range call.Args {
			r := fl.st.Resolve(arg)
			if isMsg(r) || isReplySubject(r) {
				return []string{"reply"}
			}
		}
		return nil
	}
	var badIssue, murkyIssue *kit.S
	okIssue := 0
	fl.onCall = func(call *ast.CallExpr, n ast.Node, s kit.S) []kit.S {
		switch {
		case a.issuerObjs[kit.Callee(info, call)]:
			ce, cn := s.Get("a:ce"), s.Get("a:cn.nonempty")
			switch {
			case ce == "F" && cn == "T":
				okIssue++
			case ce == "T" || cn == "F":
				if badIssue == nil {
					s2 := s
					badIssue = &s2
				}
			case (ce == "" && s.Get("opq:ce") == "1") || (cn == "" && s.Get("opq:cn") == "1"):
				if murkyIssue == nil {
					s2 := s
					murkyIssue = &s2
				}
			default:
				if badIssue == nil {
					s2 := s
					badIssue = &s2
				}
			}
			return []kit.S{s.Set("issued", "1")}
		case payloadReply(call):
			if s.Get("issued") == "1" {
				return []kit.S{s.Set("delivered", "1")}
			}
		}
		return nil
	}
	res := fl.run(c, kit.NewS())

	o := r4.Ob(f, issueCall, "issuance gate", "the token issuer is reached only after the credential check returned a nil error and at least one node")
	switch {
	case badIssue != nil:
		o.Violation("the token issuer at %s is reachable with: credential-check error %s, node list %s",
			f.At(issueCall), c09Fact(*badIssue, "a:ce", "non-nil", "nil", "not tested"), c09Fact(*badIssue, "a:cn.nonempty", "non-empty", "empty", "not tested for emptiness"))
	case murkyIssue != nil:
		o.Undecided("the token issuer is reached on a path where the credential check's results were tested by an expression or function that was not interpreted")
	case okIssue == 0:
		o.Undecided("the token issuer was not reached on any interpreted path")
	default:
		o.OK("dominated by the nil edge of the credential-check error and the non-empty edge of its node list")
	}

	o2 := r4.Ob(f, issueCall, "token delivery", "once a token has been issued without error, a payload is published to the request's reply subject before the handler ends")
	bad := ""
	murky := false
	var badExit kit.Exit
	good := 0
	for _, e := range res.Exits {
		if e.State.Get("issued") != "1" || e.State.Get("a:ie") == "T" {
			continue
		}
		switch {
		case e.State.Get("delivered") == "1":
			good++
		case e.State.Get("opq:reply") == "1" || e.State.Get("opq:tokv") == "1" && false:
			murky = true
		case bad == "":
			bad = "an exit is reachable after a successful issuance without any payload published to msg.Reply"
			badExit = e
		}
	}
	switch {
	case bad != "":
		o2.Violation("%s: the valid user never receives the token", bad).WithPath(res.PathTo(badExit))
	case murky:
		o2.Undecided("after the issuance the message or its reply subject is handed to a function that was not interpreted")
	case good == 0:
		o2.Undecided("no exit after an issuance was found")
	default:
		o2.OK("%d exit state(s) after issuance, all after a payload reply", good)
	}
	c09Login(c, a, r4)
}

// ---------------------------------------------------------------------------
// R5

type c09Cred struct {
	f        *kit.Func
	emailF   *types.Var
	passF    *types.Var
	pathFn   *kit.Func
	pathCall *ast.CallExpr
	loop2    *ast.RangeStmt
	s1, s2   types.Object
	keeps    []*ast.CallExpr // appends to s1
	results  []*ast.CallExpr // appends to s2 inside loop2
	loop1    *ast.RangeStmt
}

// appendTo recognises `x = append(x, …)` and returns x's object and the call.
func c09AppendTo(info *types.Info, n ast.Node) (types.Object, *ast.CallExpr) {
	as, ok := n.(*ast.AssignStmt)
	if !ok || len(as.Lhs) != 1 || len(as.Rhs) != 1 {
		return nil, nil
	}
	call, ok := ast.Unparen(as.Rhs[0]).(*ast.CallExpr)
	if !ok || len(call.Args) < 2 {
		return nil, nil
	}
	if b, ok := kit.Callee(info, call).(*types.Builtin); !ok || b.Name() != "append" {
		return nil, nil
	}
	o := kit.ObjOf(info, as.Lhs[0])
	if o == nil || kit.ObjOf(info, call.Args[0]) != o {
		return nil, nil
	}
	return o, call
}

func c09CredCheck(c *kit.Ctx, a *c09Anchors, m *storeModel) {
	r5 := c.Rule("R5", "credential check: exact match, existential live-path search", 7)
	f := a.credFn
	c.Analysed(f)
	info := f.Info()
	emailF, passF := c09UserFields(c)
	cr := &c09Cred{f: f, emailF: emailF, passF: passF}

	// the live-path search: a self-recursive function with a bool first result
	// that the credential check calls
	for _, call := range f.AllCalls(false) {
		cf := f.CalleeFunc(call)
		if cf == nil || cf.Body == nil || cf.PkgRel() != "store" || cf.Type.Results == nil || len(cf.Type.Results.List) == 0 {
			continue
		}
		if !c09IsBool(info.TypeOf(cf.Type.Results.List[0].Type)) {
			continue
		}
		rec := false
		for _, c2 := range cf.AllCalls(false) {
			if cf.CalleeFunc(c2) == cf {
				rec = true
			}
		}
		if rec {
			if cr.pathFn != nil && cr.pathFn != cf {
				c.Fatalf("%s calls two recursive searches: %s and %s", f.Name, cr.pathFn.Name, cf.Name)
			}
			cr.pathFn, cr.pathCall = cf, call
		}
	}
	if cr.pathFn == nil {
		c.Fatalf("%s calls no recursive search with a bool result (live path to root)", f.Name)
	}
	if l := f.EnclosingLoop(cr.pathCall); l != nil {
		cr.loop2 = l
		cr.s1 = kit.ObjOf(info, l.X)
	}
	if cr.loop2 == nil || cr.s1 == nil {
		c.Fatalf("%s: the live-path search is not called in a loop over a slice variable", f.Name)
	}
	ast.Inspect(f.Body, func(n ast.Node) bool {
		if _, ok := n.(*ast.FuncLit); ok {
			return false
		}
		o, call := c09AppendTo(info, n)
		if call == nil {
			return true
		}
		inLoop2 := cr.loop2.Body.Pos() <= n.Pos() && n.End() <= cr.loop2.Body.End()
		switch {
		case o == cr.s1:
			cr.keeps = append(cr.keeps, call)
		case inLoop2:
			if cr.s2 != nil && cr.s2 != o {
				c.Fatalf("%s: the second loop appends to two slices", f.Name)
			}
			cr.s2 = o
			cr.results = append(cr.results, call)
		}
		return true
	})
	if len(cr.keeps) == 0 || cr.s2 == nil {
		c.Fatalf("%s: candidate appends (%d) / result appends (%d) not found", f.Name, len(cr.keeps), len(cr.results))
	}

	// atoms of the match: <x>.Email == <string parameter>
	params := map[types.Object]bool{}
	for _, p := range f.Params() {
		if c09IsString(p.Type()) {
			params[p] = true
		}
	}
	var emailParam, passParam types.Object
	// resolve maps an expression to the object it denotes; inside an inlined
	// helper the helper's parameters are mapped to the caller's arguments
	matchAtomR := func(e ast.Expr, resolve func(ast.Expr) types.Object) (string, bool, bool) {
		x, y, op, ok := kit.CmpAtom(e)
		if !ok || (op != token.EQL && op != token.NEQ) {
			return "", false, false
		}
		for i := 0; i < 2; i++ {
			if sel, ok := ast.Unparen(x).(*ast.SelectorExpr); ok {
				if po := resolve(y); po != nil && params[po] {
					switch kit.ObjOf(info, sel) {
					case types.Object(emailF):
						emailParam = po
						return "em", op == token.NEQ, true
					case types.Object(passF):
						passParam = po
						return "pw", op == token.NEQ, true
					}
				}
			}
			x, y = y, x
		}
		return "", false, false
	}
	static := func(e ast.Expr) types.Object { return kit.ObjOf(info, e) }
	// readsCred: the function (or one it calls) reads the e-mail / password field
	readsCred := map[*kit.Func]bool{}
	for _, g := range c.P.Funcs("store") {
		if g.Body == nil {
			continue
		}
		ast.Inspect(g.Body, func(n ast.Node) bool {
			if sel, ok := n.(*ast.SelectorExpr); ok {
				if o := kit.ObjOf(info, sel); o == types.Object(emailF) || o == types.Object(passF) {
					readsCred[g] = true
				}
			}
			return true
		})
	}
	matchHelper := func(g *kit.Func) bool {
		if g == f || g == cr.pathFn {
			return false
		}
		for _, h := range c09Closure(g) {
			if readsCred[h] {
				return true
			}
		}
		return false
	}
	// loop1: the range loop around the comparison (or around the call of the helper that compares)
	ast.Inspect(f.Body, func(n ast.Node) bool {
		if _, ok := n.(*ast.FuncLit); ok {
			return false
		}
		e, ok := n.(ast.Expr)
		if !ok || cr.loop1 != nil {
			return true
		}
		hit := false
		// (the e-mail may be matched by the candidate query instead: the loop is
		// then the one around the password comparison)
		if _, _, ok := matchAtomR(e, static); ok {
			hit = true
		}
		if call, isCall := e.(*ast.CallExpr); isCall {
			if cf := f.CalleeFunc(call); cf != nil && cf.Pkg == f.Pkg && matchHelper(cf) {
				hit = true
			}
		}
		if hit {
			if l := f.EnclosingLoop(e); l != nil {
				cr.loop1 = l
			}
		}
		return true
	})
	oM := r5.Ob(f, nil, "match table", "a candidate is kept iff its e-mail equals the e-mail parameter ∧ its password equals the password parameter (4 valuations)")
	// a credential may be compared by the query that selects the candidates
	// instead (c09_sqlmatch.go): exact[id] is such a comparison with `=`
	emailT, passT := dataConst(c, "PointTypeEmail"), dataConst(c, "PointTypePass")
	uses := c09CredSQLUses(m, f)
	exact := map[string]*c09CredUse{}
	var noFeed []string
	if cr.loop1 != nil {
		for i := range uses {
			u := &uses[i]
			id := map[string]string{emailT: "em", passT: "pw"}[u.ptype]
			if u.kind != "eq" || id == "" {
				continue
			}
			if c09RowsFeed(f, u.site, cr.loop1) {
				exact[id] = u
			} else {
				noFeed = append(noFeed, fmt.Sprintf("%s: cannot relate the rows of that statement to the candidates of the loop at %s", u.what, f.At(cr.loop1)))
			}
		}
	}
	if cr.loop1 == nil {
		oM.Undecided("no comparison of a credential field with a parameter inside a loop over a slice")
	} else {
		isKeep := func(call *ast.CallExpr) bool {
			for _, k := range cr.keeps {
				if k == call {
					return true
				}
			}
			return false
		}
		var bad, murky []string
		for _, val := range [][2]string{{"T", "T"}, {"T", "F"}, {"F", "T"}, {"F", "F"}} {
			both := val[0] == "T" && val[1] == "T"
			if (val[0] == "F" && exact["em"] != nil) || (val[1] == "F" && exact["pw"] != nil) {
				continue // such a user is not among the candidates the query selects
			}
			fl := newC09Flow(f)
			fl.inline = func(cf *kit.Func, call *ast.CallExpr) bool { return matchHelper(cf) }
			dyn := func(e ast.Expr) types.Object { return fl.obj(e) }
			fl.atom = func(e ast.Expr, s kit.S) (string, bool, bool) { return matchAtomR(e, dyn) }
			hasMatchLeaf := func(cond ast.Expr) bool {
				found := false
				ast.Inspect(cond, func(n ast.Node) bool {
					if e, ok := n.(ast.Expr); ok {
						if _, _, ok := matchAtomR(e, dyn); ok {
							found = true
						}
					}
					return !found
				})
				return found
			}
			fl.afterCond = func(cond ast.Expr, t, fs []kit.S) ([]kit.S, []kit.S) {
				if !hasMatchLeaf(cond) {
					return t, fs
				}
				for i := range t {
					t[i] = t[i].Set("cmp", "1")
				}
				for i := range fs {
					fs[i] = fs[i].Set("cmp", "1")
				}
				return t, fs
			}
			kept, keptBlind, skipped := false, false, false
			fl.onCall = func(call *ast.CallExpr, n ast.Node, s kit.S) []kit.S {
				if isKeep(call) {
					if s.Get("cmp") == "1" {
						kept = true
					} else {
						keptBlind = true // kept on a path that evaluated no recognised comparison
					}
					return []kit.S{s.Set("kept", "1")}
				}
				return nil
			}
			fl.onBranch = func(br kit.Branch, s kit.S) (t, fs []kit.S, handled bool) {
				if br.Kind != kit.BrRange || br.Range != cr.loop1 {
					return nil, nil, false
				}
				if s.Get("cmp") == "1" && s.Get("kept") != "1" {
					skipped = true
				}
				s = s.Del("cmp").Del("kept")
				return []kit.S{s}, []kit.S{s}, true
			}
			res := fl.run(c, kit.NewS().Set("a:em", val[0]).Set("a:pw", val[1]))
			for _, e := range res.Exits {
				if e.Return != nil && len(e.Return.Results) > 0 && kit.IsNilIdent(info, e.Return.Results[len(e.Return.Results)-1]) &&
					e.State.Get("cmp") == "1" && e.State.Get("kept") != "1" {
					skipped = true
				}
			}
			c.AddValuations(1)
			name := fmt.Sprintf("e-mail %s, password %s", map[string]string{"T": "equal", "F": "different"}[val[0]], map[string]string{"T": "equal", "F": "different"}[val[1]])
			switch {
			case keptBlind:
				murky = append(murky, name+": the candidate is kept on a path that evaluated no recognised comparison")
			case both && !kept:
				murky = append(murky, name+": no interpreted path keeps the candidate")
			case both && skipped:
				bad = append(bad, name+": the candidate can be dropped after the comparison")
			case !both && kept:
				bad = append(bad, name+": the candidate is kept")
			}
		}
		// is a credential field never even read?
		readE, readP := false, false
		for _, g := range c09Closure(f) {
			if g.Body == nil {
				continue
			}
			ast.Inspect(g.Body, func(n ast.Node) bool {
				if sel, ok := n.(*ast.SelectorExpr); ok {
					switch kit.ObjOf(info, sel) {
					case types.Object(emailF):
						readE = true
					case types.Object(passF):
						readP = true
					}
				}
				return true
			})
		}
		// the parameter each credential is compared with: by the Go comparison, else
		// by the statements (the parameter bound against the point of its type), else
		// the remaining one of two string parameters
		type side struct {
			id, name, ptype string
			field           *types.Var
			goParam, param  types.Object
			bad, murky      []string
		}
		sides := [2]*side{
			{id: "em", name: "e-mail", ptype: emailT, field: emailF, goParam: emailParam},
			{id: "pw", name: "password", ptype: passT, field: passF, goParam: passParam},
		}
		for _, sd := range sides {
			sd.param = sd.goParam
			for _, u := range uses {
				if sd.param == nil && u.ptype == sd.ptype && u.kind != "interp" {
					sd.param = u.param
				}
			}
		}
		if len(params) == 2 {
			for i, sd := range sides {
				if other := sides[1-i].param; sd.param == nil && other != nil {
					for p := range params {
						if p != other {
							sd.param = p
						}
					}
				}
			}
		}
		var sqlBad []string
		for _, sd := range sides {
			for _, u := range uses {
				if u.param != sd.param || sd.param == nil {
					continue
				}
				rightType := u.ptype == sd.ptype
				switch {
				case sd.goParam != nil:
					// a pre-selection next to the Go comparison must keep every exact match
					if !(rightType && (u.kind == "eq" || (u.kind == "inexact" && u.op == "LIKE"))) {
						sd.murky = append(sd.murky, fmt.Sprintf("%s: cannot show that this pre-selection keeps every user whose %s is equal", u.what, sd.name))
					}
				case u.kind == "eq" && rightType:
				case u.kind == "eq":
					sd.bad = append(sd.bad, fmt.Sprintf("%s compares the entered %s with the text of the point of type %q", u.what, sd.name, u.ptype))
				case u.kind == "inexact":
					as := "a bound"
					switch {
					case strings.Contains(u.op, "LIKE"):
						as = "a pattern (in LIKE % and _ are wildcards and case is ignored)"
					case strings.Contains(u.op, "GLOB") || strings.Contains(u.op, "REGEXP") || strings.Contains(u.op, "MATCH"):
						as = "a pattern"
					}
					sd.bad = append(sd.bad, fmt.Sprintf("%s uses the entered %s as %s", u.what, sd.name, as))
				case u.kind == "interp":
					sd.bad = append(sd.bad, fmt.Sprintf("%s, where the entered %s can change the statement itself", u.what, sd.name))
				default:
					sd.murky = append(sd.murky, u.what)
				}
			}
			if sd.goParam == nil && exact[sd.id] == nil {
				// library predicates that test a part of the stored value; nothing else
				// in the Go code may look at the stored credential
				inexact, other := c09GoCredReads(f, sd.field, sd.ptype, uses)
				for _, x := range inexact {
					sd.bad = append(sd.bad, x+" tests a part or a pattern of the stored "+sd.name)
				}
				sd.bad = uniqStrings(sd.bad)
				switch {
				case len(sd.bad) == 0:
				case other:
					sd.murky = append(sd.murky, sd.bad...)
					sd.bad = nil
				default:
					sqlBad = append(sqlBad, fmt.Sprintf("the %s is never compared for equality with the stored one (%s): a candidate is kept — and, with a live path to the root, a token is issued — without the entered %s being equal to the user's", sd.name, strings.Join(sd.bad, "; "), sd.name))
				}
			}
		}
		covered := func(sd *side, read bool) bool { return read || exact[sd.id] != nil }
		var sideMurky []string
		for _, sd := range sides {
			sideMurky = append(sideMurky, sd.murky...)
		}
		switch {
		case len(sqlBad) > 0:
			oM.Violation("%s", strings.Join(sqlBad, "; "))
		case !covered(sides[0], readE) || !covered(sides[1], readP):
			sd, fld := sides[0], emailF
			if covered(sides[0], readE) {
				sd, fld = sides[1], passF
			}
			// the parameter may be judged somewhere the checker does not look (a query
			// in a helper, a library call): only an unused parameter is a verdict
			if sd.param != nil && !c09ParamUsed(f, sd.param) {
				oM.Violation("%s and the functions it calls never read the user's %s, and parameter %s is not used: that credential is not checked", f.Name, fld.Name(), sd.param.Name())
			} else {
				oM.Undecided("%s and the functions it calls never read the user's %s; the %s parameter is handed to code or a statement that was not judged%s", f.Name, fld.Name(), sd.name,
					map[bool]string{true: " (" + strings.Join(sd.murky, "; ") + ")", false: ""}[len(sd.murky) > 0])
			}
		case len(noFeed) > 0 && (emailParam == nil || passParam == nil):
			oM.Undecided("%s", strings.Join(noFeed, "; "))
		case (emailParam == nil && exact["em"] == nil) || (passParam == nil && exact["pw"] == nil):
			oM.Undecided("%s reads both credential fields, but a comparison with a string parameter was recognised for %s: %v, %s: %v", f.Name, emailF.Name(), emailParam != nil, passF.Name(), passParam != nil)
		case sides[0].param == sides[1].param:
			oM.Violation("e-mail and password are compared with the same parameter %s", sides[0].param.Name())
		case len(bad) > 0:
			oM.Violation("%s", strings.Join(bad, "; "))
		case len(sideMurky) > 0:
			oM.Undecided("%s", strings.Join(uniqStrings(sideMurky), "; "))
		case len(murky) > 0:
			oM.Undecided("%s", strings.Join(murky, "; "))
		default:
			how := func(sd *side) string {
				if sd.goParam != nil {
					return fmt.Sprintf("%s == %s", sd.field.Name(), sd.goParam.Name())
				}
				return exact[sd.id].what + " (candidate query)"
			}
			oM.OK("kept exactly under %s ∧ %s", how(sides[0]), how(sides[1]))
		}
	}

	// ---- live-path filter in the credential check
	{
		fl := newC09Flow(f)
		fl.roles = func(call *ast.CallExpr) []string {
			if call == cr.pathCall {
				return []string{"pathok", "patherr"}
			}
			return nil
		}
		bad, murky := "", ""
		fl.onCall = func(call *ast.CallExpr, n ast.Node, s kit.S) []kit.S {
			for _, rc := range cr.results {
				if rc != call || s.Get("a:pathok") == "T" {
					continue
				}
				if s.Get("a:pathok") == "" && s.Get("opq:pathok") == "1" {
					murky = fmt.Sprintf("the user is added to the result at %s after the search's answer went through a test or function that was not interpreted", f.At(call))
				} else if bad == "" {
					bad = fmt.Sprintf("the user is added to the result at %s although the live-path search answered %s", f.At(call), c09Fact(s, "a:pathok", "true", "false", "nothing that was tested"))
				}
			}
			return nil
		}
		res := fl.run(c, kit.NewS())
		o := r5.Ob(f, cr.pathCall, "live-path filter", "only candidates for which the live-path search answered true are returned")
		// the argument of the search is the id of the candidate being ranged over
		argOK := false
		if len(cr.pathCall.Args) == 1 {
			if sel, ok := ast.Unparen(cr.pathCall.Args[0]).(*ast.SelectorExpr); ok &&
				(kit.LoopElem(info, cr.loop2, sel.X) || kit.ElemAliases(info, cr.loop2)[kit.ObjOf(info, sel.X)]) {
				argOK = true
			}
		}
		for _, e := range res.Exits {
			if e.Return == nil || len(e.Return.Results) == 0 {
				continue
			}
			r0 := e.Return.Results[0]
			if kit.IsNilIdent(info, r0) {
				continue
			}
			switch ro := kit.ObjOf(info, r0); {
			case ro == cr.s2:
			case ro == cr.s1 && bad == "":
				bad = fmt.Sprintf("`%s` at %s returns the unfiltered candidates `%s`, not the list filtered by the live-path search", f.Str(e.Return), f.At(e.Return), f.Str(r0))
			case murky == "":
				murky = fmt.Sprintf("cannot relate the returned `%s` at %s to the filtered list", f.Str(r0), f.At(e.Return))
			}
		}
		switch {
		case bad != "":
			o.Violation("%s", bad)
		case !argOK:
			o.Undecided("cannot relate the argument of `%s` to the candidate of the current iteration", f.Str(cr.pathCall))
		case murky != "":
			o.Undecided("%s", murky)
		default:
			o.OK("result appends dominated by the true edge of the search; the filtered list is returned")
		}
	}

	c09LivePath(c, a, m, r5, cr)
}

// c09LivePath decides the shape of the recursive search under three per-edge
// scenarios: the edge carries tombstone=1 ("1"), tombstone=0 ("z"), or no
// tombstone point ("0").
func c09LivePath(c *kit.Ctx, a *c09Anchors, m *storeModel, r5 *kit.Rule, cr *c09Cred) {
	pf := cr.pathFn
	c.Analysed(pf)
	info := pf.Info()
	tomb := dataConst(c, "PointTypeTombstone")

	// outer loop: the range statement around the recursive call
	var recCall *ast.CallExpr
	for _, call := range pf.AllCalls(false) {
		if pf.CalleeFunc(call) == pf {
			if recCall != nil {
				c.Fatalf("%s recurses at two sites", pf.Name)
			}
			recCall = call
		}
	}
	// outer loop: the outermost loop over a slice (range or counting form) around the recursive call
	var outer *ast.RangeStmt
	for _, l := range pf.SliceLoops(pf.Node()) {
		if l.Body.Pos() <= recCall.Pos() && recCall.End() <= l.Body.End() {
			if outer == nil || l.Body.Pos() < outer.Body.Pos() {
				outer = l
			}
		}
	}
	if outer == nil {
		c.Fatalf("%s: the recursive call is not inside a loop over a slice", pf.Name)
	}
	edgeVar := kit.LoopElemVar(info, outer)
	if edgeVar == nil {
		c.Fatalf("%s: the loop around the recursive call names no element variable", pf.Name)
	}
	// the points of an edge may be scanned in the search itself or in a predicate
	// it calls: every range over a data.Points field of a value of the edge's type
	// in package store yields "edge point" variables
	edgeT := edgeVar.Type()
	sc := &scenario{c: c, name: "live-path", f: pf, batch: map[types.Object]bool{}, elems: map[types.Object]bool{}}
	isPointsOfEdge := func(g *kit.Func, r *ast.RangeStmt) bool {
		sel, ok := ast.Unparen(r.X).(*ast.SelectorExpr)
		if !ok || !kit.IsNamedType(info.TypeOf(r.X), dataPkg, "Points") {
			return false
		}
		t := info.TypeOf(sel.X)
		if t == nil {
			return false
		}
		if p, isPtr := t.(*types.Pointer); isPtr {
			t = p.Elem()
		}
		et := edgeT
		if p, isPtr := et.(*types.Pointer); isPtr {
			et = p.Elem()
		}
		return types.Identical(t, et)
	}
	for _, g := range c.P.Funcs("store") {
		if g.Body == nil {
			continue
		}
		for _, r := range g.SliceLoops(g.Node()) {
			if isPointsOfEdge(g, r) {
				for o := range kit.ElemAliases(info, r) {
					sc.elems[o] = true
				}
			}
		}
	}
	var inner ast.Node = outer
	isTombLeaf := func(e ast.Expr) (eq bool, ok bool) {
		x, y, op, isCmp := kit.CmpAtom(e)
		if !isCmp || (op != token.EQL && op != token.NEQ) {
			return false, false
		}
		if !sc.elemField(x, "Type") {
			x, y = y, x
		}
		if !sc.elemField(x, "Type") {
			return false, false
		}
		if v, isC := kit.ConstString(info, y); isC && v == tomb {
			return op == token.EQL, true
		}
		return false, false
	}
	hasTombLeaf := func(cond ast.Expr) bool {
		found := false
		ast.Inspect(cond, func(n ast.Node) bool {
			if e, ok := n.(ast.Expr); ok {
				if _, ok := isTombLeaf(e); ok {
					found = true
				}
			}
			return !found
		})
		return found
	}
	nTomb := 0
	tombFns := map[*kit.Func]bool{}
	for _, g := range c09Closure(pf) {
		if g.Body == nil {
			continue
		}
		ast.Inspect(g.Body, func(n ast.Node) bool {
			if e, ok := n.(ast.Expr); ok {
				if _, ok := isTombLeaf(e); ok {
					nTomb++
					tombFns[g] = true
				}
			}
			return true
		})
	}
	if nTomb == 0 {
		c.Fatalf("%s: no comparison of an edge point's type with the tombstone point type (tombstone test not found)", pf.Name)
	}
	// field scanned from column `up` of table edges
	upField := c09EdgeColumnField(c, m, "up")

	fl := newC09Flow(pf)
	// predicates on the edge are interpreted inline
	fl.inline = func(cf *kit.Func, call *ast.CallExpr) bool {
		for _, g := range c09Closure(cf) {
			if tombFns[g] {
				return true
			}
		}
		return false
	}
	isEdge := func(e ast.Expr) bool {
		e = ast.Unparen(e)
		if u, ok := e.(*ast.UnaryExpr); ok && u.Op == token.AND {
			e = u.X
		}
		if sel, ok := e.(*ast.SelectorExpr); ok {
			e = sel.X
		}
		return fl.obj(e) == edgeVar
	}
	// the edge handed to code that is not interpreted: it may test the tombstone
	fl.opaque = func(call *ast.CallExpr, s kit.S) []string {
		args := append([]ast.Expr{}, call.Args...)
		if sel, ok := ast.Unparen(call.Fun).(*ast.SelectorExpr); ok {
			args = append(args, sel.X)
		}
		for _, arg := range args {
			if isEdge(arg) {
				return []string{"edge"}
			}
		}
		return nil
	}
	sawInner := false
	// the query whose rows the outer loop ranges over
	var queryCall *ast.CallExpr
	var querySite *kit.SQLSite
	for _, s := range m.sql.Sites {
		if s.F == pf && s.HasVerb("SELECT", "edges") {
			queryCall, querySite = s.Call, s
		}
	}
	fl.roles = func(call *ast.CallExpr) []string {
		switch call {
		case recCall:
			return []string{"rec", "rerr"}
		case queryCall:
			return []string{"edges", "qerr"}
		}
		return nil
	}
	var rootField types.Object
	fl.atom = func(e ast.Expr, s kit.S) (string, bool, bool) {
		x, y, op, ok := kit.CmpAtom(e)
		if !ok || (op != token.EQL && op != token.NEQ) {
			return "", false, false
		}
		for i := 0; i < 2; i++ {
			if sel, ok := ast.Unparen(x).(*ast.SelectorExpr); ok && fl.obj(sel.X) == edgeVar {
				if v, isC := kit.ConstString(info, y); isC && v == "root" {
					rootField = kit.ObjOf(info, sel)
					return "root", op == token.NEQ, true
				}
			}
			x, y = y, x
		}
		return "", false, false
	}
	fl.fold = func(e ast.Expr, s kit.S) (bool, bool) {
		te := s.Get("te")
		if te == "" {
			return false, false
		}
		if eq, ok := isTombLeaf(e); ok {
			if te == "0" {
				return !eq, true
			}
			return eq, true
		}
		// another point type compared: the examined point is the tombstone
		if x, y, op, ok := kit.CmpAtom(e); ok && (op == token.EQL || op == token.NEQ) && te != "0" {
			if !sc.elemField(x, "Type") {
				x, y = y, x
			}
			if sc.elemField(x, "Type") {
				if _, isC := kit.ConstString(info, y); isC {
					return op == token.NEQ, true
				}
			}
		}
		switch te {
		case "1":
			return foldWithValue(sc, e, 1)
		case "z":
			return foldWithValue(sc, e, 0)
		}
		return false, false
	}
	var testBad []string
	fl.afterCond = func(cond ast.Expr, t, fs []kit.S) ([]kit.S, []kit.S) {
		if !hasTombLeaf(cond) {
			return t, fs
		}
		for _, s := range fs {
			if s.Get("te") == "1" {
				testBad = append(testBad, fmt.Sprintf("`%s` at %s can be false for a point of type tombstone with value 1: a deleted edge counts as a live path", pf.Str(cond), pf.At(cond)))
			}
		}
		for i, s := range t {
			if s.Get("te") == "z" {
				testBad = append(testBad, fmt.Sprintf("`%s` at %s can be true for a point of type tombstone with value 0: a re-added (undeleted) edge counts as deleted", pf.Str(cond), pf.At(cond)))
			}
			t[i] = s.Set("tombhit", "1")
		}
		return t, fs
	}
	fl.onBranch = func(br kit.Branch, s kit.S) (t, fs []kit.S, handled bool) {
		if br.Kind != kit.BrRange {
			return nil, nil, false
		}
		isInner := false
		if br.Range != outer && isPointsOfEdge(fl.cur(), br.Range) {
			if sel, ok := ast.Unparen(br.Range.X).(*ast.SelectorExpr); ok && fl.obj(sel.X) == edgeVar {
				isInner = true
			}
		}
		switch {
		case br.Range == outer && !fl.inlined():
			base := s.Del("te").Del("it").Del("a:root").Del("a:rec").Del("a:rerr").Del("tombhit").Del("opq:edge")
			return []kit.S{base.Set("te", "1"), base.Set("te", "z"), base.Set("te", "0")}, []kit.S{base}, true
		case isInner:
			sawInner = true
			if inner == ast.Node(outer) {
				inner = br.Range
			}
			te := s.Get("te")
			if (te == "1" || te == "z") && s.Get("it") == "" {
				return []kit.S{s.Set("it", "1")}, nil, true // the edge carries the point
			}
			if te == "0" {
				return []kit.S{s}, []kit.S{s}, true
			}
		}
		return nil, nil, false
	}
	res := fl.run(c, kit.NewS())

	errNonNil := func(e kit.Exit) bool {
		if len(e.Return.Results) == 0 {
			return false
		}
		last := e.Return.Results[len(e.Return.Results)-1]
		if r := fl.roleOf(last, e.State); r != "" && e.State.Get("a:"+r) == "T" {
			return true
		}
		return fl.st.ReturnsNil(e.Return, e.State) == "nonnil"
	}
	skipBad, truthBad := "", ""
	skipMurky := false
	var skipExit, truthExit, negExit kit.Exit
	canTrue, canStep := false, false // base case (root reached) / inductive step (deeper search answered true)
	negBad := ""
	for _, e := range res.Exits {
		if e.Return == nil || len(e.Return.Results) == 0 {
			continue
		}
		if errNonNil(e) {
			continue
		}
		if e.State.Get("te") == "1" && e.State.Get("opq:edge") == "1" {
			skipMurky = true
		} else if e.State.Get("te") == "1" && skipBad == "" {
			skipBad = fmt.Sprintf("`%s` at %s ends the search while a deleted (tombstone=1) edge is being examined: the remaining edges are never tried", pf.Str(e.Return), pf.At(e.Return))
			skipExit = e
		}
		ts, fs := fl.eval(e.Return.Results[0], e.State)
		if te := e.State.Get("te"); (te == "0" || te == "z") && len(fs) > 0 && negBad == "" {
			negBad = fmt.Sprintf("`%s` at %s can answer false while the edges are still being examined: one dead-end edge ends the search although another edge may lead to the root", pf.Str(e.Return), pf.At(e.Return))
			negExit = e
		}
		for _, s := range ts {
			if s.Get("a:root") == "T" || s.Get("a:rec") == "T" {
				if s.Get("te") != "1" {
					if s.Get("a:rec") == "T" {
						canStep = true
					} else {
						canTrue = true // true because the parent is the root, not because of a deeper answer
					}
				}
				continue
			}
			if truthBad == "" {
				truthBad = fmt.Sprintf("`%s` at %s can answer true without the edge's parent having compared equal to \"root\" and without a deeper search having answered true", pf.Str(e.Return), pf.At(e.Return))
				truthExit = e
			}
		}
	}
	testBad = uniqStrings(testBad)

	oT := r5.Ob(pf, inner, "tombstone test", "true for an edge point of type tombstone with value 1, false with value 0")
	switch {
	case len(testBad) > 0:
		oT.Violation("%s", strings.Join(testBad, "; "))
	case !sawInner:
		oT.Undecided("no loop over the points of the examined edge was interpreted (the tombstone test was not exercised)")
	default:
		oT.OK("decided under the three per-edge scenarios")
	}
	c.AddValuations(3)

	oS := r5.Ob(pf, outer, "tombstoned edge skipped", "while a deleted edge is examined no answer is returned (except an error): the search moves on to the next edge")
	switch {
	case skipBad != "" && sawInner:
		oS.Violation("%s", skipBad).WithPath(res.PathTo(skipExit))
	case skipBad != "" || skipMurky || !sawInner:
		oS.Undecided("the examined edge is tested for deletion by code that was not interpreted")
	default:
		oS.OK("every path from the tombstone test's true edge reaches the next iteration")
	}

	oN := r5.Ob(pf, outer, "existential search", "inside the loop over the parent edges a negative answer is returned only together with an error")
	if negBad != "" {
		oN.Violation("%s", negBad).WithPath(res.PathTo(negExit))
	} else {
		oN.OK("the only negative answer without error follows the loop")
	}

	oR := r5.Ob(pf, outer, "true only at root", "answers true only when a live edge's parent is the root sentinel, or a deeper search answered true")
	switch {
	case truthBad != "":
		oR.Violation("%s", truthBad).WithPath(res.PathTo(truthExit))
	case !canTrue && rootField != nil:
		oR.Violation("%s compares the edge's parent with the root sentinel but never answers true on that ground: no user can log in", pf.Name)
	case !canTrue:
		oR.Undecided("no comparison of the examined edge's parent with the root sentinel was recognised in %s", pf.Name)
	case !canStep:
		oR.Violation("%s never passes on the true answer of the deeper search: only users attached directly below the root can log in", pf.Name)
	default:
		oR.OK("true answers carry root == parent or the recursion's answer")
	}

	oD := r5.Ob(pf, recCall, "walk direction", "rows are selected by down = the searched id; the recursion and the root test use the field scanned from column up")
	var dbad, dmurky []string
	if querySite == nil {
		dmurky = append(dmurky, "no SELECT on table edges found directly inside the search")
	} else {
		for _, st := range querySite.Stmts {
			if len(st.Where) != 1 || st.Where[0] != "down" {
				dbad = append(dbad, fmt.Sprintf("the query constrains %v instead of down", st.Where))
			}
		}
		idOK := false
		for _, arg := range querySite.Args {
			for _, p := range pf.Params() {
				if kit.ObjOf(info, arg) == types.Object(p) {
					idOK = true
				}
			}
		}
		if !idOK {
			dmurky = append(dmurky, "cannot relate the bound argument of the query to the searched id parameter")
		}
	}
	recField := types.Object(nil)
	var recArg ast.Expr
	for i, p := range pf.Params() {
		if c09IsString(p.Type()) && i < len(recCall.Args) {
			recArg = recCall.Args[i]
		}
	}
	if recArg != nil {
		if sel, ok := ast.Unparen(recArg).(*ast.SelectorExpr); ok && kit.ObjOf(info, sel.X) == edgeVar {
			recField = kit.ObjOf(info, sel)
		}
	}
	switch {
	case recField == nil:
		dmurky = append(dmurky, "cannot relate the argument of the recursion to a field of the examined edge")
	case recField != types.Object(upField):
		dbad = append(dbad, fmt.Sprintf("the recursion follows `%s`, not the field scanned from column up (%s)", pf.Str(recArg), upField.Name()))
	}
	if rootField != nil && rootField != types.Object(upField) {
		dbad = append(dbad, fmt.Sprintf("the root sentinel is compared with field %s, not %s", rootField.Name(), upField.Name()))
	}
	switch {
	case len(dbad) > 0:
		oD.Violation("%s", strings.Join(dbad, "; "))
	case len(dmurky) > 0:
		oD.Undecided("%s", strings.Join(dmurky, "; "))
	default:
		oD.OK("WHERE down=? bound to the id; recursion and root test on field %s", upField.Name())
	}
}

// c09EdgeColumnField maps a column of table edges to the struct field it is
// scanned into by the wrapper that runs `SELECT * FROM edges`.
func c09EdgeColumnField(c *kit.Ctx, m *storeModel, col string) *types.Var {
	cols := m.sql.Tables["edges"]
	idx := -1
	for i, cn := range cols {
		if cn == col {
			idx = i
		}
	}
	if idx < 0 {
		c.Fatalf("column %s of table edges not found in CREATE TABLE (%v)", col, cols)
	}
	var found *types.Var
	for wf := range m.sql.Wrappers {
		usedForEdges := false
		for _, s := range m.sql.Sites {
			if s.F.CalleeFunc(s.Call) == wf && s.HasVerb("SELECT", "edges") {
				for _, st := range s.Stmts {
					if len(st.Cols) == 1 && st.Cols[0] == "*" {
						usedForEdges = true
					}
				}
			}
		}
		if !usedForEdges {
			continue
		}
		for _, call := range wf.AllCalls(false) {
			if !kit.CallIs(wf.Info(), call, "database/sql.(*Rows).Scan") || len(call.Args) != len(cols) {
				continue
			}
			if u, ok := ast.Unparen(call.Args[idx]).(*ast.UnaryExpr); ok && u.Op == token.AND {
				if v, ok := kit.ObjOf(wf.Info(), u.X).(*types.Var); ok && v.IsField() {
					if found != nil && found != v {
						c.Fatalf("column %s of table edges is scanned into two fields", col)
					}
					found = v
				}
			}
		}
	}
	if found == nil {
		c.Fatalf("no Scan of `SELECT * FROM edges` rows found: cannot map column %s to a field", col)
	}
	return found
}
