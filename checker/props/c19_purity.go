package props

import (
	"fmt"
	"go/ast"
	"go/token"
	"go/types"
	"sort"
	"strings"

	"siotcheck/kit"
)

// C19/R1 support: (a) effect summary "writes the elements of slice parameter
// i" for functions of the package; (b) recognition of fresh copies; (c) word
// permutation helpers (func([]uint16) []uint16 that exchanges the registers
// of every pair); (d) conversions composed of a plain conversion and such a
// helper.

type writeSummary struct {
	writes map[int]string // parameter index -> how (first evidence)
	opaque string         // a slice parameter escapes to something that cannot be followed
}

type effects struct {
	c    *kit.Ctx
	memo map[*kit.Func]*writeSummary
}

func newEffects(c *kit.Ctx) *effects { return &effects{c: c, memo: map[*kit.Func]*writeSummary{}} }

// aliasesOf returns, for function f, the local variables that denote (a
// sub-slice of) the slice parameter with the given index: the parameter
// itself and every local whose every definition is such an alias.
func aliasesOf(f *kit.Func, p *types.Var) map[types.Object]bool {
	info := f.Info()
	al := map[types.Object]bool{p: true}
	var isAlias func(e ast.Expr) bool
	isAlias = func(e ast.Expr) bool {
		switch x := ast.Unparen(e).(type) {
		case *ast.Ident:
			return al[kit.ObjOf(info, x)]
		case *ast.SliceExpr:
			return isAlias(x.X)
		}
		return false
	}
	for round := 0; round < 3; round++ {
		ast.Inspect(f.Body, func(n ast.Node) bool {
			switch y := n.(type) {
			case *ast.AssignStmt:
				if len(y.Lhs) == len(y.Rhs) {
					for i, l := range y.Lhs {
						if o := kit.ObjOf(info, l); o != nil && isAlias(y.Rhs[i]) {
							if _, isSlice := o.Type().Underlying().(*types.Slice); isSlice {
								al[o] = true
							}
						}
					}
				}
			case *ast.ValueSpec:
				for i, nm := range y.Names {
					if i < len(y.Values) && isAlias(y.Values[i]) {
						al[info.Defs[nm]] = true
					}
				}
			}
			return true
		})
	}
	return al
}

// aliasExpr reports whether e denotes (a sub-slice of) one of the aliases.
func aliasExpr(info *types.Info, al map[types.Object]bool, e ast.Expr) bool {
	switch x := ast.Unparen(e).(type) {
	case *ast.Ident:
		return al[kit.ObjOf(info, x)]
	case *ast.SliceExpr:
		return aliasExpr(info, al, x.X)
	}
	return false
}

// summary computes which slice parameters of f may have their elements written.
func (ef *effects) summary(f *kit.Func) *writeSummary {
	if s, ok := ef.memo[f]; ok {
		return s
	}
	s := &writeSummary{writes: map[int]string{}}
	ef.memo[f] = s // recursion guard: a recursive call contributes nothing new
	info := f.Info()
	for pi, p := range f.Params() {
		if _, isSlice := p.Type().Underlying().(*types.Slice); !isSlice {
			continue
		}
		al := aliasesOf(f, p)
		note := func(how string) {
			if _, dup := s.writes[pi]; !dup {
				s.writes[pi] = how
			}
		}
		storeTo := func(l ast.Expr, at ast.Node) {
			if ix, ok := ast.Unparen(l).(*ast.IndexExpr); ok && aliasExpr(info, al, ix.X) {
				note(fmt.Sprintf("`%s` at %s", trunc(f.Str(at), 50), f.At(at)))
			}
		}
		ast.Inspect(f.Body, func(n ast.Node) bool {
			switch y := n.(type) {
			case *ast.AssignStmt:
				for _, l := range y.Lhs {
					storeTo(l, y)
				}
			case *ast.IncDecStmt:
				storeTo(y.X, y)
			case *ast.RangeStmt:
				// `for i, x[i] = range …` is exotic; the key/value are plain identifiers in this package
			case *ast.CallExpr:
				if tv, ok := info.Types[y.Fun]; ok && tv.IsType() {
					return true
				}
				callee := kit.Callee(info, y)
				if bi, ok := callee.(*types.Builtin); ok {
					if bi.Name() == "copy" && len(y.Args) == 2 && aliasExpr(info, al, y.Args[0]) {
						note(fmt.Sprintf("`%s` at %s", trunc(f.Str(y), 50), f.At(y)))
					}
					return true
				}
				for ai, a := range y.Args {
					if !aliasExpr(info, al, a) {
						continue
					}
					if cf := f.CalleeFunc(y); cf != nil && cf.Decl != nil {
						cs := ef.summary(cf)
						idx := ai
						if n := len(cf.Params()); idx >= n {
							idx = n - 1
						}
						if how, w := cs.writes[idx]; w {
							note(fmt.Sprintf("%s, which writes its parameter (%s)", cf.Name, how))
						}
						if cs.opaque != "" && s.opaque == "" {
							s.opaque = cs.opaque
						}
						continue
					}
					// byte-order Put* helpers write their first argument
					if name, _, _, isBO := kit.ByteOrderCall(info, y); isBO {
						if strings.HasPrefix(name, "Put") && ai == 0 {
							note(fmt.Sprintf("`%s` at %s", trunc(f.Str(y), 50), f.At(y)))
						}
						continue
					}
					if s.opaque == "" {
						s.opaque = fmt.Sprintf("`%s` at %s receives the slice", trunc(f.Str(y), 50), f.At(y))
					}
				}
			}
			return true
		})
	}
	return s
}

// freshCopyOf reports whether e is a newly allocated copy of (a sub-slice
// of) an alias: append([]T(nil), p...), append([]T{}, p...), or a local
// variable defined by make whose content is copied from p.
func freshCopyOf(f *kit.Func, al map[types.Object]bool, e ast.Expr) bool {
	info := f.Info()
	e = ast.Unparen(e)
	if call, ok := e.(*ast.CallExpr); ok {
		if bi, ok := kit.Callee(info, call).(*types.Builtin); ok && bi.Name() == "append" && len(call.Args) == 2 && call.Ellipsis.IsValid() && aliasExpr(info, al, call.Args[1]) {
			first := ast.Unparen(call.Args[0])
			if cv, ok := first.(*ast.CallExpr); ok && len(cv.Args) == 1 {
				if tv, ok := info.Types[cv.Fun]; ok && tv.IsType() && kit.IsNilIdent(info, cv.Args[0]) {
					return true
				}
			}
			if cl, ok := first.(*ast.CompositeLit); ok && len(cl.Elts) == 0 {
				return true
			}
		}
		return false
	}
	if id, ok := e.(*ast.Ident); ok {
		o := kit.ObjOf(info, id)
		def := uniqueDef(f, o)
		if def == nil {
			return false
		}
		if freshCopyOf(f, al, def) {
			return true
		}
		if call, ok := ast.Unparen(def).(*ast.CallExpr); ok {
			if bi, ok := kit.Callee(info, call).(*types.Builtin); ok && bi.Name() == "make" {
				copied := false
				ast.Inspect(f.Body, func(n ast.Node) bool {
					if c2, ok := n.(*ast.CallExpr); ok && len(c2.Args) == 2 {
						if b2, ok := kit.Callee(info, c2).(*types.Builtin); ok && b2.Name() == "copy" && kit.ObjOf(info, c2.Args[0]) == o && aliasExpr(info, al, c2.Args[1]) {
							copied = true
						}
					}
					return true
				})
				return copied
			}
		}
	}
	return false
}

// wordPerm describes a helper func([]uint16) []uint16 that exchanges the two
// registers of every pair.
type wordPerm struct {
	ok      bool
	why     string
	inPlace bool // it permutes (and returns) its parameter
}

func c19ParseWordPerm(h *kit.Func) *wordPerm {
	wp := &wordPerm{}
	info := h.Info()
	ps := h.Params()
	if len(ps) != 1 {
		wp.why = "not a one-parameter function"
		return wp
	}
	al := aliasesOf(h, ps[0])
	// the single loop
	var loop *ast.ForStmt
	n := 0
	ast.Inspect(h.Body, func(x ast.Node) bool {
		switch y := x.(type) {
		case *ast.ForStmt:
			loop = y
			n++
		case *ast.RangeStmt:
			n += 2
		}
		return true
	})
	if n != 1 || loop.Init == nil || loop.Cond == nil || loop.Post == nil {
		wp.why = "expected a single three-clause for loop"
		return wp
	}
	init, ok := loop.Init.(*ast.AssignStmt)
	if !ok || len(init.Lhs) != 1 || len(init.Rhs) != 1 {
		wp.why = "loop initialiser not recognised"
		return wp
	}
	iv := kit.ObjOf(info, init.Lhs[0])
	if c0, isC := kit.ConstInt(info, init.Rhs[0]); !isC || c0 != 0 || iv == nil {
		wp.why = "the loop does not start at 0"
		return wp
	}
	post, ok := loop.Post.(*ast.AssignStmt)
	if !ok || post.Tok != token.ADD_ASSIGN || len(post.Lhs) != 1 || kit.ObjOf(info, post.Lhs[0]) != iv {
		wp.why = "the loop does not step by 2"
		return wp
	}
	if k, isC := kit.ConstInt(info, post.Rhs[0]); !isC || k != 2 {
		wp.why = "the loop does not step by 2"
		return wp
	}
	if len(loop.Body.List) != 1 {
		wp.why = "loop body is not a single swap"
		return wp
	}
	sw, ok := loop.Body.List[0].(*ast.AssignStmt)
	if !ok || sw.Tok != token.ASSIGN || len(sw.Lhs) != 2 || len(sw.Rhs) != 2 {
		wp.why = "loop body is not a parallel swap"
		return wp
	}
	// x[i], x[i+1] = x[i+1], x[i]
	var target types.Object
	off := func(e ast.Expr) (int64, bool) {
		ix, ok := ast.Unparen(e).(*ast.IndexExpr)
		if !ok {
			return 0, false
		}
		o := kit.ObjOf(info, ix.X)
		if o == nil || (target != nil && o != target) {
			return 0, false
		}
		target = o
		idx := ast.Unparen(ix.Index)
		if kit.ObjOf(info, idx) == iv {
			return 0, true
		}
		if be, ok := idx.(*ast.BinaryExpr); ok && be.Op == token.ADD {
			if kit.ObjOf(info, be.X) == iv {
				if k, isC := kit.ConstInt(info, be.Y); isC {
					return k, true
				}
			}
			if kit.ObjOf(info, be.Y) == iv {
				if k, isC := kit.ConstInt(info, be.X); isC {
					return k, true
				}
			}
		}
		return 0, false
	}
	l0, ok0 := off(sw.Lhs[0])
	l1, ok1 := off(sw.Lhs[1])
	r0, ok2 := off(sw.Rhs[0])
	r1, ok3 := off(sw.Rhs[1])
	if !(ok0 && ok1 && ok2 && ok3) || !((l0 == 0 && l1 == 1 && r0 == 1 && r1 == 0) || (l0 == 1 && l1 == 0 && r0 == 0 && r1 == 1)) {
		wp.why = "loop body is not x[i], x[i+1] = x[i+1], x[i]"
		return wp
	}
	// the loop must visit every complete pair: i+1 < len(x), i < len(x)-1
	condOK := false
	if a, b, op, ok := kit.CmpAtom(loop.Cond); ok && op == token.LSS {
		isLen := func(e ast.Expr, minus int64) bool {
			e = ast.Unparen(e)
			if minus != 0 {
				be, ok := e.(*ast.BinaryExpr)
				if !ok || be.Op != token.SUB {
					return false
				}
				if k, isC := kit.ConstInt(info, be.Y); !isC || k != minus {
					return false
				}
				e = ast.Unparen(be.X)
			}
			call, ok := e.(*ast.CallExpr)
			if !ok || len(call.Args) != 1 {
				return false
			}
			bi, ok := kit.Callee(info, call).(*types.Builtin)
			return ok && bi.Name() == "len" && kit.ObjOf(info, call.Args[0]) == target
		}
		if be, ok := ast.Unparen(a).(*ast.BinaryExpr); ok && be.Op == token.ADD && kit.ObjOf(info, be.X) == iv {
			if k, isC := kit.ConstInt(info, be.Y); isC && k == 1 && isLen(b, 0) {
				condOK = true
			}
		}
		if kit.ObjOf(info, a) == iv && isLen(b, 1) {
			condOK = true
		}
	}
	if !condOK {
		wp.why = "the loop bound is not i+1 < len(x)"
		return wp
	}
	// what is permuted and returned
	var ret ast.Expr
	nret := 0
	ast.Inspect(h.Body, func(x ast.Node) bool {
		if r, ok := x.(*ast.ReturnStmt); ok {
			nret++
			if len(r.Results) == 1 {
				ret = r.Results[0]
			}
		}
		return true
	})
	if nret != 1 || ret == nil || kit.ObjOf(info, ret) != target {
		wp.why = "the permuted slice is not what is returned"
		return wp
	}
	switch {
	case al[target]:
		wp.inPlace = true
	case freshCopyOf(h, al, ret):
	default:
		wp.why = "the permuted slice is neither the parameter nor a fresh copy of it"
		return wp
	}
	wp.ok = true
	return wp
}

// c19Composed recognises `return PLAIN(H(in))` (decoder) and
// `return H(PLAIN(in))` (encoder) and derives the model from PLAIN's.
func c19Composed(c *kit.Ctx, f *kit.Func, decoder bool, T types.Type, depth int) *convModel {
	if depth > 2 || len(f.Body.List) == 0 {
		return nil
	}
	ret, ok := f.Body.List[len(f.Body.List)-1].(*ast.ReturnStmt)
	if !ok || len(ret.Results) != 1 {
		return nil
	}
	// no loops of its own
	loops := false
	ast.Inspect(f.Body, func(n ast.Node) bool {
		switch n.(type) {
		case *ast.ForStmt, *ast.RangeStmt:
			loops = true
		}
		return true
	})
	if loops {
		return nil
	}
	info := f.Info()
	in := f.Params()[0]
	al := aliasesOf(f, in)
	outer, ok := ast.Unparen(mbResolve(f, ret.Results[0])).(*ast.CallExpr)
	if !ok || len(outer.Args) != 1 {
		return nil
	}
	// plain delegation: return PLAIN(in)
	if of := f.CalleeFunc(outer); of != nil && of.Decl != nil && of != f && types.Identical(of.Obj.Type(), f.Obj.Type()) && aliasExpr(info, al, mbResolve(f, outer.Args[0])) {
		pm := c19ParseConvDepth(c, of, decoder, T, depth+1)
		cm := *pm
		cm.F = f
		if cm.err != "" {
			cm.err = of.Name + ": " + cm.err
		}
		return &cm
	}
	inner, ok := ast.Unparen(mbResolve(f, outer.Args[0])).(*ast.CallExpr)
	if !ok || len(inner.Args) != 1 {
		return nil
	}
	of, inf := f.CalleeFunc(outer), f.CalleeFunc(inner)
	if of == nil || inf == nil || of.Decl == nil || inf.Decl == nil || of == f || inf == f {
		return nil
	}
	plain, helper := of, inf
	if !decoder {
		plain, helper = inf, of
	}
	if !types.Identical(plain.Obj.Type(), f.Obj.Type()) {
		return nil
	}
	arg := ast.Unparen(mbResolve(f, inner.Args[0]))
	if !aliasExpr(info, al, arg) && !freshCopyOf(f, al, arg) {
		return nil
	}
	cm := &convModel{F: f, Decoder: decoder, T: T}
	wp := c19ParseWordPerm(helper)
	if !wp.ok {
		cm.err = fmt.Sprintf("composed of %s and %s, but %s is not a recognised register-pair permutation: %s", plain.Name, helper.Name, helper.Name, wp.why)
		return cm
	}
	pm := c19ParseConvDepth(c, plain, decoder, T, depth+1)
	if pm.err != "" || pm.bad != "" {
		cm.err, cm.bad = pm.err, pm.bad
		if cm.err != "" {
			cm.err = plain.Name + ": " + cm.err
		}
		return cm
	}
	*cm = *pm
	cm.F = f
	cm.flipWords()
	return cm
}

// c19Purity: conversions do not write their input.
func c19Purity(c *kit.Ctx, r *kit.Rule, ef *effects, cm *convModel) {
	f := cm.F
	in := f.Params()[0]
	what := "decoder"
	if !cm.Decoder {
		what = "encoder"
	}
	o := r.Ob(f, nil, "input untouched", "the "+what+" does not modify the slice it is given, neither directly nor through a helper that writes its slice parameter")
	s := ef.summary(f)
	// fresh copies handed to writing helpers are fine: summary() only follows aliases of the parameter
	idx := -1
	for i, p := range f.Params() {
		if p == in {
			idx = i
		}
	}
	if how, w := s.writes[idx]; w {
		o.Violation("%s writes the %s slice of its caller: %s; decoding the same registers again, or re-encoding the value, no longer yields the original", f.Name, map[bool]string{true: "register", false: "value"}[cm.Decoder], how)
		return
	}
	if s.opaque != "" {
		o.Undecided("%s", s.opaque)
		return
	}
	var callees []string
	al := aliasesOf(f, in)
	for _, call := range f.AllCalls(false) {
		if cf := f.CalleeFunc(call); cf != nil && cf.Decl != nil {
			for _, a := range call.Args {
				if aliasExpr(f.Info(), al, a) {
					callees = append(callees, cf.Name)
				}
			}
		}
	}
	sort.Strings(callees)
	if len(callees) > 0 {
		o.OK("no store into %s; passed only to non-writing %s", in.Name(), strings.Join(uniqStrings(callees), ", "))
	} else {
		o.OK("no store into %s and it is handed to no module function", in.Name())
	}
}
