package props

import (
	"fmt"
	"go/ast"
	"go/token"
	"go/types"
	"sort"
	"strings"

	"siotcheck/kit"
)

// Shared model of package modbus used by C18 and C19.  Everything is found
// by type and effect: the request processor is the function that switches on
// a function-code field and calls a register-provider interface; the
// exception mapper is the method it returns through; transports are the
// implementers of the interface with an encode/decode method pair, …

const modbusPkg = kit.ModPath + "/modbus"

// Protocol constants (Modbus Application Protocol V1.1b3).
var (
	mbQuantityLimit = map[int64]int64{1: 2000, 2: 2000, 3: 125, 4: 125, 15: 1968, 16: 123}
	mbReadCodes     = map[int64]bool{1: true, 2: true, 3: true, 4: true}
	mbSingleWrite   = map[int64]bool{5: true, 6: true}
)

const (
	mbExcIllegalFunction = 1
	mbExcIllegalAddress  = 2
	mbExcIllegalValue    = 3
	mbExcDeviceFailure   = 4
)

type mbArm struct {
	Clause *ast.CaseClause
	Codes  []int64 // nil for default
}

type mbModel struct {
	c   *kit.Ctx
	pkg *types.Package

	Req       *kit.Func       // request processor
	Switch    *ast.SwitchStmt // dispatch on the function code
	Arms      []*mbArm
	Provider  *types.Var // provider parameter
	ProvIface *types.Interface
	ProvNamed *types.Named
	FcType    types.Type
	FcField   *types.Var
	DataField *types.Var
	PduType   *types.Named
	ExcType   *types.Named
	Mapper    *kit.Func
	ProvImpl  *types.Named // concrete provider (register file)
}

func mbIsByteSlice(t types.Type) bool {
	s, ok := t.Underlying().(*types.Slice)
	if !ok {
		return false
	}
	b, ok := s.Elem().Underlying().(*types.Basic)
	return ok && b.Kind() == types.Uint8
}

func newMbModel(c *kit.Ctx) *mbModel {
	pk := c.P.MustPkg("modbus")
	m := &mbModel{c: c, pkg: pk.Types}
	info := pk.TypesInfo
	// request processor
	var cands []*kit.Func
	for _, f := range c.P.Funcs("modbus") {
		if f.Decl == nil {
			continue
		}
		var prov *types.Var
		for _, p := range f.Params() {
			if n, ok := types.Unalias(p.Type()).(*types.Named); ok && n.Obj().Pkg() == pk.Types {
				if _, isIface := n.Underlying().(*types.Interface); isIface {
					prov = p
				}
			}
		}
		if prov == nil {
			continue
		}
		var sw *ast.SwitchStmt
		ast.Inspect(f.Body, func(n ast.Node) bool {
			s, ok := n.(*ast.SwitchStmt)
			if !ok || s.Tag == nil {
				return true
			}
			sel, ok := ast.Unparen(s.Tag).(*ast.SelectorExpr)
			if !ok {
				return true
			}
			t := info.TypeOf(sel)
			nt, ok := types.Unalias(t).(*types.Named)
			if !ok || nt.Obj().Pkg() != pk.Types || mbBasicInt(t) == nil {
				return true
			}
			// the arms call the provider
			calls := false
			ast.Inspect(s.Body, func(x ast.Node) bool {
				if se, ok := x.(*ast.SelectorExpr); ok && kit.ObjOf(info, se.X) == prov {
					calls = true
				}
				return true
			})
			if calls && sw == nil {
				sw = s
			}
			return true
		})
		if sw != nil {
			cands = append(cands, f)
			m.Req, m.Switch, m.Provider = f, sw, prov
		}
	}
	if len(cands) != 1 {
		c.Fatalf("modbus request processor: expected exactly one function that switches on a function-code field and calls a provider interface, found %d", len(cands))
	}
	m.ProvNamed = types.Unalias(m.Provider.Type()).(*types.Named)
	m.ProvIface = m.ProvNamed.Underlying().(*types.Interface)
	tagSel := ast.Unparen(m.Switch.Tag).(*ast.SelectorExpr)
	m.FcType = info.TypeOf(tagSel)
	if s, ok := info.Selections[tagSel]; ok {
		m.FcField, _ = s.Obj().(*types.Var)
	}
	if m.FcField == nil {
		c.Fatalf("dispatch tag %s is not a field", m.Req.Str(tagSel))
	}
	// the struct that owns the function-code field
	rt := info.TypeOf(tagSel.X)
	if p, ok := rt.Underlying().(*types.Pointer); ok {
		rt = p.Elem()
	}
	m.PduType, _ = types.Unalias(rt).(*types.Named)
	if m.PduType == nil {
		c.Fatalf("owner of the function-code field is not a named struct")
	}
	if st, ok := m.PduType.Underlying().(*types.Struct); ok {
		for i := 0; i < st.NumFields(); i++ {
			if mbIsByteSlice(st.Field(i).Type()) {
				if m.DataField != nil {
					c.Fatalf("PDU type has two byte-slice fields")
				}
				m.DataField = st.Field(i)
			}
		}
	}
	if m.DataField == nil {
		c.Fatalf("PDU type has no byte-slice field")
	}
	// arms
	for _, st := range m.Switch.Body.List {
		cc := st.(*ast.CaseClause)
		arm := &mbArm{Clause: cc}
		for _, e := range cc.List {
			v, ok := kit.ConstInt(info, e)
			if !ok {
				c.Fatalf("non-constant case label %s in the dispatch switch", m.Req.Str(e))
			}
			arm.Codes = append(arm.Codes, v)
		}
		m.Arms = append(m.Arms, arm)
	}
	// exception type: named integer type of the package that implements error
	errIface := types.Universe.Lookup("error").Type().Underlying().(*types.Interface)
	sc := pk.Types.Scope()
	for _, name := range sc.Names() {
		tn, ok := sc.Lookup(name).(*types.TypeName)
		if !ok {
			continue
		}
		nt, ok := tn.Type().(*types.Named)
		if !ok || mbBasicInt(nt) == nil {
			continue
		}
		if types.Implements(nt, errIface) {
			if m.ExcType != nil {
				c.Fatalf("two integer types implement error: %s and %s", m.ExcType.Obj().Name(), name)
			}
			m.ExcType = nt
		}
	}
	if m.ExcType == nil {
		c.Fatalf("no integer type implementing error (exception code) found")
	}
	// mapper: the module function returned through by the processor with an error argument
	count := map[*kit.Func]int{}
	ast.Inspect(m.Req.Body, func(n ast.Node) bool {
		r, ok := n.(*ast.ReturnStmt)
		if !ok || len(r.Results) != 1 {
			return true
		}
		call, ok := ast.Unparen(r.Results[0]).(*ast.CallExpr)
		if !ok || len(call.Args) != 1 {
			return true
		}
		if cf := m.Req.CalleeFunc(call); cf != nil && cf.Decl != nil {
			ps := cf.Params()
			if len(ps) == 1 && isErrorType(ps[0].Type()) {
				count[cf]++
			}
		}
		return true
	})
	for f := range count {
		if m.Mapper != nil {
			c.Fatalf("two exception mappers: %s and %s", m.Mapper.Name, f.Name)
		}
		m.Mapper = f
	}
	if m.Mapper == nil {
		c.Fatalf("exception mapper (function taking an error, returned through by %s) not found", m.Req.Name)
	}
	// concrete provider
	for _, name := range sc.Names() {
		tn, ok := sc.Lookup(name).(*types.TypeName)
		if !ok {
			continue
		}
		nt, ok := tn.Type().(*types.Named)
		if !ok {
			continue
		}
		if _, isIface := nt.Underlying().(*types.Interface); isIface {
			continue
		}
		if types.Implements(types.NewPointer(nt), m.ProvIface) || types.Implements(nt, m.ProvIface) {
			if m.ProvImpl != nil {
				c.Fatalf("two provider implementations: %s and %s", m.ProvImpl.Obj().Name(), name)
			}
			m.ProvImpl = nt
		}
	}
	if m.ProvImpl == nil {
		c.Fatalf("no implementation of %s in package modbus", m.ProvNamed.Obj().Name())
	}
	return m
}

func mbBasicInt(t types.Type) *types.Basic {
	if t == nil {
		return nil
	}
	b, ok := t.Underlying().(*types.Basic)
	if !ok || b.Info()&types.IsInteger == 0 {
		return nil
	}
	return b
}

// armOf returns the arm that lists the code (nil: default).
func (m *mbModel) armOf(code int64) *mbArm {
	for _, a := range m.Arms {
		for _, c := range a.Codes {
			if c == code {
				return a
			}
		}
	}
	return nil
}

func (m *mbModel) defaultArm() *mbArm {
	for _, a := range m.Arms {
		if a.Clause.List == nil {
			return a
		}
	}
	return nil
}

func (a *mbArm) label() string {
	if a.Codes == nil {
		return "default arm"
	}
	var s []string
	for _, c := range a.Codes {
		s = append(s, fmt.Sprint(c))
	}
	return "arm " + strings.Join(s, ",")
}

// armAt returns the arm whose clause contains the node.
func (m *mbModel) armAt(n ast.Node) *mbArm {
	for _, a := range m.Arms {
		if a.Clause.Pos() <= n.Pos() && n.End() <= a.Clause.End() {
			return a
		}
	}
	return nil
}

// excReturn classifies `return mapper(x)`: the constant exception code, or
// the error variable passed.
func (m *mbModel) excReturn(f *kit.Func, r *ast.ReturnStmt) (code int64, errVar types.Object, ok bool) {
	if r == nil || len(r.Results) != 1 {
		return 0, nil, false
	}
	call, isCall := ast.Unparen(r.Results[0]).(*ast.CallExpr)
	if !isCall || len(call.Args) != 1 || f.CalleeFunc(call) != m.Mapper {
		return 0, nil, false
	}
	arg := call.Args[0]
	if v, isC := kit.ConstInt(f.Info(), arg); isC && types.Identical(f.Info().TypeOf(arg), m.ExcType) {
		return v, nil, true
	}
	if o := kit.ObjOf(f.Info(), arg); o != nil && isErrorType(o.Type()) {
		return 0, o, true
	}
	return 0, nil, false
}

// providerCall classifies a call: method of the provider interface (through
// the parameter or a local function variable bound to its method values).
// writer = the method returns only an error.
func (m *mbModel) providerCall(f *kit.Func, call *ast.CallExpr) (names []string, writer, ok bool) {
	info := f.Info()
	classify := func(fn *types.Func) (string, bool, bool) {
		sig := fn.Type().(*types.Signature)
		if sig.Recv() == nil {
			return "", false, false
		}
		rt := sig.Recv().Type()
		if p, isPtr := rt.(*types.Pointer); isPtr {
			rt = p.Elem()
		}
		if !types.Identical(rt, m.ProvNamed) && !types.Identical(rt.Underlying(), m.ProvIface) {
			// method of the interface itself: receiver is the interface
			if _, isIface := rt.Underlying().(*types.Interface); !isIface {
				return "", false, false
			}
			found := false
			for i := 0; i < m.ProvIface.NumMethods(); i++ {
				if m.ProvIface.Method(i) == fn {
					found = true
				}
			}
			if !found {
				return "", false, false
			}
		}
		w := sig.Results().Len() == 1 && isErrorType(sig.Results().At(0).Type())
		return fn.Name(), w, true
	}
	switch o := kit.Callee(info, call).(type) {
	case *types.Func:
		if n, w, ok := classify(o); ok {
			return []string{n}, w, true
		}
	case *types.Var:
		// local function variable: every value assigned to it must be a provider method value
		var vals []ast.Expr
		ast.Inspect(f.Root().Body, func(n ast.Node) bool {
			switch y := n.(type) {
			case *ast.AssignStmt:
				for i, l := range y.Lhs {
					if kit.ObjOf(info, l) == o && i < len(y.Rhs) && len(y.Lhs) == len(y.Rhs) {
						vals = append(vals, y.Rhs[i])
					}
				}
			case *ast.ValueSpec:
				for i, nm := range y.Names {
					if info.Defs[nm] == o && i < len(y.Values) {
						vals = append(vals, y.Values[i])
					}
				}
			}
			return true
		})
		if len(vals) == 0 {
			return nil, false, false
		}
		for _, v := range vals {
			sel, isSel := ast.Unparen(v).(*ast.SelectorExpr)
			if !isSel {
				return nil, false, false
			}
			s, isM := info.Selections[sel]
			if !isM || s.Kind() != types.MethodVal {
				return nil, false, false
			}
			n, w, ok := classify(s.Obj().(*types.Func))
			if !ok {
				return nil, false, false
			}
			names = append(names, n)
			writer = writer || w
		}
		sort.Strings(names)
		return names, writer, true
	}
	return nil, false, false
}

// reqInterp prepares a scenario evaluation of the request processor.
// fc: function code; dataLen: len of the request data (-1 unknown);
// words: value returned by every 16-bit read of the request data, keyed by
// the constant low bound of the sub-slice read (0: address, 2: quantity/value);
// missing keys are environment unknowns.
func (m *mbModel) reqInterp(fc, dataLen int64, words map[int64]int64) *kit.Interp {
	ip := &kit.Interp{P: m.c.P, F: m.Req}
	m.hook(ip, nil)
	offsets := m.wordReads()
	ip.Input = func(key string, t types.Type) (kit.IVal, bool) {
		switch {
		case strings.HasPrefix(key, "call:"):
			var pos int
			fmt.Sscanf(key[5:], "%d", &pos)
			if off, ok := offsets[token.Pos(pos)]; ok {
				if v, ok := words[off]; ok {
					return kit.IVal{K: 'i', I: v}, true
				}
			}
			return kit.IVal{}, false
		case strings.HasPrefix(key, "elem:"):
			return kit.IVal{}, false
		case t != nil && types.Identical(t, m.FcType):
			return kit.IVal{K: 'i', I: fc}, true
		case t != nil && mbIsByteSlice(t):
			if dataLen >= 0 {
				return kit.IVal{K: 's', L: dataLen, C: dataLen, Env: true}, true
			}
		}
		return kit.IVal{}, false
	}
	return ip
}

// wordReads maps the position of every byte-order read of a constant
// sub-slice of the request data to the sub-slice's low bound.
func (m *mbModel) wordReads() map[token.Pos]int64 {
	out := map[token.Pos]int64{}
	info := m.Req.Info()
	for _, fn := range m.c.P.Funcs("modbus") {
		f := fn
		if f.Decl == nil || f.Body == nil {
			continue
		}
		ast.Inspect(f.Body, func(n ast.Node) bool {
			call, ok := n.(*ast.CallExpr)
			if !ok {
				return true
			}
			if _, _, _, isBO := kit.ByteOrderCall(info, call); !isBO || len(call.Args) != 1 {
				return true
			}
			se, ok := ast.Unparen(call.Args[0]).(*ast.SliceExpr)
			if !ok || !m.isReqData(f, se.X) {
				return true
			}
			lo := int64(0)
			if se.Low != nil {
				v, isC := kit.ConstInt(info, se.Low)
				if !isC {
					return true
				}
				lo = v
			}
			out[call.Pos()] = lo
			return true
		})
	}
	return out
}

// isReqData: e is <receiver>.<data field> of the request processor.
func (m *mbModel) isReqData(f *kit.Func, e ast.Expr) bool {
	sel, ok := ast.Unparen(e).(*ast.SelectorExpr)
	if !ok {
		return false
	}
	s, ok := f.Info().Selections[sel]
	if !ok || s.Obj() != m.DataField {
		return false
	}
	o := kit.ObjOf(f.Info(), sel.X)
	if o == nil {
		return false
	}
	if rt := o.Type(); rt != nil {
		if p, isPtr := rt.Underlying().(*types.Pointer); isPtr {
			rt = p.Elem()
		}
		if !types.Identical(rt, m.PduType) {
			return false
		}
	}
	// the receiver of the function
	if f.Decl != nil && f.Decl.Recv != nil {
		for _, fl := range f.Decl.Recv.List {
			for _, nm := range fl.Names {
				if f.Info().Defs[nm] == o {
					return true
				}
			}
		}
	}
	for _, p := range f.Params() {
		if p == o {
			return true
		}
	}
	return false
}

// fnOf returns the declared function of package modbus that contains pos.
func (m *mbModel) fnOf(n ast.Node) *kit.Func {
	for _, f := range m.c.P.Funcs("modbus") {
		if f.Decl != nil && f.Decl.Pos() <= n.Pos() && n.End() <= f.Decl.End() {
			return f
		}
	}
	return m.Req
}

const mbExcEvent = "exc:"
const mbMapperTag = "mapper-response"

// hook installs the call observer of a scenario evaluation: the exception
// mapper is never evaluated in line, a call of it is recorded as the event
// "exc:<code>" (constant exception code) or "exc:err" (an error value of
// the provider or of a library); every other call goes to user.
func (m *mbModel) hook(ip *kit.Interp, user func(call *ast.CallExpr, args []kit.IVal) (string, []kit.IVal)) {
	ip.NoInline = func(cf *kit.Func) bool { return cf == m.Mapper }
	ip.OnCall = func(call *ast.CallExpr, args []kit.IVal) (string, []kit.IVal) {
		f := m.fnOf(call)
		if f.CalleeFunc(call) == m.Mapper && len(args) == 1 {
			ev := mbExcEvent + "err"
			if args[0].K == 'i' && args[0].Dyn != nil && types.Identical(args[0].Dyn, m.ExcType) {
				ev = fmt.Sprintf("%s%d", mbExcEvent, args[0].I)
			} else if args[0].K == 'n' {
				ev = mbExcEvent + "nil"
			}
			return ev, []kit.IVal{{K: 'b'}, {K: 'u', Tag: mbMapperTag}, {K: 'n'}}
		}
		if user != nil {
			return user(call, args)
		}
		return "", nil
	}
}

// exitExc classifies an exit of the request processor: it returns the
// mapper's results, and the mapper was given the constant code / an error value.
func (m *mbModel) exitExc(e kit.IExit) (code int64, isErr, ok bool) {
	// the response returned is the one the mapper built (possibly handed up
	// through the module functions that serve the arm)
	if len(e.Vals) < 2 || e.Vals[1].Tag != mbMapperTag {
		return 0, false, false
	}
	for i := len(e.Trace) - 1; i >= 0; i-- {
		if strings.HasPrefix(e.Trace[i], mbExcEvent) {
			switch rest := e.Trace[i][len(mbExcEvent):]; rest {
			case "err":
				return 0, true, true
			case "nil":
				return 0, false, false
			default:
				var v int64
				fmt.Sscanf(rest, "%d", &v)
				return v, false, true
			}
		}
	}
	return 0, false, false
}

// provEvents returns the path events other than exception mapper calls.
func provEvents(trace []string) []string {
	var out []string
	for _, t := range trace {
		if !strings.HasPrefix(t, mbExcEvent) {
			out = append(out, t)
		}
	}
	return out
}
