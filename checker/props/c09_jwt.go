package props

import (
	"go/ast"
	"go/token"
	"go/types"
	"reflect"
	"sort"
	"strings"

	"siotcheck/kit"
)

// R3 — token validation and issuance primitives of package api.

// c09JSONName returns the JSON name of a struct field (tag or field name).
func c09JSONName(st *types.Struct, i int) string {
	if v, ok := reflect.StructTag(st.Tag(i)).Lookup("json"); ok {
		if n := strings.Split(v, ",")[0]; n != "" {
			return n
		}
	}
	return st.Field(i).Name()
}

// c09LocalDef resolves an identifier to the single expression assigned to it
// in f (x := expr / var x = expr), or returns e itself.
func c09LocalDef(f *kit.Func, e ast.Expr) ast.Expr {
	id, ok := ast.Unparen(e).(*ast.Ident)
	if !ok {
		return e
	}
	o := kit.ObjOf(f.Info(), id)
	if o == nil {
		return e
	}
	var def ast.Expr
	n := 0
	ast.Inspect(f.Body, func(x ast.Node) bool {
		switch s := x.(type) {
		case *ast.AssignStmt:
			for i, l := range s.Lhs {
				if kit.ObjOf(f.Info(), l) == o {
					n++
					if len(s.Lhs) == len(s.Rhs) {
						def = s.Rhs[i]
					} else if i == 0 && len(s.Lhs) == 2 && len(s.Rhs) == 1 {
						// v, ok := x.(T) / m[k] / <-ch
						switch ast.Unparen(s.Rhs[0]).(type) {
						case *ast.TypeAssertExpr, *ast.IndexExpr:
							def = s.Rhs[0]
						}
					}
				}
			}
		case *ast.ValueSpec:
			for i, nm := range s.Names {
				if f.Info().Defs[nm] == o {
					if len(s.Values) == len(s.Names) {
						n++
						def = s.Values[i]
					}
				}
			}
		}
		return true
	})
	if n == 1 && def != nil {
		return def
	}
	return e
}

// c09AlgAtom recognises `<tok>.Method.Alg() == "HS256"` and `<tok>.Method ==
// jwt.SigningMethodHS256` (either operand order, == or !=).
func c09AlgAtom(info *types.Info, e ast.Expr, isTok func(ast.Expr) bool, def func(ast.Expr) ast.Expr, seen map[ast.Node]bool) (neg, ok bool) {
	x, y, op, isCmp := kit.CmpAtom(e)
	if !isCmp || (op != token.EQL && op != token.NEQ) {
		return false, false
	}
	if def == nil {
		def = func(z ast.Expr) ast.Expr { return z }
	}
	method := func(z ast.Expr) bool { // <tok>.Method
		ts, ok := ast.Unparen(def(z)).(*ast.SelectorExpr)
		if !ok || !isTok(ts.X) {
			return false
		}
		v, ok := kit.ObjOf(info, ts).(*types.Var)
		if ok && v.IsField() && v.Pkg() != nil && strings.HasPrefix(v.Pkg().Path(), c09JWTPfx) && v.Name() == "Method" {
			if seen != nil {
				seen[ts] = true
			}
			return true
		}
		return false
	}
	// the algorithm of the parsed token: <tok>.Method.Alg(), <tok>.Header["alg"] (.(string)),
	// or a single-definition local holding one of them
	isAlg := func(z ast.Expr) bool {
		z = ast.Unparen(def(z))
		if ta, ok := z.(*ast.TypeAssertExpr); ok {
			z = ast.Unparen(ta.X)
		}
		switch w := z.(type) {
		case *ast.CallExpr:
			if !c09IsJWT(kit.Callee(info, w), "Alg") {
				return false
			}
			ms, ok := ast.Unparen(w.Fun).(*ast.SelectorExpr)
			if ok && method(ms.X) {
				if seen != nil {
					seen[w] = true
				}
				return true
			}
		case *ast.IndexExpr:
			hs, ok := ast.Unparen(w.X).(*ast.SelectorExpr)
			if !ok || !isTok(hs.X) {
				return false
			}
			if k, ok := kit.ConstString(info, w.Index); ok && k == "alg" {
				if seen != nil {
					seen[w] = true
				}
				return true
			}
		}
		return false
	}
	for i := 0; i < 2; i++ {
		if isAlg(x) {
			if v, ok := kit.ConstString(info, y); ok && v == "HS256" {
				return op == token.NEQ, true
			}
		}
		if method(x) {
			if v, ok := kit.ObjOf(info, def(y)).(*types.Var); ok && v.Pkg() != nil && strings.HasPrefix(v.Pkg().Path(), c09JWTPfx) && v.Name() == "SigningMethodHS256" {
				return op == token.NEQ, true
			}
		}
		x, y = y, x
	}
	return false, false
}

// c09AlgUses lists the places of f's call closure that look at the algorithm of
// a token: calls of SigningMethod.Alg and reads of Header["alg"].
func c09AlgUses(f *kit.Func) []ast.Node {
	var out []ast.Node
	info := f.Info()
	for _, g := range c09Closure(f) {
		if g.Body == nil {
			continue
		}
		ast.Inspect(g.Body, func(n ast.Node) bool {
			switch w := n.(type) {
			case *ast.CallExpr:
				if c09IsJWT(kit.Callee(info, w), "Alg") {
					out = append(out, w)
				}
			case *ast.IndexExpr:
				if k, ok := kit.ConstString(info, w.Index); ok && k == "alg" {
					out = append(out, w)
				}
			}
			return true
		})
	}
	return out
}

// c09IsLiteralValue reports whether e is a constant or a literal / conversion of
// one ([]byte("secret"), "x", 42).
func c09IsLiteralValue(info *types.Info, e ast.Expr) bool {
	e = ast.Unparen(e)
	if tv, ok := info.Types[e]; ok && tv.Value != nil {
		return true
	}
	switch x := e.(type) {
	case *ast.BasicLit, *ast.CompositeLit:
		return true
	case *ast.CallExpr:
		if tv, ok := info.Types[x.Fun]; ok && tv.IsType() && len(x.Args) == 1 {
			return c09IsLiteralValue(info, x.Args[0])
		}
	}
	return false
}

// c09Closure returns f and the same-package functions reachable from it through
// statically resolved calls (helpers, closures, methods).
func c09Closure(f *kit.Func) []*kit.Func {
	out := []*kit.Func{f}
	seen := map[*kit.Func]bool{f: true}
	for i := 0; i < len(out); i++ {
		g := out[i]
		if g.Body == nil {
			continue
		}
		for _, call := range g.AllCalls(true) {
			if cf := g.CalleeFunc(call); cf != nil && cf.Pkg == f.Pkg && !seen[cf] {
				seen[cf] = true
				out = append(out, cf)
			}
		}
	}
	return out
}

func c09JWT(c *kit.Ctx, a *c09Anchors) {
	r3 := c.Rule("R3", "JWT validation conjuncts, key agreement, issuance parameters", 7)

	var verifyKey, signKey *types.Var
	var readKeys []string

	// ---- (a) validator truth, (b) key function, claim key read
	for _, f := range a.parseFns {
		c.Analysed(f)
		info := f.Info()
		var parse *ast.CallExpr
		for _, call := range f.AllCalls(false) {
			if c09IsJWT(kit.Callee(info, call), "Parse", "ParseWithClaims") {
				if parse != nil {
					c.Fatalf("%s parses more than one token", f.Name)
				}
				parse = call
			}
		}
		algInKey := false              // the key function only hands out the key for HS256
		algSeen := map[ast.Node]bool{} // uses of the token's algorithm that a recognised test covered
		fl := newC09Flow(f)
		fl.inline = func(cf *kit.Func, call *ast.CallExpr) bool {
			for _, p := range a.parseFns {
				if p == cf {
					return false
				}
			}
			return true
		}
		fl.roles = func(call *ast.CallExpr) []string {
			if call == parse {
				return []string{"jtok", "perr"}
			}
			return nil
		}
		isTok := func(e ast.Expr, s kit.S) bool { return fl.roleOf(e, s) == "jtok" }
		fl.atom = func(e ast.Expr, s kit.S) (string, bool, bool) {
			// token.Valid
			if sel, ok := ast.Unparen(e).(*ast.SelectorExpr); ok && isTok(sel.X, s) {
				if v, ok := kit.ObjOf(info, sel).(*types.Var); ok && v.IsField() && c09IsBool(v.Type()) &&
					v.Pkg() != nil && strings.HasPrefix(v.Pkg().Path(), c09JWTPfx) {
					return "tv", false, true
				}
			}
			if neg, ok := c09AlgAtom(info, e, func(z ast.Expr) bool { return isTok(z, s) }, func(z ast.Expr) ast.Expr { return c09LocalDef(fl.cur(), z) }, algSeen); ok {
				return "alg", neg, true
			}
			// the algorithm compared with another constant: a test, but not the required one
			if x, y, op, ok := kit.CmpAtom(e); ok && (op == token.EQL || op == token.NEQ) {
				for i := 0; i < 2; i++ {
					if call, isCall := ast.Unparen(c09LocalDef(fl.cur(), x)).(*ast.CallExpr); isCall && c09IsJWT(kit.Callee(info, call), "Alg") {
						if v, isC := kit.ConstString(info, y); isC && v != "HS256" {
							algSeen[call] = true
							return "algother:" + v, op == token.NEQ, true
						}
					}
					x, y = y, x
				}
			}
			return "", false, false
		}
		// the token is nil when Parse fails on a malformed string: it may only be
		// dereferenced (outside short-circuit conditions) once the error is known nil
		derefBad := ""
		derefMurky := false
		fl.onNode = func(n ast.Node, s kit.S) kit.S {
			switch n.(type) {
			case *ast.ReturnStmt:
				return s
			}
			if s.Get("a:perr") == "F" {
				return s
			}
			ast.Inspect(n, func(x ast.Node) bool {
				if _, ok := x.(*ast.FuncLit); ok {
					return false
				}
				if sel, ok := x.(*ast.SelectorExpr); ok && isTok(sel.X, s) && derefBad == "" {
					if s.Get("a:perr") == "" && s.Get("opq:perr") == "1" {
						derefMurky = true
						return true
					}
					derefBad = "`" + f.Str(sel) + "` at " + f.At(sel) + " dereferences the parsed token although jwt.Parse may have failed (nil token for a malformed string: panic instead of a refusal)"
				}
				return true
			})
			return s
		}
		// (b) key function
		ok2 := r3.Ob(f, parse, "verification key", "the key function handed to jwt.Parse returns, with a nil error, only the key field that the issuer signs with")
		var kf *kit.Func
		if len(parse.Args) > 0 {
			karg := ast.Unparen(parse.Args[len(parse.Args)-1])
			if lit, ok := karg.(*ast.FuncLit); ok {
				kf = c.P.LitFunc("api", lit)
			} else if fn, ok := kit.ObjOf(info, karg).(*types.Func); ok {
				kf = c.P.FuncOf(fn)
			} else if v, ok := kit.ObjOf(info, karg).(*types.Var); ok {
				kf = f.LocalClosure(v)
			}
		}
		if kf == nil || kf.Body == nil {
			ok2.Undecided("key function of %s not resolvable", f.Str(parse))
		} else {
			c.Analysed(kf)
			kfl := newC09Flow(kf)
			kinit := kit.NewS()
			for _, p := range kf.Params() {
				if pt, ok := p.Type().(*types.Pointer); ok {
					if n, ok := types.Unalias(pt.Elem()).(*types.Named); ok && n.Obj().Pkg() != nil && strings.HasPrefix(n.Obj().Pkg().Path(), c09JWTPfx) && n.Obj().Name() == "Token" {
						kinit = kinit.Set("ro:"+kit.VarID(p), "jtok")
					}
				}
			}
			kfl.atom = func(e ast.Expr, s kit.S) (string, bool, bool) {
				if neg, ok := c09AlgAtom(kf.Info(), e, func(z ast.Expr) bool { return kfl.roleOf(z, s) == "jtok" }, func(z ast.Expr) ast.Expr { return c09LocalDef(kfl.cur(), z) }, algSeen); ok {
					return "alg", neg, true
				}
				return "", false, false
			}
			kst := kfl.st
			kres := kfl.run(c, kinit)
			nret := 0
			badk, murkyk := "", ""
			algInKey = true
			for _, e := range kres.Exits {
				if e.Return == nil || len(e.Return.Results) != 2 {
					continue
				}
				if kst.ReturnsNil(e.Return, e.State) == "nonnil" || kit.IsNilIdent(kf.Info(), e.Return.Results[0]) {
					continue // no key handed out: the library refuses the token
				}
				nret++
				if e.State.Get("a:alg") != "T" {
					algInKey = false
				}
				sel, ok := ast.Unparen(e.Return.Results[0]).(*ast.SelectorExpr)
				var fld *types.Var
				if ok {
					fld, _ = kit.ObjOf(kf.Info(), sel).(*types.Var)
				}
				if fld == nil || !fld.IsField() {
					if c09IsLiteralValue(kf.Info(), e.Return.Results[0]) {
						badk = "returns the hard-coded value `" + kf.Str(e.Return.Results[0]) + "` instead of the instance key"
					} else {
						murkyk = "returns `" + kf.Str(e.Return.Results[0]) + "`, which is not a key field"
					}
					continue
				}
				if verifyKey != nil && verifyKey != fld {
					badk = "returns different key fields"
				}
				verifyKey = fld
			}
			switch {
			case badk != "":
				ok2.Violation("key function %s %s", kf.Name, badk)
			case murkyk != "":
				ok2.Undecided("key function %s %s", kf.Name, murkyk)
			case nret == 0:
				ok2.Undecided("key function %s was not found to return a key", kf.Name)
			}
			if nret == 0 {
				algInKey = false
			}
		}
		res := fl.run(c, kit.NewS())
		o := r3.Ob(f, parse, "validator truth", "answers true only for a verified token (jwt.Parse error nil / token.Valid) with Method.Alg() == \"HS256\"; the token is not dereferenced before the error test")
		canTrue := false
		algOdd := false
		algUses := c09AlgUses(f)
		if kf != nil {
			algUses = append(algUses, c09AlgUses(kf)...)
		}
		truthMurky := false
		bad := ""
		var badExit kit.Exit
		for _, e := range res.Exits {
			if e.Return == nil {
				continue
			}
			if len(e.Return.Results) == 0 {
				o.Undecided("bare return in %s", f.Name)
				continue
			}
			r0 := e.Return.Results[0]
			if len(e.Return.Results) == 1 {
				if _, isCall := ast.Unparen(r0).(*ast.CallExpr); isCall {
					o.Undecided("return of a call result at %s", f.At(e.Return))
					continue
				}
			}
			ts, _ := fl.eval(r0, e.State)
			for _, s := range ts {
				canTrue = true
				var miss []string
				// golang-jwt: err == nil ⇔ token.Valid; either conjunct establishes a verified token
				if s.Get("a:perr") != "F" && s.Get("a:tv") != "T" {
					miss = append(miss, "a verified token (parse error known nil, or token.Valid)")
				}
				if s.Get("a:alg") != "T" && !algInKey {
					miss = append(miss, "alg == HS256 (neither here nor in the key function)")
					if s.Get("a:alg") == "" {
						other := false
						for _, k := range s.Keys() {
							if strings.HasPrefix(k, "a:algother:") && s.Get(k) == "T" {
								other = true
							}
						}
						if !other {
							for _, u := range algUses {
								if !algSeen[u] {
									algOdd = true // the algorithm is examined by an expression that was not understood
								}
							}
						}
					}
				}
				if len(miss) > 0 && s.Get("a:perr") != "T" && (s.Get("opq:jtok") == "1" || s.Get("opq:perr") == "1") {
					truthMurky = true // the token / error went through code that was not interpreted
					continue
				}
				if len(miss) > 0 && bad == "" {
					bad = "`" + f.Str(e.Return) + "` at " + f.At(e.Return) + " can answer true without: " + strings.Join(miss, ", ")
					badExit = e
				}
			}
		}
		switch {
		case derefBad != "":
			o.Violation("%s", derefBad)
		case bad != "" && algOdd:
			o.Undecided("%s — but the token's algorithm is examined by an expression that was not understood", bad)
		case bad != "":
			o.Violation("%s", bad).WithPath(res.PathTo(badExit))
		case truthMurky || derefMurky:
			o.Undecided("the parsed token or its error is handed to a function that was not interpreted before the verdict")
		case !canTrue:
			o.Undecided("no exit of %s was found to answer true", f.Name)
		default:
			o.OK("every true answer carries: verified token ∧ alg == HS256")
		}

		// claim key read for the user id
		for _, g := range c09Closure(f) {
			if g.Body == nil {
				continue
			}
			ast.Inspect(g.Body, func(n ast.Node) bool {
				ix, ok := n.(*ast.IndexExpr)
				if !ok {
					return true
				}
				t := info.TypeOf(ix.X)
				if nt, ok := types.Unalias(t).(*types.Named); ok && nt.Obj().Pkg() != nil && strings.HasPrefix(nt.Obj().Pkg().Path(), c09JWTPfx) {
					if k, ok := kit.ConstString(info, ix.Index); ok {
						readKeys = append(readKeys, k)
					}
				}
				return true
			})
		}
		// keep the obligation open until the signing key is known
		defer func(o *kit.Ob, f *kit.Func) {
			if o.Status != "open" {
				return
			}
			switch {
			case signKey == nil:
				o.Undecided("signing key field not found in the issuer")
			case verifyKey != signKey:
				o.Violation("tokens are verified with field %s but signed with field %s", verifyKey.Name(), signKey.Name())
			default:
				o.OK("verified and signed with field %s", signKey.Name())
			}
		}(ok2, f)
	}

	// ---- (c) Bearer scheme in the request validators
	for f := range a.validFns {
		isParse := false
		for _, p := range a.parseFns {
			if p == f {
				isParse = true
			}
		}
		if isParse {
			continue
		}
		c.Analysed(f)
		info := f.Info()
		_, reqP := a.handlerParams(f)
		readsHeader := false
		_ = reqP
		for _, g := range c09Closure(f) {
			if g.Body == nil {
				continue
			}
			for _, call := range g.AllCalls(true) {
				if kit.CallIs(info, call, c09HTTP+".(Header).Get") && len(call.Args) == 1 {
					if k, ok := kit.ConstString(info, call.Args[0]); ok && strings.EqualFold(k, "Authorization") {
						readsHeader = true
					}
				}
			}
		}
		fl := newC09Flow(f)
		fl.inline = func(cf *kit.Func, call *ast.CallExpr) bool {
			for _, p := range a.parseFns {
				if p == cf {
					return false
				}
			}
			return true
		}
		fl.roles = func(call *ast.CallExpr) []string {
			cf := f.CalleeFunc(call)
			for _, p := range a.parseFns {
				if cf == p {
					return []string{"vt"}
				}
			}
			return nil
		}
		oddBearer := false
		fl.atom = func(e ast.Expr, s kit.S) (string, bool, bool) {
			if x, y, op, ok := kit.CmpAtom(e); ok && (op == token.EQL || op == token.NEQ) {
				for _, z := range []ast.Expr{x, y} {
					if v, ok := kit.ConstString(info, z); ok && v == "Bearer" {
						return "bearer", op == token.NEQ, true
					}
				}
			}
			// any other test that names the scheme: not understood
			ast.Inspect(e, func(n ast.Node) bool {
				if x, ok := n.(ast.Expr); ok {
					if v, ok := kit.ConstString(info, x); ok && strings.EqualFold(strings.TrimSpace(v), "Bearer") {
						if call, isCall := ast.Unparen(e).(*ast.CallExpr); !isCall || !kit.CallIs(info, call, "strings.EqualFold", "strings.HasPrefix") {
							oddBearer = true
						}
					}
				}
				return true
			})
			// strings.EqualFold(x, "Bearer") / strings.HasPrefix(h, "Bearer ")
			if call, ok := ast.Unparen(e).(*ast.CallExpr); ok && len(call.Args) == 2 && kit.CallIs(info, call, "strings.EqualFold", "strings.HasPrefix") {
				for _, z := range call.Args {
					if v, ok := kit.ConstString(info, z); ok && strings.EqualFold(strings.TrimSpace(v), "Bearer") {
						return "bearer", false, true
					}
				}
			}
			return "", false, false
		}
		res := fl.run(c, kit.NewS())
		o := r3.Ob(f, nil, "bearer scheme", "answers true only for an Authorization header of scheme Bearer whose token the JWT validator accepted")
		canTrue := false
		bad := ""
		for _, e := range res.Exits {
			if e.Return == nil || len(e.Return.Results) == 0 {
				continue
			}
			r0 := e.Return.Results[0]
			if len(e.Return.Results) == 1 {
				if call, isCall := ast.Unparen(r0).(*ast.CallExpr); isCall {
					// return k.ValidToken(x): true iff the validator says so
					if fl.roles(call) != nil {
						canTrue = true
						if e.State.Get("a:bearer") != "T" && bad == "" {
							bad = "`" + f.Str(e.Return) + "` at " + f.At(e.Return) + " is reachable without the scheme having compared equal to \"Bearer\""
						}
						continue
					}
					o.Undecided("return of a call result at %s", f.At(e.Return))
					continue
				}
			}
			ts, _ := fl.eval(r0, e.State)
			for _, s := range ts {
				canTrue = true
				var miss []string
				if s.Get("a:bearer") != "T" {
					miss = append(miss, "scheme == \"Bearer\"")
				}
				if s.Get("a:vt") != "T" {
					miss = append(miss, "the JWT validator's answer")
				}
				if len(miss) > 0 && s.Get("opq:vt") == "1" {
					o.Undecided("the JWT validator's answer is handed to a function that was not interpreted")
					continue
				}
				if len(miss) > 0 && bad == "" {
					bad = "`" + f.Str(e.Return) + "` at " + f.At(e.Return) + " can answer true without: " + strings.Join(miss, ", ")
				}
			}
		}
		switch {
		case !readsHeader:
			o.Undecided("%s and the functions it calls were not found to read the Authorization header", f.Name)
		case bad != "" && oddBearer:
			o.Undecided("%s — but the scheme is tested by an expression that was not understood", bad)
		case bad != "":
			o.Violation("%s", bad)
		case !canTrue:
			o.Undecided("no exit of %s was found to answer true", f.Name)
		default:
			o.OK("true only under scheme == \"Bearer\" ∧ validator result")
		}
	}

	// ---- (d) issuer: HS256, expiry, signing key; (e) user id claim
	for _, f := range a.issuerFns {
		c.Analysed(f)
		info := f.Info()
		var mk *ast.CallExpr
		for _, call := range f.AllCalls(false) {
			if c09IsJWT(kit.Callee(info, call), "NewWithClaims", "New") {
				mk = call
			}
		}
		oAlg := r3.Ob(f, mk, "signing method", "tokens are signed with HS256, the only algorithm the validator accepts")
		if len(mk.Args) == 0 {
			oAlg.Undecided("no signing method argument")
		} else if v, ok := kit.ObjOf(info, mk.Args[0]).(*types.Var); ok && v.Pkg() != nil && strings.HasPrefix(v.Pkg().Path(), c09JWTPfx) && v.Name() == "SigningMethodHS256" {
			oAlg.OK("jwt.SigningMethodHS256")
		} else if v, ok := kit.ObjOf(info, c09LocalDef(f, mk.Args[0])).(*types.Var); ok && v.Pkg() != nil && strings.HasPrefix(v.Pkg().Path(), c09JWTPfx) {
			if v.Name() == "SigningMethodHS256" {
				oAlg.OK("jwt.SigningMethodHS256")
			} else {
				oAlg.Violation("tokens are signed with `%s`; the validator only accepts HS256, so issued tokens would be refused (or another algorithm accepted)", f.Str(mk.Args[0]))
			}
		} else {
			oAlg.Undecided("cannot relate the signing method `%s` to a method of the JWT library", f.Str(mk.Args[0]))
		}
		// signing key
		for _, call := range f.AllCalls(false) {
			if c09IsJWT(kit.Callee(info, call), "SignedString") && len(call.Args) == 1 {
				if fld, ok := kit.ObjOf(info, call.Args[0]).(*types.Var); ok && fld.IsField() {
					signKey = fld
				}
			}
		}
		// claims literal
		oExp := r3.Ob(f, mk, "expiry", "issued tokens carry an expiry in the future (time.Now().Add(d), constant d > 0)")
		oUID := r3.Ob(f, mk, "user id claim", "the claim the validator reads the user id from is filled from the issuer's user id parameter")
		if len(mk.Args) < 2 {
			oExp.Undecided("token is created by `%s` without a claims argument", f.Str(mk))
			oUID.Undecided("token is created by `%s` without a claims argument", f.Str(mk))
			continue
		}
		lit, _ := ast.Unparen(c09LocalDef(f, mk.Args[1])).(*ast.CompositeLit)
		if u, ok := ast.Unparen(c09LocalDef(f, mk.Args[1])).(*ast.UnaryExpr); ok && u.Op == token.AND {
			lit, _ = ast.Unparen(u.X).(*ast.CompositeLit)
		}
		if lit == nil {
			oExp.Undecided("claims `%s` are not a composite literal", f.Str(mk.Args[1]))
			oUID.Undecided("claims `%s` are not a composite literal", f.Str(mk.Args[1]))
			continue
		}
		// claims filled after the literal (`claims.ExpiresAt = …`, `claims["exp"] = …`)
		laterSet := false
		if cv := kit.ObjOf(info, mk.Args[1]); cv != nil {
			ast.Inspect(f.Body, func(n ast.Node) bool {
				as, ok := n.(*ast.AssignStmt)
				if !ok {
					return true
				}
				for _, l := range as.Lhs {
					switch x := ast.Unparen(l).(type) {
					case *ast.SelectorExpr:
						if kit.ObjOf(info, x.X) == cv {
							laterSet = true
						}
					case *ast.IndexExpr:
						if kit.ObjOf(info, x.X) == cv {
							laterSet = true
						}
					}
				}
				return true
			})
		}
		claim := map[string]ast.Expr{} // JSON claim name -> value
		if st, ok := info.TypeOf(lit).Underlying().(*types.Struct); ok {
			for _, el := range lit.Elts {
				kv, ok := el.(*ast.KeyValueExpr)
				if !ok {
					continue
				}
				fld, _ := kit.ObjOf(info, kv.Key).(*types.Var)
				for i := 0; i < st.NumFields(); i++ {
					if st.Field(i) == fld {
						claim[c09JSONName(st, i)] = kv.Value
					}
				}
			}
		} else {
			for _, el := range lit.Elts {
				if kv, ok := el.(*ast.KeyValueExpr); ok {
					if k, ok := kit.ConstString(info, kv.Key); ok {
						claim[k] = kv.Value
					}
				}
			}
		}
		// expiry
		if ev, ok := claim["exp"]; !ok && laterSet {
			oExp.Undecided("the claims literal of %s sets no `exp`, but the claims are modified after the literal", f.Name)
		} else if !ok {
			oExp.Violation("the claims of %s set no `exp`: issued tokens never expire", f.Name)
		} else {
			// the value, with local variables replaced by their definitions
			exprs := []ast.Expr{ev}
			ast.Inspect(ev, func(n ast.Node) bool {
				if id, ok := n.(*ast.Ident); ok {
					if d := c09LocalDef(f, id); d != ast.Expr(id) {
						exprs = append(exprs, d)
					}
				}
				return true
			})
			verdict := ""
			for _, x := range exprs {
				ast.Inspect(x, func(n ast.Node) bool {
					switch y := n.(type) {
					case *ast.CallExpr:
						if !kit.CallIs(info, y, "time.(Time).Add") || len(y.Args) != 1 {
							return true
						}
						sel, _ := ast.Unparen(y.Fun).(*ast.SelectorExpr)
						if sel == nil {
							return true
						}
						if now, ok := ast.Unparen(c09LocalDef(f, sel.X)).(*ast.CallExpr); ok && kit.CallIs(info, now, "time.Now") {
							if d, ok := kit.ConstInt(info, y.Args[0]); ok {
								if d > 0 {
									verdict = "future"
								} else if verdict == "" {
									verdict = "past"
								}
							}
						}
					case *ast.BinaryExpr:
						// time.Now().Unix() + k
						if y.Op != token.ADD && y.Op != token.SUB {
							return true
						}
						hasNow := false
						ast.Inspect(y.X, func(z ast.Node) bool {
							if cz, ok := z.(*ast.CallExpr); ok && kit.CallIs(info, cz, "time.Now") {
								hasNow = true
							}
							return true
						})
						if k, ok := kit.ConstInt(info, y.Y); ok && hasNow {
							if (k > 0) == (y.Op == token.ADD) && k != 0 {
								verdict = "future"
							} else if verdict == "" {
								verdict = "past"
							}
						}
					}
					return true
				})
			}
			if _, isConst := kit.ConstInt(info, ev); isConst {
				verdict = "const"
			}
			switch verdict {
			case "future":
				oExp.OK("exp = %s", f.Str(ev))
			case "past":
				oExp.Violation("`exp` is set to `%s`, which does not lie after time.Now(): tokens are born expired and valid users are refused", f.Str(ev))
			case "const":
				oExp.Violation("`exp` is the constant `%s`: tokens never expire or are born expired", f.Str(ev))
			default:
				oExp.Undecided("cannot relate `exp` = `%s` to time.Now()", f.Str(ev))
			}
		}
		// user id claim
		rk := uniqStrings(readKeys)
		switch {
		case len(rk) != 1:
			oUID.Undecided("the validator reads %d claim keys %v; expected exactly one", len(rk), rk)
		default:
			v, ok := claim[rk[0]]
			isParam := false
			if ok {
				ast.Inspect(v, func(n ast.Node) bool {
					if id, isId := n.(*ast.Ident); isId {
						for _, p := range f.Params() {
							if info.Uses[id] == types.Object(p) && c09IsString(p.Type()) {
								isParam = true
							}
						}
					}
					return true
				})
			}
			switch {
			case !ok && laterSet:
				oUID.Undecided("the claims literal of %s does not set %q, but the claims are modified after the literal", f.Name, rk[0])
			case !ok:
				oUID.Violation("the validator reads the user id from claim %q, which %s does not set", rk[0], f.Name)
			case !isParam:
				oUID.Violation("claim %q is set to `%s`, which does not depend on the user id parameter", rk[0], f.Str(v))
			default:
				oUID.OK("claim %q = parameter %s", rk[0], f.Str(v))
			}
		}
	}

	// ---- (f) no constant-true validator is instantiated
	api := c.P.MustPkg("api")
	for _, f := range c.P.Funcs("api") {
		if f.Obj == nil || f.Decl == nil || f.Decl.Recv == nil || a.validFns[f] {
			continue
		}
		isValidator := false
		for _, m := range c09IfaceMethodsFor(api.Types, f.Obj) {
			if a.validObjs[m] {
				isValidator = true
			}
		}
		if !isValidator {
			continue
		}
		// every return answers constant true?
		allTrue, n := true, 0
		ast.Inspect(f.Body, func(x ast.Node) bool {
			if _, ok := x.(*ast.FuncLit); ok {
				return false
			}
			if r, ok := x.(*ast.ReturnStmt); ok {
				n++
				if len(r.Results) == 0 {
					allTrue = false
				} else if tv := f.Info().Types[r.Results[0]]; tv.Value == nil || tv.Value.String() != "true" {
					allTrue = false
				}
			}
			return true
		})
		if n == 0 || !allTrue {
			o := r3.Ob(f, nil, "other validator "+f.Name, "a request validator that does not verify a JWT")
			o.Undecided("%s implements the request validator interface without reaching jwt.Parse and is not a constant-true stub", f.Name)
			continue
		}
		rt := f.Obj.Type().(*types.Signature).Recv().Type()
		if p, ok := rt.(*types.Pointer); ok {
			rt = p.Elem()
		}
		nt, ok := types.Unalias(rt).(*types.Named)
		if !ok {
			continue
		}
		o := r3.Ob(f, nil, "stub validator "+nt.Obj().Name(), "the constant-true validator is never instantiated in non-test code")
		var uses []string
		for _, pk := range c.P.Roots {
			if !strings.HasPrefix(pk.PkgPath, kit.ModPath) {
				continue
			}
			for _, file := range pk.Syntax {
				inRecv := map[*ast.Ident]bool{}
				for _, d := range file.Decls {
					if fd, ok := d.(*ast.FuncDecl); ok && fd.Recv != nil {
						ast.Inspect(fd.Recv, func(x ast.Node) bool {
							if id, ok := x.(*ast.Ident); ok {
								inRecv[id] = true
							}
							return true
						})
					}
				}
				// compile-time assertions `var _ I = T{}` do not instantiate anything that runs
				for _, d := range file.Decls {
					gd, ok := d.(*ast.GenDecl)
					if !ok {
						continue
					}
					for _, sp := range gd.Specs {
						vs, ok := sp.(*ast.ValueSpec)
						if !ok {
							continue
						}
						blank := len(vs.Names) > 0
						for _, nm := range vs.Names {
							if nm.Name != "_" {
								blank = false
							}
						}
						if blank {
							ast.Inspect(vs, func(x ast.Node) bool {
								if id, ok := x.(*ast.Ident); ok {
									inRecv[id] = true
								}
								return true
							})
						}
					}
				}
				for id, obj := range pk.TypesInfo.Uses {
					if obj == types.Object(nt.Obj()) && !inRecv[id] && file.Pos() <= id.Pos() && id.Pos() < file.End() {
						uses = append(uses, c.P.Pos(id.Pos()))
					}
				}
			}
		}
		sort.Strings(uses)
		if len(uses) > 0 {
			o.Violation("%s (every request is valid) is used at %s", nt.Obj().Name(), strings.Join(uniqStrings(uses), ", "))
		} else {
			o.OK("no use of %s outside its own methods in %d packages", nt.Obj().Name(), len(c.P.Roots))
		}
	}
}
