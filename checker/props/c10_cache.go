package props

import (
	"fmt"
	"go/ast"
	"go/types"
	"strings"

	"siotcheck/kit"
)

// C10/R7: a memo of derived point keys must be keyed by something injective
// on types.  The reflect.Type value itself (or a composite containing it) is;
// a string built from Type.Name()/PkgPath()/String() is not: all anonymous
// struct types have the empty name and package path, function-local types of
// different functions share name and package, and Type.String() is documented
// as not unique.  A second type with the same text is then encoded with the
// keys of the first, while the decoder derives the keys from the tags.

// c10CacheAccess is one read or write of a package-level memo.
type c10CacheAccess struct {
	call ast.Node
	key  ast.Expr
	what string
}

func c10CacheAccesses(f *kit.Func) []c10CacheAccess {
	info := f.Info()
	var out []c10CacheAccess
	pkgLevel := func(e ast.Expr) bool {
		for {
			switch x := ast.Unparen(e).(type) {
			case *ast.SelectorExpr:
				if _, isPkg := info.Uses[x.Sel].(*types.Var); isPkg {
					if v := info.Uses[x.Sel].(*types.Var); !v.IsField() {
						return v.Parent() == v.Pkg().Scope()
					}
				}
				e = x.X
			case *ast.UnaryExpr:
				e = x.X
			case *ast.StarExpr:
				e = x.X
			case *ast.Ident:
				v, ok := info.Uses[x].(*types.Var)
				return ok && v.Pkg() != nil && v.Parent() == v.Pkg().Scope()
			default:
				return false
			}
		}
	}
	ast.Inspect(f.Body, func(n ast.Node) bool {
		switch x := n.(type) {
		case *ast.CallExpr:
			q := kit.QualName(kit.Callee(info, x))
			switch q {
			case "sync.(*Map).Load", "sync.(*Map).Store", "sync.(*Map).LoadOrStore", "sync.(*Map).LoadAndDelete",
				"sync.(*Map).Swap", "sync.(*Map).CompareAndSwap":
				if sel, ok := ast.Unparen(x.Fun).(*ast.SelectorExpr); ok && pkgLevel(sel.X) && len(x.Args) > 0 {
					out = append(out, c10CacheAccess{x, x.Args[0], strings.TrimPrefix(q, "sync.(*Map).") + " on " + f.Str(sel.X)})
				}
			}
		case *ast.IndexExpr:
			if _, isMap := info.TypeOf(x.X).Underlying().(*types.Map); isMap && pkgLevel(x.X) {
				out = append(out, c10CacheAccess{x, x.Index, "index of " + f.Str(x.X)})
			}
		}
		return true
	})
	return out
}

// c10ResolveLocal replaces a local variable with the expression of its single assignment.
func c10ResolveLocal(f *kit.Func, e ast.Expr) ast.Expr {
	info := f.Info()
	for depth := 0; depth < 4; depth++ {
		id, ok := ast.Unparen(e).(*ast.Ident)
		if !ok {
			return e
		}
		o := kit.ObjOf(info, id)
		var rhs ast.Expr
		n := 0
		ast.Inspect(f.Body, func(x ast.Node) bool {
			if as, ok := x.(*ast.AssignStmt); ok && len(as.Lhs) == len(as.Rhs) {
				for i, l := range as.Lhs {
					if kit.ObjOf(info, l) == o {
						n++
						rhs = as.Rhs[i]
					}
				}
			}
			return true
		})
		if n != 1 || rhs == nil {
			return e
		}
		e = rhs
	}
	return e
}

func c10R7(c *kit.Ctx, helpers map[*kit.Func][]*kit.Ob) {
	r7 := c.Rule("R7", "a memo of derived keys is keyed injectively on types", 0)
	// functions that derive keys or obtain them from a helper
	scan := map[*kit.Func]bool{}
	for h := range helpers {
		scan[h] = true
	}
	for _, g := range c.P.Funcs("data") {
		if g.Body == nil {
			continue
		}
		for _, call := range g.AllCalls(false) {
			if _, ok := helpers[g.CalleeFunc(call)]; ok {
				scan[g] = true
			}
		}
	}
	for _, f := range c.P.Funcs("data") {
		if !scan[f] {
			continue
		}
		info := f.Info()
		for i, acc := range c10CacheAccesses(f) {
			key := c10ResolveLocal(f, acc.key)
			o := r7.Ob(f, acc.call, fmt.Sprintf("memo access #%d (%s)", i+1, acc.what), "the memo key distinguishes any two struct types")
			// components of the key
			hasType := false
			var textOf []string
			ast.Inspect(key, func(n ast.Node) bool {
				switch x := n.(type) {
				case *ast.CallExpr:
					switch nm := kit.RCallName(info, x); nm {
					case "Type.Name", "Type.PkgPath", "Type.String":
						textOf = append(textOf, nm+"()")
						return false
					}
					q := kit.QualName(kit.Callee(info, x))
					if strings.HasPrefix(q, "fmt.Sprint") {
						for _, a := range x.Args {
							if kit.RType(info.TypeOf(a)) == "Type" {
								textOf = append(textOf, q+"(type)")
							}
						}
						return false
					}
				case *ast.Ident:
					if kit.RType(info.TypeOf(x)) == "Type" {
						hasType = true
					}
				}
				return true
			})
			kt := info.TypeOf(key)
			switch {
			case hasType && len(textOf) == 0 || kit.RType(kt) == "Type":
				o.OK("keyed by the reflect.Type value (%s)", f.Str(key))
			case hasType:
				o.OK("key %s contains the reflect.Type value", f.Str(key))
			case len(textOf) > 0:
				o.Violation("the memo is keyed by `%s`, text built from %s: distinct struct types share it (every anonymous struct type has empty name and package path; function-local types share both; Type.String() is not unique), "+
					"so the second such type is given the keys of the first while the decoder derives keys from the tags; key the memo by the reflect.Type itself", f.Str(key), strings.Join(textOf, ", "))
			default:
				o.Undecided("cannot decide whether memo key `%s` is injective on types", f.Str(key))
			}
		}
	}
}
