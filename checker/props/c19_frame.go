package props

import (
	"fmt"
	"go/ast"
	"go/token"
	"go/types"
	"strings"

	"siotcheck/kit"
)

// C19/R2: framing agreement between the encode and decode side of each transport.

// mbResolve follows a local variable with exactly one assignment to its
// defining expression.
func mbResolve(f *kit.Func, e ast.Expr) ast.Expr {
	info := f.Info()
	for i := 0; i < 4; i++ {
		id, ok := ast.Unparen(e).(*ast.Ident)
		if !ok {
			return e
		}
		o := kit.ObjOf(info, id)
		if o == nil {
			return e
		}
		var def ast.Expr
		n := 0
		ast.Inspect(f.Body, func(x ast.Node) bool {
			switch y := x.(type) {
			case *ast.AssignStmt:
				for j, l := range y.Lhs {
					if kit.ObjOf(info, l) == o {
						n++
						if len(y.Lhs) == len(y.Rhs) {
							def = y.Rhs[j]
						} else {
							def = nil
						}
					}
				}
			case *ast.IncDecStmt:
				if kit.ObjOf(info, y.X) == o {
					n += 2
				}
			case *ast.ValueSpec:
				for j, nm := range y.Names {
					if info.Defs[nm] == o && j < len(y.Values) {
						n++
						def = y.Values[j]
					}
				}
			}
			return true
		})
		if n != 1 || def == nil {
			return e
		}
		e = def
	}
	return e
}

// mbCond follows a boolean local with exactly one assignment to the
// condition it holds (`b := x == y; if b {…}`).
func mbCond(f *kit.Func, e ast.Expr) ast.Expr {
	if id, ok := ast.Unparen(e).(*ast.Ident); ok {
		if o := kit.ObjOf(f.Info(), id); o != nil {
			if bt, isB := o.Type().Underlying().(*types.Basic); isB && bt.Info()&types.IsBoolean != 0 {
				return mbResolve(f, id)
			}
		}
	}
	return e
}

// mbOffset evaluates an index/bound relative to the length of the base
// slice: returns (k, false) for the constant k and (t, true) for len(base)-t.
func mbOffset(b *kit.Bounds, f *kit.Func, base ast.Expr, e ast.Expr, at ast.Node) (k int64, fromEnd, ok bool) {
	fs, _ := b.FactsBefore(at)
	t := b.Term(e)
	bt := b.Term(base)
	if fs == nil || t == nil || bt == nil {
		return 0, false, false
	}
	env := b.EnvAt(fs, nil)
	l := env.LinOf(t)
	if v, isC := l.IsConst(); isC {
		return v, false, true
	}
	// relative to the length of the base, both sides under the same facts
	d := env.LinOf(kit.LenTerm(bt)).Sub(l)
	if v, isC := d.IsConst(); isC {
		return v, true, true
	}
	return 0, false, false
}

func recvObj(f *kit.Func) types.Object {
	if f.Decl != nil && f.Decl.Recv != nil {
		for _, fl := range f.Decl.Recv.List {
			for _, nm := range fl.Names {
				return f.Info().Defs[nm]
			}
		}
	}
	return nil
}

// recvField matches <receiver>.<field> and returns the field.
func recvField(f *kit.Func, e ast.Expr) *types.Var {
	sel, ok := ast.Unparen(e).(*ast.SelectorExpr)
	if !ok {
		return nil
	}
	s, ok := f.Info().Selections[sel]
	if !ok || s.Kind() != types.FieldVal {
		return nil
	}
	if r := recvObj(f); r == nil || kit.ObjOf(f.Info(), sel.X) != r {
		return nil
	}
	v, _ := s.Obj().(*types.Var)
	return v
}

type frameEnc struct {
	buf      types.Object
	total    int64 // len(buf) = len(data) + total
	id, fc   int64
	data     int64
	words    map[*types.Var][2]interface{} // receiver field -> (offset int64, order string)
	wordCall map[*types.Var]*ast.CallExpr
	crcFn    *types.Func
	crcSpanT int64 // checksum covers buf[:len-crcSpanT]
	crcAt    int64 // stored at buf[len-crcAt:]
	crcOrder string
	problems []string
}

func c19ParseEncode(c *kit.Ctx, m *c19Model, f *kit.Func) *frameEnc {
	info := f.Info()
	b := kit.AnalyseBounds(c.P, f)
	fe := &frameEnc{id: -1, fc: -1, data: -1, total: -1, words: map[*types.Var][2]interface{}{}, wordCall: map[*types.Var]*ast.CallExpr{}}
	params := f.Params()
	var idP, pduP *types.Var
	for _, p := range params {
		if types.Identical(p.Type(), m.PduType) {
			pduP = p
		} else {
			idP = p
		}
	}
	// the returned buffer
	ast.Inspect(f.Body, func(n ast.Node) bool {
		if r, ok := n.(*ast.ReturnStmt); ok && len(r.Results) == 2 && kit.IsNilIdent(info, r.Results[1]) {
			fe.buf = kit.ObjOf(info, r.Results[0])
		}
		return true
	})
	if fe.buf == nil || pduP == nil || idP == nil {
		fe.problems = append(fe.problems, "no `return buf, nil` / parameters not recognised")
		return fe
	}
	isBuf := func(e ast.Expr) bool { return kit.ObjOf(info, e) == fe.buf }
	isPduField := func(e ast.Expr, fld *types.Var) bool {
		sel, ok := ast.Unparen(e).(*ast.SelectorExpr)
		if !ok || kit.ObjOf(info, sel.X) != types.Object(pduP) {
			return false
		}
		s, ok := info.Selections[sel]
		return ok && s.Obj() == fld
	}
	unconv := func(e ast.Expr) ast.Expr {
		if call, ok := ast.Unparen(e).(*ast.CallExpr); ok && len(call.Args) == 1 {
			if tv, ok := info.Types[call.Fun]; ok && tv.IsType() {
				return call.Args[0]
			}
		}
		return e
	}
	var crcVar types.Object
	ast.Inspect(f.Body, func(n ast.Node) bool {
		switch y := n.(type) {
		case *ast.AssignStmt:
			if len(y.Lhs) != 1 || len(y.Rhs) != 1 {
				return true
			}
			// buf := make([]byte, len(pdu.Data)+K)
			if isBuf(y.Lhs[0]) {
				if call, ok := ast.Unparen(y.Rhs[0]).(*ast.CallExpr); ok {
					if bi, ok := kit.Callee(info, call).(*types.Builtin); ok && bi.Name() == "make" && len(call.Args) == 2 {
						if t := b.Term(call.Args[1]); t != nil {
							fs, _ := b.FactsBefore(y)
							l := b.EnvAt(fs, nil).LinOf(t)
							for _, a := range l.Atoms() {
								if a.K == kit.TLen && a.Args[0].K == kit.TField && a.Args[0].Obj == types.Object(m.DataField) {
									if v, isC := l.Sub(kit.LinAtom(a)).IsConst(); isC {
										fe.total = v
									}
								}
							}
						}
					}
				}
				return true
			}
			// buf[k] = id / byte(pdu.fc)
			if ix, ok := ast.Unparen(y.Lhs[0]).(*ast.IndexExpr); ok && isBuf(ix.X) {
				k, isC := kit.ConstInt(info, ix.Index)
				if !isC {
					fe.problems = append(fe.problems, "non-constant header offset "+f.Str(ix))
					return true
				}
				rhs := unconv(y.Rhs[0])
				switch {
				case kit.ObjOf(info, rhs) == types.Object(idP):
					fe.id = k
				case isPduField(rhs, m.FcField):
					fe.fc = k
				}
				return true
			}
			// crc := C(buf[:len(buf)-t])
			if call, ok := ast.Unparen(y.Rhs[0]).(*ast.CallExpr); ok && len(call.Args) == 1 {
				if fn, ok := kit.Callee(info, call).(*types.Func); ok && fn.Pkg() == m.pkg && mbIsChecksumSig(fn) {
					if se, ok := ast.Unparen(call.Args[0]).(*ast.SliceExpr); ok && isBuf(se.X) && se.Low == nil && se.High != nil {
						if t, fromEnd, ok := mbOffset(b, f, se.X, se.High, y); ok && fromEnd {
							fe.crcFn, fe.crcSpanT = fn, t
							crcVar = kit.ObjOf(info, y.Lhs[0])
						}
					}
				}
			}
		case *ast.ExprStmt:
			call, ok := y.X.(*ast.CallExpr)
			if !ok {
				return true
			}
			if bi, ok := kit.Callee(info, call).(*types.Builtin); ok && bi.Name() == "copy" && len(call.Args) == 2 {
				if se, ok := ast.Unparen(call.Args[0]).(*ast.SliceExpr); ok && isBuf(se.X) && isPduField(call.Args[1], m.DataField) {
					lo := int64(0)
					okLo := true
					if se.Low != nil {
						lo, okLo = kit.ConstInt(info, se.Low)
					}
					okHi := se.High == nil
					if se.High != nil {
						// dst[lo:hi] with hi-lo == len(data) holds exactly the data
						if fs, _ := b.FactsBefore(y); fs != nil {
							env := b.EnvAt(fs, nil)
							if ht, dt := b.Term(se.High), b.Term(call.Args[1]); ht != nil && dt != nil {
								d := env.LinOf(ht).Sub(env.LinOf(kit.LenTerm(dt)))
								if v, isC := d.IsConst(); isC && v == lo {
									okHi = true
								}
							}
						}
					}
					if okLo && okHi {
						fe.data = lo
					}
				}
				return true
			}
			if name, order, _, isBO := kit.ByteOrderCall(info, call); isBO && name == "PutUint16" && len(call.Args) == 2 {
				se, ok := ast.Unparen(call.Args[0]).(*ast.SliceExpr)
				if !ok || !isBuf(se.X) || se.High != nil {
					return true
				}
				low := se.Low
				val := ast.Unparen(mbResolve(f, call.Args[1]))
				if vc, isCall := val.(*ast.CallExpr); isCall && len(vc.Args) == 1 && low != nil {
					// PutUint16(buf[len-t:], C(buf[:len-t]))
					if fn, ok := kit.Callee(info, vc).(*types.Func); ok && fn.Pkg() == m.pkg && mbIsChecksumSig(fn) {
						if sp, ok := ast.Unparen(mbResolve(f, vc.Args[0])).(*ast.SliceExpr); ok && isBuf(sp.X) && sp.Low == nil && sp.High != nil {
							t1, fromEnd1, ok1 := mbOffset(b, f, sp.X, sp.High, y)
							t2, fromEnd2, ok2 := mbOffset(b, f, se.X, low, y)
							if ok1 && ok2 && fromEnd1 && fromEnd2 {
								fe.crcFn, fe.crcSpanT, fe.crcAt, fe.crcOrder = fn, t1, t2, order
							}
						}
						return true
					}
				}
				if fld := recvField(f, val); fld != nil {
					k := int64(0)
					if low != nil {
						v, isC := kit.ConstInt(info, low)
						if !isC {
							return true
						}
						k = v
					}
					fe.words[fld] = [2]interface{}{k, order}
					fe.wordCall[fld] = call
					return true
				}
				if crcVar != nil && kit.ObjOf(info, call.Args[1]) == crcVar && low != nil {
					if t, fromEnd, ok := mbOffset(b, f, se.X, low, y); ok && fromEnd {
						fe.crcAt, fe.crcOrder = t, order
					}
				}
			}
		}
		return true
	})
	return fe
}

// c19ParseEncodeAppend recognises an encoder that builds its frame by
// appending, in straight-line order:
//
//	buf := make([]byte, 0, n) | []byte{…} | nil
//	buf = append(buf, id, byte(pdu.fc), …)        header bytes
//	buf = append(buf, pdu.Data...)                 the data
//	buf = ORDER.AppendUint16(buf, C(buf))          checksum over all that precedes it
//	buf = ORDER.AppendUint16(buf, recv.field)      (before the data: a header word)
func c19ParseEncodeAppend(c *kit.Ctx, m *c19Model, f *kit.Func) *frameEnc {
	info := f.Info()
	fe := &frameEnc{id: -1, fc: -1, data: -1, total: -1, words: map[*types.Var][2]interface{}{}, wordCall: map[*types.Var]*ast.CallExpr{}}
	var idP, pduP *types.Var
	for _, p := range f.Params() {
		if types.Identical(p.Type(), m.PduType) {
			pduP = p
		} else {
			idP = p
		}
	}
	ast.Inspect(f.Body, func(n ast.Node) bool {
		if r, ok := n.(*ast.ReturnStmt); ok && len(r.Results) == 2 && kit.IsNilIdent(info, r.Results[1]) {
			fe.buf = kit.ObjOf(info, r.Results[0])
		}
		return true
	})
	if fe.buf == nil || pduP == nil || idP == nil {
		fe.problems = append(fe.problems, "no `return buf, nil` / parameters not recognised")
		return fe
	}
	isPduField := func(e ast.Expr, fld *types.Var) bool {
		sel, ok := ast.Unparen(e).(*ast.SelectorExpr)
		if !ok || kit.ObjOf(info, sel.X) != types.Object(pduP) {
			return false
		}
		s, ok := info.Selections[sel]
		return ok && s.Obj() == fld
	}
	unconv := func(e ast.Expr) ast.Expr {
		if call, ok := ast.Unparen(e).(*ast.CallExpr); ok && len(call.Args) == 1 {
			if tv, ok := info.Types[call.Fun]; ok && tv.IsType() {
				return call.Args[0]
			}
		}
		return e
	}
	cursor := int64(-1)  // bytes before the data; -1: buffer not yet created
	trailer := int64(-1) // bytes after the data; -1: data not yet appended
	bad := func(format string, a ...any) {
		fe.problems = append(fe.problems, fmt.Sprintf(format, a...))
	}
	add := func(nbytes int64) int64 { // returns the offset of the appended bytes (from the start, or from the end of the data)
		if trailer >= 0 {
			off := trailer
			trailer += nbytes
			return off
		}
		off := cursor
		cursor += nbytes
		return off
	}
	for _, st := range f.Body.List {
		as, ok := st.(*ast.AssignStmt)
		if !ok {
			if _, isRet := st.(*ast.ReturnStmt); isRet {
				continue
			}
			// anything else must not touch the buffer
			touches := false
			ast.Inspect(st, func(n ast.Node) bool {
				if id, ok := n.(*ast.Ident); ok && kit.ObjOf(info, id) == fe.buf {
					touches = true
				}
				return true
			})
			if touches {
				bad("statement `%s` uses the frame buffer in a way that is not followed", trunc(f.Str(st), 50))
			}
			continue
		}
		if len(as.Lhs) != 1 || len(as.Rhs) != 1 || kit.ObjOf(info, as.Lhs[0]) != fe.buf {
			continue
		}
		rhs := ast.Unparen(as.Rhs[0])
		call, isCall := rhs.(*ast.CallExpr)
		switch {
		case cursor < 0:
			// creation
			switch {
			case isCall && len(call.Args) >= 2:
				if bi, ok := kit.Callee(info, call).(*types.Builtin); ok && bi.Name() == "make" {
					if n, isC := kit.ConstInt(info, call.Args[1]); isC && n == 0 {
						cursor = 0
						continue
					}
				}
				bad("the frame buffer is not created empty")
			case kit.IsNilIdent(info, rhs):
				cursor = 0
			default:
				if cl, ok := rhs.(*ast.CompositeLit); ok && mbIsByteSlice(info.TypeOf(cl)) && len(cl.Elts) == 0 {
					cursor = 0
				} else {
					bad("the frame buffer is not created empty")
				}
			}
		case isCall:
			if bi, ok := kit.Callee(info, call).(*types.Builtin); ok && bi.Name() == "append" && len(call.Args) >= 2 && kit.ObjOf(info, call.Args[0]) == fe.buf {
				if call.Ellipsis.IsValid() {
					if len(call.Args) == 2 && isPduField(call.Args[1], m.DataField) && trailer < 0 {
						fe.data = cursor
						trailer = 0
					} else {
						bad("`%s` appends something other than the PDU data", trunc(f.Str(as), 50))
					}
					continue
				}
				for _, a := range call.Args[1:] {
					off := add(1)
					v := unconv(a)
					switch {
					case kit.ObjOf(info, v) == types.Object(idP) && trailer < 0:
						fe.id = off
					case isPduField(v, m.FcField) && trailer < 0:
						fe.fc = off
					}
				}
				continue
			}
			if name, order, _, isBO := kit.ByteOrderCall(info, call); isBO && name == "AppendUint16" && len(call.Args) == 2 && kit.ObjOf(info, call.Args[0]) == fe.buf {
				off := add(2)
				v := ast.Unparen(call.Args[1])
				if fld := recvField(f, v); fld != nil && trailer < 0 {
					fe.words[fld] = [2]interface{}{off, order}
					fe.wordCall[fld] = call
					continue
				}
				if vc, ok := v.(*ast.CallExpr); ok && len(vc.Args) == 1 {
					if fn, ok := kit.Callee(info, vc).(*types.Func); ok && fn.Pkg() == m.pkg && mbIsChecksumSig(fn) {
						if kit.ObjOf(info, vc.Args[0]) == fe.buf && trailer == 2 {
							// checksum of everything appended so far, stored in the last two bytes
							fe.crcFn, fe.crcSpanT, fe.crcAt, fe.crcOrder = fn, 2, 2, order
							continue
						}
						bad("the checksum `%s` does not cover exactly the bytes that precede it", trunc(f.Str(vc), 50))
						continue
					}
				}
				continue
			}
			bad("`%s` changes the frame buffer in a way that is not followed", trunc(f.Str(as), 50))
		default:
			bad("`%s` changes the frame buffer in a way that is not followed", trunc(f.Str(as), 50))
		}
	}
	if cursor >= 0 && trailer >= 0 {
		fe.total = cursor + trailer
	}
	return fe
}

func mbIsChecksumSig(fn *types.Func) bool {
	sig := fn.Type().(*types.Signature)
	if sig.Recv() != nil || sig.Params().Len() != 1 || sig.Results().Len() != 1 || !mbIsByteSlice(sig.Params().At(0).Type()) {
		return false
	}
	b, ok := sig.Results().At(0).Type().Underlying().(*types.Basic)
	return ok && b.Kind() == types.Uint16
}

type frameDec struct {
	id, fc    int64
	dataLo    int64
	dataT     int64 // data = packet[dataLo : len-dataT]
	problems  []string
	checker   *kit.Func // function that verifies the checksum (may be the decoder itself)
	checkCall *ast.CallExpr
	crcFn     *types.Func
	crcSpanT  int64
	crcAt     int64
	crcOrder  string
	crcCmp    ast.Expr
	wordReads map[types.Object][2]interface{} // local var -> (offset, order)
}

func c19ParseDecode(c *kit.Ctx, m *c19Model, f *kit.Func) *frameDec {
	info := f.Info()
	b := kit.AnalyseBounds(c.P, f)
	fd := &frameDec{id: -1, fc: -1, dataLo: -1, wordReads: map[types.Object][2]interface{}{}}
	pkt := f.Params()[0]
	isPkt := func(e ast.Expr) bool { return kit.ObjOf(info, e) == types.Object(pkt) }
	g := c.P.Graph(f)
	// the success return
	var ret *ast.ReturnStmt
	ast.Inspect(f.Body, func(n ast.Node) bool {
		if r, ok := n.(*ast.ReturnStmt); ok && len(r.Results) == 3 && kit.IsNilIdent(info, r.Results[2]) {
			ret = r
		}
		return true
	})
	if ret == nil {
		fd.problems = append(fd.problems, "no `return id, pdu, nil`")
		return fd
	}
	unconv := func(e ast.Expr) ast.Expr {
		if call, ok := ast.Unparen(e).(*ast.CallExpr); ok && len(call.Args) == 1 {
			if tv, ok := info.Types[call.Fun]; ok && tv.IsType() {
				return call.Args[0]
			}
		}
		return e
	}
	pktIndex := func(e ast.Expr) (int64, bool) {
		ix, ok := ast.Unparen(unconv(mbResolve(f, e))).(*ast.IndexExpr)
		if !ok || !isPkt(ix.X) {
			return 0, false
		}
		return kit.ConstInt(info, ix.Index)
	}
	if k, ok := pktIndex(ret.Results[0]); ok {
		fd.id = k
	}
	// PDU fields
	var fcE, dataE ast.Expr
	pv := kit.ObjOf(info, ret.Results[1])
	if cl, ok := ast.Unparen(mbResolve(f, ret.Results[1])).(*ast.CompositeLit); ok && len(cl.Elts) > 0 {
		fcE, dataE = m.pduFields(f, cl, ret)
	}
	if pv != nil {
		ast.Inspect(f.Body, func(n ast.Node) bool {
			as, ok := n.(*ast.AssignStmt)
			if !ok || len(as.Lhs) != len(as.Rhs) {
				return true
			}
			for i, l := range as.Lhs {
				sel, ok := ast.Unparen(l).(*ast.SelectorExpr)
				if !ok || kit.ObjOf(info, sel.X) != pv {
					continue
				}
				s, ok := info.Selections[sel]
				if !ok || !g.NodeDominates(as, ret) {
					continue
				}
				switch s.Obj() {
				case types.Object(m.FcField):
					fcE = as.Rhs[i]
				case types.Object(m.DataField):
					dataE = as.Rhs[i]
				}
			}
			return true
		})
	}
	if fcE != nil {
		if k, ok := pktIndex(fcE); ok {
			fd.fc = k
		}
	}
	if dataE != nil {
		if se, ok := ast.Unparen(mbResolve(f, dataE)).(*ast.SliceExpr); ok && isPkt(se.X) && se.Low != nil {
			if k, isC := kit.ConstInt(info, se.Low); isC {
				fd.dataLo = k
				if se.High == nil {
					fd.dataT = 0
				} else if t, fromEnd, ok := mbOffset(b, f, se.X, se.High, se); ok && fromEnd {
					fd.dataT = t
				} else {
					fd.dataLo = -1
				}
			}
		}
	}
	// 16-bit words read from constant offsets of the packet
	ast.Inspect(f.Body, func(n ast.Node) bool {
		as, ok := n.(*ast.AssignStmt)
		if !ok || len(as.Lhs) != 1 || len(as.Rhs) != 1 {
			return true
		}
		call, ok := ast.Unparen(as.Rhs[0]).(*ast.CallExpr)
		if !ok {
			return true
		}
		if name, order, _, isBO := kit.ByteOrderCall(info, call); isBO && name == "Uint16" && len(call.Args) == 1 {
			if se, ok := ast.Unparen(call.Args[0]).(*ast.SliceExpr); ok && isPkt(se.X) {
				k := int64(0)
				okc := true
				if se.Low != nil {
					k, okc = kit.ConstInt(info, se.Low)
				}
				if okc {
					if o := kit.ObjOf(info, as.Lhs[0]); o != nil {
						fd.wordReads[o] = [2]interface{}{k, order}
					}
				}
			}
		}
		return true
	})
	// checksum verification: in the decoder or in a module function it hands the packet to
	cands := []*kit.Func{f}
	calls := map[*kit.Func]*ast.CallExpr{}
	for _, call := range f.AllCalls(false) {
		if cf := f.CalleeFunc(call); cf != nil && cf.Decl != nil && len(call.Args) == 1 && isPkt(call.Args[0]) {
			cands = append(cands, cf)
			calls[cf] = call
		}
	}
	for _, k := range cands {
		ki := k.Info()
		kb := kit.AnalyseBounds(c.P, k)
		var sumCall, storedCall *ast.CallExpr
		ast.Inspect(k.Body, func(n ast.Node) bool {
			call, ok := n.(*ast.CallExpr)
			if !ok || len(call.Args) != 1 {
				return true
			}
			se, ok := ast.Unparen(mbResolve(k, call.Args[0])).(*ast.SliceExpr)
			if !ok {
				return true
			}
			if fn, ok := kit.Callee(ki, call).(*types.Func); ok && fn.Pkg() == m.pkg && mbIsChecksumSig(fn) && se.Low == nil && se.High != nil {
				if t, fromEnd, ok := mbOffset(kb, k, se.X, se.High, call); ok && fromEnd {
					fd.crcFn, fd.crcSpanT = fn, t
					sumCall = call
				}
			}
			if name, order, _, isBO := kit.ByteOrderCall(ki, call); isBO && name == "Uint16" && se.Low != nil && se.High == nil {
				if t, fromEnd, ok := mbOffset(kb, k, se.X, se.Low, call); ok && fromEnd {
					fd.crcAt, fd.crcOrder = t, order
					storedCall = call
				}
			}
			return true
		})
		if sumCall == nil {
			continue
		}
		fd.checker = k
		fd.checkCall = calls[k]
		ast.Inspect(k.Body, func(n ast.Node) bool {
			if be, ok := n.(*ast.BinaryExpr); ok && (be.Op == token.NEQ || be.Op == token.EQL) {
				x, y := ast.Unparen(mbResolve(k, be.X)), ast.Unparen(mbResolve(k, be.Y))
				if storedCall != nil && ((x == ast.Expr(sumCall) && y == ast.Expr(storedCall)) || (x == ast.Expr(storedCall) && y == ast.Expr(sumCall))) {
					fd.crcCmp = be
				}
			}
			return true
		})
		break
	}
	return fd
}

// mbAllExitsError runs f with the standard interpreter under init/atoms and
// reports whether every exit returns a non-nil error ("" = yes).
func mbAllExitsError(c *kit.Ctx, f *kit.Func, st *kit.Std, init kit.S) (bad string, und string) {
	res := c.P.Graph(f).Run(init, st.Client())
	c.AddValuations(1)
	if len(res.Exits) == 0 {
		return "", "no exit reached"
	}
	for _, e := range res.Exits {
		if e.Return == nil {
			continue
		}
		switch mbReturnsNil(f, st, e) {
		case "nil":
			return fmt.Sprintf("`%s` at %s returns a nil error", trunc(f.Str(e.Return), 50), f.At(e.Return)), ""
		case "unknown":
			und = fmt.Sprintf("cannot tell whether `%s` at %s returns an error", trunc(f.Str(e.Return), 50), f.At(e.Return))
		}
	}
	return "", und
}

// mbReturnsNil extends Std.ReturnsNil with package-level error values
// created by errors.New / fmt.Errorf that are never reassigned.
func mbReturnsNil(f *kit.Func, st *kit.Std, e kit.Exit) string {
	r := st.ReturnsNil(e.Return, e.State)
	if r != "unknown" || len(e.Return.Results) == 0 {
		return r
	}
	last := ast.Unparen(e.Return.Results[len(e.Return.Results)-1])
	id, ok := last.(*ast.Ident)
	if !ok {
		return r
	}
	v, ok := f.Info().Uses[id].(*types.Var)
	if !ok || v.Pkg() == nil || v.Parent() != v.Pkg().Scope() {
		return r
	}
	pk := f.Prog.ByPath[v.Pkg().Path()]
	if pk == nil {
		return r
	}
	created, written := false, false
	for _, file := range pk.Syntax {
		ast.Inspect(file, func(n ast.Node) bool {
			switch y := n.(type) {
			case *ast.ValueSpec:
				for i, nm := range y.Names {
					if pk.TypesInfo.Defs[nm] == v && i < len(y.Values) {
						if call, ok := ast.Unparen(y.Values[i]).(*ast.CallExpr); ok {
							switch kit.QualName(kit.Callee(pk.TypesInfo, call)) {
							case "errors.New", "fmt.Errorf":
								created = true
							}
						}
					}
				}
			case *ast.AssignStmt:
				for _, l := range y.Lhs {
					if kit.ObjOf(pk.TypesInfo, l) == v {
						written = true
					}
				}
			case *ast.UnaryExpr:
				if y.Op == token.AND && kit.ObjOf(pk.TypesInfo, y.X) == v {
					written = true
				}
			}
			return true
		})
	}
	if created && !written {
		return "nonnil"
	}
	return r
}

func c19R2(c *kit.Ctx, m *c19Model) {
	r := c.Rule("R2", "framing: checksum, layout and transaction id agree between encode and decode; bounds", 20)
	var frameFuncs []*kit.Func
	seen := map[*kit.Func]bool{}
	add := func(f *kit.Func) {
		if f != nil && !seen[f] {
			seen[f] = true
			frameFuncs = append(frameFuncs, f)
		}
	}
	nCRC, nTx := 0, 0
	var crcFns []*types.Func
	addCrc := func(fn *types.Func) {
		for _, x := range crcFns {
			if x == fn {
				return
			}
		}
		if fn != nil {
			crcFns = append(crcFns, fn)
		}
	}
	for _, t := range m.Transports {
		add(t.Encode)
		add(t.Decode)
		for _, f := range []*kit.Func{t.Encode, t.Decode} {
			for _, call := range f.AllCalls(false) {
				if cf := f.CalleeFunc(call); cf != nil && cf.Decl != nil && cf.Pkg == f.Pkg {
					add(cf)
					for _, c2 := range cf.AllCalls(false) {
						if cf2 := cf.CalleeFunc(c2); cf2 != nil && cf2.Decl != nil && cf2.Pkg == f.Pkg {
							add(cf2)
						}
					}
				}
			}
		}
		name := t.Named.Obj().Name()
		fe := c19ParseEncode(c, m, t.Encode)
		if len(fe.problems) == 0 && (fe.id < 0 || fe.fc < 0 || fe.data < 0 || fe.total < 0) {
			// not the make-and-fill form: try the append form
			if fa := c19ParseEncodeAppend(c, m, t.Encode); len(fa.problems) == 0 && fa.id >= 0 && fa.fc >= 0 && fa.data >= 0 && fa.total >= 0 {
				fe = fa
			}
		}
		fd := c19ParseDecode(c, m, t.Decode)
		c.Analysed(t.Encode, t.Decode)
		// layout
		o := r.Ob(t.Decode, nil, name+": layout", "the decoder reads unit id, function code and data from the offsets the encoder writes them to")
		switch {
		case len(fe.problems) > 0 || len(fd.problems) > 0:
			o.Undecided("%s", strings.Join(append(fe.problems, fd.problems...), "; "))
		case fe.id < 0 || fe.fc < 0 || fe.data < 0 || fe.total < 0:
			o.Undecided("encoder layout not recognised (id@%d fc@%d data@%d total+%d)", fe.id, fe.fc, fe.data, fe.total)
		case fd.id < 0 || fd.fc < 0 || fd.dataLo < 0:
			o.Undecided("decoder layout not recognised (id@%d fc@%d data@%d)", fd.id, fd.fc, fd.dataLo)
		case fe.id != fd.id:
			o.Violation("the encoder writes the unit id at byte %d, the decoder reads it from byte %d", fe.id, fd.id)
		case fe.fc != fd.fc:
			o.Violation("the encoder writes the function code at byte %d, the decoder reads it from byte %d", fe.fc, fd.fc)
		case fe.data != fd.dataLo:
			o.Violation("the encoder copies the data to byte %d, the decoder takes it from byte %d", fe.data, fd.dataLo)
		case fe.total-fe.data != fd.dataT:
			o.Violation("the encoder appends %d byte(s) after the data, the decoder strips %d", fe.total-fe.data, fd.dataT)
		default:
			o.OK("id@%d fc@%d data@[%d:len-%d]", fe.id, fe.fc, fe.data, fd.dataT)
		}
		// checksum
		if fe.crcFn != nil || fd.crcFn != nil {
			nCRC++
			addCrc(fe.crcFn)
			addCrc(fd.crcFn)
			o := r.Ob(t.Decode, nil, name+": checksum agreement", "encode and decode compute the same checksum function over all but the trailing bytes and store/read it in the same place and byte order")
			callsSum := func(f *kit.Func, depth int) bool {
				found := false
				var rec func(g *kit.Func, d int)
				rec = func(g *kit.Func, d int) {
					for _, call := range g.AllCalls(false) {
						if fn, ok := kit.Callee(g.Info(), call).(*types.Func); ok && fn.Pkg() == m.pkg && mbIsChecksumSig(fn) {
							found = true
						}
						if d > 0 {
							if cf := g.CalleeFunc(call); cf != nil && cf.Decl != nil && cf != g {
								rec(cf, d-1)
							}
						}
					}
				}
				rec(f, depth)
				return found
			}
			switch {
			case fe.crcFn == nil && callsSum(t.Encode, 0):
				o.Undecided("the encoder calls a checksum function in a form that is not recognised")
			case fd.crcFn == nil && callsSum(t.Decode, 1):
				o.Undecided("the decoder calls a checksum function in a form that is not recognised")
			case fe.crcFn == nil:
				o.Violation("the decoder verifies a checksum (%s) the encoder never appends", fd.crcFn.Name())
			case fd.crcFn == nil:
				o.Violation("the encoder appends a checksum (%s) the decoder never verifies", fe.crcFn.Name())
			case fe.crcFn != fd.crcFn:
				o.Violation("the encoder appends %s, the decoder verifies %s", fe.crcFn.Name(), fd.crcFn.Name())
			case fe.crcOrder == "" || fd.crcOrder == "":
				o.Undecided("store/load of the checksum not recognised")
			case fe.crcOrder != fd.crcOrder:
				o.Violation("the checksum is stored %s-endian and read %s-endian", fe.crcOrder, fd.crcOrder)
			case fe.crcSpanT != fd.crcSpanT:
				o.Violation("the encoder sums all but the last %d bytes, the decoder all but the last %d", fe.crcSpanT, fd.crcSpanT)
			case fe.crcAt != fd.crcAt || fe.crcAt != 2 || fe.crcSpanT != fe.crcAt:
				o.Violation("the checksum is stored at len-%d and read at len-%d (span ends at len-%d)", fe.crcAt, fd.crcAt, fe.crcSpanT)
			case fe.total-fe.data != fe.crcAt:
				o.Violation("the frame reserves %d trailing byte(s) but the checksum sits at len-%d", fe.total-fe.data, fe.crcAt)
			default:
				o.OK("%s over [:len-%d], %s-endian at [len-%d:]", fe.crcFn.Name(), fe.crcSpanT, fe.crcOrder, fe.crcAt)
			}
			o2 := r.Ob(t.Decode, nil, name+": checksum mismatch rejected", "a frame whose stored checksum differs from the computed one makes the decoder return an error")
			if fd.checker == nil || fd.crcCmp == nil {
				o2.Undecided("no comparison of computed and stored checksum found")
			} else {
				k := fd.checker
				c.Analysed(k)
				st := &kit.Std{F: k}
				cmp := fd.crcCmp.(*ast.BinaryExpr)
				st.Eval.Atom = func(e ast.Expr) (string, bool, bool) {
					e = mbCond(k, e)
					if ast.Unparen(e) == ast.Expr(cmp) {
						return "crcbad", cmp.Op == token.EQL, true
					}
					return "", false, false
				}
				bad, und := mbAllExitsError(c, k, st, kit.NewS().Set("a:crcbad", "T"))
				switch {
				case bad != "":
					o2.Violation("with a wrong checksum %s: %s", k.Name, bad)
				case und != "":
					o2.Undecided("%s", und)
				case k == t.Decode:
					o2.OK("every exit of %s under mismatch returns an error", k.Name)
				default:
					// the decoder must propagate the checker's error
					st2 := &kit.Std{F: t.Decode}
					st2.ErrTag = func(call *ast.CallExpr, s kit.S) string {
						if call == fd.checkCall {
							return "chk"
						}
						return ""
					}
					st2.OnErrEdge = func(tag string, isErr bool, s kit.S) (kit.S, bool) {
						if tag == "chk" && !isErr {
							return s, false
						}
						return s, true
					}
					checked := false
					ast.Inspect(t.Decode.Body, func(n ast.Node) bool {
						if as, ok := n.(*ast.AssignStmt); ok && len(as.Rhs) == 1 && ast.Unparen(as.Rhs[0]) == ast.Expr(fd.checkCall) {
							if o := kit.ObjOf(t.Decode.Info(), as.Lhs[len(as.Lhs)-1]); o != nil && isErrorType(o.Type()) {
								checked = true
							}
						}
						return true
					})
					bad, und := mbAllExitsError(c, t.Decode, st2, kit.NewS())
					switch {
					case !checked:
						o2.Violation("%s discards the result of %s", t.Decode.Name, k.Name)
					case bad != "":
						o2.Violation("%s failed, yet %s: %s", k.Name, t.Decode.Name, bad)
					case und != "":
						o2.Undecided("%s", und)
					default:
						o2.OK("%s returns an error under mismatch and %s propagates it", k.Name, t.Decode.Name)
					}
				}
			}
		}
		// transaction id: a receiver field written as a word by the encoder and compared by the decoder
		for fld, w := range fe.words {
			var cmp *ast.BinaryExpr
			var cmpVar types.Object
			ast.Inspect(t.Decode.Body, func(n ast.Node) bool {
				be, ok := n.(*ast.BinaryExpr)
				if !ok || (be.Op != token.NEQ && be.Op != token.EQL) {
					return true
				}
				for _, pr := range [][2]ast.Expr{{be.X, be.Y}, {be.Y, be.X}} {
					if recvField(t.Decode, pr[1]) == fld {
						if o := kit.ObjOf(t.Decode.Info(), pr[0]); o != nil {
							if _, isWord := fd.wordReads[o]; isWord {
								cmp, cmpVar = be, o
							}
						}
					}
				}
				return true
			})
			if cmp == nil {
				continue
			}
			nTx++
			o := r.Ob(t.Decode, nil, name+": transaction id", "the role that numbers its requests reads the id from where it wrote it and rejects a response carrying another id")
			rd := fd.wordReads[cmpVar]
			if rd[0].(int64) != w[0].(int64) || rd[1].(string) != w[1].(string) || w[1].(string) == "" {
				o.Violation("the id is written at byte %d (%s-endian) and read from byte %d (%s-endian)", w[0], w[1], rd[0], rd[1])
				continue
			}
			// the role constant under which the encoder advances the id
			roleFld, roleVal, roleOK := c19IncrementGuard(c, t.Encode, fld)
			oAdv := r.Ob(t.Encode, fe.wordCall[fld], name+": fresh transaction id", "in the requesting role every encode advances the transaction id exactly once, on every path, before writing it: two requests never carry the same id")
			if !roleOK {
				oAdv.Undecided("no increment of %s under a `role == constant` guard found in the encoder", fld.Name())
				o.Undecided("the encoder does not advance %s under a `role == constant` guard before writing it", fld.Name())
				continue
			}
			c19FreshID(c, oAdv, t.Encode, fld, roleFld, roleVal, fe.wordCall[fld])
			st := &kit.Std{F: t.Decode}
			dinfo := t.Decode.Info()
			st.Eval.Atom = func(e ast.Expr) (string, bool, bool) {
				e = mbCond(t.Decode, e)
				if ast.Unparen(e) == ast.Expr(cmp) {
					return "idne", cmp.Op == token.EQL, true
				}
				if a, b, op, ok := kit.CmpAtom(e); ok && (op == token.EQL || op == token.NEQ) {
					for _, pr := range [][2]ast.Expr{{a, b}, {b, a}} {
						if recvField(t.Decode, pr[0]) == roleFld {
							if s, isC := kit.ConstString(dinfo, pr[1]); isC {
								if s == roleVal {
									return "role", op == token.NEQ, true
								}
								return "role", op == token.EQL, true // another role: false under role=T
							}
						}
					}
				}
				return "", false, false
			}
			st.OnBranch = func(br kit.Branch, s kit.S) (tt, ff []kit.S, handled bool) {
				if br.Kind == kit.BrCase && br.Tag != nil && recvField(t.Decode, br.Tag) == roleFld {
					if v, isC := kit.ConstString(dinfo, br.Case); isC {
						if v == roleVal {
							return []kit.S{s}, nil, true
						}
						return nil, []kit.S{s}, true
					}
				}
				return nil, nil, false
			}
			bad, und := mbAllExitsError(c, t.Decode, st, kit.NewS().Set("a:role", "T").Set("a:idne", "T"))
			// and a matching id is accepted
			res := c.P.Graph(t.Decode).Run(kit.NewS().Set("a:role", "T").Set("a:idne", "F"), st.Client())
			c.AddValuations(1)
			accepts := false
			for _, e := range res.Exits {
				if e.Return != nil && mbReturnsNil(t.Decode, st, e) == "nil" {
					accepts = true
				}
			}
			switch {
			case bad != "":
				o.Violation("in the requesting role (%s == %q) a response with a different transaction id is accepted: %s", roleFld.Name(), roleVal, bad)
			case und != "":
				o.Undecided("%s", und)
			case !accepts:
				o.Violation("in the requesting role a response with the matching transaction id is never accepted")
			default:
				o.OK("id at byte %d %s-endian; role %q: mismatch → error, match → accepted", w[0], w[1], roleVal)
			}
		}
	}
	if nCRC == 0 {
		c.Fatalf("no checksummed transport found")
	}
	for _, fn := range crcFns {
		c19ChecksumTotal(c, m, r, fn)
	}
	if nTx == 0 {
		c.Fatalf("no transport with a transaction id found")
	}
	boundsRule(c, r, frameFuncs, nil)
}

// incrementsOnce: m is a method of f's receiver type that advances recv.fld
// exactly once on every path ("" = yes, otherwise why not / "no" = it never does).
func incrementsOnce(c *kit.Ctx, h *kit.Func, fld *types.Var, depth int) string {
	if h == nil || h.Decl == nil || h.Decl.Recv == nil || depth > 2 {
		return "no"
	}
	touches := false
	ast.Inspect(h.Body, func(n ast.Node) bool {
		switch y := n.(type) {
		case *ast.IncDecStmt:
			if recvField(h, y.X) == fld {
				touches = true
			}
		case *ast.AssignStmt:
			for _, l := range y.Lhs {
				if recvField(h, l) == fld {
					touches = true
				}
			}
		}
		return true
	})
	if !touches {
		return "no"
	}
	st := &kit.Std{F: h}
	st.OnNode = func(n ast.Node, s kit.S) []kit.S {
		return []kit.S{countAdvance(c, h, fld, n, s, depth)}
	}
	res := c.P.Graph(h).Run(kit.NewS(), st.Client())
	c.AddValuations(1)
	for _, e := range res.Exits {
		if e.State.Get("inc") != "1" {
			return "it advances the id " + map[string]string{"": "0", "2+": "2 or more", "?": "an unknown number of"}[e.State.Get("inc")] + " times on some path"
		}
	}
	return ""
}

// countAdvance updates the "inc" counter of s for node n of f: recv.fld++,
// recv.fld += 1, or a call of a receiver method that advances it exactly once.
func countAdvance(c *kit.Ctx, f *kit.Func, fld *types.Var, n ast.Node, s kit.S, depth int) kit.S {
	bump := func(s kit.S) kit.S {
		switch s.Get("inc") {
		case "":
			return s.Set("inc", "1")
		case "1", "2+":
			return s.Set("inc", "2+")
		}
		return s
	}
	switch y := n.(type) {
	case *ast.IncDecStmt:
		if recvField(f, y.X) == fld {
			if y.Tok == token.INC {
				return bump(s)
			}
			return s.Set("inc", "?")
		}
	case *ast.AssignStmt:
		for _, l := range y.Lhs {
			if recvField(f, l) == fld {
				if y.Tok == token.ADD_ASSIGN && len(y.Rhs) == 1 {
					if k, isC := kit.ConstInt(f.Info(), y.Rhs[0]); isC && k == 1 {
						return bump(s)
					}
				}
				return s.Set("inc", "?")
			}
		}
	}
	for _, call := range kit.CallsIn(n) {
		sel, ok := ast.Unparen(call.Fun).(*ast.SelectorExpr)
		if !ok || kit.ObjOf(f.Info(), sel.X) != recvObj(f) {
			continue
		}
		h := f.CalleeFunc(call)
		switch why := incrementsOnce(c, h, fld, depth+1); why {
		case "":
			s = bump(s)
		case "no":
		default:
			s = s.Set("inc", "?")
		}
	}
	return s
}

// c19FreshID: with role == roleVal, every path of the encoder reaches the
// write of the id having advanced it exactly once.
func c19FreshID(c *kit.Ctx, o *kit.Ob, f *kit.Func, fld, roleFld *types.Var, roleVal string, write *ast.CallExpr) {
	info := f.Info()
	st := &kit.Std{F: f}
	st.Eval.Atom = func(e ast.Expr) (string, bool, bool) {
		e = mbCond(f, e)
		if a, b, op, ok := kit.CmpAtom(e); ok && (op == token.EQL || op == token.NEQ) {
			for _, pr := range [][2]ast.Expr{{a, b}, {b, a}} {
				if recvField(f, pr[0]) == roleFld {
					if s, isC := kit.ConstString(info, pr[1]); isC {
						if s == roleVal {
							return "role", op == token.NEQ, true
						}
						return "role", op == token.EQL, true
					}
				}
			}
		}
		return "", false, false
	}
	st.OnBranch = func(br kit.Branch, s kit.S) (tt, ff []kit.S, handled bool) {
		if br.Kind == kit.BrCase && br.Tag != nil && recvField(f, br.Tag) == roleFld {
			if v, isC := kit.ConstString(info, br.Case); isC {
				if v == roleVal {
					return []kit.S{s}, nil, true
				}
				return nil, []kit.S{s}, true
			}
		}
		return nil, nil, false
	}
	seen := map[string]bool{}
	reached := false
	st.OnNode = func(n ast.Node, s kit.S) []kit.S {
		// the write is observed before the node's own effect is counted
		for _, call := range kit.CallsIn(n) {
			if call == write {
				reached = true
				seen[s.Get("inc")] = true
			}
		}
		return []kit.S{countAdvance(c, f, fld, n, s, 0)}
	}
	c.P.Graph(f).Run(kit.NewS().Set("a:role", "T"), st.Client())
	c.AddValuations(1)
	switch {
	case !reached:
		o.Undecided("the write of the transaction id was not reached")
	case seen[""]:
		o.Violation("in the requesting role (%s == %q) a path reaches `%s` without having advanced %s: the increment is guarded by other state, so two different requests can carry the same transaction id and a late reply to the first is accepted for the second", roleFld.Name(), roleVal, trunc(f.Str(write), 50), fld.Name())
	case seen["2+"]:
		o.Violation("a path advances %s more than once before writing it", fld.Name())
	case seen["?"]:
		o.Undecided("%s is modified in a way that is not a single increment", fld.Name())
	default:
		o.OK("every path to `%s` with %s == %q advances %s exactly once", trunc(f.Str(write), 50), roleFld.Name(), roleVal, fld.Name())
	}
}

// c19IncrementGuard finds the `recv.role == CONST` test that encloses the
// statement advancing recv.fld (an increment or a call of a receiver method
// that always increments it) and returns the role field and the constant.
func c19IncrementGuard(c *kit.Ctx, f *kit.Func, fld *types.Var) (*types.Var, string, bool) {
	info := f.Info()
	var role *types.Var
	val := ""
	found := false
	consider := func(site ast.Node) {
		for n := f.Enclosing(site, func(ast.Node) bool { return true }); n != nil; n = f.Enclosing(n, func(ast.Node) bool { return true }) {
			ifs, ok := n.(*ast.IfStmt)
			if !ok {
				continue
			}
			// the site must be in the then-branch
			if site.Pos() < ifs.Body.Pos() || site.End() > ifs.Body.End() {
				continue
			}
			// conjuncts of the condition
			var conj []ast.Expr
			var split func(e ast.Expr)
			split = func(e ast.Expr) {
				if be, ok := ast.Unparen(e).(*ast.BinaryExpr); ok && be.Op == token.LAND {
					split(be.X)
					split(be.Y)
					return
				}
				conj = append(conj, e)
			}
			split(mbCond(f, ifs.Cond))
			for _, cj := range conj {
				a, b, op, ok := kit.CmpAtom(cj)
				if !ok || op != token.EQL {
					continue
				}
				for _, pr := range [][2]ast.Expr{{a, b}, {b, a}} {
					if rf := recvField(f, pr[0]); rf != nil {
						if s, isC := kit.ConstString(info, pr[1]); isC {
							role, val, found = rf, s, true
						}
					}
				}
			}
		}
	}
	ast.Inspect(f.Body, func(n ast.Node) bool {
		switch y := n.(type) {
		case *ast.IncDecStmt:
			if y.Tok == token.INC && recvField(f, y.X) == fld {
				consider(y)
			}
		case *ast.AssignStmt:
			if y.Tok == token.ADD_ASSIGN && len(y.Lhs) == 1 && recvField(f, y.Lhs[0]) == fld {
				consider(y)
			}
		case *ast.CallExpr:
			if sel, ok := ast.Unparen(y.Fun).(*ast.SelectorExpr); ok && kit.ObjOf(info, sel.X) == recvObj(f) {
				if incrementsOnce(c, f.CalleeFunc(y), fld, 1) == "" {
					consider(y)
				}
			}
		}
		return true
	})
	return role, val, found
}
