package props

import (
	"fmt"
	"go/ast"
	"go/token"
	"go/types"
	"sort"
	"strconv"
	"strings"
	"time"

	"siotcheck/kit"
)

// A window may carry, besides its two instants, the weekday of the day it
// starts on (computed once where the windows are built, so that the weekday
// filter compares a field instead of calling <start>.Weekday()).  C14 then
// needs: for every window that reaches the filters, the stored weekday IS the
// weekday of that window's own start.  The start of a window is known
// symbolically as "the schedule's start/end time on t's UTC day ± k days", so
// its weekday is (W + k) mod 7 with W the UTC weekday of t.  W has seven
// values: the predicate is run once per value (state key "W") and every
// integer expression over W — Weekday() of t's UTC reading or of a tracked
// instant, constants, + - * / %, conversions — is evaluated with Go's
// arithmetic (truncated division: -1 % 7 == -1).  Conditions over such values
// are folded; one that is not folded marks the path ("wcorr") and the
// comparison at the filters is then left undecided instead of guessed.

func c14Mod7(k int64) int64 { return ((k % 7) + 7) % 7 }

// wdVal: value of an integer expression over the weekday of t under the
// enumerated W.  ok=false: not derivable.
func (p *c14Pred) wdVal(e ast.Expr, s kit.S) (int64, bool) {
	if p.cm.wdCache == nil || !s.Has("W") {
		return 0, false
	}
	w, err := strconv.ParseInt(s.Get("W"), 10, 64)
	if err != nil {
		return 0, false
	}
	e = ast.Unparen(e)
	if k, ok := kit.ConstInt(p.info, e); ok {
		return k, true
	}
	switch x := e.(type) {
	case *ast.Ident:
		if r := p.res(x); r != ast.Expr(x) {
			return p.wdVal(r, s)
		}
		if o := kit.ObjOf(p.info, x); o != nil {
			if v := s.Get("ex:" + kit.VarID(o)); strings.HasPrefix(v, "w:") {
				k, err := strconv.ParseInt(v[2:], 10, 64)
				return k, err == nil
			}
		}
	case *ast.CallExpr:
		// int(x) / time.Weekday(x): conversions between int-sized integers
		if len(x.Args) == 1 {
			if tv, ok := p.info.Types[x.Fun]; ok && tv.IsType() {
				if b, isB := tv.Type.Underlying().(*types.Basic); isB && (b.Kind() == types.Int || b.Kind() == types.Int64) {
					return p.wdVal(x.Args[0], s)
				}
				return 0, false
			}
		}
		if name, rx, ok := c14TimeMethod(p.info, x); ok && name == "Weekday" {
			if p.isUTCOfT(rx, s) {
				return w, true
			}
			if inst := p.instant(rx, s); inst != "?" {
				off, err := strconv.ParseInt(inst[1:], 10, 64)
				if err == nil {
					return c14Mod7(w + off), true
				}
			}
		}
	case *ast.BinaryExpr:
		a, okA := p.wdVal(x.X, s)
		b, okB := p.wdVal(x.Y, s)
		if !okA || !okB {
			return 0, false
		}
		return c14IntOp(a, b, x.Op)
	case *ast.UnaryExpr:
		if a, ok := p.wdVal(x.X, s); ok {
			switch x.Op {
			case token.SUB:
				return -a, true
			case token.ADD:
				return a, true
			}
		}
	case *ast.SelectorExpr:
		base, fv, ok := kit.FieldSel(p.info, x)
		if !ok || fv != p.cm.wdCache {
			return 0, false
		}
		comp := "?"
		if _, isLit := p.isWindowLit(base); !isLit {
			if win, isW := p.windowOf(base, s); isW {
				comp = win[2]
			}
		}
		if ix, isIx := ast.Unparen(base).(*ast.IndexExpr); isIx {
			if lo := kit.ObjOf(p.info, ix.X); lo != nil {
				ps, known := c14ParseList(s.Get("wl:" + kit.VarID(lo)))
				if i, okI := kit.ConstInt(p.info, ix.Index); known && okI && i >= 0 && int(i) < len(ps) {
					comp = ps[i][2]
				}
			}
		}
		k, err := strconv.ParseInt(comp, 10, 64)
		return k, err == nil
	}
	return 0, false
}

// c14IntOp: Go's integer arithmetic on int64 (division truncates toward zero,
// the remainder takes the sign of the dividend).
func c14IntOp(a, b int64, op token.Token) (int64, bool) {
	switch op {
	case token.ADD, token.ADD_ASSIGN:
		return a + b, true
	case token.SUB, token.SUB_ASSIGN:
		return a - b, true
	case token.MUL, token.MUL_ASSIGN:
		return a * b, true
	case token.QUO, token.QUO_ASSIGN:
		if b != 0 {
			return a / b, true
		}
	case token.REM, token.REM_ASSIGN:
		if b != 0 {
			return a % b, true
		}
	}
	return 0, false
}

func (p *c14Pred) wdStr(e ast.Expr, s kit.S) string {
	if k, ok := p.wdVal(e, s); ok {
		return strconv.FormatInt(k, 10)
	}
	return "?"
}

// wdMentions: e reads a value that depends on the weekday of t (a tracked
// variable, a Weekday() call, the window's weekday field).
func (p *c14Pred) wdMentions(e ast.Node, s kit.S) bool {
	if p.cm.wdCache == nil || e == nil {
		return false
	}
	found := false
	ast.Inspect(e, func(n ast.Node) bool {
		switch x := n.(type) {
		case *ast.FuncLit:
			return false
		case *ast.Ident:
			if o := kit.ObjOf(p.info, x); o != nil {
				if _, isVar := o.(*types.Var); isVar && (strings.HasPrefix(s.Get("ex:"+kit.VarID(o)), "w:") || kit.IsNamedType(o.Type(), "time", "Weekday")) {
					found = true
				}
			}
		case *ast.CallExpr:
			if name, _, ok := c14TimeMethod(p.info, x); ok && name == "Weekday" {
				found = true
			}
		case *ast.SelectorExpr:
			if _, fv, ok := kit.FieldSel(p.info, x); ok && fv == p.cm.wdCache {
				found = true
			}
		}
		return !found
	})
	return found
}

// wdFold decides a comparison between two integer expressions over W.
func (p *c14Pred) wdFold(e ast.Expr, s kit.S) (bool, bool) {
	a, b, op, ok := kit.CmpAtom(e)
	if !ok || !p.wdMentions(e, s) {
		return false, false
	}
	va, okA := p.wdVal(a, s)
	vb, okB := p.wdVal(b, s)
	if !okA || !okB {
		return false, false
	}
	switch op {
	case token.LSS, token.LEQ, token.GTR, token.GEQ, token.EQL, token.NEQ:
		return c14RankHolds(int(va), int(vb), op), true
	}
	return false, false
}

// wdCompound handles `v op= e` and v++ / v-- on a tracked weekday value.
func (p *c14Pred) wdCompound(lhs ast.Expr, op token.Token, rhs ast.Expr, s kit.S) kit.S {
	o := kit.ObjOf(p.info, lhs)
	if o == nil {
		return s
	}
	if _, isId := ast.Unparen(lhs).(*ast.Ident); !isId {
		return s
	}
	key := "ex:" + kit.VarID(o)
	a, okA := p.wdVal(lhs, s)
	b, okB := int64(1), true
	if rhs != nil {
		b, okB = p.wdVal(rhs, s)
	}
	s = s.Del(key)
	if okA && okB {
		if op == token.INC {
			op = token.ADD
		} else if op == token.DEC {
			op = token.SUB
		}
		if v, ok := c14IntOp(a, b, op); ok {
			s = s.Set(key, fmt.Sprintf("w:%d", v))
		}
	}
	return s
}

// c14WdObs: the weekdays stored in the windows of the list when it reaches the
// first filter, for one weekday of t.
type c14WdObs struct {
	w     int      // UTC weekday of t
	se    string   // ordering of start/end ("lt", "eq", "gt")
	list  string   // the windows (instants only)
	wds   []string // stored weekday per window
	wcorr bool     // the path passed an uninterpreted condition over the weekday
	at    ast.Node
}

// c14WeekdayCache judges the stored weekdays (a clause of R4: the weekday the
// filter compares is the weekday of the window's own start).
func c14WeekdayCache(c *kit.Ctx, cm *c14Model, p *c14Pred, res *c14PredResult, r4 *kit.Rule) {
	if cm.wdCache == nil {
		return
	}
	f := p.f
	o := r4.Ob(f, nil, "weekday kept with the window", fmt.Sprintf("for each of the 7 UTC weekdays of t and each ordering of start/end, every window that reaches the filters holds in `%s` the weekday of its own start", cm.wdCache.Name()))
	if cm.startIdx < 0 {
		o.Undecided("window field roles unknown (see R3)")
		return
	}
	// the field must not be written where the symbolic run does not look
	for _, g := range c.P.Funcs(ruClientPkg) {
		if g.Body == nil || g.Outer != nil || g == f || c14RecvNamed(g) == cm.ch.sched {
			continue
		}
		info := g.Info()
		where := ""
		ast.Inspect(g.Body, func(n ast.Node) bool {
			switch x := n.(type) {
			case *ast.AssignStmt:
				for _, l := range x.Lhs {
					if _, fv, ok := kit.FieldSel(info, l); ok && fv == cm.wdCache {
						where = g.At(x)
					}
				}
			case *ast.IncDecStmt:
				if _, fv, ok := kit.FieldSel(info, x.X); ok && fv == cm.wdCache {
					where = g.At(x)
				}
			case *ast.UnaryExpr:
				if _, fv, ok := kit.FieldSel(info, x.X); ok && x.Op == token.AND && fv == cm.wdCache {
					where = g.At(x)
				}
			case *ast.CompositeLit:
				if t := info.TypeOf(x); t != nil && types.Identical(types.Unalias(t), cm.tr) {
					where = g.At(x)
				}
			}
			return true
		})
		if where != "" {
			o.Undecided("`%s` is also written (or a window is built) in %s at %s, outside the predicate that is evaluated symbolically", cm.wdCache.Name(), g.Name, where)
			return
		}
	}
	if len(res.wdObs) == 0 {
		o.Undecided("no window list with stored weekdays reaches the filters")
		return
	}
	day := func(k int64) string { return time.Weekday(k).String() }
	seDesc := map[string]string{"lt": "start 08:00, end 17:00", "eq": "start 08:00, end 08:00", "gt": "start 22:00, end 06:00"}
	var viol, undec []string
	seen := map[string]bool{}
	wrongDays := map[string]int{} // window start → number of weekdays of t with a wrong stored weekday
	n := 0
	// witnesses are taken from the wrapping schedule first
	obs := append([]c14WdObs(nil), res.wdObs...)
	sort.SliceStable(obs, func(i, j int) bool { return obs[i].se == "gt" && obs[j].se != "gt" })
	for _, ob := range obs {
		ps, known := c14ParseList(ob.list)
		if !known {
			undec = append(undec, fmt.Sprintf("the window list reaching %s is not tracked (see R3)", f.At(ob.at)))
			continue
		}
		for i, win := range ps {
			start := win[cm.startIdx]
			if len(start) < 2 || (start[0] != 'S' && start[0] != 'E') {
				undec = append(undec, fmt.Sprintf("the start of window %d reaching %s is not a recognised instant (see R3)", i, f.At(ob.at)))
				continue
			}
			off, err := strconv.ParseInt(start[1:], 10, 64)
			if err != nil || i >= len(ob.wds) {
				undec = append(undec, fmt.Sprintf("the start of window %d reaching %s is not a recognised instant (see R3)", i, f.At(ob.at)))
				continue
			}
			want := c14Mod7(int64(ob.w) + off)
			got, err := strconv.ParseInt(ob.wds[i], 10, 64)
			n++
			switch {
			case err != nil:
				undec = append(undec, fmt.Sprintf("the weekday stored in the window starting at %s (list reaching %s) is not derivable from the weekday of t", c14Human(start), f.At(ob.at)))
			case got == want:
			case ob.wcorr:
				undec = append(undec, fmt.Sprintf("the weekday stored in the window starting at %s depends on a condition over the weekday that the checker does not interpret", c14Human(start)))
			default:
				// one witness per window; the other weekdays of t are counted
				k := fmt.Sprint(start, ob.w)
				if seen[k] {
					continue
				}
				seen[k] = true
				wrongDays[start]++
				if wrongDays[start] > 1 {
					continue
				}
				gotName, also := fmt.Sprintf("%d, which is no weekday", got), ""
				if got >= 0 && got <= 6 {
					gotName = fmt.Sprintf("%d (%s)", got, day(got))
					also = fmt.Sprintf(", and a filter {%s} keeps it although it is not", day(got))
				}
				viol = append(viol, fmt.Sprintf("witness: t on a %s (UTC), %s → the window starting at %s begins on a %s, but `%s` holds %s when the list reaches %s; a weekday filter {%s} drops this window although its start day is allowed%s",
					day(int64(ob.w)), seDesc[ob.se], c14Human(start), day(want), cm.wdCache.Name(), gotName, f.At(ob.at), day(want), also))
			}
		}
	}
	switch {
	case len(viol) > 0:
		var starts []string
		for st := range wrongDays {
			starts = append(starts, st)
		}
		sort.Strings(starts)
		for _, st := range starts {
			viol = append(viol, fmt.Sprintf("the window starting at %s holds a wrong weekday for %d of the 7 weekdays of t", c14Human(st), wrongDays[st]))
		}
		if sites := c14WeekdayStores(cm, f); len(sites) > 0 {
			viol = append(viol, fmt.Sprintf("`%s` is filled by %s (Go's %% keeps the sign of the dividend; a day before Sunday is Saturday = 6, a day after Saturday is Sunday = 0)", cm.wdCache.Name(), strings.Join(sites, ", ")))
		}
		o.Violation("%s", strings.Join(viol, "; "))
	case len(undec) > 0:
		o.Undecided("%s", strings.Join(uniqStrings(undec), "; "))
	case n == 0:
		o.Undecided("no window with a stored weekday reaches the filters")
	default:
		o.OK("%d stored weekdays (7 weekdays of t × 3 orderings × windows) equal the weekday of the window's start", n)
	}
}

// c14WeekdayStores lists, for a message, the expressions stored into the
// window's weekday field in f: values in window literals and assignments.
func c14WeekdayStores(cm *c14Model, f *kit.Func) []string {
	info := f.Info()
	st, _ := cm.tr.Underlying().(*types.Struct)
	var out []string
	ast.Inspect(f.Body, func(n ast.Node) bool {
		switch x := n.(type) {
		case *ast.CompositeLit:
			if t := info.TypeOf(x); t == nil || !types.Identical(types.Unalias(t), cm.tr) {
				return true
			}
			for i, el := range x.Elts {
				if kv, ok := el.(*ast.KeyValueExpr); ok {
					if kid, ok := kv.Key.(*ast.Ident); ok && info.Uses[kid] == types.Object(cm.wdCache) {
						out = append(out, fmt.Sprintf("`%s` at %s", f.Str(kv.Value), f.At(kv.Value)))
					}
				} else if st != nil && i < st.NumFields() && st.Field(i) == cm.wdCache {
					out = append(out, fmt.Sprintf("`%s` at %s", f.Str(el), f.At(el)))
				}
			}
		case *ast.AssignStmt:
			for i, l := range x.Lhs {
				if _, fv, ok := kit.FieldSel(info, l); ok && fv == cm.wdCache && len(x.Lhs) == len(x.Rhs) {
					out = append(out, fmt.Sprintf("`%s` at %s", f.Str(x.Rhs[i]), f.At(x)))
				}
			}
		}
		return true
	})
	return out
}
