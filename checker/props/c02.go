package props

import (
	"fmt"
	"go/ast"
	"go/constant"
	"go/token"
	"go/types"
	"reflect"
	"sort"
	"strings"

	"siotcheck/kit"
)

func init() {
	kit.Register(&kit.Prop{
		ID:    "C02",
		Title: "Linked instances converge on the shared device tree",
		Explanation: "Structural necessary conditions of the catch-up and forwarding code of the sync client (DESIGN.md §3/C02): " +
			"R1 every *nats.Conn field of the sync client carries connections of one instance only (REMOTE = opened with the URI of the config field tagged point:\"uri\", LOCAL = the constructor parameter or a connection opened with the URI asked from it); " +
			"R2 direction tables of the function that compares the LOCAL and the REMOTE copy of a node, decided by executing the comparison region abstractly under every scenario with at most two points / children per list (all partial matchings x all orderings of the two timestamps resp. equal/different hashes x device-root yes/no): " +
			"the newer or only copy of a node point / edge point is sent to the side that lacks it, a child found on one side only is handed to the transfer function towards the other side, a child whose hashes differ is compared recursively; " +
			"R3 a transfer function lists the children of the node it sends on the side the node comes from, and every call hands it a node fetched from that side; " +
			"R4 the two child listings of the recursive descent take the same (type, includeDeleted) arguments and include deleted children, since the stored hash ranges over tombstoned edges; " +
			"R5 every point subscription of the sync client forwards the decoded (id[, parent], points) unchanged to the other instance; " +
			"R6 the comparing function returns success only after it fetched the node from both instances (no shortcut decided from local state); " +
			"R7 (package store) the hash the catch-up prunes on commits together with the rows it covers: on every transaction a Commit that follows an INSERT into node_points / edge_points / edges also follows the statement that stores edges.hash, executed on the same transaction (callees summarised by what they may run on a transaction parameter; a store skipped for a zero delta is accepted); " +
			"R8 every \"link is up\" report reaches the run loop: the callbacks the REMOTE connect options register for connect and reconnect end, on every path, with a send of the value that makes the run loop catch up on the link-state channel, made by a plain send or a select whose only alternatives end the client (no default arm, no timeout), and no callback reports from a goroutine of its own. " +
			"Not decided: message loss and ordering on NATS, how long the run loop takes to return to its select, convergence over histories, the discovery handshake for nodes created upstream, the undelete special case, scenarios with more than two entries per list, that the stored hash value is the right one (C03).",
		Assumptions: []string{
			"a point that is older than or equal to the stored one is ignored by the receiving store (C01), hence superfluous sends are harmless and only missing ones are reported",
			"point identities (type, key) are unique within the point list of a node; child ids are unique within a listing",
			"GetNodes(parent, id) returns edges of the node `id`, so both copies carry the same id and, for a non-root node, the same parent",
			"NATS delivers requests and publications; errors returned by a send abort the judged path",
			"the polarity of the boolean guard around the upstream forward in the run loop (`connected`) is not decided",
			"the nats client runs the callbacks of one connection one after the other, in the order of the events (R8 relies on it for the order of reports)",
			"a \"link is down\" report may be lost: the blocking \"up\" report of the reconnect still arrives after it",
		},
		Run: runC02,
	})
}

const (
	c02Local  = "LOCAL"
	c02Remote = "REMOTE"
)

func c02Other(side string) string {
	if side == c02Local {
		return c02Remote
	}
	if side == c02Remote {
		return c02Local
	}
	return ""
}

// c02Model is what the rules share about package client.
type c02Model struct {
	c        *kit.Ctx
	info     *types.Info
	syncT    *types.Named
	cfgF     *types.Var // config field of the sync client
	uriF     *types.Var // field tagged point:"uri" of the config struct
	connFs   []*types.Var
	side     map[*types.Var]string // conn field -> side
	rootSide map[*types.Var]string // data.NodeEdge fields of the sync client -> side they were fetched from
	funcs    []*kit.Func           // methods of the sync client and the literals in them
	decls    []*kit.Func           // declared functions of package client

	connect    *kit.Func  // options -> (*nats.Conn, error)
	connectURI *types.Var // options field that reaches nats.Connect

	fetch                    *kit.Func // (conn, parent, id, type, includeDeleted) -> ([]NodeEdge, error)
	aParent, aID, aTyp, aDel int       // argument positions of fetch

	nodeEdge             *types.Named
	pointsF, edgePointsF *types.Var // point lists of data.NodeEdge
	idF, parentF, hashF  *types.Var

	transfers []*c02Transfer

	// the comparing function and its two copies
	F            *kit.Func
	L, U         types.Object
	fetchL       *ast.CallExpr
	fetchU       *ast.CallExpr
	pParent, pID types.Object // objects passed as (parent, id) to both fetches
}

// c02Transfer describes a function that copies a node and its subtree from
// one instance to the other.  Three shapes:
//   - direct: sends over a typed field and lists children over a typed field;
//   - core: destination and source connection are parameters (destP, srcP);
//   - wrapper / call of a core: dest and src are the sides of the connection
//     arguments at that call (via).
type c02Transfer struct {
	f        *kit.Func
	node     *types.Var
	nodeIdx  int // position of the node among the parameters
	send     *ast.CallExpr
	list     *ast.CallExpr
	loop     *ast.RangeStmt
	listVar  types.Object
	dest     string
	src      string
	selfCall *ast.CallExpr

	destP, srcP       *types.Var // core
	destIdx, srcIdx   int
	core              *c02Transfer  // wrapper or dynamic call: the core it calls
	via               *ast.CallExpr // wrapper: its call of the core
	problem, problemQ string        // core/direct shape: violation text / undecided text
}

func c02IsConn(t types.Type) bool {
	_, ptr := t.(*types.Pointer)
	return ptr && kit.IsNamedType(t, natsPkg, "Conn")
}

func c02IsNodeEdge(t types.Type) bool {
	_, ptr := t.(*types.Pointer)
	return !ptr && kit.IsNamedType(t, dataPkg, "NodeEdge")
}

func c02IsNodeEdgeSlice(t types.Type) bool {
	if t == nil {
		return false
	}
	sl, ok := t.Underlying().(*types.Slice)
	return ok && c02IsNodeEdge(sl.Elem())
}

func c02IsString(t types.Type) bool {
	b, ok := t.Underlying().(*types.Basic)
	return ok && b.Kind() == types.String
}

func c02IsPoint(t types.Type) bool {
	_, ptr := t.(*types.Pointer)
	return !ptr && kit.IsNamedType(t, dataPkg, "Point")
}

func c02IsPoints(t types.Type) bool {
	if t == nil {
		return false
	}
	sl, ok := t.Underlying().(*types.Slice)
	return ok && c02IsPoint(sl.Elem())
}

// clientFn returns the package-level function of package client a call
// resolves to (nil for methods and foreign functions).
func (m *c02Model) clientFn(info *types.Info, call *ast.CallExpr) *types.Func {
	fn, ok := kit.Callee(info, call).(*types.Func)
	if !ok || fn.Pkg() == nil || fn.Pkg().Path() != clientPkg {
		return nil
	}
	if fn.Type().(*types.Signature).Recv() != nil {
		return nil
	}
	return fn
}

// connFirst reports whether fn takes the connection as its first parameter.
func c02ConnFirst(fn *types.Func) bool {
	if fn == nil {
		return false
	}
	ps := fn.Type().(*types.Signature).Params()
	return ps.Len() > 0 && c02IsConn(ps.At(0).Type())
}

// connSide types a connection expression (a selector of a typed field).
func (m *c02Model) connSide(e ast.Expr) string {
	if sel, ok := ast.Unparen(e).(*ast.SelectorExpr); ok {
		if v, ok := kit.ObjOf(m.info, sel).(*types.Var); ok && v.IsField() {
			return m.side[v]
		}
	}
	return ""
}

func (m *c02Model) isMethodOfSync(f *kit.Func) bool {
	root := f.Root()
	if root.Decl == nil || root.Decl.Recv == nil || len(root.Decl.Recv.List) == 0 {
		return false
	}
	t := m.info.TypeOf(root.Decl.Recv.List[0].Type)
	if p, ok := t.(*types.Pointer); ok {
		t = p.Elem()
	}
	n, ok := types.Unalias(t).(*types.Named)
	return ok && n.Obj() == m.syncT.Obj()
}

func c02StructField(t types.Type, name string) *types.Var {
	st, ok := t.Underlying().(*types.Struct)
	if !ok {
		return nil
	}
	for i := 0; i < st.NumFields(); i++ {
		if st.Field(i).Name() == name {
			return st.Field(i)
		}
	}
	return nil
}

// ---------------------------------------------------------------------------
// discovery

func c02Discover(c *kit.Ctx) *c02Model {
	pk := c.P.MustPkg("client")
	m := &c02Model{c: c, info: pk.TypesInfo, side: map[*types.Var]string{}, rootSide: map[*types.Var]string{}}

	// data.NodeEdge and its fields
	dpk := c.P.MustPkg("data")
	if tn, ok := dpk.Types.Scope().Lookup("NodeEdge").(*types.TypeName); ok {
		m.nodeEdge, _ = tn.Type().(*types.Named)
	}
	if m.nodeEdge == nil {
		c.Fatalf("type data.NodeEdge not found")
	}
	m.pointsF = c02StructField(m.nodeEdge, "Points")
	m.edgePointsF = c02StructField(m.nodeEdge, "EdgePoints")
	m.idF = c02StructField(m.nodeEdge, "ID")
	m.parentF = c02StructField(m.nodeEdge, "Parent")
	m.hashF = c02StructField(m.nodeEdge, "Hash")
	if m.pointsF == nil || m.edgePointsF == nil || m.idF == nil || m.parentF == nil || m.hashF == nil ||
		!c02IsPoints(m.pointsF.Type()) || !c02IsPoints(m.edgePointsF.Type()) {
		c.Fatalf("data.NodeEdge no longer has ID, Parent, Hash and the two point lists Points / EdgePoints")
	}

	// the sync client: the struct with at least two connection fields and a
	// config struct that has a field tagged point:"uri"
	var cands []*types.Named
	scope := pk.Types.Scope()
	for _, name := range scope.Names() {
		tn, ok := scope.Lookup(name).(*types.TypeName)
		if !ok {
			continue
		}
		named, ok := tn.Type().(*types.Named)
		if !ok {
			continue
		}
		st, ok := named.Underlying().(*types.Struct)
		if !ok {
			continue
		}
		var conns []*types.Var
		var cfg, uri *types.Var
		for i := 0; i < st.NumFields(); i++ {
			f := st.Field(i)
			if c02IsConn(f.Type()) {
				conns = append(conns, f)
			}
			if fs, ok := f.Type().Underlying().(*types.Struct); ok {
				for j := 0; j < fs.NumFields(); j++ {
					if reflect.StructTag(fs.Tag(j)).Get("point") == "uri" && c02IsString(fs.Field(j).Type()) {
						cfg, uri = f, fs.Field(j)
					}
				}
			}
		}
		if len(conns) >= 2 && cfg != nil {
			cands = append(cands, named)
			m.syncT, m.connFs, m.cfgF, m.uriF = named, conns, cfg, uri
		}
	}
	if len(cands) != 1 {
		c.Fatalf("sync client not identified: %d struct types of package client have two *nats.Conn fields and a config field with a point:\"uri\" member", len(cands))
	}

	for _, f := range c.P.Funcs("client") {
		if f.Body == nil {
			continue
		}
		if f.Decl != nil {
			m.decls = append(m.decls, f)
		}
		if m.isMethodOfSync(f) {
			m.funcs = append(m.funcs, f)
		}
	}
	if len(m.funcs) == 0 {
		c.Fatalf("the sync client %s has no methods", m.syncT.Obj().Name())
	}

	m.findConnect()
	m.findFetch()
	return m
}

// findConnect: the function options-struct -> (*nats.Conn, error) and the
// options field that reaches the first argument of nats.Connect.
func (m *c02Model) findConnect() {
	c := m.c
	for _, f := range m.decls {
		if f.Decl.Recv != nil || f.Obj == nil {
			continue
		}
		sig := f.Obj.Type().(*types.Signature)
		if sig.Params().Len() != 1 || sig.Results().Len() != 2 || !c02IsConn(sig.Results().At(0).Type()) {
			continue
		}
		opt := sig.Params().At(0)
		if _, ok := opt.Type().Underlying().(*types.Struct); !ok {
			continue
		}
		var field *types.Var
		n := 0
		for _, call := range f.AllCalls(false) {
			if !kit.CallIs(m.info, call, natsPkg+".Connect") || len(call.Args) == 0 {
				continue
			}
			n++
			field = m.traceOptField(f, call.Args[0], opt, 0)
		}
		if n == 1 && field != nil {
			if m.connect != nil {
				c.Fatalf("more than one connect function (options -> *nats.Conn) in package client")
			}
			m.connect, m.connectURI = f, field
		}
	}
	if m.connect == nil {
		c.Fatalf("connect function (options struct -> (*nats.Conn, error) whose options field reaches nats.Connect) not found")
	}
	c.Analysed(m.connect)
}

// traceOptField follows e back to `opt.<field>` through single local
// assignments and call arguments.
func (m *c02Model) traceOptField(f *kit.Func, e ast.Expr, opt *types.Var, depth int) *types.Var {
	if depth > 4 {
		return nil
	}
	e = ast.Unparen(e)
	switch x := e.(type) {
	case *ast.SelectorExpr:
		if kit.ObjOf(m.info, x.X) == types.Object(opt) {
			if v, ok := kit.ObjOf(m.info, x).(*types.Var); ok && v.IsField() && c02IsString(v.Type()) {
				return v
			}
		}
	case *ast.Ident:
		o := kit.ObjOf(m.info, x)
		if o == nil {
			return nil
		}
		var found *types.Var
		cnt := 0
		ast.Inspect(f.Body, func(n ast.Node) bool {
			as, ok := n.(*ast.AssignStmt)
			if !ok {
				return true
			}
			for i, l := range as.Lhs {
				if kit.ObjOf(m.info, l) != o {
					continue
				}
				cnt++
				var rhs ast.Expr
				if len(as.Rhs) == len(as.Lhs) {
					rhs = as.Rhs[i]
				} else if len(as.Rhs) == 1 && i == 0 {
					rhs = as.Rhs[0]
				}
				if rhs != nil {
					found = m.traceOptField(f, rhs, opt, depth+1)
				}
			}
			return true
		})
		if cnt == 1 {
			return found
		}
	case *ast.CallExpr:
		var got *types.Var
		for _, a := range x.Args {
			if v := m.traceOptField(f, a, opt, depth+1); v != nil {
				if got != nil && got != v {
					return nil
				}
				got = v
			}
		}
		return got
	}
	return nil
}

// findFetch: (conn, 3 strings, bool) -> ([]NodeEdge, error) that requests
// "nodes.<parent>.<id>".
func (m *c02Model) findFetch() {
	c := m.c
	for _, f := range m.decls {
		if f.Decl.Recv != nil || f.Obj == nil {
			continue
		}
		sig := f.Obj.Type().(*types.Signature)
		if !c02ConnFirst(f.Obj) || sig.Results().Len() != 2 || !c02IsNodeEdgeSlice(sig.Results().At(0).Type()) {
			continue
		}
		var strs []int
		del := -1
		okShape := true
		for i := 1; i < sig.Params().Len(); i++ {
			t := sig.Params().At(i).Type()
			switch {
			case c02IsString(t):
				strs = append(strs, i)
			default:
				if b, ok := t.Underlying().(*types.Basic); ok && b.Kind() == types.Bool && del < 0 {
					del = i
				} else {
					okShape = false
				}
			}
		}
		if !okShape || len(strs) != 3 || del < 0 {
			continue
		}
		// roles from the subject format
		parent, id := -1, -1
		for _, call := range f.AllCalls(false) {
			if !kit.CallIs(m.info, call, "fmt.Sprintf") || len(call.Args) != 3 {
				continue
			}
			format, ok := kit.ConstString(m.info, call.Args[0])
			if !ok || !strings.HasPrefix(format, "nodes.") || strings.Count(format, "%") != 2 {
				continue
			}
			for i := 1; i < sig.Params().Len(); i++ {
				if kit.ObjOf(m.info, call.Args[1]) == types.Object(f.Params()[i]) {
					parent = i
				}
				if kit.ObjOf(m.info, call.Args[2]) == types.Object(f.Params()[i]) {
					id = i
				}
			}
		}
		if parent < 0 || id < 0 || parent == id {
			continue
		}
		typ := -1
		for _, s := range strs {
			if s != parent && s != id {
				typ = s
			}
		}
		if m.fetch != nil {
			c.Fatalf("more than one node fetch function in package client")
		}
		m.fetch, m.aParent, m.aID, m.aTyp, m.aDel = f, parent, id, typ, del
	}
	if m.fetch == nil {
		c.Fatalf("node fetch function (conn, parent, id, type, includeDeleted) -> ([]data.NodeEdge, error) requesting \"nodes.<parent>.<id>\" not found")
	}
	c.Analysed(m.fetch)
}

func (m *c02Model) isFetch(f *kit.Func, call *ast.CallExpr) bool {
	return f.CalleeFunc(call) == m.fetch && len(call.Args) == m.fetch.Obj.Type().(*types.Signature).Params().Len()
}

// ---------------------------------------------------------------------------
// R1 side typing

type c02Src struct {
	f    *kit.Func // declared function that contains the assignment
	node ast.Node
	rhs  ast.Expr // value, or the multi-value call
}

func (m *c02Model) typeSides(r1 *kit.Rule) {
	c := m.c
	isConnField := func(o types.Object) *types.Var {
		v, ok := o.(*types.Var)
		if !ok || !v.IsField() {
			return nil
		}
		for _, cf := range m.connFs {
			if cf == v {
				return v
			}
		}
		return nil
	}
	srcs := map[*types.Var][]c02Src{}
	rootSrcs := map[*types.Var][]c02Src{}
	for _, f := range m.decls {
		ast.Inspect(f.Body, func(n ast.Node) bool {
			switch x := n.(type) {
			case *ast.CompositeLit:
				t := m.info.TypeOf(x)
				if t == nil {
					return true
				}
				if nn, ok := types.Unalias(t).(*types.Named); !ok || nn.Obj() != m.syncT.Obj() {
					return true
				}
				st := m.syncT.Underlying().(*types.Struct)
				for i, el := range x.Elts {
					var fld *types.Var
					val := el
					if kv, ok := el.(*ast.KeyValueExpr); ok {
						if id, ok := kv.Key.(*ast.Ident); ok {
							fld, _ = kit.ObjOf(m.info, id).(*types.Var)
						}
						val = kv.Value
					} else if i < st.NumFields() {
						fld = st.Field(i)
					}
					if cf := isConnField(fld); cf != nil {
						srcs[cf] = append(srcs[cf], c02Src{f, el, val})
					}
				}
			case *ast.AssignStmt:
				for i, l := range x.Lhs {
					sel, ok := ast.Unparen(l).(*ast.SelectorExpr)
					if !ok {
						continue
					}
					fld, _ := kit.ObjOf(m.info, sel).(*types.Var)
					if fld == nil || !fld.IsField() {
						continue
					}
					var rhs ast.Expr
					if len(x.Rhs) == len(x.Lhs) {
						rhs = x.Rhs[i]
					} else if len(x.Rhs) == 1 && i == 0 {
						rhs = x.Rhs[0]
					}
					if cf := isConnField(fld); cf != nil {
						srcs[cf] = append(srcs[cf], c02Src{f, x, rhs})
					} else if c02IsNodeEdge(fld.Type()) && c02StructField(m.syncT, fld.Name()) == fld {
						rootSrcs[fld] = append(rootSrcs[fld], c02Src{f, x, rhs})
					}
				}
			}
			return true
		})
	}

	classify := func(s c02Src) string {
		if s.rhs == nil {
			return "?"
		}
		e := ast.Unparen(s.rhs)
		if kit.IsNilIdent(m.info, e) {
			return "nil"
		}
		if id, ok := e.(*ast.Ident); ok {
			o := kit.ObjOf(m.info, id)
			if !m.isMethodOfSync(s.f) {
				for _, p := range s.f.Params() {
					if types.Object(p) == o && c02IsConn(p.Type()) {
						return c02Local // the connection the client was constructed with
					}
				}
			}
			return "?"
		}
		if _, ok := e.(*ast.SelectorExpr); ok {
			if sd := m.connSide(e); sd != "" {
				return sd
			}
			return "?"
		}
		call, ok := e.(*ast.CallExpr)
		if !ok || s.f.CalleeFunc(call) != m.connect || len(call.Args) != 1 {
			return "?"
		}
		lit := m.optionsLiteral(s.f, call.Args[0])
		if lit == nil {
			return "?"
		}
		var uri ast.Expr
		for _, el := range lit.Elts {
			if kv, ok := el.(*ast.KeyValueExpr); ok {
				if id, ok := kv.Key.(*ast.Ident); ok && kit.ObjOf(m.info, id) == types.Object(m.connectURI) {
					uri = kv.Value
				}
			}
		}
		if uri == nil {
			return "?"
		}
		return m.uriSide(s.f, uri, 0)
	}

	// fixpoint: a field is typed once all its non-nil sources are typed alike
	verdict := map[*types.Var][]string{}
	for round := 0; round < 4; round++ {
		for _, cf := range m.connFs {
			var sides []string
			for _, s := range srcs[cf] {
				if sd := classify(s); sd != "nil" {
					sides = append(sides, sd)
				}
			}
			verdict[cf] = sides
			u := uniqStrings(sides)
			if len(u) == 1 && u[0] != "?" {
				m.side[cf] = u[0]
			}
		}
	}
	tname := "client." + m.syncT.Obj().Name()
	for _, cf := range m.connFs {
		o := r1.ObAt(c.P, tname, cf.Pos(), "side of connection field "+cf.Name(), "every connection stored in the field belongs to one instance (LOCAL or REMOTE)")
		u := uniqStrings(verdict[cf])
		has := func(x string) bool {
			for _, y := range u {
				if y == x {
					return true
				}
			}
			return false
		}
		switch {
		case has(c02Local) && has(c02Remote):
			var where []string
			for _, s := range srcs[cf] {
				if sd := classify(s); sd == c02Local || sd == c02Remote {
					where = append(where, sd+" at "+s.f.At(s.node))
				}
			}
			o.Violation("field %s receives connections of both instances (%s): every send, fetch and subscription through it reaches the wrong instance on one of the two", cf.Name(), strings.Join(where, ", "))
		case len(u) == 0:
			o.Undecided("field %s is never assigned a connection", cf.Name())
		case has("?"):
			o.Undecided("field %s is assigned a connection whose origin the checker cannot type", cf.Name())
		default:
			o.OK("%s: %d assignment(s)", u[0], len(verdict[cf]))
		}
	}
	nl, nr := 0, 0
	for _, cf := range m.connFs {
		switch m.side[cf] {
		case c02Local:
			nl++
		case c02Remote:
			nr++
		}
	}
	if nl == 0 || nr == 0 {
		r1.ObAt(c.P, tname, m.syncT.Obj().Pos(), "both instances reachable", "at least one LOCAL and one REMOTE connection field").
			Undecided("%d LOCAL and %d REMOTE connection fields typed", nl, nr)
	}

	// cached root nodes: side of the connection they were fetched over
	for fld, ss := range rootSrcs {
		var sides []string
		for _, s := range ss {
			if s.rhs == nil {
				continue
			}
			call, ok := ast.Unparen(s.rhs).(*ast.CallExpr)
			if !ok {
				continue // zero-value reset
			}
			sd := "?"
			if fn := m.clientFn(m.info, call); c02ConnFirst(fn) && len(call.Args) >= 1 {
				if x := m.connSide(call.Args[0]); x != "" {
					sd = x
				}
			}
			sides = append(sides, sd)
		}
		if u := uniqStrings(sides); len(u) == 1 && u[0] != "?" {
			m.rootSide[fld] = u[0]
		}
	}
}

// uriSide types the URI a connection is opened with: the config field tagged
// point:"uri" (REMOTE), or a value obtained by a request over an already
// typed connection (that connection's instance).
func (m *c02Model) uriSide(f *kit.Func, e ast.Expr, depth int) string {
	if depth > 3 {
		return "?"
	}
	e = ast.Unparen(e)
	switch x := e.(type) {
	case *ast.SelectorExpr:
		if kit.ObjOf(m.info, x) == types.Object(m.uriF) {
			if in, ok := ast.Unparen(x.X).(*ast.SelectorExpr); ok && kit.ObjOf(m.info, in) == types.Object(m.cfgF) {
				return c02Remote
			}
		}
	case *ast.CallExpr:
		if len(x.Args) >= 1 && c02ConnFirst(m.clientFn(m.info, x)) {
			if sd := m.connSide(x.Args[0]); sd != "" {
				return sd
			}
		}
	case *ast.Ident:
		o := kit.ObjOf(m.info, x)
		var def ast.Expr
		n := 0
		ast.Inspect(f.Body, func(y ast.Node) bool {
			as, ok := y.(*ast.AssignStmt)
			if !ok {
				return true
			}
			for i, l := range as.Lhs {
				if kit.ObjOf(m.info, l) == o {
					n++
					if len(as.Rhs) == 1 {
						def = as.Rhs[0]
					} else if len(as.Rhs) == len(as.Lhs) {
						def = as.Rhs[i]
					}
				}
			}
			return true
		})
		if n == 1 && def != nil {
			return m.uriSide(f, def, depth+1)
		}
	}
	return "?"
}

// optionsLiteral resolves the argument of the connect call to the composite
// literal that builds the options.
func (m *c02Model) optionsLiteral(f *kit.Func, e ast.Expr) *ast.CompositeLit {
	e = ast.Unparen(e)
	if lit, ok := e.(*ast.CompositeLit); ok {
		return lit
	}
	id, ok := e.(*ast.Ident)
	if !ok {
		return nil
	}
	o := kit.ObjOf(m.info, id)
	var lit *ast.CompositeLit
	n := 0
	ast.Inspect(f.Body, func(x ast.Node) bool {
		switch as := x.(type) {
		case *ast.AssignStmt:
			for i, l := range as.Lhs {
				if kit.ObjOf(m.info, l) == o {
					n++
					if len(as.Rhs) == len(as.Lhs) {
						lit, _ = ast.Unparen(as.Rhs[i]).(*ast.CompositeLit)
					}
				}
				// a field of the options set afterwards makes the literal incomplete
				if sel, ok := ast.Unparen(l).(*ast.SelectorExpr); ok && kit.ObjOf(m.info, sel.X) == o {
					n += 10
				}
			}
		case *ast.ValueSpec:
			for i, nm := range as.Names {
				if m.info.Defs[nm] == o {
					n++
					if i < len(as.Values) {
						lit, _ = ast.Unparen(as.Values[i]).(*ast.CompositeLit)
					}
				}
			}
		}
		return true
	})
	if n != 1 {
		return nil
	}
	return lit
}

// ---------------------------------------------------------------------------
// send signatures

type c02SendSig struct {
	fn              *types.Func
	id, parent, pay int  // argument positions (parent = -1 for node points)
	plural          bool // data.Points payload
}

// sendSig recognises calls of client functions (conn, id[, parent], point(s), …).
func (m *c02Model) sendSig(info *types.Info, call *ast.CallExpr) *c02SendSig {
	fn := m.clientFn(info, call)
	if !c02ConnFirst(fn) {
		return nil
	}
	ps := fn.Type().(*types.Signature).Params()
	sg := &c02SendSig{fn: fn, id: -1, parent: -1, pay: -1}
	for i := 1; i < ps.Len(); i++ {
		t := ps.At(i).Type()
		switch {
		case c02IsString(t) && sg.id < 0:
			sg.id = i
		case c02IsString(t) && sg.parent < 0:
			sg.parent = i
		case c02IsPoint(t):
			sg.pay = i
		case c02IsPoints(t):
			sg.pay, sg.plural = i, true
		default:
			return nil
		}
		if sg.pay >= 0 {
			break
		}
	}
	if sg.pay < 0 || sg.id < 0 || len(call.Args) != ps.Len() {
		return nil
	}
	return sg
}

func (sg *c02SendSig) kind() string {
	if sg.parent >= 0 {
		return "ep"
	}
	return "np"
}

// ---------------------------------------------------------------------------
// R3 transfer functions

func c02ParamIndex(f *kit.Func, v *types.Var) int {
	for i, p := range f.Params() {
		if p == v {
			return i
		}
	}
	return -1
}

func (m *c02Model) connParam(f *kit.Func, e ast.Expr) *types.Var {
	o := kit.ObjOf(m.info, e)
	for _, p := range f.Params() {
		if types.Object(p) == o && c02IsConn(p.Type()) {
			return p
		}
	}
	return nil
}

func (m *c02Model) singleNodeParam(f *kit.Func) *types.Var {
	var node *types.Var
	for _, p := range f.Params() {
		if c02IsNodeEdge(p.Type()) {
			if node != nil {
				return nil
			}
			node = p
		}
	}
	return node
}

func (m *c02Model) findTransfers() {
	// direct transfers and parametric cores
	for _, f := range m.funcs {
		if f.Decl == nil {
			continue
		}
		node := m.singleNodeParam(f)
		if node == nil {
			continue
		}
		t := &c02Transfer{f: f, node: node, nodeIdx: c02ParamIndex(f, node), destIdx: -1, srcIdx: -1}
		for _, call := range f.AllCalls(false) {
			if fn := m.clientFn(m.info, call); c02ConnFirst(fn) && m.sendSig(m.info, call) == nil {
				ps := fn.Type().(*types.Signature).Params()
				for i := 1; i < ps.Len() && i < len(call.Args); i++ {
					if c02IsNodeEdge(ps.At(i).Type()) && kit.ObjOf(m.info, call.Args[i]) == types.Object(node) {
						t.send = call
					}
				}
			}
			if f.CalleeFunc(call) == f {
				t.selfCall = call
			}
		}
		if t.send == nil || t.selfCall == nil {
			continue
		}
		m.analyseTransfer(t)
		m.transfers = append(m.transfers, t)
	}
	// wrappers: methods that hand their node to a core with typed connections
	for _, f := range m.funcs {
		if f.Decl == nil {
			continue
		}
		node := m.singleNodeParam(f)
		if node == nil {
			continue
		}
		known := false
		for _, t := range m.transfers {
			if t.f == f {
				known = true
			}
		}
		if known {
			continue
		}
		var w *c02Transfer
		n := 0
		for _, call := range f.AllCalls(false) {
			cf := f.CalleeFunc(call)
			for _, core := range m.transfers {
				if core.f == cf && core.destP != nil && core.nodeIdx < len(call.Args) && kit.ObjOf(m.info, call.Args[core.nodeIdx]) == types.Object(node) {
					n++
					w = m.coreCall(f, core, call)
					w.f, w.node, w.nodeIdx, w.via = f, node, c02ParamIndex(f, node), call
				}
			}
		}
		if n == 1 {
			m.transfers = append(m.transfers, w)
		}
	}
}

// coreCall describes one call of a parametric core.
func (m *c02Model) coreCall(f *kit.Func, core *c02Transfer, call *ast.CallExpr) *c02Transfer {
	d := &c02Transfer{f: core.f, node: core.node, nodeIdx: core.nodeIdx, core: core, via: call, destIdx: -1, srcIdx: -1}
	if core.destIdx >= 0 && core.destIdx < len(call.Args) {
		d.dest = m.connSide(call.Args[core.destIdx])
	}
	if core.srcIdx >= 0 && core.srcIdx < len(call.Args) {
		d.src = m.connSide(call.Args[core.srcIdx])
	}
	return d
}

// analyseTransfer finds the child listing the recursion runs over and types
// destination and source (sides of typed fields, or connection parameters).
func (m *c02Model) analyseTransfer(t *c02Transfer) {
	f := t.f
	t.dest = m.connSide(t.send.Args[0])
	if t.dest == "" {
		if p := m.connParam(f, t.send.Args[0]); p != nil {
			t.destP, t.destIdx = p, c02ParamIndex(f, p)
		}
	}
	// range loop or canonical counting loop over the listing
	rs := f.EnclosingLoop(t.selfCall)
	if rs == nil {
		t.problemQ = "the recursive call is not inside a loop over a slice"
		return
	}
	t.loop = rs
	t.listVar = kit.ObjOf(m.info, rs.X)
	var list *ast.CallExpr
	if t.listVar != nil {
		list = m.assignedCall(f, t.listVar)
	}
	if list == nil || !m.isFetch(f, list) {
		t.problemQ = "the recursion does not range over the result of one node fetch"
		return
	}
	t.list = list
	t.src = m.connSide(list.Args[0])
	if t.src == "" {
		if p := m.connParam(f, list.Args[0]); p != nil {
			t.srcP, t.srcIdx = p, c02ParamIndex(f, p)
		}
	}
	idc, idConst := kit.ConstString(m.info, list.Args[m.aID])
	switch {
	case !m.nodeField(list.Args[m.aParent], t.node, m.idF) || !idConst || idc == "":
		t.problemQ = "the listing `" + f.Str(list) + "` does not list the children of the node parameter"
	case t.nodeIdx >= len(t.selfCall.Args) || !m.passesListed(t.selfCall, rs, t.listVar, t.nodeIdx):
		t.problemQ = "the recursive call does not pass the listed child"
	case (t.destP != nil) != (t.srcP != nil):
		t.problemQ = "one of destination and source is a connection parameter, the other is not"
	case t.destP == nil && (t.dest == "" || t.src == ""):
		t.problemQ = "connection of the send (`" + f.Str(t.send.Args[0]) + "`) or of the listing (`" + f.Str(list.Args[0]) + "`) is neither a typed field nor a connection parameter"
	case t.destP != nil && t.destP == t.srcP:
		t.problem = "the node is sent over the connection parameter `" + t.destP.Name() + "` and its children are listed over the same connection (`" + f.Str(list) + "`): a node that exists only on the other instance has no children there yet, so a subtree of depth k needs k sync periods to arrive"
	case t.destP != nil:
		// the recursion keeps the roles of the two connections
		da, sa := kit.ObjOf(m.info, t.selfCall.Args[t.destIdx]), kit.ObjOf(m.info, t.selfCall.Args[t.srcIdx])
		switch {
		case da == types.Object(t.destP) && sa == types.Object(t.srcP):
		case da == types.Object(t.srcP) && sa == types.Object(t.destP):
			t.problem = "the recursive call `" + f.Str(t.selfCall) + "` swaps destination and source: the children are sent back to the instance they were read from"
		default:
			t.problemQ = "the recursive call `" + f.Str(t.selfCall) + "` does not pass destination and source on unchanged"
		}
	}
}

// transferOf describes the transfer a call performs (nil: none).  Calls of a
// parametric core are typed from their connection arguments.
func (m *c02Model) transferOf(f *kit.Func, call *ast.CallExpr) *c02Transfer {
	cf := f.CalleeFunc(call)
	if cf == nil {
		return nil
	}
	for _, t := range m.transfers {
		if t.f != cf {
			continue
		}
		if t.destP != nil {
			if cf == f.Root() {
				return t // the core's own recursion
			}
			return m.coreCall(f, t, call)
		}
		return t
	}
	return nil
}

// isWrapperVia: the call by which a wrapper delegates to its core.
func (m *c02Model) isWrapperVia(call *ast.CallExpr) bool {
	for _, t := range m.transfers {
		if t.via == call {
			return true
		}
	}
	return false
}

// assignedCall finds the unique call a local variable is assigned from
// (first result), or nil.
func (m *c02Model) assignedCall(f *kit.Func, o types.Object) *ast.CallExpr {
	var call *ast.CallExpr
	n := 0
	ast.Inspect(f.Body, func(x ast.Node) bool {
		if as, ok := x.(*ast.AssignStmt); ok {
			for i, l := range as.Lhs {
				if kit.ObjOf(m.info, l) == o {
					n++
					if i == 0 && len(as.Rhs) == 1 {
						call, _ = ast.Unparen(as.Rhs[0]).(*ast.CallExpr)
					}
				}
			}
		}
		return true
	})
	if n != 1 {
		return nil
	}
	return call
}

func (m *c02Model) nodeField(e ast.Expr, node types.Object, fld *types.Var) bool {
	sel, ok := ast.Unparen(e).(*ast.SelectorExpr)
	return ok && kit.ObjOf(m.info, sel) == types.Object(fld) && kit.ObjOf(m.info, sel.X) == node
}

// passesListed: the self call hands over the range value, or list[key].
func (m *c02Model) passesListed(call *ast.CallExpr, rs *ast.RangeStmt, list types.Object, idx int) bool {
	if idx < 0 || len(call.Args) <= idx {
		return false
	}
	a := ast.Unparen(call.Args[idx])
	if kit.LoopElem(m.info, rs, a) {
		return true
	}
	if o := kit.ObjOf(m.info, a); o != nil && kit.ElemAliases(m.info, rs)[o] {
		return true
	}
	return false
}

func (m *c02Model) checkTransfers(r3 *kit.Rule) {
	for _, t := range m.transfers {
		f := t.f
		m.c.Analysed(f)
		if t.via != nil {
			// wrapper of a parametric core: the sides are fixed here
			o := r3.Ob(f, t.via, "source and destination of the transfer", "the connection the node is sent over and the connection its children are listed over belong to different instances")
			switch {
			case t.dest == "" || t.src == "":
				o.Undecided("a connection argument of `%s` is not a typed field", f.Str(t.via))
			case t.dest == t.src:
				o.Violation("`%s` sends the node to %s and lists its children on %s as well: a node that exists only on the other instance has no children here yet, so a subtree of depth k needs k sync periods to arrive", f.Str(t.via), t.dest, t.src)
			default:
				o.OK("sent to %s, children listed on %s", t.dest, t.src)
			}
			continue
		}
		o := r3.Ob(f, t.send, "child listing of a transferred node", "the children of the node being sent are listed on the instance the node comes from, not on the one it is sent to")
		switch {
		case t.problem != "":
			o.Violation("%s", t.problem)
		case t.problemQ != "":
			o.Undecided("%s", t.problemQ)
		case t.destP != nil:
			o.OK("sent over parameter `%s`, children listed over parameter `%s`, roles kept by the recursion", t.destP.Name(), t.srcP.Name())
		case t.src == t.dest:
			o.Violation("the node is sent to %s and its children are listed on %s as well (`%s`): a node that exists only on the other instance has no children here yet, so a subtree of depth k needs k sync periods to arrive", t.dest, t.src, f.Str(t.list))
		default:
			o.OK("sent to %s, children listed on %s", t.dest, t.src)
		}
	}
}

// checkTransferCalls: every call of a transfer function passes a node that
// was fetched from the transfer's source side.
func (m *c02Model) checkTransferCalls(r3 *kit.Rule) {
	c := m.c
	for _, f := range m.funcs {
		var sites []*ast.CallExpr
		for _, call := range f.AllCalls(false) {
			if t := m.transferOf(f, call); t != nil && t.f != f.Root() && !m.isWrapperVia(call) {
				sites = append(sites, call)
			}
		}
		if len(sites) == 0 {
			continue
		}
		c.Analysed(f)
		origins := map[*ast.CallExpr]map[string]bool{}
		nodeArg := map[*ast.CallExpr]ast.Expr{}
		for _, s := range sites {
			origins[s] = map[string]bool{}
			if t := m.transferOf(f, s); t.nodeIdx >= 0 && t.nodeIdx < len(s.Args) {
				nodeArg[s] = s.Args[t.nodeIdx]
			}
		}
		es := func(s kit.S, e ast.Expr) string {
			e = ast.Unparen(e)
			switch x := e.(type) {
			case *ast.Ident:
				if o := kit.ObjOf(m.info, x); o != nil {
					return s.Get("es:" + kit.VarID(o))
				}
			case *ast.IndexExpr:
				if o := kit.ObjOf(m.info, x.X); o != nil {
					return s.Get("fs:" + kit.VarID(o))
				}
			}
			return ""
		}
		// a light client: only the origin of node values is tracked, every
		// condition is nondeterministic
		onNode := func(n ast.Node, s kit.S) []kit.S {
			for _, call := range kit.CallsIn(n) {
				if set, ok := origins[call]; ok && nodeArg[call] != nil {
					sd := es(s, nodeArg[call])
					if sd == "" {
						sd = "?"
					}
					set[sd] = true
				}
			}
			as, ok := n.(*ast.AssignStmt)
			if !ok {
				return []kit.S{s}
			}
			if len(as.Rhs) == 1 && len(as.Lhs) >= 1 {
				if call, ok := ast.Unparen(as.Rhs[0]).(*ast.CallExpr); ok {
					if o := kit.ObjOf(m.info, as.Lhs[0]); o != nil && c02IsNodeEdgeSlice(o.Type()) {
						sd := "?"
						if fn := m.clientFn(m.info, call); c02ConnFirst(fn) && len(call.Args) > 0 {
							if x := m.connSide(call.Args[0]); x != "" {
								sd = x
							}
						}
						return []kit.S{s.Set("fs:"+kit.VarID(o), sd)}
					}
				}
			}
			if len(as.Lhs) == len(as.Rhs) {
				for i, l := range as.Lhs {
					o := kit.ObjOf(m.info, l)
					if o == nil {
						continue
					}
					if _, isIdent := ast.Unparen(l).(*ast.Ident); !isIdent {
						continue
					}
					switch {
					case c02IsNodeEdge(o.Type()):
						if sd := es(s, as.Rhs[i]); sd != "" {
							s = s.Set("es:"+kit.VarID(o), sd)
						} else {
							s = s.Set("es:"+kit.VarID(o), "?")
						}
					case c02IsNodeEdgeSlice(o.Type()):
						s = s.Set("fs:"+kit.VarID(o), "?")
					}
				}
			}
			return []kit.S{s}
		}
		onCond := func(cond ast.Expr, s kit.S) (t, fl []kit.S) {
			out := onNode(cond, s)
			return out, out
		}
		onOther := func(br kit.Branch, s kit.S) (t, fl []kit.S) {
			if br.Kind == kit.BrCase && br.Case != nil {
				s = onNode(br.Case, s)[0]
			}
			if br.Kind != kit.BrRange || br.Range.Value == nil {
				return []kit.S{s}, []kit.S{s}
			}
			vo := kit.ObjOf(m.info, br.Range.Value)
			if vo == nil || !c02IsNodeEdge(vo.Type()) {
				return []kit.S{s}, []kit.S{s}
			}
			sd := "?"
			if lo := kit.ObjOf(m.info, br.Range.X); lo != nil {
				if _, isIdent := ast.Unparen(br.Range.X).(*ast.Ident); isIdent && s.Get("fs:"+kit.VarID(lo)) != "" {
					sd = s.Get("fs:" + kit.VarID(lo))
				}
			}
			return []kit.S{s.Set("es:"+kit.VarID(vo), sd)}, []kit.S{s}
		}
		init := kit.NewS()
		for _, p := range f.Params() {
			if c02IsNodeEdge(p.Type()) {
				init = init.Set("es:"+kit.VarID(p), "?")
			}
		}
		res := c.P.Graph(f).Run(init, kit.Client{Node: onNode, Cond: onCond, Other: onOther})
		if res.Overflow {
			c.Fatalf("R3: state overflow in %s", f.Name)
		}
		for _, call := range sites {
			t := m.transferOf(f, call)
			arg := "?"
			if nodeArg[call] != nil {
				arg = f.Str(nodeArg[call])
			}
			o := r3.Ob(f.Root(), call, "origin of `"+arg+"` handed to the transfer towards "+t.dest,
				"the node handed to a transfer function was fetched from the instance the transfer reads from, i.e. it is sent to the other instance")
			var got []string
			for k := range origins[call] {
				got = append(got, k)
			}
			sort.Strings(got)
			switch {
			case t.src == "" || t.dest == "" || t.src == t.dest:
				o.Undecided("the transfer function %s has no distinct source and destination", t.f.Name)
			case len(got) == 0:
				o.Undecided("the call is not reached by the flow analysis")
			case origins[call]["?"]:
				o.Undecided("the node `%s` does not provably come from one node fetch", arg)
			case origins[call][t.dest] && len(got) > 1:
				o.Undecided("`%s` comes from %s on different paths", arg, strings.Join(got, " / "))
			case origins[call][t.dest]:
				o.Violation("`%s` was fetched from %s and is handed to %s, which sends it to %s again and reads its children from %s: the node never reaches the other instance", arg, t.dest, t.f.Name, t.dest, t.src)
			default:
				o.OK("fetched from %s, sent to %s", strings.Join(got, ","), t.dest)
			}
		}
	}
}

// hashOwner names the node variable whose hash an expression denotes:
// `<node>.Hash`, or a local that is defined from `<node>.Hash` and afterwards
// only adjusted by compound assignments (the root's edge points are backed
// out of both hashes alike).
func (m *c02Model) hashOwner(f *kit.Func, e ast.Expr) types.Object {
	e = ast.Unparen(e)
	if sel, ok := e.(*ast.SelectorExpr); ok {
		if kit.ObjOf(m.info, sel) == types.Object(m.hashF) {
			if o := kit.ObjOf(m.info, sel.X); o != nil && c02IsNodeEdge(o.Type()) {
				return o
			}
		}
		return nil
	}
	id, ok := e.(*ast.Ident)
	if !ok {
		return nil
	}
	v := kit.ObjOf(m.info, id)
	if v == nil {
		return nil
	}
	var owner types.Object
	plain := 0
	ast.Inspect(f.Body, func(x ast.Node) bool {
		as, ok := x.(*ast.AssignStmt)
		if !ok {
			return true
		}
		for i, l := range as.Lhs {
			if kit.ObjOf(m.info, l) != v {
				continue
			}
			if as.Tok != token.ASSIGN && as.Tok != token.DEFINE {
				continue // hashUp ^= …
			}
			plain++
			if len(as.Lhs) == len(as.Rhs) {
				if sel, ok := ast.Unparen(as.Rhs[i]).(*ast.SelectorExpr); ok && kit.ObjOf(m.info, sel) == types.Object(m.hashF) {
					owner = kit.ObjOf(m.info, sel.X)
				}
			}
		}
		return true
	})
	if plain == 1 && owner != nil && c02IsNodeEdge(owner.Type()) {
		return owner
	}
	return nil
}

// ---------------------------------------------------------------------------
// the comparing function

func (m *c02Model) findCompare() {
	c := m.c
	type fetchSite struct {
		call *ast.CallExpr
		res  types.Object
		side string
	}
	n := 0
	for _, f := range m.funcs {
		if f.Decl == nil {
			continue
		}
		var sites []fetchSite
		ast.Inspect(f.Body, func(x ast.Node) bool {
			if _, ok := x.(*ast.FuncLit); ok {
				return false
			}
			as, ok := x.(*ast.AssignStmt)
			if !ok || len(as.Rhs) != 1 {
				return true
			}
			call, ok := ast.Unparen(as.Rhs[0]).(*ast.CallExpr)
			if !ok || !m.isFetch(f, call) {
				return true
			}
			if _, isConst := kit.ConstString(m.info, call.Args[m.aID]); isConst {
				return true
			}
			sites = append(sites, fetchSite{call, kit.ObjOf(m.info, as.Lhs[0]), m.connSide(call.Args[0])})
			return true
		})
		for _, a := range sites {
			for _, b := range sites {
				if a.side != c02Local || b.side != c02Remote || a.res == nil || b.res == nil {
					continue
				}
				if !kit.SameExpr(m.info, a.call.Args[m.aParent], b.call.Args[m.aParent]) || !kit.SameExpr(m.info, a.call.Args[m.aID], b.call.Args[m.aID]) {
					continue
				}
				// copies: NodeEdge locals only ever assigned <result>[k]
				copies := func(res types.Object) map[types.Object]bool {
					out := map[types.Object]bool{}
					bad := map[types.Object]bool{}
					ast.Inspect(f.Body, func(x ast.Node) bool {
						as, ok := x.(*ast.AssignStmt)
						if !ok || len(as.Lhs) != len(as.Rhs) {
							return true
						}
						for i, l := range as.Lhs {
							id, ok := ast.Unparen(l).(*ast.Ident)
							if !ok {
								continue
							}
							o := kit.ObjOf(m.info, id)
							if o == nil || !c02IsNodeEdge(o.Type()) {
								continue
							}
							if ix, ok := ast.Unparen(as.Rhs[i]).(*ast.IndexExpr); ok && kit.ObjOf(m.info, ix.X) == res {
								out[o] = true
							} else {
								bad[o] = true
							}
						}
						return true
					})
					for o := range bad {
						delete(out, o)
					}
					return out
				}
				ls, us := copies(a.res), copies(b.res)
				ast.Inspect(f.Body, func(x ast.Node) bool {
					be, ok := x.(*ast.BinaryExpr)
					if !ok || (be.Op != token.EQL && be.Op != token.NEQ) {
						return true
					}
					ox, oy := m.hashOwner(f, be.X), m.hashOwner(f, be.Y)
					if ox == nil || oy == nil {
						return true
					}
					if us[ox] && ls[oy] {
						ox, oy = oy, ox
					}
					if ls[ox] && us[oy] {
						n++
						m.F, m.L, m.U, m.fetchL, m.fetchU = f, ox, oy, a.call, b.call
						m.pParent = kit.ObjOf(m.info, a.call.Args[m.aParent])
						m.pID = kit.ObjOf(m.info, a.call.Args[m.aID])
					}
					return true
				})
			}
		}
	}
	if n != 1 {
		c.Fatalf("comparing function not identified: %d places compare the hash of a node fetched over a LOCAL connection with the hash of the same node fetched over a REMOTE connection", n)
	}
	c.Analysed(m.F)
}

// ---------------------------------------------------------------------------
// R6 no success return before both copies were fetched

// checkBothFetches: in the comparing function every exit that returns a nil
// error lies behind both the LOCAL and the REMOTE fetch of the node.  A
// success return decided from local state alone skips the comparison the
// catch-up exists for: an upstream change that real-time delivery missed is
// then never repaired.  Exits with a non-nil error are exempt.  Paths are
// followed only until both fetches were called.
func (m *c02Model) checkBothFetches(r6 *kit.Rule) {
	c := m.c
	f := m.F
	o := r6.Ob(f, m.fetchU, "success exits follow both fetches", "every exit of the comparing function that returns a nil error has fetched the node over the LOCAL and over the REMOTE connection")
	st := &kit.Std{F: f}
	done := 0
	st.OnCall = func(call *ast.CallExpr, n ast.Node, s kit.S) []kit.S {
		switch call {
		case m.fetchL:
			s = s.Set("fl", "1")
		case m.fetchU:
			s = s.Set("fu", "1")
		default:
			// a call that is not interpreted but has the means to consult an
			// instance itself: gets a typed connection, is a method of the sync
			// client or a function value
			if m.mayConsult(f, call) && s.Get("ro") == "" {
				return []kit.S{s.Set("ro", f.At(call))}
			}
			return nil
		}
		if s.Get("fl") == "1" && s.Get("fu") == "1" {
			done++
			return []kit.S{} // obligation met on every continuation
		}
		return []kit.S{s}
	}
	res := c.P.Graph(f).Run(kit.NewS(), st.Client())
	if res.Overflow {
		c.Fatalf("R6: state overflow in %s", f.Name)
	}
	if done == 0 {
		o.Undecided("no path reaches both fetches")
		return
	}
	missing := func(s kit.S) string {
		switch {
		case s.Get("fl") != "1" && s.Get("fu") != "1":
			return "either instance"
		case s.Get("fu") != "1":
			return "the REMOTE instance"
		}
		return "the LOCAL instance"
	}
	undecided := ""
	for _, e := range res.Exits {
		if e.Return == nil {
			continue // panic / no-return call
		}
		switch st.ReturnsNil(e.Return, e.State) {
		case "nil":
			if at := e.State.Get("ro"); at != "" {
				undecided = fmt.Sprintf("`%s` at %s reports success before the node was fetched from %s, but its path runs through the call at %s, which the checker does not interpret and which can reach that instance", f.Str(e.Return), f.At(e.Return), missing(e.State), at)
				continue
			}
			o.Violation("`%s` at %s reports success without having fetched the node from %s: the catch-up is skipped on the strength of state that cannot reflect a change accepted there, so a write that real-time delivery missed is never repaired", f.Str(e.Return), f.At(e.Return), missing(e.State)).WithPath(res.PathTo(e))
			return
		case "unknown":
			undecided = fmt.Sprintf("`%s` at %s returns an error value of unknown nil-ness before the node was fetched from %s", f.Str(e.Return), f.At(e.Return), missing(e.State))
		}
	}
	if undecided != "" {
		o.Undecided("%s", undecided)
		return
	}
	o.OK("%d exit(s) before the second fetch, all with a non-nil error; both fetches reached on %d path state(s)", len(res.Exits), done)
}

// mayConsult: an uninterpreted call with the means to talk to an instance.
func (m *c02Model) mayConsult(f *kit.Func, call *ast.CallExpr) bool {
	for _, a := range call.Args {
		if m.connSide(a) != "" {
			return true
		}
	}
	if sel, ok := ast.Unparen(call.Fun).(*ast.SelectorExpr); ok && m.connSide(sel.X) != "" {
		return true
	}
	switch o := kit.Callee(m.info, call).(type) {
	case *types.Func:
		if cf := m.c.P.FuncOf(o); cf != nil && cf.Decl != nil && cf.Decl.Recv != nil && m.isMethodOfSync(cf) {
			return true
		}
		return false
	case *types.Var:
		return true // function value
	case *types.Builtin:
		return false
	}
	if _, isLit := ast.Unparen(call.Fun).(*ast.FuncLit); isLit {
		return true
	}
	return false
}

// ---------------------------------------------------------------------------
// R4 child listings

type c02Listing struct {
	call *ast.CallExpr
	res  types.Object
	side string
}

func (m *c02Model) childListings() []c02Listing {
	f := m.F
	var out []c02Listing
	ast.Inspect(f.Body, func(x ast.Node) bool {
		if _, ok := x.(*ast.FuncLit); ok {
			return false
		}
		as, ok := x.(*ast.AssignStmt)
		if !ok || len(as.Rhs) != 1 {
			return true
		}
		call, ok := ast.Unparen(as.Rhs[0]).(*ast.CallExpr)
		if !ok || !m.isFetch(f, call) {
			return true
		}
		if idc, isConst := kit.ConstString(m.info, call.Args[m.aID]); !isConst || idc == "" {
			return true
		}
		if !m.nodeField(call.Args[m.aParent], m.L, m.idF) && !m.nodeField(call.Args[m.aParent], m.U, m.idF) {
			return true
		}
		out = append(out, c02Listing{call, kit.ObjOf(m.info, as.Lhs[0]), m.connSide(call.Args[0])})
		return true
	})
	return out
}

func (m *c02Model) checkListings(r4 *kit.Rule) {
	c := m.c
	f := m.F
	ls := m.childListings()
	if len(ls) != 2 {
		c.Fatalf("R4: %d child listings (node fetch with a constant id wildcard below one of the compared copies) in %s, expected 2", len(ls), f.Name)
	}
	oa := r4.Ob(f, ls[0].call, "child listings agree", "one listing per instance, with identical (id wildcard, type, includeDeleted) arguments")
	a, b := ls[0], ls[1]
	cst := func(e ast.Expr) string {
		if tv, ok := m.info.Types[e]; ok && tv.Value != nil {
			return tv.Value.ExactString()
		}
		return ""
	}
	switch {
	case a.side == "" || b.side == "":
		oa.Undecided("connection of a child listing is not a typed field")
	case a.side == b.side:
		oa.Violation("both child listings read the %s instance (`%s` and `%s`): children are never compared across the link", a.side, f.Str(a.call), f.Str(b.call))
	case cst(a.call.Args[m.aTyp]) == "" || cst(b.call.Args[m.aTyp]) == "":
		oa.Undecided("type filter of a child listing is not a constant")
	case cst(a.call.Args[m.aID]) != cst(b.call.Args[m.aID]) || cst(a.call.Args[m.aTyp]) != cst(b.call.Args[m.aTyp]):
		oa.Violation("the child listings differ in id/type filter: `%s` vs `%s`; children of the filtered kind look missing on one side", f.Str(a.call), f.Str(b.call))
	case cst(a.call.Args[m.aDel]) == "" || cst(b.call.Args[m.aDel]) == "":
		oa.Undecided("includeDeleted argument is not a constant")
	case cst(a.call.Args[m.aDel]) != cst(b.call.Args[m.aDel]):
		oa.Violation("the child listings differ in includeDeleted: `%s` vs `%s`; a child deleted on one side looks missing there and is re-created from the other side", f.Str(a.call), f.Str(b.call))
	default:
		oa.OK("`%s` / `%s`", f.Str(a.call), f.Str(b.call))
	}
	for _, l := range ls {
		side := l.side
		if side == "" {
			side = "untyped"
		}
		o := r4.Ob(f, l.call, side+" child listing includes deleted children", "includeDeleted is true: the compared hash ranges over tombstoned child edges, so a deletion is only reconciled if the deleted child is listed and descended into")
		tv, ok := m.info.Types[l.call.Args[m.aDel]]
		switch {
		case !ok || tv.Value == nil || tv.Value.Kind() != constant.Bool:
			o.Undecided("includeDeleted argument `%s` is not a constant", f.Str(l.call.Args[m.aDel]))
		case !constant.BoolVal(tv.Value):
			o.Violation("`%s` excludes deleted children although the hashes that triggered the descent cover tombstoned edges: a child deleted on one instance while the link was down is never descended into, its tombstone never reaches the other instance and the hashes differ forever", f.Str(l.call))
		default:
			o.OK("`%s`", f.Str(l.call))
		}
	}
}

// ---------------------------------------------------------------------------
// R5 forwarding

// subjectFormat resolves a subject expression to its constant layout.
func (m *c02Model) subjectFormat(f *kit.Func, e ast.Expr) (string, bool) {
	e = ast.Unparen(e)
	if s, ok := kit.ConstString(m.info, e); ok {
		return s, true
	}
	if o := kit.ObjOf(m.info, e); o != nil {
		if _, isIdent := e.(*ast.Ident); isIdent {
			// local variable with one definition
			var def ast.Expr
			n := 0
			ast.Inspect(f.Root().Body, func(x ast.Node) bool {
				if as, ok := x.(*ast.AssignStmt); ok && len(as.Lhs) == len(as.Rhs) {
					for i, l := range as.Lhs {
						if kit.ObjOf(m.info, l) == o {
							n++
							def = as.Rhs[i]
						}
					}
				}
				return true
			})
			if n == 1 && def != nil {
				if _, again := ast.Unparen(def).(*ast.Ident); !again {
					return m.subjectFormat(f, def)
				}
			}
			return "", false
		}
	}
	call, ok := e.(*ast.CallExpr)
	if !ok {
		return "", false
	}
	if kit.CallIs(m.info, call, "fmt.Sprintf") && len(call.Args) > 0 {
		return kit.ConstString(m.info, call.Args[0])
	}
	g := f.CalleeFunc(call)
	if g == nil || g.Decl == nil || len(g.Body.List) != 1 {
		return "", false
	}
	ret, ok := g.Body.List[0].(*ast.ReturnStmt)
	if !ok || len(ret.Results) != 1 {
		return "", false
	}
	r := ast.Unparen(ret.Results[0])
	if s, ok := kit.ConstString(g.Info(), r); ok {
		return s, true
	}
	if rc, ok := r.(*ast.CallExpr); ok && kit.CallIs(g.Info(), rc, "fmt.Sprintf") && len(rc.Args) > 0 {
		return kit.ConstString(g.Info(), rc.Args[0])
	}
	return "", false
}

func (m *c02Model) checkForwarding(r5 *kit.Rule) {
	c := m.c
	skipped := 0
	for _, f := range m.funcs {
		for _, call := range f.AllCalls(false) {
			if !kit.CallIs(m.info, call, natsPkg+".(*Conn).Subscribe") || len(call.Args) != 2 {
				continue
			}
			sel := ast.Unparen(call.Fun).(*ast.SelectorExpr)
			side := m.connSide(sel.X)
			format, ok := m.subjectFormat(f, call.Args[0])
			if !ok {
				r5.Ob(f.Root(), call, "subscription subject", "the subject of every subscription of the sync client is a constant layout").
					Undecided("subject `%s` cannot be resolved to a constant layout", f.Str(call.Args[0]))
				continue
			}
			toks := strings.Split(format, ".")
			if toks[0] != "p" || len(toks) < 2 || len(toks) > 3 {
				skipped++
				continue
			}
			k := len(toks) - 1
			kind := map[int]string{1: "node-point", 2: "edge-point"}[k]
			sd := side
			if sd == "" {
				sd = "untyped"
			}
			o := r5.Ob(f.Root(), call, sd+" "+kind+" subscription forward",
				"every successfully decoded message is handed with its (id"+map[int]string{1: "", 2: ", parent"}[k]+", points) unchanged to the matching send on the other instance")
			if side == "" {
				o.Undecided("the subscribing connection `%s` is not a typed field", f.Str(sel.X))
				continue
			}
			lit, ok := ast.Unparen(call.Args[1]).(*ast.FuncLit)
			if !ok {
				o.Undecided("the callback is not a function literal")
				continue
			}
			cb := c.P.LitFunc("client", lit)
			if cb == nil || msgParam(cb) == nil {
				o.Undecided("callback without *nats.Msg parameter")
				continue
			}
			c.Analysed(cb)
			m.checkCallback(o, f, cb, side, k)
		}
	}
	c.Note("R5: %d subscription(s) on subjects other than p.<id>[.<parent>] (discovery of new upstream nodes) are outside the rule", skipped)
}

func (m *c02Model) checkCallback(o *kit.Ob, outer, cb *kit.Func, side string, k int) {
	info := m.info
	msg := msgParam(cb)
	// the decode
	var dec *ast.AssignStmt
	var decCall *ast.CallExpr
	ast.Inspect(cb.Body, func(x ast.Node) bool {
		if _, ok := x.(*ast.FuncLit); ok && x != ast.Node(cb.Lit) {
			return false
		}
		as, ok := x.(*ast.AssignStmt)
		if !ok || len(as.Rhs) != 1 {
			return true
		}
		call, ok := ast.Unparen(as.Rhs[0]).(*ast.CallExpr)
		if !ok || len(call.Args) != 1 || kit.ObjOf(info, call.Args[0]) != types.Object(msg) {
			return true
		}
		fn := m.clientFn(info, call)
		if fn == nil {
			return true
		}
		rs := fn.Type().(*types.Signature).Results()
		if rs.Len() < 3 || !isErrorType(rs.At(rs.Len()-1).Type()) || !c02IsPoints(rs.At(rs.Len()-2).Type()) {
			return true
		}
		dec, decCall = as, call
		return true
	})
	if dec == nil {
		o.Undecided("no decode of the message into (ids…, points, error) in the callback")
		return
	}
	nres := len(dec.Lhs)
	if nres-2 != k {
		o.Violation("a subject with %d id token(s) is decoded by `%s`, which yields %d id(s): the %s is lost or misread", k, cb.Str(decCall.Fun), nres-2,
			map[bool]string{true: "parent id", false: "second token"}[k == 2])
		return
	}
	var ids []types.Object
	for i := 0; i < k; i++ {
		ids = append(ids, kit.ObjOf(info, dec.Lhs[i]))
	}
	pts := kit.ObjOf(info, dec.Lhs[k])
	for _, x := range append(append([]types.Object{}, ids...), pts) {
		if x == nil {
			o.Violation("the callback discards part of the decoded message (`%s`)", cb.Str(dec))
			return
		}
	}
	// decoded values stay unchanged
	changed := ""
	ast.Inspect(cb.Body, func(x ast.Node) bool {
		switch y := x.(type) {
		case *ast.AssignStmt:
			if y == dec {
				return true
			}
			for _, l := range y.Lhs {
				base := ast.Unparen(l)
				for {
					if ix, ok := base.(*ast.IndexExpr); ok {
						base = ast.Unparen(ix.X)
						continue
					}
					if se, ok := base.(*ast.SelectorExpr); ok {
						base = ast.Unparen(se.X)
						continue
					}
					break
				}
				bo := kit.ObjOf(info, base)
				for _, d := range append(append([]types.Object{}, ids...), pts) {
					if bo == d {
						changed = cb.Str(y)
					}
				}
			}
		case *ast.IncDecStmt:
			if bo := kit.ObjOf(info, y.X); bo == pts {
				changed = cb.Str(y)
			}
		}
		return true
	})
	if changed != "" {
		o.Undecided("a decoded value is modified before it is forwarded: `%s`", changed)
		return
	}

	want := c02Other(side)
	// direct forward: send(<other side>, ids…, points)
	classifyDirect := func(call *ast.CallExpr) string {
		sg := m.sendSig(info, call)
		if sg == nil || !sg.plural {
			return ""
		}
		if kit.ObjOf(info, call.Args[sg.pay]) != pts {
			return ""
		}
		sd := m.connSide(call.Args[0])
		if sd == side {
			return "" // republished on the instance it came from: not a forward
		}
		if sd == "" {
			return "?connection `" + cb.Str(call.Args[0]) + "` is not a typed field"
		}
		argIs := func(i int, o types.Object) bool { return i >= 0 && kit.ObjOf(info, call.Args[i]) == o }
		isDecoded := func(i int) bool {
			for _, d := range ids {
				if argIs(i, d) {
					return true
				}
			}
			return false
		}
		if k == 1 {
			if sg.parent >= 0 {
				if isDecoded(sg.id) {
					return "!node points are forwarded with the edge-point send `" + cb.Str(call) + "`"
				}
				return "?`" + cb.Str(call) + "`"
			}
			if argIs(sg.id, ids[0]) {
				return "ok"
			}
			return "?`" + cb.Str(call) + "`"
		}
		if sg.parent < 0 {
			if isDecoded(sg.id) {
				return "!edge points are forwarded with the node-point send `" + cb.Str(call) + "`: they arrive as points of the node itself and the parent is lost"
			}
			return "?`" + cb.Str(call) + "`"
		}
		if argIs(sg.id, ids[0]) && argIs(sg.parent, ids[1]) {
			return "ok"
		}
		if isDecoded(sg.id) && isDecoded(sg.parent) {
			return "!the decoded ids are not passed as (node, parent) in `" + cb.Str(call) + "`: the points are written to another edge"
		}
		return "?`" + cb.Str(call) + "`"
	}

	// channel forward: ch <- T{…decoded…}
	type chanFwd struct {
		ch      types.Object
		idF     []*types.Var // fields that carry the ids
		ptsF    *types.Var
		problem string
	}
	classifyChan := func(ss *ast.SendStmt) *chanFwd {
		lit, ok := ast.Unparen(ss.Value).(*ast.CompositeLit)
		if !ok {
			return nil
		}
		st, ok := info.TypeOf(lit).Underlying().(*types.Struct)
		if !ok {
			return nil
		}
		cf := &chanFwd{ch: kit.ObjOf(info, ss.Chan), idF: make([]*types.Var, k)}
		for i, el := range lit.Elts {
			var fld *types.Var
			val := el
			if kv, ok := el.(*ast.KeyValueExpr); ok {
				if id, ok := kv.Key.(*ast.Ident); ok {
					fld, _ = kit.ObjOf(info, id).(*types.Var)
				}
				val = kv.Value
			} else if i < st.NumFields() {
				fld = st.Field(i)
			}
			vo := kit.ObjOf(info, val)
			if vo == nil || fld == nil {
				continue
			}
			if vo == pts {
				cf.ptsF = fld
			}
			for j, d := range ids {
				if vo == d {
					if cf.idF[j] != nil {
						cf.problem = "an id is stored twice"
					}
					cf.idF[j] = fld
				}
			}
		}
		if cf.ptsF == nil {
			return nil // not a forward of the points
		}
		if cf.ch == nil {
			cf.problem = "channel is not a variable or field"
		}
		for j := range ids {
			if cf.idF[j] == nil {
				cf.problem = "!" + map[int]string{0: "the node id", 1: "the parent id"}[j] + " is not put into the forwarded value `" + cb.Str(ss.Value) + "`"
			}
		}
		return cf
	}

	st := &kit.Std{F: cb}
	st.ErrTag = func(call *ast.CallExpr, s kit.S) string {
		if call == decCall {
			return "dec"
		}
		return ""
	}
	st.OnErrEdge = func(tag string, isErr bool, s kit.S) (kit.S, bool) {
		if tag == "dec" && isErr {
			return s.Set("derr", "T"), true
		}
		return s, true
	}
	var bad, undec []string
	var fwds []*chanFwd
	decoded := append(append([]types.Object{}, ids...), pts)
	st.OnCall = func(call *ast.CallExpr, n ast.Node, s kit.S) []kit.S {
		switch r := classifyDirect(call); {
		case r == "ok":
			return []kit.S{s.Set("fwd", "1")}
		case strings.HasPrefix(r, "!"):
			bad = append(bad, r[1:])
		case strings.HasPrefix(r, "?"):
			undec = append(undec, r[1:])
		case r == "" && m.mayForward(cb, call, decoded):
			// a helper, method or function value that receives the decoded
			// data may do the forwarding: not interpreted, not judged
			return []kit.S{s.Set("opq", cb.At(call))}
		}
		return nil
	}
	st.OnNode = func(n ast.Node, s kit.S) []kit.S {
		switch n.(type) {
		case *ast.GoStmt, *ast.DeferStmt:
			if c02Mentions(info, n, decoded) {
				return []kit.S{s.Set("opq", cb.At(n))}
			}
		}
		if ss, ok := n.(*ast.SendStmt); ok {
			if _, isLit := ast.Unparen(ss.Value).(*ast.CompositeLit); !isLit && c02Mentions(info, ss.Value, append(decoded, m.derivedFrom(cb, decoded)...)) {
				return []kit.S{s.Set("opq", cb.At(ss))}
			}
			if cf := classifyChan(ss); cf != nil {
				switch {
				case strings.HasPrefix(cf.problem, "!"):
					bad = append(bad, cf.problem[1:])
				case cf.problem != "":
					undec = append(undec, cf.problem)
				default:
					fwds = append(fwds, cf)
					return []kit.S{s.Set("fwd", "1")}
				}
			}
		}
		return []kit.S{s}
	}
	res := m.c.P.Graph(cb).Run(kit.NewS(), st.Client())
	if res.Overflow {
		m.c.Fatalf("R5: state overflow in %s", cb.Name)
	}
	if len(bad) > 0 {
		o.Violation("%s", bad[0])
		return
	}
	if len(undec) > 0 {
		o.Undecided("a send of the decoded points has a shape the checker does not understand: %s", undec[0])
		return
	}
	for _, e := range res.Exits {
		if e.State.Get("derr") != "T" && e.State.Get("fwd") != "1" {
			if at := e.State.Get("opq"); at != "" {
				o.Undecided("no forward to %s is seen on a success path, but the decoded data is handed to the call at %s, which the checker does not interpret", want, at)
				return
			}
		}
	}
	for _, e := range res.Exits {
		if e.State.Get("derr") != "T" && e.State.Get("fwd") != "1" {
			o.Violation("a message decoded without error can leave the callback without being forwarded to %s", want).WithPath(res.PathTo(e))
			return
		}
	}
	if len(res.Exits) == 0 {
		o.Undecided("callback has no exit")
		return
	}
	if len(fwds) == 0 {
		o.OK("decoded (ids, points) sent to %s inside the callback on every success path", want)
		return
	}
	// the receiving end of the channel(s)
	for _, cf := range fwds {
		if msg, ok := m.checkReceiver(outer, cf.ch, cf.idF, cf.ptsF, side, k); !ok {
			if strings.HasPrefix(msg, "?") {
				o.Undecided("%s", msg[1:])
			} else {
				o.Violation("%s", msg)
			}
			return
		}
	}
	o.OK("decoded (ids, points) handed through a channel to the %s send in the run loop", want)
}

// c02Mentions: does the node refer to one of the objects?
func c02Mentions(info *types.Info, n ast.Node, objs []types.Object) bool {
	found := false
	ast.Inspect(n, func(x ast.Node) bool {
		if id, ok := x.(*ast.Ident); ok {
			if o := kit.ObjOf(info, id); o != nil {
				for _, d := range objs {
					if d == o {
						found = true
					}
				}
			}
		}
		return true
	})
	return found
}

// derivedFrom lists local variables of f that are assigned an expression
// mentioning one of the objects (one level).
func (m *c02Model) derivedFrom(f *kit.Func, objs []types.Object) []types.Object {
	var out []types.Object
	ast.Inspect(f.Body, func(x ast.Node) bool {
		as, ok := x.(*ast.AssignStmt)
		if !ok {
			return true
		}
		for _, r := range as.Rhs {
			if c02Mentions(m.info, r, objs) {
				for _, l := range as.Lhs {
					if o := kit.ObjOf(m.info, l); o != nil && c02CarriesData(o.Type()) && !isErrorType(o.Type()) {
						out = append(out, o)
					}
				}
			}
		}
		return true
	})
	return out
}

// mayForward: an uninterpreted call that could do the forwarding on behalf of
// the caller: a function of package client, a method of the sync client or a
// function value, which receives (or, as a closure, captures) the data.
func (m *c02Model) mayForward(f *kit.Func, call *ast.CallExpr, data []types.Object) bool {
	info := m.info
	objs := append(append([]types.Object{}, data...), m.derivedFrom(f, data)...)
	mentions := false
	for _, a := range call.Args {
		if c02Mentions(info, a, objs) {
			mentions = true
		}
	}
	switch o := kit.Callee(info, call).(type) {
	case *types.Func:
		if o.Pkg() == nil || o.Pkg().Path() != clientPkg {
			// other packages cannot reach the client's send functions, unless
			// they are handed a function value that captures the data
			for _, a := range call.Args {
				if lit, ok := ast.Unparen(a).(*ast.FuncLit); ok && c02Mentions(info, lit, objs) {
					return true
				}
			}
			return false
		}
		return mentions
	case *types.Builtin:
		return false
	case *types.Var:
		if cl := f.LocalClosure(o); cl != nil && c02Mentions(info, cl.Body, objs) {
			return true
		}
		return mentions
	}
	if lit, ok := ast.Unparen(call.Fun).(*ast.FuncLit); ok {
		return mentions || c02Mentions(info, lit.Body, objs)
	}
	if tv, ok := info.Types[call.Fun]; ok && tv.IsType() {
		return false
	}
	return mentions
}

// checkReceiver: the select arm that receives from ch sends the received
// fields to the other side.
func (m *c02Model) checkReceiver(outer *kit.Func, ch types.Object, idF []*types.Var, ptsF *types.Var, side string, k int) (string, bool) {
	info := m.info
	want := c02Other(side)
	var arms []*ast.CommClause
	var armFunc []*kit.Func
	var otherRecv int
	for _, f := range m.funcs {
		ast.Inspect(f.Body, func(x ast.Node) bool {
			if lit, ok := x.(*ast.FuncLit); ok && (f.Lit == nil || lit != f.Lit) {
				return false
			}
			switch y := x.(type) {
			case *ast.CommClause:
				var recv *ast.UnaryExpr
				switch c := y.Comm.(type) {
				case *ast.AssignStmt:
					if len(c.Rhs) == 1 {
						recv, _ = ast.Unparen(c.Rhs[0]).(*ast.UnaryExpr)
					}
				case *ast.ExprStmt:
					recv, _ = ast.Unparen(c.X).(*ast.UnaryExpr)
				}
				if recv != nil && recv.Op == token.ARROW && kit.ObjOf(info, recv.X) == ch {
					arms = append(arms, y)
					armFunc = append(armFunc, f)
				}
			case *ast.UnaryExpr:
				if y.Op == token.ARROW && kit.ObjOf(info, y.X) == ch {
					otherRecv++
				}
			}
			return true
		})
	}
	if len(arms) != 1 || otherRecv != 1 {
		return "?the forwarding channel is received from at " + map[bool]string{true: "no", false: "several"}[otherRecv == 0] + " place(s); expected one select arm", false
	}
	arm, f := arms[0], armFunc[0]
	as, ok := arm.Comm.(*ast.AssignStmt)
	if !ok || len(as.Lhs) != 1 {
		return "the value received from the forwarding channel is discarded (`" + f.Str(arm.Comm) + "`): local changes are never forwarded", false
	}
	v := kit.ObjOf(info, as.Lhs[0])
	fieldOf := func(e ast.Expr) *types.Var {
		sel, ok := ast.Unparen(e).(*ast.SelectorExpr)
		if !ok || kit.ObjOf(info, sel.X) != v {
			return nil
		}
		fv, _ := kit.ObjOf(info, sel).(*types.Var)
		return fv
	}
	var good *ast.CallExpr
	problem := ""
	for _, st := range arm.Body {
		ast.Inspect(st, func(x ast.Node) bool {
			if _, ok := x.(*ast.FuncLit); ok {
				return false
			}
			// the received value must stay unchanged
			if a, ok := x.(*ast.AssignStmt); ok {
				for _, l := range a.Lhs {
					base := ast.Unparen(l)
					if se, ok := base.(*ast.SelectorExpr); ok {
						base = ast.Unparen(se.X)
					}
					if kit.ObjOf(info, base) == v && v != nil {
						problem = "?the received value is modified in the arm: `" + f.Str(a) + "`"
					}
				}
			}
			call, ok := x.(*ast.CallExpr)
			if !ok {
				return true
			}
			sg := m.sendSig(info, call)
			if sg == nil || !sg.plural || fieldOf(call.Args[sg.pay]) != ptsF {
				return true
			}
			sd := m.connSide(call.Args[0])
			switch {
			case sd == "":
				problem = "?connection `" + f.Str(call.Args[0]) + "` is not a typed field"
			case sd != want:
				// not the forward
			case k == 1 && sg.parent < 0 && fieldOf(call.Args[sg.id]) == idF[0]:
				good = call
			case k == 2 && sg.parent >= 0 && fieldOf(call.Args[sg.id]) == idF[0] && fieldOf(call.Args[sg.parent]) == idF[1]:
				good = call
			case k == 2 && sg.parent >= 0 && fieldOf(call.Args[sg.id]) == idF[1] && fieldOf(call.Args[sg.parent]) == idF[0]:
				problem = "node id and parent id are swapped in `" + f.Str(call) + "`: the points are written to another edge on " + want
			case k == 2 && sg.parent < 0 && fieldOf(call.Args[sg.id]) != nil:
				problem = "edge points received from the channel are forwarded with the node-point send `" + f.Str(call) + "`: the parent is lost"
			case k == 1 && sg.parent >= 0 && fieldOf(call.Args[sg.id]) != nil:
				problem = "node points received from the channel are forwarded with the edge-point send `" + f.Str(call) + "`"
			case k == 1 && sg.parent < 0 && fieldOf(call.Args[sg.id]) != nil:
				problem = "node points are forwarded under the wrong id in `" + f.Str(call) + "`"
			default:
				problem = "?`" + f.Str(call) + "` forwards the received points with arguments the checker does not understand"
			}
			return true
		})
	}
	if problem != "" {
		return problem, false
	}
	if good == nil {
		// the received value handed to a helper / copied into another variable:
		// the forward may happen there
		vs := []types.Object{v}
		handed := ""
		for _, st := range arm.Body {
			ast.Inspect(st, func(x ast.Node) bool {
				switch y := x.(type) {
				case *ast.CallExpr:
					if m.sendSig(info, y) == nil && m.mayForward(f, y, vs) {
						handed = f.At(y)
					}
				case *ast.GoStmt, *ast.DeferStmt, *ast.SendStmt:
					if c02Mentions(info, y, vs) {
						handed = f.At(y)
					}
				}
				return true
			})
		}
		if v == nil {
			handed = ""
		}
		if handed != "" || len(m.derivedFrom(f, vs)) > 0 && v != nil {
			return "?the arm that receives the forwarded points does not send them to " + want + " itself, but hands them on (" + handed + "), which the checker does not follow", false
		}
		return "the arm that receives the forwarded points (`" + f.Str(arm.Comm) + "`) never sends them to " + want, false
	}
	// guards between the arm and the send: plain boolean locals only
	for x := m.c.P.Parent(f.File, good); x != nil && x != ast.Node(arm); x = m.c.P.Parent(f.File, x) {
		switch y := x.(type) {
		case *ast.IfStmt:
			inBody := good.Pos() >= y.Body.Pos() && good.End() <= y.Body.End()
			id, isIdent := ast.Unparen(y.Cond).(*ast.Ident)
			if !inBody || !isIdent || y.Init != nil {
				return "?the forward `" + f.Str(good) + "` is guarded by `" + f.Str(y.Cond) + "`, which the checker cannot relate to the link state", false
			}
			if vo, ok := kit.ObjOf(info, id).(*types.Var); !ok || vo.IsField() {
				return "?the forward is guarded by `" + f.Str(y.Cond) + "`", false
			}
		case *ast.BlockStmt, *ast.ExprStmt, *ast.AssignStmt:
		default:
			return "?the forward `" + f.Str(good) + "` sits inside a " + strings.TrimPrefix(reflect.TypeOf(x).String(), "*ast.") + " the checker does not interpret", false
		}
	}
	// nothing before the forward may leave the arm
	early := false
	for _, st := range arm.Body {
		if st.End() <= good.Pos() {
			ast.Inspect(st, func(x ast.Node) bool {
				switch x.(type) {
				case *ast.FuncLit:
					return false
				case *ast.ReturnStmt, *ast.BranchStmt:
					early = true
				}
				return true
			})
		}
	}
	if early {
		return "?a statement before the forward can leave the arm", false
	}
	m.c.Analysed(f)
	return "", true
}

// ---------------------------------------------------------------------------

func runC02(c *kit.Ctx) {
	r1 := c.Rule("R1", "side typing of the sync client's connections", 3)
	r2 := c.Rule("R2", "catch-up direction tables", 13)
	r3 := c.Rule("R3", "transfers read children from the source side", 6)
	r4 := c.Rule("R4", "child listings agree and cover deleted children", 3)
	r5 := c.Rule("R5", "point subscriptions forward unchanged to the other side", 4)
	r6 := c.Rule("R6", "catch-up succeeds only after consulting both instances", 1)
	r7 := c.Rule("R7", "stored hash commits together with the rows it covers", 2)
	r8 := c.Rule("R8", "link-up reports reach the run loop", 3)

	c02Atomic(c, r7)
	m := c02Discover(c)
	m.typeSides(r1)
	for _, cf := range m.connFs {
		if m.side[cf] == "" {
			// R1 already reports; the remaining rules need the typing
			c.Note("connection field %s untyped: rules R2-R5 skipped", cf.Name())
			return
		}
	}
	m.findTransfers()
	if len(m.transfers) < 2 {
		c.Fatalf("found %d transfer functions (methods of the sync client that send their node parameter and recurse), floor is 2", len(m.transfers))
	}
	m.checkTransfers(r3)
	m.checkTransferCalls(r3)
	m.findCompare()
	m.checkListings(r4)
	m.checkForwarding(r5)
	m.checkBothFetches(r6)
	c02LinkState(m, r8)
	c02Tables(m, r2)
}
