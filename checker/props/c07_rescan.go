package props

import (
	"fmt"
	"go/ast"
	"go/token"
	"go/types"
	"sort"
	"strings"

	"siotcheck/kit"
)

// C07/R10 — whenever the manager waits, a periodic rescan is pending.
//
// Some changes reach the manager through no event at all: a node undeleted by
// clearing its tombstone, a group or parent node above a client's node deleted
// or undeleted.  "Once node changes quiesce there is exactly one running client
// for every live node" then rests on the timed case of the main loop.  The rule
// follows every path of the main loop's function (helpers and local closures
// are evaluated inline) with the state of each local clock — a *time.Timer, a
// *time.Ticker or a variable holding the channel of time.After / time.Tick:
//
//	time.NewTimer, time.After, Reset        -> pending
//	time.NewTicker, time.Tick               -> pending, also after it delivered
//	Stop, a receive from a timer's channel  -> idle
//
// and requires, at every arrival at the main select on which no stop was
// requested, that a case which waits on a clock and performs the scan is
// pending: a clock made by the select itself (`<-time.After(d)`) always is, a
// reusable one only if it was armed on the path that led here.  The length of
// the period is not judged.

type c07TimedCase struct {
	cc    *ast.CommClause
	fresh bool         // the clock is made by the comm expression itself
	tv    types.Object // or: the local clock variable received from (nil: not a local variable)
	desc  string
}

func c07IsTimeChan(t types.Type) bool {
	if t == nil {
		return false
	}
	ch, ok := t.Underlying().(*types.Chan)
	return ok && kit.IsNamedType(ch.Elem(), "time", "Time") && !cmIsPointer(ch.Elem())
}

func c07IsClockType(t types.Type) bool {
	return kit.IsNamedType(t, "time", "Timer") || kit.IsNamedType(t, "time", "Ticker") || c07IsTimeChan(t)
}

// c07ClockOf resolves the channel expression of a receive to the local clock
// variable behind it: T of `T.C` (timer, ticker) or the channel variable
// itself.  isClock reports that ch delivers clock ticks at all; the object is
// nil when they do not come from a local variable.
func c07ClockOf(info *types.Info, ch ast.Expr, resolve func(ast.Expr) ast.Expr) (o types.Object, isClock bool) {
	ch = ast.Unparen(ch)
	if !c07IsTimeChan(info.TypeOf(ch)) {
		return nil, false
	}
	x := ch
	if sel, ok := ch.(*ast.SelectorExpr); ok && sel.Sel.Name == "C" && c07IsClockType(info.TypeOf(sel.X)) && !c07IsTimeChan(info.TypeOf(sel.X)) {
		x = ast.Unparen(sel.X)
	}
	if resolve != nil {
		x = ast.Unparen(resolve(x))
	}
	if _, isID := x.(*ast.Ident); !isID {
		return nil, true
	}
	if v := kit.ObjOf(info, x); cmIsLocal(v) && c07IsClockType(v.Type()) {
		return v, true
	}
	return nil, true
}

func c07R10(c *kit.Ctx, m *cmModel, r *kit.Rule) {
	f := m.mainF
	info := f.Info()
	c.Analysed(f)
	oCase := r.Ob(f, m.mainSel, "periodic rescan case", "a case of the main select waits on a clock and performs the scan on every path while no stop was requested")
	oWait := r.Ob(f, m.mainSel, "rescan pending at every wait", "at every arrival at the main select on which no stop was requested, the clock of a rescanning case is pending")

	// the scan: a declared function from which a store into the client-state map is reachable
	storeF := map[*kit.Func]bool{}
	for _, sto := range m.stores {
		storeF[sto.f] = true
	}
	reachMemo := map[*kit.Func]bool{}
	var reaches func(cf *kit.Func, depth int) bool
	reaches = func(cf *kit.Func, depth int) bool {
		if cf == nil || cf.Body == nil {
			return false
		}
		if storeF[cf] {
			return true
		}
		if v, ok := reachMemo[cf]; ok {
			return v
		}
		reachMemo[cf] = false
		if depth < 3 {
			for _, call := range cf.AllCalls(false) {
				if g := cf.CalleeFunc(call); g != nil && g != cf && g.Decl != nil && g.Pkg == cf.Pkg && reaches(g, depth+1) {
					reachMemo[cf] = true
					break
				}
			}
		}
		return reachMemo[cf]
	}
	isScanFunc := func(cf *kit.Func) bool { return cf != nil && cf.Decl != nil && cf != f && reaches(cf, 0) }

	// timed cases of the main select
	var timed []*c07TimedCase
	timedOf := map[*ast.CommClause]*c07TimedCase{}
	var firstComm ast.Stmt
	hasDefault := false
	for _, cl := range m.mainSel.Body.List {
		cc := cl.(*ast.CommClause)
		if cc.Comm == nil {
			hasDefault = true
			continue
		}
		if firstComm == nil {
			firstComm = cc.Comm
		}
		ch, _, ok := cmRecvComm(cc.Comm)
		if !ok {
			continue
		}
		var tc *c07TimedCase
		ch = ast.Unparen(ch)
		made := ch
		if sel, isSel := ch.(*ast.SelectorExpr); isSel && sel.Sel.Name == "C" {
			made = ast.Unparen(sel.X)
		}
		if call, isCall := made.(*ast.CallExpr); isCall && kit.CallIs(info, call, "time.After", "time.Tick", "time.NewTimer", "time.NewTicker") {
			tc = &c07TimedCase{cc: cc, fresh: true}
		} else if tv, isClock := c07ClockOf(info, ch, nil); isClock {
			tc = &c07TimedCase{cc: cc, tv: tv}
		}
		if tc != nil {
			tc.desc = "case " + f.Str(cc.Comm)
			timed = append(timed, tc)
			timedOf[cc] = tc
		}
	}
	if firstComm == nil {
		oCase.Undecided("the main select has no communication case")
		oWait.Undecided("the main select has no communication case")
		return
	}

	// clocks that are used in another way than Stop / Reset / receive are not followed
	escaped := map[types.Object]string{}
	ast.Inspect(f.Root().Body, func(n ast.Node) bool {
		id, ok := n.(*ast.Ident)
		if !ok {
			return true
		}
		o := info.Uses[id]
		if o == nil || !cmIsLocal(o) || !c07IsClockType(o.Type()) {
			return true
		}
		par := c.P.Parent(f.File, id)
		switch p := par.(type) {
		case *ast.SelectorExpr:
			if p.X == ast.Expr(id) && !c07IsTimeChan(o.Type()) {
				switch p.Sel.Name {
				case "C", "Stop", "Reset":
					return true
				}
			}
		case *ast.UnaryExpr:
			if p.Op == token.ARROW && c07IsTimeChan(o.Type()) {
				return true
			}
		case *ast.AssignStmt:
			for _, l := range p.Lhs {
				if l == ast.Expr(id) {
					return true
				}
			}
		}
		escaped[o] = f.Str(par) + " at " + f.At(id)
		return true
	})

	idOf := func(cc *ast.CommClause) string { return fmt.Sprint(cc.Pos()) }
	tmKey := func(o types.Object) string { return "tm:" + kit.VarID(o) }
	whyIdle := map[string]string{} // state value -> description
	idle := func(s kit.S, o types.Object, cur *kit.Func, n ast.Node, what string) kit.S {
		v := fmt.Sprintf("idle:%d", n.Pos())
		whyIdle[v] = what + " at " + cur.At(n)
		return s.Set(tmKey(o), v)
	}
	// delivered: the clock's channel was received from
	delivered := func(s kit.S, o types.Object, cur *kit.Func, n ast.Node, what string) kit.S {
		if o == nil || s.Get(tmKey(o)) != "armed" {
			return s // a ticker stays pending; idle and unknown stay what they are
		}
		return idle(s, o, cur, n, what)
	}

	scanSeen := map[string]bool{}  // timed case id -> the scan was reached after it fired
	nonRescan := map[string]bool{} // timed case id -> the wait was reached again without a scan
	type arrival struct {
		s    kit.S
		from string
	}
	var arrivals []arrival
	seenArr := map[string]bool{}
	var unknown []ast.Expr

	st := &kit.Std{F: f}
	st.MaxInline = 4
	st.ShouldInline = func(cf *kit.Func, call *ast.CallExpr) bool {
		return !isScanFunc(cf) // the scan is an event, not a helper
	}
	st.Eval.OnUnknown = func(e ast.Expr) { unknown = append(unknown, e) }
	clockRecv := func(call *ast.CallExpr) types.Object {
		sel, ok := ast.Unparen(call.Fun).(*ast.SelectorExpr)
		if !ok {
			return nil
		}
		x := ast.Unparen(st.Resolve(ast.Unparen(sel.X)))
		if _, isID := x.(*ast.Ident); !isID {
			return nil
		}
		if o := kit.ObjOf(info, x); cmIsLocal(o) && c07IsClockType(o.Type()) {
			return o
		}
		return nil
	}
	st.OnCall = func(call *ast.CallExpr, n ast.Node, s kit.S) []kit.S {
		switch n.(type) {
		case *ast.GoStmt, *ast.DeferStmt:
			return nil
		}
		switch kit.QualName(kit.Callee(info, call)) {
		case "time.(*Timer).Stop", "time.(*Ticker).Stop":
			if o := clockRecv(call); o != nil {
				return []kit.S{idle(s, o, st.Cur(), call, "stopped by `"+st.Cur().Str(call)+"`")}
			}
		case "time.(*Timer).Reset":
			if o := clockRecv(call); o != nil {
				return []kit.S{s.Set(tmKey(o), "armed")}
			}
		case "time.(*Ticker).Reset":
			if o := clockRecv(call); o != nil {
				return []kit.S{s.Set(tmKey(o), "tick")}
			}
		}
		if isScanFunc(st.Cur().CalleeFunc(call)) {
			if w := s.Get("wake"); w != "" {
				scanSeen[w] = true
			}
			return []kit.S{s.Del("wake")}
		}
		return nil
	}
	// creation and other assignments of a clock variable
	assignClock := func(s kit.S, lhs, rhs ast.Expr, n ast.Node) kit.S {
		if _, isID := ast.Unparen(lhs).(*ast.Ident); !isID {
			return s
		}
		o := kit.ObjOf(info, lhs)
		if !cmIsLocal(o) || !c07IsClockType(o.Type()) {
			return s
		}
		if call, ok := ast.Unparen(rhs).(*ast.CallExpr); ok {
			switch {
			case kit.CallIs(info, call, "time.NewTimer", "time.After"):
				return s.Set(tmKey(o), "armed")
			case kit.CallIs(info, call, "time.NewTicker", "time.Tick"):
				return s.Set(tmKey(o), "tick")
			case kit.CallIs(info, call, "time.AfterFunc"):
				return idle(s, o, st.Cur(), n, "made by time.AfterFunc, whose channel never delivers,")
			}
		}
		return s.Set(tmKey(o), "?")
	}
	// recvFrom: e is a plain receive from a clock's channel (a drain)
	recvFrom := func(e ast.Expr) types.Object {
		u, ok := ast.Unparen(e).(*ast.UnaryExpr)
		if !ok || u.Op != token.ARROW {
			return nil
		}
		o, _ := c07ClockOf(info, u.X, st.Resolve)
		return o
	}
	st.OnNode = func(n ast.Node, s kit.S) []kit.S {
		if n == ast.Node(firstComm) && st.Cur() == f {
			// the manager waits
			if s.Get("stopreq") == "" {
				if w := s.Get("wake"); w != "" {
					nonRescan[w] = true
				}
				var ks []string
				for _, tc := range timed {
					if tc.tv != nil {
						ks = append(ks, s.Get(tmKey(tc.tv)))
					}
				}
				if k := strings.Join(ks, "|"); !seenArr[k] {
					seenArr[k] = true
					arrivals = append(arrivals, arrival{s: s, from: s.Get("from")})
				}
			}
			return []kit.S{s.Del("wake").Del("from")}
		}
		switch x := n.(type) {
		case *ast.AssignStmt:
			if len(x.Lhs) == len(x.Rhs) {
				for i, l := range x.Lhs {
					s = assignClock(s, l, x.Rhs[i], n)
				}
			}
			if len(x.Rhs) == 1 && !cmIsSelectComm(st.Cur(), x) {
				s = delivered(s, recvFrom(x.Rhs[0]), st.Cur(), n, "drained by `"+st.Cur().Str(n)+"`")
			}
		case *ast.ValueSpec:
			if len(x.Names) == len(x.Values) {
				for i, nm := range x.Names {
					s = assignClock(s, nm, x.Values[i], n)
				}
			}
		case *ast.ExprStmt:
			if !cmIsSelectComm(st.Cur(), x) {
				s = delivered(s, recvFrom(x.X), st.Cur(), n, "drained by `"+st.Cur().Str(n)+"`")
			}
		}
		return []kit.S{s}
	}
	st.OnBranch = func(br kit.Branch, s kit.S) (t, fl []kit.S, handled bool) {
		if br.Kind == kit.BrCase {
			return cmTagCase(st, br, s)
		}
		if br.Kind != kit.BrSelect || br.Comm == nil || br.Comm.Comm == nil {
			return nil, nil, false
		}
		s2 := s
		if ch, _, ok := cmRecvComm(br.Comm.Comm); ok {
			// the case fires: a timer has delivered and is idle until it is Reset
			o, _ := c07ClockOf(info, ch, st.Resolve)
			s2 = delivered(s2, o, st.Cur(), br.Comm, "it fired in `case "+st.Cur().Str(br.Comm.Comm)+"`")
		}
		if st.Cur() == f && cmEnclosingSelect(f, br.Comm) == m.mainSel {
			s2 = s2.Set("from", idOf(br.Comm))
			if br.Comm == m.stopClause {
				s2 = s2.Set("stopreq", "1")
			}
			if timedOf[br.Comm] != nil && s2.Get("stopreq") == "" {
				s2 = s2.Set("wake", idOf(br.Comm))
			}
		}
		return []kit.S{s2}, []kit.S{s}, true
	}
	res := c.P.Graph(f).Run(kit.NewS(), st.Client())
	if res.Overflow {
		c.Fatalf("R10: state overflow in %s", f.Name)
	}

	// ---- (1) the rescanning timed cases
	var rescans []*c07TimedCase
	for _, tc := range timed {
		if scanSeen[idOf(tc.cc)] {
			rescans = append(rescans, tc)
		}
	}
	if len(rescans) == 0 {
		consequence := "a change that produces no node-type point (a node undeleted by clearing its tombstone, a group or parent node above a client's node deleted or undeleted) is never acted upon"
		switch ext := c07ExternalTicker(c, m); {
		case hasDefault:
			// a polling loop: the period may be kept by the default case
			oCase.Undecided("no case of the main select waits on a clock and scans, but the select has a default case (a polling loop), which the checker does not follow")
			oWait.Undecided("the main select does not block")
		case ext != "":
			// a periodic trigger may live in a goroutine that feeds a plain channel case
			oCase.Undecided("no case of the main select waits on a clock and scans; %s may provide the periodic trigger, which the checker does not follow", ext)
			oWait.Undecided("no timed case in the main select")
		case len(timed) == 0:
			oCase.Violation("no case of the main select of %s waits on a clock (time.After, a Timer's or Ticker's channel): the manager rescans only on node-type points and client exits; %s", f.Name, consequence)
			oWait.Violation("no timed case in the main select")
		default:
			var ds []string
			for _, tc := range timed {
				ds = append(ds, "`"+tc.desc+"`")
			}
			oCase.Violation("none of the timed cases of the main select (%s) reaches the scan: the manager rescans only on node-type points and client exits; %s", strings.Join(ds, ", "), consequence)
			oWait.Violation("no timed case of the main select performs the scan")
		}
		return
	}
	// not-understood conditions inside a rescanning case (or a helper it calls)
	unkIn := func(tc *c07TimedCase) string {
		regions := []ast.Node{tc.cc}
		for _, stx := range tc.cc.Body {
			for _, call := range kit.CallsIn(stx) {
				if cf := f.CalleeFunc(call); cf != nil && cf.Body != nil && !isScanFunc(cf) {
					regions = append(regions, cf.Node())
				}
			}
		}
		for _, e := range unknown {
			for _, rg := range regions {
				if cmWithin(e, rg) {
					return f.Str(e)
				}
			}
		}
		return ""
	}
	caseBad, caseUndec := "", ""
	var okDesc []string
	for _, tc := range rescans {
		switch {
		case !nonRescan[idOf(tc.cc)]:
			okDesc = append(okDesc, "`"+tc.desc+"`")
		case unkIn(tc) != "":
			caseUndec = fmt.Sprintf("`%s` can return to the wait without a scan, depending on `%s`, which the checker does not evaluate", tc.desc, unkIn(tc))
		default:
			caseBad = fmt.Sprintf("`%s` at %s can return to the wait without having performed the scan although no stop was requested: the periodic rescan is skipped on that path", tc.desc, f.At(tc.cc))
		}
	}
	switch {
	case caseBad != "":
		oCase.Violation("%s", caseBad)
	case caseUndec != "":
		oCase.Undecided("%s", caseUndec)
	default:
		oCase.OK("%s: the scan is reached on every path", strings.Join(okDesc, ", "))
	}

	// ---- (2) pending at every wait
	if len(arrivals) == 0 {
		oWait.Undecided("the main select is not reached")
		return
	}
	fromDesc := func(a arrival) string {
		for _, cl := range m.mainSel.Body.List {
			if cc := cl.(*ast.CommClause); idOf(cc) == a.from && cc.Comm != nil {
				return "after `case " + f.Str(cc.Comm) + "`"
			}
		}
		return "on the way from the function entry (before any case has run)"
	}
	waitBad, waitUndec := "", ""
	for _, a := range arrivals {
		pending, unk := false, ""
		var states []string
		for _, tc := range rescans {
			switch {
			case tc.fresh:
				pending = true
				continue
			case tc.tv == nil:
				unk = "the clock of `" + tc.desc + "` is not a local variable of " + f.Name
				continue
			case escaped[tc.tv] != "":
				unk = "`" + tc.tv.Name() + "` is also used as `" + escaped[tc.tv] + "`"
				continue
			}
			switch v := a.s.Get(tmKey(tc.tv)); v {
			case "armed", "tick":
				pending = true
			case "?":
				unk = "`" + tc.tv.Name() + "` is assigned a value the checker does not follow"
			case "":
				states = append(states, "`"+tc.tv.Name()+"` has not been made")
			default:
				states = append(states, "`"+tc.tv.Name()+"` is idle ("+whyIdle[v]+", and not armed again since)")
			}
		}
		switch {
		case pending:
		case unk != "":
			waitUndec = unk
		case waitBad == "":
			sort.Strings(states)
			waitBad = fmt.Sprintf("%s can wait in the main select %s with no periodic rescan pending: %s. Until a node-type point or a client exit wakes the loop no rescan happens, so a node undeleted by clearing its tombstone gets no client and the client below a deleted group keeps running",
				f.Name, fromDesc(a), strings.Join(states, "; "))
		}
	}
	switch {
	case waitBad != "":
		oWait.Violation("%s", waitBad)
	case waitUndec != "":
		oWait.Undecided("%s", waitUndec)
	default:
		oWait.OK("`%s` is pending on each of the %d distinct arrivals", rescans[0].desc, len(arrivals))
	}
}

// c07ExternalTicker looks for a goroutine-style periodic trigger: a function of
// package client (other than the main loop) that sleeps or ticks and sends on a
// channel of the manager.
func c07ExternalTicker(c *kit.Ctx, m *cmModel) string {
	mst, ok := m.mgr.Underlying().(*types.Struct)
	if !ok {
		return ""
	}
	for _, g := range c.P.Funcs("client") {
		if g.Body == nil || g == m.mainF {
			continue
		}
		info := g.Info()
		sleeps, sends := false, false
		cmOwn(g.Body, func(n ast.Node) bool {
			switch x := n.(type) {
			case *ast.CallExpr:
				if kit.CallIs(info, x, "time.Sleep", "time.Tick", "time.NewTicker", "time.After", "time.NewTimer") {
					sleeps = true
				}
			case *ast.SendStmt:
				if fv := cmField(info, x.Chan); fv != nil && cmIsChan(fv.Type()) && cmFieldOfStruct(mst, fv) {
					sends = true
				}
			}
			return true
		})
		if sleeps && sends {
			return g.Name
		}
	}
	return ""
}
