package props

import (
	"go/ast"
	"go/token"
	"go/types"
	"strings"

	"siotcheck/kit"
)

// C15/R6 — on the import path every node of the document reaches the send
// with its own id and parent: the recursive import helper sends its node on
// every successful path and recurses into every child.  A skip keyed on the
// node id alone drops the second placement of a mirrored node (the send also
// creates the (id, parent) edge).

func c15R6(c *kit.Ctx, a *c15Anchors, r5 *kit.Rule) {
	imp := a.importer
	pubs := publishers(c, "client")
	// the helper: a self-recursive function (literal or declared) the importer
	// calls, that publishes and takes a NodeEdgeChildren
	var S *kit.Func
	var N *types.Var
	for _, call := range imp.AllCalls(false) {
		cf := imp.CalleeFunc(call)
		if cf == nil || cf.Body == nil || !pubs[cf] || a.replacerOuter[cf] {
			continue
		}
		var np *types.Var
		for _, p := range cf.Params() {
			if c15IsNEC(p.Type()) {
				np = p
			}
		}
		if np == nil {
			continue
		}
		rec := false
		for _, c2 := range cf.AllCalls(false) {
			if cf.CalleeFunc(c2) == cf {
				rec = true
			}
		}
		if !rec {
			continue
		}
		if S != nil && S != cf {
			c.Fatalf("importer %s calls two recursive send helpers: %s and %s", imp.Name, S.Name, cf.Name)
		}
		S, N = cf, np
	}
	o := r5.Ob(imp, a.unmarshal, "every node sent", "the recursive import helper sends its node (its own NodeEdge) on every successful path and recurses into every child; no skip keyed on the node id alone")
	if S == nil {
		o.Undecided("no recursive function that publishes a NodeEdgeChildren is called by %s: the way the document is sent is not modelled", imp.Name)
		return
	}
	c.Analysed(S)
	f := S
	info := f.Info()
	isN := c15IsVar(info, N)
	var m c15Msgs

	// key classes of set lookups
	keyClass := func(k ast.Expr) string {
		k = c16Resolve(f, k)
		if c15Field(info, k, "ID", isN) {
			return "id"
		}
		hasID, hasParent := false, false
		ast.Inspect(k, func(x ast.Node) bool {
			if e, ok := x.(ast.Expr); ok {
				if c15Field(info, e, "ID", isN) {
					hasID = true
				}
				if c15Field(info, e, "Parent", isN) {
					hasParent = true
				}
			}
			return true
		})
		if hasID && hasParent {
			return "idp"
		}
		return ""
	}
	isMap := func(e ast.Expr) bool {
		t := info.TypeOf(e)
		if t == nil {
			return false
		}
		_, ok := t.Underlying().(*types.Map)
		return ok
	}
	var chLoop *ast.RangeStmt
	chCopies := map[types.Object]bool{}
	for _, rs := range f.SliceLoops(f.Body) {
		if c15Field(info, rs.X, "Children", isN) {
			chLoop = rs
			chCopies = kit.ElemAliases(info, rs)
		}
	}

	st := &kit.Std{F: f}
	atom := func(e ast.Expr) (string, bool, bool) {
		e = ast.Unparen(e)
		// seen[K]
		if ix, ok := e.(*ast.IndexExpr); ok && isMap(ix.X) {
			if cl := keyClass(ix.Index); cl != "" {
				return "seen:" + cl, false, true
			}
			return "", false, false
		}
		// ok variable of `_, ok := seen[K]`
		if id, ok := e.(*ast.Ident); ok {
			if o := kit.ObjOf(info, id); o != nil {
				if cl := c15OkVarClass(f, o, isMap, keyClass); cl != "" {
					return "seen:" + cl, false, true
				}
			}
		}
		return "", false, false
	}
	st.Eval.Atom = atom
	var leafKnown func(e ast.Expr, s kit.S) bool
	leafKnown = func(e ast.Expr, s kit.S) bool {
		e = ast.Unparen(e)
		switch x := e.(type) {
		case *ast.UnaryExpr:
			if x.Op == token.NOT {
				return leafKnown(x.X, s)
			}
		case *ast.BinaryExpr:
			if x.Op == token.LAND || x.Op == token.LOR {
				return leafKnown(x.X, s) && leafKnown(x.Y, s)
			}
		}
		if tv, ok := info.Types[e]; ok && tv.Value != nil {
			return true
		}
		if _, _, ok := kit.ErrCheck(info, e); ok {
			return true
		}
		if _, ok := st.FoldExpr(e, s); ok {
			return true
		}
		_, _, ok := atom(e)
		return ok
	}
	isSendCall := func(call *ast.CallExpr) (bool, bool) { // is a send, argument is the node itself
		cf := f.CalleeFunc(call)
		direct := false
		if fn, ok := kit.Callee(info, call).(*types.Func); ok && fn.Pkg() != nil && fn.Pkg().Path() == clientPkg && strings.HasPrefix(fn.Name(), "Send") {
			direct = true
		}
		if !direct && (cf == nil || !pubs[cf] || cf == f) {
			return false, false
		}
		for _, arg := range call.Args {
			x := ast.Unparen(arg)
			if u, ok := x.(*ast.UnaryExpr); ok && u.Op == token.AND {
				x = ast.Unparen(u.X)
			}
			if isN(x) {
				return true, true
			}
			if sel, ok := x.(*ast.SelectorExpr); ok && sel.Sel.Name == "NodeEdge" && isN(sel.X) {
				return true, true
			}
			if kit.IsNamedType(info.TypeOf(x), dataPkg, "NodeEdge") || c15IsNEC(info.TypeOf(x)) {
				return true, false
			}
		}
		return false, false
	}
	st.OnCall = func(call *ast.CallExpr, n ast.Node, s kit.S) []kit.S {
		if is, own := isSendCall(call); is {
			if !own {
				m.undec("%s sends something else than the helper's own node", f.Str(call))
				return nil
			}
			if s.Get("mod") == "1" {
				m.undec("the node's ID or Parent is assigned in %s before it is sent", f.Name)
			}
			return []kit.S{s.Set("sent", "1")}
		}
		if f.CalleeFunc(call) == f {
			okArg := false
			if chLoop != nil && len(call.Args) > 0 {
				for _, arg := range call.Args {
					x := ast.Unparen(arg)
					if u, ok := x.(*ast.UnaryExpr); ok && u.Op == token.AND {
						x = ast.Unparen(u.X)
					}
					if o := kit.ObjOf(info, x); o != nil && chCopies[o] {
						okArg = true
					}
					if ix, ok := x.(*ast.IndexExpr); ok && chLoop.Key != nil && kit.ObjOf(info, ix.Index) == kit.ObjOf(info, chLoop.Key) && c15Field(info, ix.X, "Children", isN) {
						okArg = true
					}
				}
			}
			if !okArg || s.Get("cit") != "1" {
				m.undec("%s: the recursive call is not made on the current element of a loop over the node's Children", f.Str(call))
			}
			return []kit.S{s.Set("crec", "1")}
		}
		return nil
	}
	st.OnNode = func(n ast.Node, s kit.S) []kit.S {
		if as, ok := n.(*ast.AssignStmt); ok {
			for _, l := range as.Lhs {
				if c15Field(info, l, "ID", isN) || c15Field(info, l, "Parent", isN) {
					s = s.Set("mod", "1")
				}
			}
		}
		return []kit.S{s}
	}
	st.OnBranch = func(br kit.Branch, s kit.S) (t, fs []kit.S, handled bool) {
		if br.Kind != kit.BrRange || br.Range != chLoop {
			return nil, nil, false
		}
		if s.Get("cit") == "1" && s.Get("crec") != "1" {
			if s.Get("unk") != "" {
				m.undec("a path through the loop over the children at %s skips a child on a decision the rule does not interpret (%s)", f.At(chLoop), s.Get("unk"))
			} else {
				m.viol("a path through the loop over the children at %s does not import the current child", f.At(chLoop))
			}
		}
		base := s.Del("crec")
		return []kit.S{base.Set("cit", "1")}, []kit.S{base.Del("cit").Set("cdone", "1")}, true
	}
	cl := st.Client()
	inner := cl.Cond
	cl.Cond = func(cond ast.Expr, s kit.S) (t, fs []kit.S) {
		t, fs = inner(cond, s)
		if !leafKnown(cond, s) {
			why := "`" + f.Str(cond) + "` at " + f.At(cond)
			for i := range t {
				t[i] = t[i].Set("unk", why)
			}
			for i := range fs {
				fs[i] = fs[i].Set("unk", why)
			}
		}
		return t, fs
	}
	res := c.P.Graph(f).Run(kit.NewS(), cl)
	if res.Overflow {
		c.Fatalf("C15/R6: state overflow in %s", f.Name)
	}
	nOK := 0
	for _, e := range res.Exits {
		if e.Return != nil && st.ReturnsNil(e.Return, e.State) == "nonnil" {
			continue
		}
		s := e.State
		at := f.At(f.Node())
		if e.Return != nil {
			at = f.At(e.Return)
		}
		switch {
		case s.Get("sent") != "1":
			switch {
			case s.Get("a:seen:id") == "T":
				m.viol("%s returns success at %s without sending the node when its ID was seen before: the send also creates the (id, parent) edge, so the second placement of a mirrored node (same id under another parent) is never created", f.Name, at)
			case s.Get("a:seen:idp") == "T":
				nOK++ // the very same placement twice
			case s.Get("unk") != "":
				m.undec("%s can return success at %s without sending the node, on a decision the rule does not interpret (%s)", f.Name, at, s.Get("unk"))
			default:
				m.viol("%s can return success at %s without sending the node", f.Name, at)
			}
		case s.Get("cit") == "1":
			m.viol("the loop over the children can be left early at %s: the remaining children are not imported", at)
		case chLoop == nil:
			m.undec("%s does not range over the node's Children", f.Name)
		case s.Get("cdone") != "1":
			if s.Get("unk") != "" {
				m.undec("%s can return success at %s before visiting the children, on a decision the rule does not interpret (%s)", f.Name, at, s.Get("unk"))
			} else {
				m.viol("%s can return success at %s without importing the node's children", f.Name, at)
			}
		default:
			nOK++
		}
	}
	if nOK == 0 && len(m.v) == 0 {
		m.undec("no successful exit of %s found", f.Name)
	}
	m.settle(o, "%s sends its node and recurses into every child on each of its %d successful exit paths", f.Name, nOK)
}

// c15OkVarClass: o is the bool of `_, o := <map>[K]` (its only definition);
// returns the key class.
func c15OkVarClass(f *kit.Func, o types.Object, isMap func(ast.Expr) bool, keyClass func(ast.Expr) string) string {
	info := f.Info()
	cl, n := "", 0
	ast.Inspect(f.Body, func(x ast.Node) bool {
		as, ok := x.(*ast.AssignStmt)
		if !ok {
			return true
		}
		for i, l := range as.Lhs {
			if kit.ObjOf(info, l) != o {
				continue
			}
			n++
			if len(as.Lhs) == 2 && len(as.Rhs) == 1 && i == 1 {
				if ix, ok := ast.Unparen(as.Rhs[0]).(*ast.IndexExpr); ok && isMap(ix.X) {
					cl = keyClass(ix.Index)
				}
			}
		}
		return true
	})
	if n != 1 {
		return ""
	}
	return cl
}
