package props

import (
	"go/ast"
	"go/token"
	"go/types"
	"sort"
	"strings"

	"siotcheck/kit"
)

// R7: the stored hash commits together with the rows it covers.
//
// The catch-up compares `edges.hash` of both instances first and descends only
// where they differ.  That pruning is sound only if a stored hash never lags
// behind the rows it summarises: every statement that inserts (or upserts) a
// row of a table the hash ranges over and the statement that stores the
// hashes must run on ONE transaction, and that transaction is committed after
// both.  Otherwise a crash or a failing statement between two commits leaves a
// newer point below an unchanged hash; the hashes of the two instances are
// then equal, the catch-up stops at the top and the accepted write never
// reaches the other instance.
//
// Decided per transaction object: the variable a transaction is begun into, or
// a parameter / receiver of a function that does both halves on a transaction
// it is handed.  A transaction object is a *sql.Tx or a value of a struct type
// of the package that holds one (`hc := newHashChange(tx)`, a type embedding
// *sql.Tx); a local built from exactly one transaction object is the same
// object.  On every path, a Commit of the object that follows a row write on it
// also follows a hash store on it.  Callees are summarised by what they may
// execute on a transaction they receive (rows / hash / commit).  A guard that
// skips the hash store because the delta handed to it is zero is accepted.
//
// Not decided: that the stored value is the right one (C03), tables written by
// UPDATE/DELETE only (schema upgrades), transactions kept in long-lived fields
// or handed to function values (undecided).

const c02HashTable, c02HashCol = "edges", "hash"

// tables whose rows the stored hash ranges over
var c02CoveredTables = []string{"node_points", "edge_points", "edges"}

// c02TxKey names a transaction a function receives: parameter i, or the
// receiver (i = -1).
type c02TxKey struct {
	f *kit.Func
	i int
}

type c02TxModel struct {
	c      *kit.Ctx
	sql    *kit.SQLModel
	funcs  []*kit.Func
	siteOf map[*ast.CallExpr]*kit.SQLSite
	param  map[types.Object]c02TxKey
	begins map[*kit.Func]bool // functions that call (*sql.DB).Begin themselves
	// what a function may execute on a transaction it receives
	rows, hash, commit map[c02TxKey]bool
	rowSites           map[c02TxKey]map[*kit.SQLSite]bool
	accounted          map[*kit.SQLSite]bool
	untraced           []string // hash stores whose transaction cannot be traced
}

func c02RowTables(s *kit.SQLSite) []string {
	var out []string
	for _, st := range s.Stmts {
		if st.Verb != "INSERT" {
			continue
		}
		for _, t := range c02CoveredTables {
			if st.Table == t {
				out = append(out, t)
			}
		}
	}
	return uniqStrings(out)
}

func c02IsHashStore(s *kit.SQLSite) bool {
	for _, st := range s.Stmts {
		if st.Verb != "UPDATE" || st.Table != c02HashTable {
			continue
		}
		for _, col := range st.Cols {
			if col == c02HashCol {
				return true
			}
		}
	}
	return false
}

// isTxish: *sql.Tx, or a (pointer to a) struct type of package store with a
// *sql.Tx field (embedded or named).
func c02IsTxish(t types.Type) bool {
	if t == nil {
		return false
	}
	if kit.IsNamedType(t, "database/sql", "Tx") {
		return true
	}
	if p, ok := t.(*types.Pointer); ok {
		t = p.Elem()
	}
	n, ok := types.Unalias(t).(*types.Named)
	if !ok || n.Obj().Pkg() == nil || n.Obj().Pkg().Path() != storePkg {
		return false
	}
	st, ok := n.Underlying().(*types.Struct)
	if !ok {
		return false
	}
	for i := 0; i < st.NumFields(); i++ {
		if kit.IsNamedType(st.Field(i).Type(), "database/sql", "Tx") {
			return true
		}
	}
	return false
}

// isBegin: the call yields a fresh transaction: db.Begin, a transaction
// opener, or a function of the package that begins one and returns a
// transaction object.
func (tm *c02TxModel) isBegin(f *kit.Func, call *ast.CallExpr) bool {
	if isBeginCall(f, call) {
		return true
	}
	cf := f.CalleeFunc(call)
	if cf == nil || !tm.begins[cf] || cf.Type.Results == nil {
		return false
	}
	for _, r := range cf.Type.Results.List {
		if c02IsTxish(f.Info().TypeOf(r.Type)) {
			return true
		}
	}
	return false
}

// beginVar returns the variable a begin call is assigned to.
func (tm *c02TxModel) beginVar(f *kit.Func, call *ast.CallExpr) types.Object {
	as, ok := f.Prog.Parent(f.File, call).(*ast.AssignStmt)
	if !ok || len(as.Rhs) != 1 {
		return nil
	}
	for _, l := range as.Lhs {
		if o := kit.ObjOf(f.Info(), l); o != nil && c02IsTxish(o.Type()) {
			return o
		}
	}
	return nil
}

// base resolves an expression to the transaction object it denotes (nil: not
// a traceable transaction).
func (tm *c02TxModel) base(f *kit.Func, e ast.Expr, depth int) types.Object {
	if e == nil || depth > 4 {
		return nil
	}
	info := f.Info()
	e = ast.Unparen(e)
	if u, ok := e.(*ast.UnaryExpr); ok && u.Op == token.AND {
		return tm.base(f, u.X, depth+1)
	}
	switch x := e.(type) {
	case *ast.SelectorExpr:
		if v, ok := kit.ObjOf(info, x).(*types.Var); ok && v.IsField() && c02IsTxish(info.TypeOf(x)) {
			return tm.base(f, x.X, depth+1)
		}
		return nil
	case *ast.Ident:
		o, ok := kit.ObjOf(info, x).(*types.Var)
		if !ok || o.IsField() || !c02IsTxish(o.Type()) {
			return nil
		}
		if _, isParam := tm.param[o]; isParam {
			return o
		}
		// a local defined once from exactly one other transaction object is that object
		var def ast.Expr
		n := 0
		ast.Inspect(f.Root().Body, func(y ast.Node) bool {
			switch as := y.(type) {
			case *ast.AssignStmt:
				for i, l := range as.Lhs {
					if kit.ObjOf(info, l) != types.Object(o) {
						continue
					}
					n++
					if len(as.Rhs) == len(as.Lhs) {
						def = as.Rhs[i]
					} else if len(as.Rhs) == 1 {
						def = as.Rhs[0]
					}
				}
			case *ast.ValueSpec:
				for i, nm := range as.Names {
					if info.Defs[nm] == types.Object(o) && i < len(as.Values) {
						n++
						def = as.Values[i]
					}
				}
			}
			return true
		})
		if n != 1 || def == nil {
			return o
		}
		var parts []ast.Expr
		d := ast.Unparen(def)
		if u, ok := d.(*ast.UnaryExpr); ok && u.Op == token.AND {
			d = ast.Unparen(u.X)
		}
		switch y := d.(type) {
		case *ast.CallExpr:
			if tm.isBegin(f, y) {
				return o
			}
			parts = append(parts, y.Args...)
			if sel, ok := ast.Unparen(y.Fun).(*ast.SelectorExpr); ok {
				parts = append(parts, sel.X)
			}
		case *ast.CompositeLit:
			for _, el := range y.Elts {
				if kv, ok := el.(*ast.KeyValueExpr); ok {
					parts = append(parts, kv.Value)
				} else {
					parts = append(parts, el)
				}
			}
		default:
			parts = append(parts, d)
		}
		var found types.Object
		for _, p := range parts {
			if b := tm.base(f, p, depth+1); b != nil {
				if found != nil && found != b {
					return o
				}
				found = b
			}
		}
		if found != nil {
			return found
		}
		return o
	}
	return nil
}

// txExpr returns the expression that denotes the transaction a site runs on;
// kind is "tx", "db" (no transaction) or "?" (not traceable).
func (tm *c02TxModel) txExpr(s *kit.SQLSite) (ast.Expr, string) {
	switch s.Recv {
	case "tx":
		if sel, ok := ast.Unparen(s.Call.Fun).(*ast.SelectorExpr); ok {
			return sel.X, "tx"
		}
	case "stmt":
		if s.Prepared != nil && s.Prepared != s {
			return tm.txExpr(s.Prepared)
		}
	case "wrapper":
		if s.TxArg == nil || kit.IsNilIdent(s.F.Info(), s.TxArg) {
			return nil, "db"
		}
		return s.TxArg, "tx"
	case "db":
		return nil, "db"
	}
	return nil, "?"
}

func (tm *c02TxModel) txObj(s *kit.SQLSite) (types.Object, string) {
	e, kind := tm.txExpr(s)
	if kind != "tx" {
		return nil, kind
	}
	site := s
	if s.Recv == "stmt" && s.Prepared != nil {
		site = s.Prepared
	}
	if o := tm.base(site.F, e, 0); o != nil {
		return o, "tx"
	}
	return nil, "?"
}

// handed lists the transaction objects a call hands to its callee, by the
// callee's parameter index (-1 = receiver).
func (tm *c02TxModel) handed(f *kit.Func, call *ast.CallExpr, cf *kit.Func, resolve func(ast.Expr) ast.Expr) map[int]types.Object {
	out := map[int]types.Object{}
	for j, a := range call.Args {
		if b := tm.base(f, resolve(a), 0); b != nil {
			out[j] = b
		}
	}
	if cf != nil && cf.Decl != nil && cf.Decl.Recv != nil {
		if sel, ok := ast.Unparen(call.Fun).(*ast.SelectorExpr); ok {
			if b := tm.base(f, resolve(sel.X), 0); b != nil {
				out[-1] = b
			}
		}
	}
	return out
}

func newC02TxModel(c *kit.Ctx) *c02TxModel {
	tm := &c02TxModel{c: c, sql: c.P.SQLModelOf("store"), funcs: c.P.Funcs("store"),
		siteOf: map[*ast.CallExpr]*kit.SQLSite{}, param: map[types.Object]c02TxKey{}, begins: map[*kit.Func]bool{},
		rows: map[c02TxKey]bool{}, hash: map[c02TxKey]bool{}, commit: map[c02TxKey]bool{},
		rowSites: map[c02TxKey]map[*kit.SQLSite]bool{}, accounted: map[*kit.SQLSite]bool{}}
	if len(tm.sql.Unparsed) > 0 {
		c.Fatalf("R7: SQL statements of package store the tokenizer cannot classify: %v", tm.sql.Unparsed)
	}
	for _, s := range tm.sql.Sites {
		tm.siteOf[s.Call] = s
	}
	for _, f := range tm.funcs {
		if f.Body == nil {
			continue
		}
		for i, p := range f.Params() {
			if c02IsTxish(p.Type()) {
				tm.param[p] = c02TxKey{f, i}
			}
		}
		if f.Decl != nil && f.Decl.Recv != nil && len(f.Decl.Recv.List) > 0 && len(f.Decl.Recv.List[0].Names) > 0 {
			if ro := f.Info().Defs[f.Decl.Recv.List[0].Names[0]]; ro != nil && c02IsTxish(ro.Type()) {
				tm.param[ro] = c02TxKey{f, -1}
			}
		}
		for _, call := range f.AllCalls(true) {
			if kit.CallIs(f.Info(), call, qBegin) {
				tm.begins[f] = true
			}
		}
	}
	addSites := func(k c02TxKey, ss map[*kit.SQLSite]bool) bool {
		ch := false
		if tm.rowSites[k] == nil {
			tm.rowSites[k] = map[*kit.SQLSite]bool{}
		}
		for s := range ss {
			if !tm.rowSites[k][s] {
				tm.rowSites[k][s] = true
				ch = true
			}
		}
		return ch
	}
	// direct effects
	for _, s := range tm.sql.Sites {
		o, kind := tm.txObj(s)
		if kind == "?" && c02IsHashStore(s) {
			tm.untraced = append(tm.untraced, "`"+trunc80(s.F.Str(s.Call))+"` at "+s.F.At(s.Call))
		}
		if kind != "tx" {
			continue
		}
		k, isParam := tm.param[o]
		if !isParam {
			continue
		}
		if len(c02RowTables(s)) > 0 {
			tm.rows[k] = true
			addSites(k, map[*kit.SQLSite]bool{s: true})
		}
		if c02IsHashStore(s) {
			tm.hash[k] = true
		}
	}
	ident := func(e ast.Expr) ast.Expr { return e }
	for _, f := range tm.funcs {
		if f.Body == nil {
			continue
		}
		for _, call := range f.AllCalls(false) {
			if !kit.CallIs(f.Info(), call, qCommit) {
				continue
			}
			if sel, ok := ast.Unparen(call.Fun).(*ast.SelectorExpr); ok {
				if k, isParam := tm.param[tm.base(f, sel.X, 0)]; isParam {
					tm.commit[k] = true
				}
			}
		}
	}
	// through calls that hand the transaction on
	for round, changed := 0, true; changed && round < 8; round++ {
		changed = false
		for _, f := range tm.funcs {
			if f.Body == nil {
				continue
			}
			for _, call := range f.AllCalls(false) {
				cf := f.CalleeFunc(call)
				if cf == nil {
					continue
				}
				for j, b := range tm.handed(f, call, cf, ident) {
					k, isParam := tm.param[b]
					if !isParam {
						continue
					}
					ck := c02TxKey{cf, j}
					if tm.rows[ck] && !tm.rows[k] {
						tm.rows[k], changed = true, true
					}
					if tm.rows[ck] && addSites(k, tm.rowSites[ck]) {
						changed = true
					}
					if tm.hash[ck] && !tm.hash[k] {
						tm.hash[k], changed = true, true
					}
					if tm.commit[ck] && !tm.commit[k] {
						tm.commit[k], changed = true, true
					}
				}
			}
		}
	}
	return tm
}

// c02TxUnit is the verdict for one transaction object of one function.
type c02TxUnit struct {
	f        *kit.Func
	t        types.Object
	anchor   ast.Node
	tables   []string
	okEvents int    // commits (or success returns) that follow rows and hash
	bad      string // violation text
	undec    string
	commits  int
}

// runUnit follows transaction object t through f.  assumeRows: the caller wrote
// rows on it before handing it over.  isParam: a success return hands the
// transaction back to the caller, who commits it.
func (tm *c02TxModel) runUnit(f *kit.Func, t types.Object, anchor ast.Node, assumeRows string, isParam bool) *c02TxUnit {
	c := tm.c
	info := f.Info()
	u := &c02TxUnit{f: f, t: t, anchor: anchor}
	tables := map[string]bool{}
	st := &kit.Std{F: f}
	isT := func(e ast.Expr) bool { return e != nil && tm.base(st.Cur(), st.Resolve(e), 0) == t }

	// the delta handed to the hash store: skipping the store when it is zero
	// changes nothing
	deltas := map[types.Object]bool{}
	for _, call := range f.AllCalls(false) {
		cf := f.CalleeFunc(call)
		if cf == nil {
			continue
		}
		hashCall := false
		for j, b := range tm.handed(f, call, cf, func(e ast.Expr) ast.Expr { return e }) {
			if b == t && tm.hash[c02TxKey{cf, j}] {
				hashCall = true
			}
		}
		if !hashCall {
			continue
		}
		for _, a := range call.Args {
			if id, ok := ast.Unparen(a).(*ast.Ident); ok {
				if o, ok := kit.ObjOf(info, id).(*types.Var); ok && !o.IsField() {
					if b, ok := o.Type().Underlying().(*types.Basic); ok && b.Info()&types.IsInteger != 0 {
						deltas[o] = true
					}
				}
			}
		}
	}

	otherHash := ""
	event := func(where ast.Node, what string, s kit.S) {
		if s.Get("w") == "" {
			return
		}
		if s.Get("h") == "1" || s.Get("z") == "1" {
			u.okEvents++
			return
		}
		if at := s.Get("opq"); at != "" {
			if u.undec == "" {
				u.undec = "the transaction is handed to the call at " + at + ", which the checker cannot resolve to a function of the package"
			}
			return
		}
		if u.bad != "" {
			return
		}
		u.bad = "`" + f.Str(where) + "` at " + f.At(where) + " " + what + " the rows written by " + s.Get("w") +
			" before the hashes that cover them are stored on the same transaction"
	}
	noteRows := func(site *kit.SQLSite) {
		tm.accounted[site] = true
		if site.Prepared != nil {
			tm.accounted[site.Prepared] = true
		}
		for _, x := range c02RowTables(site) {
			tables[x] = true
		}
	}
	st.OnCall = func(call *ast.CallExpr, n ast.Node, s kit.S) []kit.S {
		cur := st.Cur()
		switch n.(type) {
		case *ast.DeferStmt, *ast.GoStmt:
			// runs at another time: not part of the path
			for _, a := range call.Args {
				if isT(a) {
					u.undec = "the transaction is handed to a deferred or concurrent call at " + cur.At(call)
				}
			}
			return nil
		}
		if tm.isBegin(cur, call) && tm.beginVar(cur, call) == t {
			return []kit.S{s.Del("w").Del("h").Del("z").Del("opq")}
		}
		if site := tm.siteOf[call]; site != nil {
			o, kind := tm.txObj(site)
			rt := c02RowTables(site)
			switch {
			case kind == "tx" && o == t:
				if len(rt) > 0 {
					noteRows(site)
					if s.Get("w") == "" {
						s = s.Set("w", "`"+trunc80(cur.Str(call))+"` at "+cur.At(call))
					}
				}
				if c02IsHashStore(site) {
					s = s.Set("h", "1")
				}
				return []kit.S{s}
			case c02IsHashStore(site) && s.Get("w") != "":
				if kind == "db" {
					otherHash = "`" + trunc80(cur.Str(call)) + "` at " + cur.At(call) + " runs outside any transaction"
				} else if o != nil {
					otherHash = "`" + trunc80(cur.Str(call)) + "` at " + cur.At(call) + " runs on another transaction (`" + o.Name() + "`)"
				}
			}
			return nil
		}
		if kit.CallIs(info, call, qCommit) {
			if sel, ok := ast.Unparen(call.Fun).(*ast.SelectorExpr); ok && isT(sel.X) {
				u.commits++
				event(call, "commits", s)
				return []kit.S{s.Set("done", "1")}
			}
			return nil
		}
		cf := cur.CalleeFunc(call)
		if cf == nil {
			// a function value or a foreign function that gets the transaction
			if _, isFn := kit.Callee(info, call).(*types.Func); !isFn || kit.Callee(info, call).Pkg() == nil || kit.Callee(info, call).Pkg().Path() == storePkg {
				for _, a := range call.Args {
					if isT(a) && s.Get("opq") == "" {
						return []kit.S{s.Set("opq", cur.At(call))}
					}
				}
			}
			return nil
		}
		out := s
		touched, commits := false, false
		if cf.Lit != nil {
			// a local closure works on the transaction it captures
			for _, site := range tm.sql.Sites {
				inside := false
				for g := site.F; g != nil; g = g.Outer {
					if g == cf {
						inside = true
					}
				}
				if !inside {
					continue
				}
				if o, kind := tm.txObj(site); kind != "tx" || o != t {
					continue
				}
				if len(c02RowTables(site)) > 0 {
					noteRows(site)
					if out.Get("w") == "" {
						out = out.Set("w", "`"+trunc80(site.F.Str(site.Call))+"` at "+site.F.At(site.Call))
					}
					touched = true
				}
				if c02IsHashStore(site) {
					out = out.Set("h", "1")
					touched = true
				}
			}
		}
		hd := tm.handed(cur, call, cf, st.Resolve)
		var idx []int
		for j := range hd {
			idx = append(idx, j)
		}
		sort.Ints(idx)
		for _, j := range idx {
			k := c02TxKey{cf, j}
			if hd[j] != t {
				if tm.hash[k] && s.Get("w") != "" {
					otherHash = "`" + trunc80(cur.Str(call)) + "` at " + cur.At(call) + " runs on another transaction (`" + hd[j].Name() + "`)"
				}
				continue
			}
			if tm.rows[k] {
				for site := range tm.rowSites[k] {
					noteRows(site)
				}
				if out.Get("w") == "" {
					out = out.Set("w", "`"+trunc80(cur.Str(call))+"` at "+cur.At(call))
				}
				touched = true
			}
			if tm.hash[k] {
				out = out.Set("h", "1")
				touched = true
			}
			if tm.commit[k] {
				commits = true
			}
		}
		if commits {
			// the callee commits: judged in the callee with the rows assumed written
			u.commits++
			for _, j := range idx {
				k := c02TxKey{cf, j}
				if hd[j] != t || !tm.commit[k] {
					continue
				}
				var po types.Object
				for o, pk := range tm.param {
					if pk == k {
						po = o
					}
				}
				if po == nil {
					continue
				}
				sub := tm.runUnit(cf, po, cf.Node(), out.Get("w"), false)
				switch {
				case out.Get("w") == "":
				case s.Get("h") == "1" || s.Get("z") == "1":
					u.okEvents++
				case sub.bad != "" && u.bad == "":
					u.bad = sub.bad
				case sub.undec != "" && u.undec == "":
					u.undec = sub.undec
				default:
					u.okEvents += sub.okEvents
				}
			}
			return []kit.S{out.Set("done", "1")}
		}
		if touched {
			return []kit.S{out}
		}
		return nil
	}
	st.OnNode = func(n ast.Node, s kit.S) []kit.S {
		// the delta changes: an earlier zero test no longer holds
		switch y := n.(type) {
		case *ast.AssignStmt:
			for _, l := range y.Lhs {
				if deltas[kit.ObjOf(info, l)] {
					s = s.Del("z")
				}
			}
		case *ast.IncDecStmt:
			if deltas[kit.ObjOf(info, y.X)] {
				s = s.Del("z")
			}
		}
		return []kit.S{s}
	}
	cl := st.Client()
	inner := cl.Cond
	cl.Cond = func(cond ast.Expr, s kit.S) (ts, fs []kit.S) {
		ts, fs = inner(cond, s)
		be, ok := ast.Unparen(cond).(*ast.BinaryExpr)
		if !ok {
			return ts, fs
		}
		x, y := ast.Unparen(be.X), ast.Unparen(be.Y)
		op := be.Op
		if v, isZero := kit.ConstInt(info, x); isZero && v == 0 {
			x, y = y, x
			switch op {
			case token.LSS:
				op = token.GTR
			case token.GTR:
				op = token.LSS
			}
		}
		if v, isZero := kit.ConstInt(info, y); !isZero || v != 0 || !deltas[kit.ObjOf(info, x)] {
			return ts, fs
		}
		mark := func(in []kit.S) []kit.S {
			out := make([]kit.S, len(in))
			for i, z := range in {
				out[i] = z.Set("z", "1")
			}
			return out
		}
		switch op {
		case token.EQL:
			ts = mark(ts)
		case token.NEQ, token.GTR:
			fs = mark(fs)
		}
		return ts, fs
	}
	init := kit.NewS()
	if assumeRows != "" {
		init = init.Set("w", assumeRows)
	}
	res := c.P.Graph(f).Run(init, cl)
	if res.Overflow {
		c.Fatalf("R7: state overflow in %s", f.Name)
	}
	// `defer func() { … tx.Commit() }()`: the Commit runs at every return; the
	// returns that report an error are taken to roll back there
	var deferred *ast.CallExpr
	ast.Inspect(f.Body, func(n ast.Node) bool {
		ds, ok := n.(*ast.DeferStmt)
		if !ok {
			return true
		}
		if lit, ok := ast.Unparen(ds.Call.Fun).(*ast.FuncLit); ok {
			ast.Inspect(lit.Body, func(x ast.Node) bool {
				if call, ok := x.(*ast.CallExpr); ok && kit.CallIs(info, call, qCommit) {
					if sel, ok := ast.Unparen(call.Fun).(*ast.SelectorExpr); ok && tm.base(f, sel.X, 0) == t {
						deferred = call
					}
				}
				return true
			})
		}
		return false
	})
	if deferred != nil {
		u.commits++
	}
	if isParam || deferred != nil {
		what := "hands back to the committing caller"
		if deferred != nil {
			what = "(through the deferred `" + f.Str(deferred) + "`) commits"
		}
		for _, e := range res.Exits {
			if e.Return == nil || e.State.Get("done") == "1" {
				continue
			}
			if st.ReturnsNil(e.Return, e.State) == "nonnil" || c02GuardedErrReturn(f, e.Return) {
				continue
			}
			event(e.Return, what, e.State)
		}
	}
	if u.bad != "" {
		switch {
		case otherHash != "":
			u.bad += "; the hash update " + otherHash
		case len(tm.untraced) > 0:
			// a hash store exists that may well run on this transaction
			u.undec = "no hash store is seen on the transaction before " + u.bad[:strings.Index(u.bad, " the rows")] + ", but " + tm.untraced[0] + " stores hashes on a transaction the checker cannot trace"
			u.bad = ""
		default:
			u.bad += "; no statement that stores " + c02HashTable + "." + c02HashCol + " runs on it before"
		}
	}
	for x := range tables {
		u.tables = append(u.tables, x)
	}
	sort.Strings(u.tables)
	c.Analysed(f)
	return u
}

// c02GuardedErrReturn: `return …, x` directly in the body of `if x != nil`
// (for error variables whose nil-ness the interpreter does not track, e.g.
// because a deferred closure assigns them).
func c02GuardedErrReturn(f *kit.Func, r *ast.ReturnStmt) bool {
	if r == nil || len(r.Results) == 0 {
		return false
	}
	info := f.Info()
	o := kit.ObjOf(info, r.Results[len(r.Results)-1])
	if o == nil || !isErrorType(o.Type()) {
		return false
	}
	blk, ok := f.Prog.Parent(f.File, r).(*ast.BlockStmt)
	if !ok {
		return false
	}
	is, ok := f.Prog.Parent(f.File, blk).(*ast.IfStmt)
	if !ok || is.Body != blk {
		return false
	}
	// nothing between the test and the return assigns the variable
	for _, st := range blk.List {
		if st == ast.Stmt(r) {
			break
		}
		assigned := false
		ast.Inspect(st, func(n ast.Node) bool {
			if as, ok := n.(*ast.AssignStmt); ok {
				for _, l := range as.Lhs {
					if kit.ObjOf(info, l) == o {
						assigned = true
					}
				}
			}
			return true
		})
		if assigned {
			return false
		}
	}
	x, trueIsErr, ok := kit.ErrCheck(info, is.Cond)
	return ok && trueIsErr && kit.ObjOf(info, x) == o
}

func trunc80(s string) string {
	s = strings.Join(strings.Fields(s), " ")
	if len(s) > 80 {
		return s[:77] + "..."
	}
	return s
}

func c02Atomic(c *kit.Ctx, r7 *kit.Rule) {
	tm := newC02TxModel(c)
	nRows, nHash := 0, 0
	for _, s := range tm.sql.Sites {
		if len(c02RowTables(s)) > 0 {
			nRows++
		}
		if c02IsHashStore(s) {
			nHash++
		}
	}
	if nRows == 0 || nHash == 0 {
		c.Fatalf("R7: %d statement(s) inserting into %v and %d statement(s) storing %s.%s found in package store", nRows, c02CoveredTables, nHash, c02HashTable, c02HashCol)
	}
	const consequence = ": a crash or a failing statement between the two leaves a newer point below unchanged hashes; the catch-up compares the hashes of both instances first, finds them equal and never descends to the node, so the accepted write is never transferred"
	const duty = "a Commit that follows a row write on the transaction also follows the statement that stores the hashes, on the same transaction"
	judge := func(u *c02TxUnit, role string) {
		if len(u.tables) == 0 && u.bad == "" {
			return // writes no covered rows
		}
		o := r7.Ob(u.f, u.anchor, strings.Join(u.tables, "+")+" rows and their hashes in one transaction"+role, duty)
		switch {
		case u.bad != "":
			o.Violation("%s%s", u.bad, consequence)
		case u.undec != "":
			o.Undecided("%s", u.undec)
		case u.commits == 0 && role == "":
			o.Undecided("the transaction begun at %s is not committed in %s nor in a function it is handed to", u.f.At(u.anchor), u.f.Name)
		case u.okEvents == 0:
			o.Undecided("no path writes rows and reaches a Commit of the transaction")
		default:
			o.OK("rows and hash store precede the Commit on %d path state(s)", u.okEvents)
		}
	}
	// transactions by the function that begins them
	seen := map[types.Object]bool{}
	for _, f := range tm.funcs {
		if f.Body == nil {
			continue
		}
		for _, call := range f.AllCalls(false) {
			if !tm.isBegin(f, call) {
				continue
			}
			t := tm.beginVar(f, call)
			if t == nil {
				if _, isRet := f.Prog.Parent(f.File, call).(*ast.ReturnStmt); isRet {
					continue // handed straight to the caller, who is judged
				}
				// judged only if rows are written in this function at all
				for _, s := range tm.sql.Sites {
					if s.F.Root() == f.Root() && len(c02RowTables(s)) > 0 {
						r7.Ob(f, call, "transaction object", "the transaction a Begin yields is kept in a variable").
							Undecided("`%s` is not assigned to a variable", f.Str(call))
						break
					}
				}
				continue
			}
			if seen[t] {
				continue
			}
			seen[t] = true
			judge(tm.runUnit(f, t, call, "", false), "")
		}
	}
	// functions that do both halves on a transaction they are handed
	var keys []c02TxKey
	for k := range tm.rows {
		if tm.hash[k] && !tm.commit[k] {
			keys = append(keys, k)
		}
	}
	sort.Slice(keys, func(i, j int) bool {
		if keys[i].f != keys[j].f {
			return keys[i].f.Pos() < keys[j].f.Pos()
		}
		return keys[i].i < keys[j].i
	})
	for _, k := range keys {
		for o, pk := range tm.param {
			if pk == k {
				judge(tm.runUnit(k.f, o, k.f.Node(), "", true), " (handed in)")
			}
		}
	}
	// every inserting statement is covered by one of the verdicts
	for _, s := range tm.sql.Sites {
		rt := c02RowTables(s)
		if len(rt) == 0 || tm.accounted[s] {
			continue
		}
		if s.Recv == "stmt" && s.Prepared != nil && tm.accounted[s.Prepared] {
			continue
		}
		if s.Method == "Prepare" {
			// judged through its Exec
			execd := false
			for _, x := range tm.sql.Sites {
				if x.Prepared == s {
					execd = true
				}
			}
			if execd {
				continue
			}
		}
		o := r7.Ob(s.F, s.Call, strings.Join(rt, "+")+" insert outside the judged transactions", duty)
		switch _, kind := tm.txObj(s); kind {
		case "db":
			o.Violation("`%s` writes rows the stored hash covers outside any transaction, so the hash update cannot commit together with them%s", trunc80(s.F.Str(s.Call)), consequence)
		default:
			o.Undecided("the transaction `%s` runs on cannot be traced to a Begin or to a transaction the function receives", trunc80(s.F.Str(s.Call)))
		}
	}
}
