package props

import (
	"go/ast"
	"go/constant"
	"go/token"
	"go/types"
	"sort"
	"strings"

	"siotcheck/kit"
)

func init() {
	kit.Register(&kit.Prop{
		ID:    "C20",
		Title: "Concurrent use is safe: no races, stale reads, lost replies or deadlock",
		Explanation: "Schedules are out of reach of static analysis; the lock, transaction and reply discipline that concurrency safety needs is decided (DESIGN.md §3/C20): " +
			"R1 every function reachable from a bus handler of the store that begins a transaction holds the single writer mutex from before Begin until after Commit/Rollback, and all of them use the same mutex; " +
			"R2 the cached root id, written after construction, is accessed in handler-reachable code only under a common lock (writes in write mode); " +
			"R3 inside an open transaction every read and write goes through that transaction (so values written are derived from a consistent snapshot); " +
			"R4 every path of every request handler sends exactly one reply (none only where the reply cannot be encoded); R5 on stop every subscription is unsubscribed before the database is closed; " +
			"R8 no subscription of the store gets pending limits below the NATS client's defaults (requests beyond a lowered limit are dropped by the client while the handler is busy, without a reply). " +
			"Data races in general, SQLite's own locking, stale reads and deadlock freedom of the run group are not decided.",
		Assumptions: []string{
			"sync.Mutex / sync.RWMutex semantics; one handler goroutine per NATS subscription",
			"construction (the opener and what only it calls) happens before the object is shared",
			"SQLite serialises writers with the busy timeout; WAL readers see committed snapshots",
		},
		Run: runC20,
	})
}

// lockOps classifies sync lock calls.
func lockOp(info *types.Info, call *ast.CallExpr) (field types.Object, op string) {
	q := kit.QualName(kit.Callee(info, call))
	switch q {
	case "sync.(*Mutex).Lock", "sync.(*RWMutex).Lock":
		op = "W"
	case "sync.(*RWMutex).RLock":
		op = "R"
	case "sync.(*Mutex).Unlock", "sync.(*RWMutex).Unlock", "sync.(*RWMutex).RUnlock":
		op = "U"
	default:
		return nil, ""
	}
	sel, ok := ast.Unparen(call.Fun).(*ast.SelectorExpr)
	if !ok {
		return nil, ""
	}
	return kit.ObjOf(info, sel.X), op
}

// handlerReachable computes the functions of package store reachable through
// static calls (and closure definitions) from functions with a *nats.Msg
// parameter.
func handlerReachable(c *kit.Ctx) map[*kit.Func]bool {
	reach := map[*kit.Func]bool{}
	var work []*kit.Func
	for _, f := range c.P.Funcs("store") {
		if f.Body != nil && msgParam(f) != nil {
			reach[f] = true
			work = append(work, f)
		}
	}
	for len(work) > 0 {
		f := work[len(work)-1]
		work = work[:len(work)-1]
		for _, call := range f.AllCalls(true) {
			// resolve relative to the function that lexically contains the call
			cf := f.CalleeFunc(call)
			if cf != nil && cf.PkgRel() == "store" && !reach[cf] {
				reach[cf] = true
				work = append(work, cf)
			}
		}
		// literals defined inside f are reachable with it
		for _, g := range c.P.Funcs("store") {
			if g.Outer == f && !reach[g] {
				reach[g] = true
				work = append(work, g)
			}
		}
	}
	return reach
}

func runC20(c *kit.Ctx) {
	m := newStoreModel(c)
	r1 := c.Rule("R1", "writer lock around every transaction", 3)
	r2 := c.Rule("R2", "root id guarded by a lock", 2)
	r3 := c.Rule("R3", "reads and writes of an open transaction go through it", 20)
	r4 := c.Rule("R4", "exactly one reply per request", 7)
	r5 := c.Rule("R5", "unsubscribe before closing the database", 1)
	r6 := c.Rule("R6", "consistent lock order", 1)
	r7 := c.Rule("R7", "no blocking bus request from a store handler", 6)
	r8 := c.Rule("R8", "request subscriptions keep the client's pending limits", 1)

	reach := handlerReachable(c)
	if len(reach) < 15 {
		c.Fatalf("only %d functions reachable from bus handlers in package store (floor 15)", len(reach))
	}

	// ---- R1
	var writerLock types.Object
	_ = writerLock
	lockUsers := map[types.Object][]string{}
	for _, f := range c.P.Funcs("store") {
		if f.Body == nil || f.Lit != nil || !reach[f] {
			continue
		}
		begin := beginCallOf(f)
		if begin == nil {
			continue
		}
		c.Analysed(f)
		info := f.Info()
		o := r1.Ob(f, begin, "transaction of "+f.Name, "a mutex is held from before Begin until after Commit/Rollback")
		st := &kit.Std{F: f}
		bad := ""
		var heldAtBegin []types.Object
		check := func(what string, call *ast.CallExpr, s kit.S) {
			held := false
			for _, k := range s.Keys() {
				if strings.HasPrefix(k, "L:") && s.Get(k) == "W" {
					held = true
				}
			}
			if !held && bad == "" {
				bad = what + " at " + f.At(call) + " runs without the writer lock held"
			}
		}
		objs := map[string]types.Object{}
		st.OnCall = func(call *ast.CallExpr, n ast.Node, s kit.S) []kit.S {
			if fld, op := lockOp(info, call); fld != nil {
				k := "L:" + kit.VarID(fld)
				objs[k] = fld
				switch op {
				case "W", "R":
					return []kit.S{s.Set(k, op)}
				case "U":
					return []kit.S{s.Del(k)}
				}
			}
			switch {
			case call == begin:
				check("Begin", call, s)
				for _, k := range s.Keys() {
					if strings.HasPrefix(k, "L:") && s.Get(k) == "W" {
						heldAtBegin = append(heldAtBegin, objs[k])
					}
				}
				return []kit.S{s.Set("tx", "open")}
			case kit.CallIs(info, call, qCommit):
				check("Commit", call, s)
				return []kit.S{s.Set("tx", "done")}
			case isRollback(f, call):
				if s.Get("tx") == "open" {
					check("Rollback", call, s)
				}
				return []kit.S{s.Set("tx", "done")}
			}
			if s.Get("tx") == "open" {
				if site := m.siteOf(call); site != nil {
					check("statement "+siteKey(site), call, s)
				}
			}
			return nil
		}
		st.OnNode = func(n ast.Node, s kit.S) []kit.S {
			// `defer mu.Unlock()` keeps the lock until exit: nothing to do (the
			// Unlock call itself is not executed here)
			return []kit.S{s}
		}
		res := c.P.Graph(f).Run(kit.NewS(), st.Client())
		if res.Overflow {
			c.Fatalf("R1 overflow in %s", f.Name)
		}
		if bad != "" {
			o.Violation("%s: a concurrent point write can interleave with this transaction (lost hash update / SQLITE_BUSY)", bad)
			continue
		}
		names := []string{}
		for _, l := range heldAtBegin {
			if l != nil {
				names = append(names, l.Name())
				lockUsers[l] = append(lockUsers[l], f.Name)
				writerLock = l
			}
		}
		o.OK("holds %v", uniqStrings(names))
	}
	{
		o := r1.Ob(nil, nil, "single writer lock", "all transactions are serialised by one common mutex")
		// a lock is the writer lock if every transaction function holds it at Begin
		nfn := map[string]bool{}
		for _, fs := range lockUsers {
			for _, f := range fs {
				nfn[f] = true
			}
		}
		var common []string
		for l, fs := range lockUsers {
			if len(uniqStrings(fs)) == len(nfn) {
				common = append(common, l.Name())
			}
		}
		sort.Strings(common)
		switch {
		case len(lockUsers) == 0:
			o.Undecided("no transaction holds a lock")
		case len(common) == 0:
			var desc []string
			for l, fs := range lockUsers {
				desc = append(desc, l.Name()+": "+strings.Join(uniqStrings(fs), ","))
			}
			sort.Strings(desc)
			o.Violation("no mutex is held by every transaction (%s): they do not exclude each other", strings.Join(desc, "; "))
		default:
			o.OK("%s held by all %d transaction functions", strings.Join(common, ","), len(nfn))
		}
	}

	// ---- R2 root id accesses in handler-reachable code
	c20RootID(c, m, r2, reach)

	// ---- R3
	c04R1(c, m, r3)

	// ---- R4
	c20Replies(c, m, r4)

	// ---- R5
	c20Shutdown(c, m, r5)

	// ---- R6
	c20LockOrder(c, r6, reach)

	// ---- R7
	c20SelfRequest(c, r7)

	// ---- R8
	c20PendingLimits(c, r8)
}

// c20SelfRequest: each store subscription is served by one goroutine.  A
// handler that issues a request/reply on the bus (nats Request, or a client
// send helper with ack=true) waits for an answer; when the answer has to come
// from a subscription of the same store (p.*, p.*.*, nodes.*, …) the handler
// waits for itself until the timeout and every message queued behind it waits
// too.  Constant boolean arguments (the ack flag) are propagated through the
// module's helpers, deferred function literals included.
func c20SelfRequest(c *kit.Ctx, r7 *kit.Rule) {
	type key struct {
		f    *kit.Func
		bind string
	}
	memo := map[key]string{}
	var reaches func(f *kit.Func, bind map[types.Object]string, depth int) string
	reaches = func(f *kit.Func, bind map[types.Object]string, depth int) string {
		if f == nil || f.Body == nil || depth > 6 {
			return ""
		}
		var bk []string
		for o, v := range bind {
			bk = append(bk, o.Name()+"="+v)
		}
		sort.Strings(bk)
		k := key{f, strings.Join(bk, ",")}
		if v, ok := memo[k]; ok {
			return v
		}
		memo[k] = "" // cut recursion
		info := f.Info()
		st := &kit.Std{F: f}
		hit := ""
		visitCallee := func(call *ast.CallExpr, s kit.S) {
			if hit != "" {
				return
			}
			q := kit.QualName(kit.Callee(info, call))
			if strings.HasPrefix(q, natsPkg+".(*Conn).Request") {
				hit = "`" + f.Str(call.Fun) + "` at " + f.At(call)
				return
			}
			var cf *kit.Func
			if lit, ok := ast.Unparen(call.Fun).(*ast.FuncLit); ok {
				cf = c.P.LitFunc(f.PkgRel(), lit)
			} else {
				cf = f.CalleeFunc(call)
			}
			if cf == nil {
				return
			}
			nb := map[types.Object]string{}
			for i, p := range cf.Params() {
				if i < len(call.Args) {
					if v, ok := st.FoldExpr(call.Args[i], s); ok && v.Kind() == constant.Bool {
						nb[p] = v.String()
					}
				}
			}
			if h := reaches(cf, nb, depth+1); h != "" {
				hit = h + " via " + cf.Name + " (called at " + f.At(call) + ")"
			}
		}
		st.OnCall = func(call *ast.CallExpr, n ast.Node, s kit.S) []kit.S {
			if _, isGo := n.(*ast.GoStmt); isGo {
				return nil
			}
			visitCallee(call, s)
			return nil
		}
		st.OnNode = func(n ast.Node, s kit.S) []kit.S {
			if d, ok := n.(*ast.DeferStmt); ok {
				visitCallee(d.Call, s)
			}
			return []kit.S{s}
		}
		init := kit.NewS()
		for o, v := range bind {
			init = init.Set("v:"+kit.VarID(o), v)
		}
		res := c.P.Graph(f).Run(init, st.Client())
		if res.Overflow {
			c.Fatalf("R7 overflow in %s", f.Name)
		}
		memo[k] = hit
		return hit
	}
	n := 0
	for _, f := range c.P.Funcs("store") {
		if f.Decl == nil || f.Body == nil || msgParam(f) == nil {
			continue
		}
		n++
		c.Analysed(f)
		o := r7.Ob(f, nil, "handler "+f.Name, "no nats request/reply is reachable from this subscription handler (constant ack flags propagated)")
		if h := reaches(f, nil, 0); h != "" {
			o.Violation("the handler can issue the blocking bus request %s: it is served by the single goroutine of its subscription, so a request that the store itself must answer waits for the timeout and stalls every queued message", h)
		} else {
			o.OK("only fire-and-forget publishes reachable")
		}
	}
}

// c20LockOrder: "B acquired while A is held" edges over all handler-reachable
// functions (callees summarised transitively); a cycle means two handlers can
// wait for each other forever, re-acquiring a held mutex deadlocks at once.
func c20LockOrder(c *kit.Ctx, r6 *kit.Rule, reach map[*kit.Func]bool) {
	funcs := c.P.Funcs("store")
	direct := map[*kit.Func]map[types.Object]string{} // lock -> strongest mode
	for _, f := range funcs {
		if f.Body == nil {
			continue
		}
		for _, call := range f.AllCalls(false) {
			if fld, op := lockOp(f.Info(), call); fld != nil && (op == "W" || op == "R") {
				if direct[f] == nil {
					direct[f] = map[types.Object]string{}
				}
				if direct[f][fld] != "W" {
					direct[f][fld] = op
				}
			}
		}
	}
	// transitive acquisitions
	acq := map[*kit.Func]map[types.Object]string{}
	for f, m := range direct {
		acq[f] = map[types.Object]string{}
		for k, v := range m {
			acq[f][k] = v
		}
	}
	for changed := true; changed; {
		changed = false
		for _, f := range funcs {
			if f.Body == nil {
				continue
			}
			for _, call := range f.AllCalls(true) {
				cf := f.CalleeFunc(call)
				if cf == nil || cf == f || cf.PkgRel() != "store" {
					continue
				}
				for l, mode := range acq[cf] {
					if acq[f] == nil {
						acq[f] = map[types.Object]string{}
					}
					if cur, ok := acq[f][l]; !ok || (cur == "R" && mode == "W") {
						acq[f][l] = mode
						changed = true
					}
				}
			}
		}
	}
	type edge struct{ a, b types.Object }
	edges := map[edge]string{}
	reentry := ""
	locks := map[types.Object]bool{}
	for _, f := range funcs {
		if f.Body == nil || !reach[f] || len(acq[f]) == 0 {
			continue
		}
		info := f.Info()
		objs := map[string]types.Object{}
		st := &kit.Std{F: f}
		held := func(s kit.S) map[types.Object]string {
			h := map[types.Object]string{}
			for _, k := range s.Keys() {
				if strings.HasPrefix(k, "L:") {
					h[objs[k]] = s.Get(k)
				}
			}
			return h
		}
		st.OnCall = func(call *ast.CallExpr, n ast.Node, s kit.S) []kit.S {
			if fld, op := lockOp(info, call); fld != nil {
				k := "L:" + kit.VarID(fld)
				objs[k] = fld
				locks[fld] = true
				switch op {
				case "W", "R":
					for h, hm := range held(s) {
						if h == fld {
							if hm == "W" || op == "W" {
								reentry = f.Name + " acquires " + fld.Name() + " at " + f.At(call) + " while already holding it"
							}
							continue
						}
						if _, ok := edges[edge{h, fld}]; !ok {
							edges[edge{h, fld}] = f.Name + " at " + f.At(call)
						}
					}
					return []kit.S{s.Set(k, op)}
				case "U":
					return []kit.S{s.Del(k)}
				}
				return nil
			}
			if cf := f.CalleeFunc(call); cf != nil && cf != f && cf.PkgRel() == "store" {
				for l, mode := range acq[cf] {
					for h, hm := range held(s) {
						if h == l {
							if hm == "W" || mode == "W" {
								reentry = f.Name + " calls " + cf.Name + " at " + f.At(call) + ", which acquires " + l.Name() + ", while already holding it"
							}
							continue
						}
						if _, ok := edges[edge{h, l}]; !ok {
							edges[edge{h, l}] = f.Name + " calls " + cf.Name + " at " + f.At(call)
						}
					}
				}
			}
			return nil
		}
		res := c.P.Graph(f).Run(kit.NewS(), st.Client())
		if res.Overflow {
			c.Fatalf("R6 overflow in %s", f.Name)
		}
		c.Analysed(f)
	}
	o := r6.Ob(nil, nil, "lock order", "the acquired-while-holding relation over the store's mutexes is acyclic and no held mutex is re-acquired")
	if reentry != "" {
		o.Violation("%s: self-deadlock", reentry)
		return
	}
	// cycle detection
	adj := map[types.Object][]types.Object{}
	for e := range edges {
		adj[e.a] = append(adj[e.a], e.b)
	}
	var cyc []string
	var visit func(start, cur types.Object, path []types.Object, seen map[types.Object]bool)
	visit = func(start, cur types.Object, path []types.Object, seen map[types.Object]bool) {
		for _, nx := range adj[cur] {
			if nx == start && len(cyc) == 0 {
				full := append(path, nx)
				for i := 0; i+1 < len(full); i++ {
					cyc = append(cyc, full[i].Name()+" -> "+full[i+1].Name()+" ("+edges[edge{full[i], full[i+1]}]+")")
				}
				return
			}
			if !seen[nx] {
				seen[nx] = true
				visit(start, nx, append(path, nx), seen)
			}
		}
	}
	for l := range locks {
		if len(cyc) == 0 {
			visit(l, l, []types.Object{l}, map[types.Object]bool{l: true})
		}
	}
	if len(cyc) > 0 {
		o.Violation("lock-order inversion: %s — two requests taking the locks in opposite order wait for each other forever and every later request queues behind them", strings.Join(cyc, "; "))
		return
	}
	var desc []string
	for e, where := range edges {
		desc = append(desc, e.a.Name()+" -> "+e.b.Name()+" ("+where+")")
	}
	sort.Strings(desc)
	o.OK("%d mutexes, order edges: %s", len(locks), strings.Join(desc, "; "))
}

func c20RootID(c *kit.Ctx, m *storeModel, r2 *kit.Rule, reach map[*kit.Func]bool) {
	if m.rootField == nil {
		c.Fatalf("R2: cached root id field not found")
	}
	type access struct {
		f     *kit.Func
		n     ast.Node
		write bool
		held  map[string]string // lock -> mode
	}
	var accs []access
	for _, f := range c.P.Funcs("store") {
		if f.Body == nil || !reach[f] {
			continue
		}
		info := f.Info()
		// does f touch the field at all?
		touches := false
		ast.Inspect(f.Body, func(n ast.Node) bool {
			if _, ok := n.(*ast.FuncLit); ok {
				return false
			}
			if sel, ok := n.(*ast.SelectorExpr); ok && kit.ObjOf(info, sel) == types.Object(m.rootField) {
				touches = true
			}
			return true
		})
		if !touches {
			continue
		}
		c.Analysed(f)
		st := &kit.Std{F: f}
		seen := map[ast.Node]bool{}
		st.OnCall = func(call *ast.CallExpr, n ast.Node, s kit.S) []kit.S {
			if fld, op := lockOp(info, call); fld != nil {
				k := "L:" + fld.Name()
				switch op {
				case "W", "R":
					return []kit.S{s.Set(k, op)}
				case "U":
					return []kit.S{s.Del(k)}
				}
			}
			return nil
		}
		record := func(n ast.Node, s kit.S) {
			ast.Inspect(n, func(x ast.Node) bool {
				if _, ok := x.(*ast.FuncLit); ok {
					return false
				}
				sel, ok := x.(*ast.SelectorExpr)
				if !ok || kit.ObjOf(info, sel) != types.Object(m.rootField) || seen[sel] {
					return true
				}
				seen[sel] = true
				w := false
				if as, ok := n.(*ast.AssignStmt); ok {
					for _, l := range as.Lhs {
						if ast.Unparen(l) == ast.Expr(sel) {
							w = true
						}
					}
				}
				held := map[string]string{}
				for _, k := range s.Keys() {
					if strings.HasPrefix(k, "L:") {
						held[strings.TrimPrefix(k, "L:")] = s.Get(k)
					}
				}
				accs = append(accs, access{f, sel, w, held})
				return true
			})
		}
		st.OnNode = func(n ast.Node, s kit.S) []kit.S {
			record(n, s)
			return []kit.S{s}
		}
		cl := st.Client()
		origCond := cl.Cond
		cl.Cond = func(cond ast.Expr, s kit.S) (t, fl []kit.S) {
			record(cond, s)
			return origCond(cond, s)
		}
		c.P.Graph(f).Run(kit.NewS(), cl)
	}
	if len(accs) == 0 {
		r2.Ob(nil, nil, "root id accesses", "accesses exist").Undecided("no access to the cached root id in handler-reachable code")
		return
	}
	// common lock
	common := map[string]bool{}
	for k := range accs[0].held {
		common[k] = true
	}
	for _, a := range accs[1:] {
		for k := range common {
			if _, ok := a.held[k]; !ok {
				delete(common, k)
			}
		}
	}
	nw := 0
	for _, a := range accs {
		if a.write {
			nw++
		}
	}
	n := map[string]int{}
	for _, a := range accs {
		kind := "read"
		if a.write {
			kind = "write"
		}
		key := kind + " of the cached root id in " + a.f.Name
		n[key]++
		if n[key] > 1 {
			key += " #" + string(rune('0'+n[key]))
		}
		o := r2.Ob(a.f, a.n, key, "performed under the lock common to all accesses (writes in write mode)")
		switch {
		case len(a.held) == 0:
			o.Violation("%s of the cached root id without any lock while the edge writer replaces it under a lock: data race with a concurrent root insertion", kind)
		case len(common) == 0:
			o.Violation("accesses to the cached root id do not share a lock (this one holds %v)", keysOf(a.held))
		default:
			okMode := true
			if a.write {
				okMode = false
				for k := range common {
					if a.held[k] == "W" {
						okMode = true
					}
				}
			}
			if !okMode {
				o.Violation("the cached root id is written while holding the lock only in read mode")
			} else {
				o.OK("holds %v", keysOf(a.held))
			}
		}
	}
	if nw == 0 {
		c.Note("R2: no write of the cached root id in handler-reachable code; reads are then race-free by construction")
	}
}

func keysOf(m map[string]string) []string {
	var out []string
	for k, v := range m {
		out = append(out, k+"("+v+")")
	}
	sort.Strings(out)
	return out
}

func c20Replies(c *kit.Ctx, m *storeModel, r4 *kit.Rule) {
	for _, f := range c.P.Funcs("store") {
		if f.Body == nil || f.Decl == nil {
			continue
		}
		msg := msgParam(f)
		if msg == nil {
			continue
		}
		info := f.Info()
		st := &kit.Std{F: f}
		// helpers that are handed the message are evaluated inline: a reply sent by
		// `st.replyNothing(msg)` counts like one sent in the handler
		st.ShouldInline = func(cf *kit.Func, call *ast.CallExpr) bool {
			return m.writerOf(st.Cur(), call) == nil && txParamOf(cf) == nil
		}
		isMsg := func(e ast.Expr) bool { return st.ObjOf(e) == types.Object(msg) }
		// isReplyIn: a call (in function cur) that sends to the request's reply subject
		var isReplyIn func(cur *kit.Func, call *ast.CallExpr, resolve bool) bool
		isReplyIn = func(cur *kit.Func, call *ast.CallExpr, resolve bool) bool {
			for _, a := range call.Args {
				if sel, ok := ast.Unparen(a).(*ast.SelectorExpr); ok && sel.Sel.Name == "Reply" {
					if resolve && isMsg(sel.X) {
						return true
					}
					if !resolve && kit.IsNamedType(info.TypeOf(sel.X), natsPkg, "Msg") {
						return true
					}
				}
			}
			if kit.CallIs(info, call, natsPkg+".(*Msg).Respond") {
				return true
			}
			return false
		}
		isReply := func(call *ast.CallExpr) bool { return isReplyIn(st.Cur(), call, true) }
		// a request handler: replies itself, in a local closure, or in a helper it hands the message to
		nreply := 0
		var countIn func(g *kit.Func, depth int)
		seenG := map[*kit.Func]bool{}
		countIn = func(g *kit.Func, depth int) {
			if g == nil || g.Body == nil || seenG[g] || depth > 2 {
				return
			}
			seenG[g] = true
			for _, call := range g.AllCalls(true) {
				if isReplyIn(g, call, false) {
					nreply++
				}
				if cf := g.CalleeFunc(call); cf != nil && cf.PkgRel() == "store" && cf.Lit == nil && m.writerOf(g, call) == nil && txParamOf(cf) == nil {
					passesMsg := false
					for _, a := range call.Args {
						if kit.IsNamedType(info.TypeOf(a), natsPkg, "Msg") {
							passesMsg = true
						}
					}
					if passesMsg {
						countIn(cf, depth+1)
					}
				}
			}
		}
		countIn(f, 0)
		if nreply == 0 {
			continue // not a request handler
		}
		c.Analysed(f)
		st.ErrTag = func(call *ast.CallExpr, s kit.S) string {
			q := kit.QualName(kit.Callee(info, call))
			if strings.HasSuffix(q, "proto.Marshal") || strings.Contains(q, ".ToPb") {
				return "encode"
			}
			return ""
		}
		st.OnErrEdge = func(tag string, isErr bool, s kit.S) (kit.S, bool) {
			if tag == "encode" && isErr {
				return s.Set("encfail", "1"), true
			}
			return s, true
		}
		st.OnCall = func(call *ast.CallExpr, n ast.Node, s kit.S) []kit.S {
			if isReply(call) {
				switch s.Get("r") {
				case "":
					return []kit.S{s.Set("r", "1")}
				default:
					return []kit.S{s.Set("r", "2+")}
				}
			}
			return nil
		}
		res := c.P.Graph(f).Run(kit.NewS(), st.Client())
		if res.Overflow {
			c.Fatalf("R4 overflow in %s", f.Name)
		}
		o := r4.Ob(f, nil, "replies of "+f.Name, "every path sends exactly one reply (none only where the reply could not be encoded)")
		bad := ""
		var path []string
		for _, e := range res.Exits {
			if e.Return == nil && len(e.Block.Succs) == 0 && len(e.Block.Nodes) > 0 {
				// panic / no-return: ignore
				if _, isRet := e.Block.Nodes[len(e.Block.Nodes)-1].(*ast.ReturnStmt); !isRet {
					continue
				}
			}
			switch e.State.Get("r") {
			case "":
				if e.State.Get("encfail") == "1" {
					continue
				}
				bad = "a path ends without replying: the requester waits for its timeout"
				path = res.PathTo(e)
			case "2+":
				bad = "a path replies more than once: the second message is taken as the answer to nothing or to a later request"
				path = res.PathTo(e)
			}
		}
		if bad != "" {
			o.Violation("%s", bad).WithPath(path)
		} else {
			o.OK("%d reply site(s), one per path", nreply)
		}
	}
}

func c20Shutdown(c *kit.Ctx, m *storeModel, r5 *kit.Rule) {
	funcs := c.P.Funcs("store")
	// helpers reachable from f through static calls inside the package (f first)
	reach := func(f *kit.Func) []*kit.Func {
		out := []*kit.Func{f}
		seen := map[*kit.Func]bool{f: true}
		for i := 0; i < len(out) && i < 40; i++ {
			for _, call := range out[i].AllCalls(false) {
				if cf := out[i].CalleeFunc(call); cf != nil && cf.Body != nil && cf.Decl != nil && cf.PkgRel() == "store" && !seen[cf] {
					seen[cf] = true
					out = append(out, cf)
				}
			}
		}
		return out
	}
	// unsubLoop: a range over a map of subscriptions whose body unsubscribes every entry
	unsubLoop := func(g *kit.Func) *ast.RangeStmt {
		info := g.Info()
		var loop *ast.RangeStmt
		ast.Inspect(g.Body, func(n ast.Node) bool {
			rs, ok := n.(*ast.RangeStmt)
			if !ok {
				return true
			}
			mt, ok := info.TypeOf(rs.X).Underlying().(*types.Map)
			if !ok || !kit.IsNamedType(mt.Elem(), natsPkg, "Subscription") {
				return true
			}
			uncond := false
			for _, st := range rs.Body.List {
				ast.Inspect(st, func(x ast.Node) bool {
					if call, ok := x.(*ast.CallExpr); ok && kit.CallIs(info, call, natsPkg+".(*Subscription).Unsubscribe", natsPkg+".(*Subscription).Drain") {
						// must not sit under an if/else body
						cond := g.Enclosing(call, func(p ast.Node) bool {
							if is, ok := p.(*ast.IfStmt); ok {
								return is.Body.Pos() <= call.Pos() && call.End() <= is.End() && !(is.Init != nil && is.Init.Pos() <= call.Pos() && call.End() <= is.Init.End())
							}
							return false
						})
						if cond == nil || cond.Pos() < rs.Pos() {
							uncond = true
						}
					}
					return true
				})
			}
			hasSkip := false
			ast.Inspect(rs.Body, func(x ast.Node) bool {
				if b, ok := x.(*ast.BranchStmt); ok && (b.Tok == token.BREAK || b.Tok == token.CONTINUE) {
					hasSkip = true
				}
				return true
			})
			if uncond && !hasSkip {
				loop = rs
			}
			return true
		})
		return loop
	}
	// the run function: closes the database and (itself or through helpers) subscribes
	for _, f := range funcs {
		if f.Body == nil || f.Decl == nil {
			continue
		}
		info := f.Info()
		var closeCall *ast.CallExpr
		for _, call := range f.AllCalls(false) {
			if kit.CallIs(info, call, "database/sql.(*DB).Close") {
				closeCall = call
			}
			if cf := f.CalleeFunc(call); cf != nil && cf.Body != nil {
				for _, inner := range cf.AllCalls(false) {
					if kit.CallIs(cf.Info(), inner, "database/sql.(*DB).Close") && len(cf.Body.List) <= 2 {
						closeCall = call
					}
				}
			}
		}
		if closeCall == nil {
			continue
		}
		type subSite struct {
			g    *kit.Func
			call *ast.CallExpr
		}
		var subs []subSite
		for _, g := range reach(f) {
			for _, call := range g.AllCalls(false) {
				if kit.CallIs(g.Info(), call, natsPkg+".(*Conn).Subscribe") {
					subs = append(subs, subSite{g, call})
				}
			}
		}
		if len(subs) == 0 {
			continue
		}
		c.Analysed(f)
		o := r5.Ob(f, closeCall, "shutdown order", "every subscription is unsubscribed before the database is closed")
		// the unsubscribe point in f: the loop itself, or the call of a helper that runs the loop on every path
		var loop *ast.RangeStmt
		var loopIn *kit.Func
		var point ast.Node
		if l := unsubLoop(f); l != nil {
			loop, loopIn, point = l, f, l.X
		} else {
			for _, call := range f.AllCalls(false) {
				g := f.CalleeFunc(call)
				if g == nil || g.Body == nil || g.Decl == nil || g.PkgRel() != "store" {
					continue
				}
				if l := unsubLoop(g); l != nil {
					// the loop is a top-level statement of the helper and nothing returns before it
					top, early := false, false
					for _, st := range g.Body.List {
						if st == ast.Stmt(l) {
							top = true
							break
						}
						ast.Inspect(st, func(x ast.Node) bool {
							if _, ok := x.(*ast.ReturnStmt); ok {
								early = true
							}
							return true
						})
					}
					if top && !early {
						loop, loopIn, point = l, g, call
						c.Analysed(g)
					}
				}
			}
		}
		if loop == nil {
			o.Violation("no loop unsubscribes every subscription of the store before Close: a handler can run against a closed database")
			continue
		}
		mapObj := kit.ObjOf(loopIn.Info(), loop.X)
		// every subscription created on behalf of f is stored in that map
		stored, undec := true, ""
		for _, sb := range subs {
			as, ok := c.P.Parent(sb.g.File, sb.call).(*ast.AssignStmt)
			if !ok || len(as.Lhs) == 0 {
				stored = false
				continue
			}
			ix, ok := ast.Unparen(as.Lhs[0]).(*ast.IndexExpr)
			if !ok {
				stored = false
				continue
			}
			switch {
			case sb.g == loopIn && kit.SameExpr(sb.g.Info(), ix.X, loop.X):
			case mapObj != nil && kit.ObjOf(sb.g.Info(), ix.X) == mapObj:
				if v, isVar := mapObj.(*types.Var); !isVar || !v.IsField() {
					undec = "the map `" + sb.g.Str(ix.X) + "` is not a field; cannot relate it to the map unsubscribed in " + loopIn.Name
				}
			default:
				stored = false
			}
		}
		g := c.P.Graph(f)
		switch {
		case !stored:
			o.Violation("a subscription is not recorded in the map that the shutdown loop unsubscribes")
		case !(point.End() <= closeCall.Pos()) || !g.NodeDominates(point, closeCall):
			o.Violation("the database is closed on a path that has not unsubscribed the handlers first")
		case undec != "":
			o.Undecided("%s", undec)
		default:
			o.OK("range over %s with Unsubscribe (%s) dominates Close; %d subscriptions recorded in it", loopIn.Str(loop.X), loopIn.Name, len(subs))
		}
	}
}
