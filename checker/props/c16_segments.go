package props

import (
	"errors"
	"fmt"
	"go/ast"
	"go/types"
	"strings"

	"siotcheck/kit"
)

// C16/R7 — bounded segmentation check.
//
// The reader (the method applications call, with the object the package's
// constructor builds) is evaluated on the AST by kit.XMachine for every byte
// stream of up to c16SegMax bytes over {delimiter, frame byte}, optionally with
// one damaged frame byte, and every way of cutting the stream into device
// reads.  The in-place decoder is replaced by its contract (skip leading
// delimiters, take the bytes up to the first delimiter, fail on a damaged
// byte).  Required: the frames handed to the caller (count and content of
// the caller's buffer) are exactly the undamaged terminated frames of the
// stream, in order, each once, and the reader has handed out all of them by
// the time it waits for device bytes that never come.
//
// Decided: everything the path rules R1–R4/R6 state, plus what they leave
// out (which bytes of a read the terminator scan looks at, the packet-start
// flag across device reads, progress).  Not decided: streams longer than the
// bound, device reads that return no bytes, buffers shorter than the stream,
// the decoder's arithmetic.

const (
	c16SegMax   = 6    // longest enumerated stream
	c16FrameLo  = 0xa0 // frame byte at stream position i is c16FrameLo+i
	c16Damaged  = 0xee // a frame byte the decoder rejects
	c16DevEnd   = "device script exhausted"
	c16DecodeEr = "decoder rejects the frame"
)

// c16SegEntry climbs from the function that reads the device to the method
// applications call: a same-type method with a []byte parameter and (int,
// error) results that is the only in-package caller.
func c16SegEntry(c *kit.Ctx, rd *c16Reader) *kit.Func {
	entry := rd.f
	for depth := 0; depth < 3; depth++ {
		var callers []*kit.Func
		for _, g := range c.P.Funcs(entry.PkgRel()) {
			if g == entry || g.Body == nil || g.Lit != nil {
				continue
			}
			for _, call := range g.AllCalls(true) {
				if g.CalleeFunc(call) == entry {
					callers = append(callers, g)
					break
				}
			}
		}
		if len(callers) != 1 {
			return entry
		}
		g := callers[0]
		gr, er := c16RecvVar(g), c16RecvVar(entry)
		if gr == nil || er == nil || !types.Identical(gr.Type(), er.Type()) {
			return entry
		}
		entry = g
	}
	return entry
}

// c16ReaderShape: exactly one parameter, a []byte, and results (int, error).
func c16ReaderShape(f *kit.Func) bool {
	ps := f.Params()
	if len(ps) != 1 || !c16IsByteSlice(ps[0].Type()) || f.Obj == nil {
		return false
	}
	res := f.Obj.Type().(*types.Signature).Results()
	if res.Len() != 2 {
		return false
	}
	b, ok := res.At(0).Type().Underlying().(*types.Basic)
	return ok && b.Kind() == types.Int && types.Identical(res.At(1).Type(), types.Universe.Lookup("error").Type())
}

// c16IsDecoder: a function without receiver that takes one []byte, returns
// (int, error) and stores through its parameter: the in-place decoder.
func c16IsDecoder(cf *kit.Func) bool {
	if cf == nil || cf.Body == nil || cf.Decl == nil || cf.Decl.Recv != nil || !c16ReaderShape(cf) {
		return false
	}
	p := cf.Params()[0]
	stores := false
	ast.Inspect(cf.Body, func(n ast.Node) bool {
		as, ok := n.(*ast.AssignStmt)
		if !ok {
			return true
		}
		for _, l := range as.Lhs {
			if ix, ok := ast.Unparen(l).(*ast.IndexExpr); ok && kit.ObjOf(cf.Info(), ix.X) == p {
				stores = true
			}
		}
		return true
	})
	return stores
}

// c16Constructor finds the package function that builds the reader's type
// from a device (a parameter the device field's type accepts).
func c16Constructor(c *kit.Ctx, rd *c16Reader, entry *kit.Func) *kit.Func {
	rt := c16RecvVar(entry).Type()
	if p, ok := rt.(*types.Pointer); ok {
		rt = p.Elem()
	}
	var found []*kit.Func
	for _, g := range c.P.Funcs(entry.PkgRel()) {
		if g.Body == nil || g.Decl == nil || g.Decl.Recv != nil || g.Obj == nil {
			continue
		}
		sig := g.Obj.Type().(*types.Signature)
		if sig.Results().Len() != 1 {
			continue
		}
		res := sig.Results().At(0).Type()
		if p, ok := res.(*types.Pointer); ok {
			res = p.Elem()
		}
		if !types.Identical(res, rt) {
			continue
		}
		devs, ok := 0, true
		for _, p := range g.Params() {
			switch {
			case types.IsInterface(p.Type()) && types.AssignableTo(p.Type(), rd.dev.Type()):
				devs++
			case c16IntVar(p):
			default:
				ok = false
			}
		}
		if ok && devs == 1 {
			found = append(found, g)
		}
	}
	if len(found) == 1 {
		return found[0]
	}
	return nil
}

type c16SegRun struct {
	stream []int64
	cuts   []int // chunk lengths
}

func c16Hex(d []int64) string {
	if len(d) == 0 {
		return "[]"
	}
	var sb strings.Builder
	sb.WriteByte('[')
	for i, v := range d {
		if i > 0 {
			sb.WriteByte(' ')
		}
		fmt.Fprintf(&sb, "%02x", v)
	}
	sb.WriteByte(']')
	return sb.String()
}

func (r c16SegRun) String() string {
	var sb strings.Builder
	at := 0
	for _, n := range r.cuts {
		sb.WriteString(c16Hex(r.stream[at : at+n]))
		at += n
	}
	return sb.String()
}

// frames lists the undamaged terminated frames of the stream.
func (r c16SegRun) frames() (good [][]int64, damaged int) {
	var cur []int64
	for _, v := range r.stream {
		if v != 0 {
			cur = append(cur, v)
			continue
		}
		if len(cur) > 0 {
			bad := false
			for _, x := range cur {
				if x == c16Damaged {
					bad = true
				}
			}
			if bad {
				damaged++
			} else {
				good = append(good, cur)
			}
		}
		cur = nil
	}
	return good, damaged
}

func c16SameBytes(a, b []int64) bool {
	if len(a) != len(b) {
		return false
	}
	for i := range a {
		if a[i] != b[i] {
			return false
		}
	}
	return true
}

// c16SegOutcome of one run: "" = as specified.
type c16SegOutcome struct {
	viol  string
	undec string
}

// run evaluates the reader on one scripted device.
func (sg *c16Seg) run(r c16SegRun) c16SegOutcome {
	n := len(r.stream)
	size := n + 3
	m := &kit.XMachine{P: sg.c.P, MaxSteps: 400000}
	m.Stub = func(cf *kit.Func, args []kit.XVal) ([]kit.XVal, bool) {
		if !sg.decoders[cf] || len(args) != 1 || (args[0].K != 's' && args[0].K != 'n') {
			return nil, false
		}
		// the decoder's contract: leading delimiters skipped, the bytes up to the
		// first delimiter moved to the front, their number returned
		var frame []int64
		if args[0].K == 's' {
			for _, v := range m.Content(args[0]) {
				if v == 0 {
					if len(frame) > 0 {
						break
					}
					continue
				}
				frame = append(frame, v)
			}
		}
		for _, v := range frame {
			if v == c16Damaged {
				return []kit.XVal{kit.XInt(0), kit.XErr(c16DecodeEr)}, true
			}
		}
		for i, v := range frame {
			m.SetElem(args[0], i, v)
		}
		return []kit.XVal{kit.XInt(int64(len(frame))), kit.XErr("")}, true
	}
	at, chunk := 0, 0
	rest := 0
	if len(r.cuts) > 0 {
		rest = r.cuts[0]
	}
	ended := false
	var buf kit.XVal // the caller's buffer of the current call
	held := ""       // what the reader holds when it asks the exhausted device for more
	dev := &kit.XDev{Read: func(m *kit.XMachine, p kit.XVal) (int64, string) {
		if p.Len == 0 {
			return 0, ""
		}
		for rest == 0 {
			chunk++
			if chunk >= len(r.cuts) {
				if !ended && p.Arr == buf.Arr && p.Off <= buf.Len {
					held = fmt.Sprintf("; when it asks the device for more at %s the caller's buffer holds b[0:%d] = %s", m.CallAt, p.Off, c16Hex(m.Content(kit.XVal{K: 's', Arr: buf.Arr, Len: p.Off, Cap: buf.Cap})))
				}
				ended = true
				return 0, c16DevEnd
			}
			rest = r.cuts[chunk]
		}
		k := min(rest, p.Len)
		for i := 0; i < k; i++ {
			m.SetElem(p, i, r.stream[at+i])
		}
		at += k
		rest -= k
		return int64(k), ""
	}}
	undecided := func(err error) c16SegOutcome {
		return c16SegOutcome{undec: fmt.Sprintf("the evaluation of device reads %s stops at a construct the evaluator does not model: %s", r, err)}
	}
	var cargs []kit.XVal
	for _, p := range sg.ctor.Params() {
		if types.IsInterface(p.Type()) {
			cargs = append(cargs, kit.XVal{K: 'D', Dev: dev})
		} else {
			cargs = append(cargs, kit.XInt(int64(size)))
		}
	}
	res, err := m.Call(sg.ctor, nil, cargs)
	if err != nil || len(res) != 1 || res[0].K != 'o' {
		if err == nil {
			err = errors.New("the constructor does not return an object")
		}
		var crash *kit.XCrash
		if errors.As(err, &crash) {
			return c16SegOutcome{viol: fmt.Sprintf("%s panics when it is given a device and the limit %d: %s", sg.ctor.Name, size, crash)}
		}
		return undecided(err)
	}
	recv := res[0]
	want, damaged := r.frames()
	got := 0
	var trace []string
	maxCalls := len(want) + damaged + 3
	for call := 1; ; call++ {
		if call > maxCalls {
			return c16SegOutcome{viol: fmt.Sprintf("with device reads %s the reader returns %d times without delivering a frame of the stream or reaching the end of the device data (%s): it makes no progress, no later frame is delivered", r, call-1, strings.Join(trace, "; "))}
		}
		buf = kit.XNewSlice(size)
		res, err := m.Call(sg.entry, &recv, []kit.XVal{buf})
		if err != nil {
			var crash *kit.XCrash
			var spin *kit.XTimeout
			switch {
			case errors.As(err, &crash):
				return c16SegOutcome{viol: fmt.Sprintf("with device reads %s call %d of %s panics: %s", r, call, sg.entry.Name, crash)}
			case errors.As(err, &spin):
				return c16SegOutcome{viol: fmt.Sprintf("with device reads %s call %d of %s does not return (%s): the reader spins and no later frame is delivered", r, call, sg.entry.Name, spin)}
			}
			return undecided(err)
		}
		if len(res) != 2 || res[0].K != 'i' || res[1].K != 'e' {
			return undecided(fmt.Errorf("%s does not return (int, error)", sg.entry.Name))
		}
		cnt, rerr := res[0].I, res[1].Err
		if rerr != "" {
			trace = append(trace, fmt.Sprintf("call %d: error (%s)", call, rerr))
			if ended {
				break
			}
			if damaged == 0 {
				return c16SegOutcome{viol: fmt.Sprintf("with device reads %s (no byte damaged) call %d of %s reports an error (%s) although the device delivered every byte without error; frames of the stream: %s", r, call, sg.entry.Name, rerr, c16Frames(want))}
			}
			continue
		}
		if cnt <= 0 {
			trace = append(trace, fmt.Sprintf("call %d: nothing", call))
			continue
		}
		if cnt > int64(size) {
			return c16SegOutcome{viol: fmt.Sprintf("with device reads %s call %d of %s returns the count %d for a buffer of %d bytes", r, call, sg.entry.Name, cnt, size)}
		}
		frame := m.Content(kit.XVal{K: 's', Arr: buf.Arr, Len: int(cnt), Cap: buf.Cap})
		trace = append(trace, fmt.Sprintf("call %d: frame %s", call, c16Hex(frame)))
		if got >= len(want) {
			return c16SegOutcome{viol: fmt.Sprintf("with device reads %s call %d of %s delivers %s, which is not a frame of the stream at this point (all %d frames %s were delivered before): a frame is delivered twice or made up from stale bytes", r, call, sg.entry.Name, c16Hex(frame), len(want), c16Frames(want))}
		}
		if !c16SameBytes(frame, want[got]) {
			return c16SegOutcome{viol: fmt.Sprintf("with device reads %s call %d of %s delivers %s where frame %d of the stream, %s, is due (%s)", r, call, sg.entry.Name, c16Hex(frame), got+1, c16Hex(want[got]), strings.Join(trace, "; "))}
		}
		got++
	}
	if got < len(want) {
		return c16SegOutcome{viol: fmt.Sprintf("with device reads %s the reader waits for more device bytes although frame %d of the stream, %s, is complete and was not delivered (%s)%s: a delimiter that ends a started frame was passed over or its bytes were dropped; the frame is withheld until later bytes arrive, or lost", r, got+1, c16Hex(want[got]), strings.Join(trace, "; "), held)}
	}
	return c16SegOutcome{}
}

func c16Frames(fs [][]int64) string {
	var out []string
	for _, f := range fs {
		out = append(out, c16Hex(f))
	}
	if len(out) == 0 {
		return "none"
	}
	return strings.Join(out, " ")
}

type c16Seg struct {
	c        *kit.Ctx
	entry    *kit.Func
	ctor     *kit.Func
	decoders map[*kit.Func]bool
}

// c16Segments opens and decides the R7 obligation of one reader.
func c16Segments(c *kit.Ctx, r7 *kit.Rule, rd *c16Reader) {
	entry := c16SegEntry(c, rd)
	o := r7.Ob(entry, entry.Node(), "bounded segmentation check", fmt.Sprintf("for every stream of up to %d bytes (delimiters, frame bytes, at most one damaged byte) and every cut into device reads, the reader hands out exactly the undamaged terminated frames, in order, each once", c16SegMax))
	if !c16ReaderShape(entry) {
		o.Undecided("%s does not have the shape of a reader, one []byte parameter and (int, error) results", entry.Name)
		return
	}
	sg := &c16Seg{c: c, entry: entry, decoders: map[*kit.Func]bool{}}
	// decoders the reader reaches through same-package calls
	seen := map[*kit.Func]bool{entry: true}
	work := []*kit.Func{entry}
	for len(work) > 0 {
		f := work[0]
		work = work[1:]
		for _, call := range f.AllCalls(true) {
			cf := f.CalleeFunc(call)
			if cf == nil || cf.Body == nil || cf.Pkg != entry.Pkg || seen[cf] {
				continue
			}
			seen[cf] = true
			if c16IsDecoder(cf) {
				sg.decoders[cf] = true
				continue
			}
			work = append(work, cf)
		}
	}
	if len(sg.decoders) == 0 {
		o.Undecided("%s reaches no in-place decoder (a function of the package that takes a []byte, stores through it and returns (int, error)): what it hands to the caller cannot be related to the stream", entry.Name)
		return
	}
	sg.ctor = c16Constructor(c, rd, entry)
	if sg.ctor == nil {
		o.Undecided("no single function of the package builds %s from a device and integers: the object the reader runs on is not known", c16RecvVar(entry).Type().String())
		return
	}
	for f := range seen {
		if !sg.decoders[f] {
			c.Analysed(f)
		}
	}
	c.Analysed(sg.ctor)
	runs := 0
	defer func() { c.AddValuations(runs) }()
	for n := 1; n <= c16SegMax; n++ {
		for bits := 0; bits < 1<<n; bits++ {
			// bit i set: stream position i holds a frame byte
			base := make([]int64, n)
			var frameAt []int
			for i := 0; i < n; i++ {
				if bits>>i&1 == 1 {
					base[i] = int64(c16FrameLo + i)
					frameAt = append(frameAt, i)
				}
			}
			for dmg := -1; dmg < len(frameAt); dmg++ {
				stream := append([]int64(nil), base...)
				if dmg >= 0 {
					stream[frameAt[dmg]] = c16Damaged
				}
				for seg := 0; seg < 1<<(n-1); seg++ {
					// bit j set: a cut behind position j
					var cuts []int
					last := 0
					for j := 0; j < n-1; j++ {
						if seg>>j&1 == 1 {
							cuts = append(cuts, j+1-last)
							last = j + 1
						}
					}
					cuts = append(cuts, n-last)
					runs++
					out := sg.run(c16SegRun{stream, cuts})
					if out.viol != "" {
						o.Violation("%s", out.viol)
						return
					}
					if out.undec != "" {
						o.Undecided("%s", out.undec)
						return
					}
				}
			}
		}
	}
	o.OK("%d runs (streams of 1..%d bytes × damage × segmentations): every undamaged terminated frame delivered once, in order, before the reader waits for more", runs, c16SegMax)
}
