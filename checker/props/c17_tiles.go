package props

import (
	"fmt"
	"go/ast"
	"go/token"
	"go/types"
	"sort"

	"siotcheck/kit"
)

// c17Tiler reads how a fixed-size byte object (the zeroed head of a packet
// slice, a [N]byte array, a make([]byte, N) local) is filled by top-level
// `o[k] = x` and `copy(o[a:b], src)` statements of the encoder.  Both encoder
// models (bytes.Buffer and []byte) use it for a header that is prepared in
// one object and then written as a whole.
//
// Bytes that no store covers stay zero.  Zero bytes that directly follow the
// window the subject is copied into are the padding of the subject field: the
// field is window + padding, but only the window can hold subject bytes
// (em.subjField), so the length refusal is judged against the window.
type c17Tiler struct {
	f          *kit.Func
	em         *c17EncModel
	buf        types.Object // the packet object itself (stores inside nested statements are reported by the caller)
	byteParams []types.Object
	strParams  []types.Object
}

func (tl *c17Tiler) isObj(e ast.Expr, o types.Object) bool {
	id, ok := ast.Unparen(e).(*ast.Ident)
	return ok && o != nil && kit.ObjOf(tl.f.Info(), id) == o
}

func (tl *c17Tiler) mentions(n ast.Node, o types.Object) bool {
	info := tl.f.Info()
	hit := false
	ast.Inspect(n, func(x ast.Node) bool {
		if id, ok := x.(*ast.Ident); ok && kit.ObjOf(info, id) == o {
			hit = true
		}
		return !hit
	})
	return hit
}

func (tl *c17Tiler) problem(format string, a ...any) {
	tl.em.problems = append(tl.em.problems, fmt.Sprintf(format, a...))
}

// constOf: an integer constant, constant arithmetic, or a local with one
// constant definition.
func (tl *c17Tiler) constOf(e ast.Expr) (int64, bool) {
	info := tl.f.Info()
	if v, ok := kit.ConstInt(info, e); ok {
		return v, true
	}
	if be, ok := ast.Unparen(e).(*ast.BinaryExpr); ok {
		a, ok1 := tl.constOf(be.X)
		b, ok2 := tl.constOf(be.Y)
		if ok1 && ok2 {
			switch be.Op {
			case token.ADD:
				return a + b, true
			case token.SUB:
				return a - b, true
			case token.MUL:
				return a * b, true
			}
		}
		return 0, false
	}
	if id, ok := ast.Unparen(e).(*ast.Ident); ok {
		if o := kit.ObjOf(info, id); o != nil {
			if def := c12SingleDef(tl.f, o); def != nil {
				return kit.ConstInt(info, def)
			}
		}
	}
	// len(arr) of a fixed array is a constant the type checker knows; len of
	// a local made with a constant length is one we know
	if call, ok := ast.Unparen(e).(*ast.CallExpr); ok && len(call.Args) == 1 {
		if b, isB := kit.Callee(info, call).(*types.Builtin); isB && b.Name() == "len" {
			if _, n, ok := tl.fixedObject(call.Args[0]); ok {
				return n, true
			}
		}
	}
	return 0, false
}

// fixedObject: e is a fixed-size byte object prepared before being written:
// `arr[:]` of a local [N]byte, or a local made with a constant length.
func (tl *c17Tiler) fixedObject(e ast.Expr) (types.Object, int64, bool) {
	info := tl.f.Info()
	e = ast.Unparen(e)
	if se, ok := e.(*ast.SliceExpr); ok && se.Low == nil && se.High == nil && se.Max == nil {
		e = ast.Unparen(se.X)
	}
	id, ok := e.(*ast.Ident)
	if !ok {
		return nil, 0, false
	}
	o := kit.ObjOf(info, id)
	if o == nil {
		return nil, 0, false
	}
	if arr, ok := o.Type().Underlying().(*types.Array); ok {
		if b, ok := arr.Elem().Underlying().(*types.Basic); ok && b.Kind() == types.Uint8 {
			return o, arr.Len(), true
		}
	}
	if def := c12SingleDef(tl.f, o); def != nil {
		if dc, ok := ast.Unparen(def).(*ast.CallExpr); ok && len(dc.Args) == 2 {
			if b, ok := kit.Callee(info, dc).(*types.Builtin); ok && b.Name() == "make" {
				if n, ok := tl.constOf(dc.Args[1]); ok {
					return o, n, true
				}
			}
		}
	}
	return nil, 0, false
}

// tiles: the segments that fill the object o of the given length.  usedAt is
// where the object is handed to the packet (NoPos for the packet itself): a
// store after that point does not reach the packet.
func (tl *c17Tiler) tiles(o types.Object, length int64, what string, usedAt token.Pos) []c17Seg {
	f, info := tl.f, tl.f.Info()
	type region struct {
		lo, hi int64
		role   string
		call   *ast.CallExpr
	}
	var rs []region
	late := func(st ast.Stmt) bool {
		if usedAt.IsValid() && st.Pos() > usedAt {
			tl.problem("%s is written by `%s` after it was added to the packet", what, f.Str(st))
			return true
		}
		return false
	}
	for _, st := range f.Body.List {
		switch y := st.(type) {
		case *ast.AssignStmt:
			if len(y.Lhs) != 1 || len(y.Rhs) != 1 || y.Tok != token.ASSIGN {
				continue
			}
			ix, ok := ast.Unparen(y.Lhs[0]).(*ast.IndexExpr)
			if !ok || !tl.isObj(ix.X, o) || late(st) {
				continue
			}
			k, okk := tl.constOf(ix.Index)
			if !okk {
				tl.problem("store into %s at non-constant offset %s", what, f.Str(ix.Index))
				continue
			}
			r := region{lo: k, hi: k + 1}
			if po := kit.ObjOf(info, y.Rhs[0]); po != nil {
				for _, p := range tl.byteParams {
					if p == po {
						r.role = "seq"
					}
				}
			}
			rs = append(rs, r)
		case *ast.ExprStmt:
			call, ok := ast.Unparen(y.X).(*ast.CallExpr)
			if !ok || len(call.Args) != 2 {
				continue
			}
			if b, isB := kit.Callee(info, call).(*types.Builtin); !isB || b.Name() != "copy" {
				continue
			}
			dst := ast.Unparen(call.Args[0])
			lo, hi := int64(0), length
			ok1, ok2 := true, true
			if se, isSl := dst.(*ast.SliceExpr); isSl && tl.isObj(se.X, o) {
				if se.Low != nil {
					lo, ok1 = tl.constOf(se.Low)
				}
				if se.High != nil {
					hi, ok2 = tl.constOf(se.High)
				}
			} else if !tl.isObj(dst, o) {
				continue
			}
			if late(st) {
				continue
			}
			if !ok1 || !ok2 || lo > hi || hi > length {
				tl.problem("copy destination %s is not a constant window of %s", f.Str(dst), what)
				continue
			}
			r := region{lo: lo, hi: hi, call: call}
			for _, sp := range tl.strParams {
				if tl.mentions(call.Args[1], sp) {
					r.role = "subject"
					tl.em.subjField, tl.em.subjParam = hi-lo, sp
				}
			}
			rs = append(rs, r)
		case *ast.IfStmt, *ast.ForStmt, *ast.RangeStmt, *ast.SwitchStmt, *ast.TypeSwitchStmt, *ast.SelectStmt, *ast.BlockStmt:
			if o != tl.buf && tl.mentions(st, o) {
				tl.problem("%s is touched inside %T, which is conditional or repeated", what, st)
			}
		}
	}
	sort.Slice(rs, func(i, j int) bool { return rs[i].lo < rs[j].lo })
	var out []c17Seg
	pos := int64(0)
	zero := func(upTo int64) {
		// bytes [pos:upTo) are never stored to
		if n := len(out); n > 0 && out[n-1].role == "subject" {
			out[n-1].size += upTo - pos // NUL padding of the subject field
			return
		}
		out = append(out, c17Seg{role: "zero", size: upTo - pos})
	}
	for _, r := range rs {
		switch {
		case r.lo < pos:
			tl.problem("bytes [%d:%d) of %s are written twice", r.lo, pos, what)
		case r.lo > pos:
			zero(r.lo)
		}
		out = append(out, c17Seg{role: r.role, size: r.hi - r.lo, call: r.call})
		pos = r.hi
	}
	if pos < length {
		zero(length)
	}
	return out
}
