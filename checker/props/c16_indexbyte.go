package props

import (
	"go/ast"
	"go/token"

	"siotcheck/kit"
)

// The terminator found by a library search instead of a hand-written scan:
//
//	e := bytes.IndexByte(<view of b | leftover bytes>[lo:hi], 0)
//
// The flow forks at the assignment: on one edge e == -1 (no delimiter in the
// searched bytes), on the other 0 <= e < hi-lo and <region>[lo+e] == 0, the
// fact the delivery rules (R1, R3) need to identify the terminator.  The call
// itself moves nothing (R2).

// c16SliceRoot returns the identifier a chain of two-index slice expressions
// starts from (nil for anything else).
func c16SliceRoot(e ast.Expr) *ast.Ident {
	for depth := 0; depth < 4; depth++ {
		switch x := ast.Unparen(e).(type) {
		case *ast.Ident:
			return x
		case *ast.SliceExpr:
			if x.Slice3 {
				return nil
			}
			e = x.X
		default:
			return nil
		}
	}
	return nil
}

// aliasRooted: e is a slice expression of a local that only ever holds views
// of the caller's buffer.
func (fl *c16Flow) aliasRooted(e ast.Expr) bool {
	if _, ok := ast.Unparen(e).(*ast.SliceExpr); !ok {
		return false
	}
	root := c16SliceRoot(e)
	if root == nil {
		return false
	}
	o := kit.ObjOf(fl.rd.f.Info(), root)
	return o != nil && fl.rd.viewVars[o]
}

// aliasSliceBounds gives the bounds, in the caller's buffer, of a slice
// expression of a view alias: alias = b[alo:ahi], alias[x:y] = b[alo+x : alo+y].
func (fl *c16Flow) aliasSliceBounds(e ast.Expr, s kit.S) (lo, hi kit.Affine, ok bool) {
	se, isSlice := ast.Unparen(e).(*ast.SliceExpr)
	if !isSlice || se.Slice3 {
		return lo, hi, false
	}
	blo, bhi, ok := fl.viewBounds(se.X, s)
	if !ok {
		return lo, hi, false
	}
	lo, hi = blo, bhi
	if se.Low != nil {
		a, ok := fl.rd.aff(se.Low)
		if !ok {
			return lo, hi, false
		}
		lo = blo.Add(a)
	}
	if se.High != nil {
		a, ok := fl.rd.aff(se.High)
		if !ok {
			return lo, hi, false
		}
		hi = blo.Add(a)
	}
	return lo, hi, true
}

// indexByteZero recognises bytes.IndexByte(X, 0) over a view of the caller's
// buffer ("b") or over the leftover bytes ("l"); "" otherwise.
func (fl *c16Flow) indexByteZero(call *ast.CallExpr) string {
	rd := fl.rd
	info := rd.f.Info()
	if !kit.CallIs(info, call, "bytes.IndexByte") || len(call.Args) != 2 {
		return ""
	}
	if v, ok := kit.ConstInt(info, call.Args[1]); !ok || v != 0 {
		return ""
	}
	if fl.isView(call.Args[0]) {
		return "b"
	}
	if root := c16SliceRoot(call.Args[0]); root != nil {
		if o := kit.ObjOf(info, root); o != nil && rd.lbVars[o] {
			return "l"
		}
	}
	return ""
}

// indexByteAssign handles `e := bytes.IndexByte(X, 0)` (also `=`) after the
// generic assignment bookkeeping: two successor states, see above.
func (fl *c16Flow) indexByteAssign(s kit.S, as *ast.AssignStmt) ([]kit.S, bool) {
	rd := fl.rd
	info := rd.f.Info()
	if len(as.Lhs) != 1 || len(as.Rhs) != 1 || (as.Tok != token.ASSIGN && as.Tok != token.DEFINE) {
		return nil, false
	}
	call, ok := ast.Unparen(as.Rhs[0]).(*ast.CallExpr)
	if !ok {
		return nil, false
	}
	region := fl.indexByteZero(call)
	e := kit.ObjOf(info, as.Lhs[0])
	if region == "" || e == nil || !c16IntVar(e) || rd.unsafe[e] {
		return nil, false
	}
	var lo, hi kit.Affine
	switch region {
	case "b":
		lo, hi, ok = fl.viewBounds(call.Args[0], s)
	case "l":
		ok = false
		for o := range rd.lbVars {
			if l, h, ok2 := kit.SliceBounds(info, call.Args[0], o); ok2 {
				lo, hi, ok = l, h, true
			}
		}
	}
	if ok {
		for o := range rd.unsafe {
			if lo.Mentions(o) || hi.Mentions(o) {
				ok = false
			}
		}
	}
	if !ok || lo.Mentions(e) || hi.Mentions(e) {
		return nil, false // bounds not followed: e stays an opaque integer
	}
	tok := kit.VarToken(e)
	s = s.Del("q:opq:" + tok)
	// not found
	none := fl.assignInt(s, e, kit.AffConst(-1), true)
	// found at lo+e
	ev := kit.AffVar(e)
	found := s.Set("a:c:ge:"+fl.intern(ev), "T").
		Set("a:c:lt:"+fl.intern(ev.Sub(hi.Sub(lo))), "T").
		Set("a:z:"+region+":"+fl.intern(lo.Add(ev)), "T")
	return []kit.S{none, found}, true
}
