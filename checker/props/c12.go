package props

import (
	"fmt"
	"go/ast"
	"go/token"
	"go/types"
	"sort"
	"strings"

	"siotcheck/kit"
)

const (
	c12NatsPkg = "github.com/nats-io/nats.go"
)

var c12Unmarshal = []string{
	"google.golang.org/protobuf/proto.Unmarshal",
	"github.com/golang/protobuf/proto.Unmarshal",
	c12UnmarshalOpt,
}

// c12UnmarshalOpt is the options form; with Merge set it does not reset the
// target first (library API).
const c12UnmarshalOpt = "google.golang.org/protobuf/proto.(UnmarshalOptions).Unmarshal"

func init() {
	kit.Register(&kit.Prop{
		ID:    "C12",
		Title: "Wire encodings are lossless and malformed bytes are rejected cleanly",
		Explanation: "Structural necessary conditions of C12 (DESIGN.md §3/C12), decided over every field, index expression, call site and path of the wire codecs: " +
			"R1 every field of data.Point and data.NodeEdge is the only source of exactly one field of its protobuf message in the encoder, is read back from that same field by the decoder, " +
			"and the two transforms are inverse (identity, width-preserving conversions, nanosecond-keeping time wrappers, element-wise nested codecs), for all codec pairs found by signature in package data; " +
			"a nested element reaches the other side exactly as its own codec made it: no statement of the enclosing codec, or of a helper it converts each element with, stores a value that does not come from the element into a field the element codec carries (found by the type of the written field; a helper without such writes that only hands its element to the element codec stands for that codec); " +
			"R2 every pointer-typed message field read from a decoded message is nil-checked or handed only to callees that accept nil before it is dereferenced; " +
			"R3 every index/slice of the result of strings.Split(<nats.Msg>.Subject, …) anywhere in the module and of a []byte parameter in package data is implied by the length guards on every path (interval analysis of len, exact: proof or concrete counterexample); " +
			"a bound taken from a search over the parsed input (bytes/strings Index, IndexByte, IndexAny, LastIndex…, IndexRune) has the value set {-1} ∪ [0, len(haystack)-1]: the not-found result must be excluded by the guards on the path (value-set analysis of the result variable; `if i < 0 { i = len(x) }` is understood), violated when -1 reaches a bound that is out of range for it and no condition on the content was passed; " +
			"R4 on every path on which proto.Unmarshal of a point/node message failed, or its error was not examined, the decoder returns a non-nil error. " +
			"Not decided: protobuf/ptypes library behaviour, UTF-8 validity of strings, float bit-exactness inside protobuf, int<->int32 range of Tombstone; element fields rewritten from element data; search results guarded through conditions on the content itself; parsers that do not go through strings.Split or a []byte parameter of package data.",
		Assumptions: []string{
			"protobuf library: Marshal/Unmarshal are inverse on every field of the generated messages; Unmarshal never stores nil elements in repeated message fields",
			"ptypes.TimestampProto/Timestamp and Time.UnixNano/time.Unix(0,ns) are inverse for times representable on the wire; ptypes.Timestamp and (*Timestamp).AsTime accept a nil timestamp",
			"Tombstone (int) fits int32; NodeEdge.Hash uint32<->int32 is bit-preserving",
			"strings.Split with a non-empty separator returns at least one element",
			"conditions that do not mention the length of the parsed slice are independent of it (both edges feasible for every length)",
			"bytes/strings search functions return -1 or the position of a match inside their first argument; for every length there is an input without the byte, the characters, or the non-empty constant sequence looked for",
		},
		Run: runC12,
	})
}

func c12Rels(c *kit.Ctx) []string {
	var rels []string
	for _, pk := range c.P.Roots {
		if !strings.HasPrefix(pk.PkgPath, kit.ModPath) || len(pk.Syntax) == 0 {
			continue
		}
		rel := strings.TrimPrefix(strings.TrimPrefix(pk.PkgPath, kit.ModPath), "/")
		rels = append(rels, rel)
	}
	sort.Strings(rels)
	return rels
}

func runC12(c *kit.Ctx) {
	// floors are sanity bounds (about 60% of the instance counts of the tree the
	// rules were written against: 22/2/25/6/6), not exact counts: ordinary edits
	// add and remove instances
	r1 := c.Rule("R1", "codec field completeness (both directions)", 13)
	r2 := c.Rule("R2", "nested message fields are nil-safe", 1)
	r3 := c.Rule("R3", "parser indices are implied by length guards", 15)
	r4 := c.Rule("R4", "Unmarshal error decides before the message is used", 4)
	r5 := c.Rule("R5", "the decode target is empty when it is filled", 4)

	// ---- R1
	pairs, codecs := c12DiscoverCodecs(c)
	if len(pairs) < 3 {
		c.Fatalf("R1: %d codec pairs found by signature in package data (3 expected: Point/pb.Point, Point/pb.SerialPoint, NodeEdge/pb.Node)", len(pairs))
	}
	for _, p := range pairs {
		c12ReportPair(c, r1, p, codecs)
	}

	// ---- R2
	c12NilRule(c, r2)

	// ---- R3
	nsplit, nbytes := 0, 0
	for _, rel := range c12Rels(c) {
		for _, f := range c.P.Funcs(rel) {
			if f.Body == nil {
				continue
			}
			for _, cons := range c12SplitConsumers(c, f) {
				nsplit++
				c12RunBounds(c, r3, cons, "subject segment")
				// a helper that hands (a sub-slice of) the split result to its
				// callers: every call site is a consumer too
				if cons.x != nil {
					if pos := c12ReturnedSlicePos(cons); pos >= 0 {
						nsplit += c12RunDerived(c, r3, cons, pos)
					}
				}
			}
		}
	}
	for _, f := range c.P.Funcs("data") {
		for _, cons := range c12ByteParsers(f) {
			nbytes++
			c12RunBounds(c, r3, cons, "payload bytes")
		}
	}
	if nsplit < 6 {
		c.Fatalf("R3: %d consumers of strings.Split(<nats.Msg>.Subject, …) found, at least 6 expected (10 today)", nsplit)
	}
	if nbytes < 1 {
		c.Fatalf("R3: no function of package data indexes a []byte parameter (1 expected: the high-rate payload parser)")
	}

	// ---- R4
	c12UnmarshalRule(c, r4, r5, codecs)
}

// ===========================================================================
// R3

type c12Consumer struct {
	f      *kit.Func
	x      types.Object
	def    ast.Node
	src    []ast.Expr
	minLen int64
	direct *ast.IndexExpr // strings.Split(...)[k] without a variable
	odd    ast.Node       // unsupported consumer shape
}

func c12IsSubject(f *kit.Func, e ast.Expr) bool {
	sel, ok := ast.Unparen(e).(*ast.SelectorExpr)
	if !ok {
		return false
	}
	fld, ok := kit.ObjOf(f.Info(), sel).(*types.Var)
	if !ok || !fld.IsField() || fld.Name() != "Subject" {
		return false
	}
	return kit.IsNamedType(f.Info().TypeOf(sel.X), c12NatsPkg, "Msg")
}

// c12SingleDef returns the only value ever assigned to local variable o in
// the root function of f, or nil.
func c12SingleDef(f *kit.Func, o types.Object) ast.Expr {
	var val ast.Expr
	n := 0
	ast.Inspect(f.Root().Body, func(x ast.Node) bool {
		switch y := x.(type) {
		case *ast.AssignStmt:
			for i, l := range y.Lhs {
				if kit.ObjOf(f.Info(), l) == o {
					n++
					if len(y.Lhs) == len(y.Rhs) {
						val = y.Rhs[i]
					}
				}
			}
		case *ast.ValueSpec:
			for i, nm := range y.Names {
				if f.Info().Defs[nm] == o {
					n++
					if i < len(y.Values) {
						val = y.Values[i]
					}
				}
			}
		}
		return true
	})
	if n != 1 {
		return nil
	}
	return val
}

// c12SplitConsumers finds, in f itself (not its nested literals), the calls
// strings.Split(S, sep) whose S is the Subject field of a nats.Msg (directly
// or through one local copy).
func c12SplitConsumers(c *kit.Ctx, f *kit.Func) []*c12Consumer {
	var out []*c12Consumer
	info := f.Info()
	for _, call := range f.AllCalls(false) {
		if !kit.CallIs(info, call, "strings.Split", "strings.SplitN") || len(call.Args) < 2 {
			continue
		}
		arg := call.Args[0]
		src := []ast.Expr{arg}
		if !c12IsSubject(f, arg) {
			o := kit.ObjOf(info, arg)
			if o == nil {
				continue
			}
			d := c12SingleDef(f, o)
			if d == nil || !c12IsSubject(f, d) {
				continue
			}
			src = append(src, d)
		}
		cons := &c12Consumer{f: f, src: src}
		if sep, ok := kit.ConstString(info, call.Args[1]); ok && sep != "" {
			cons.minLen = 1
		}
		par := c.P.Parent(f.File, call)
		for {
			if p, ok := par.(*ast.ParenExpr); ok {
				par = c.P.Parent(f.File, p)
				continue
			}
			break
		}
		switch p := par.(type) {
		case *ast.AssignStmt:
			if len(p.Lhs) == 1 && len(p.Rhs) == 1 {
				if o := kit.ObjOf(info, p.Lhs[0]); o != nil {
					cons.x, cons.def = o, p
				}
			}
		case *ast.ValueSpec:
			if len(p.Names) == 1 && len(p.Values) == 1 {
				cons.x = info.Defs[p.Names[0]]
				cons.def = p
			}
		case *ast.IndexExpr:
			if p.X == call || ast.Unparen(p.X) == call {
				cons.direct = p
			}
		case *ast.RangeStmt:
			continue // ranging over the segments indexes nothing
		}
		if cons.x == nil && cons.direct == nil {
			cons.odd = call
		}
		out = append(out, cons)
	}
	return out
}

// c12ByteParsers: []byte parameters of f that are indexed or sliced in f.
func c12ByteParsers(f *kit.Func) []*c12Consumer {
	var out []*c12Consumer
	if f.Decl == nil || f.Body == nil {
		return nil
	}
	for _, p := range f.Params() {
		sl, ok := p.Type().Underlying().(*types.Slice)
		if !ok {
			continue
		}
		if b, ok := sl.Elem().Underlying().(*types.Basic); !ok || b.Kind() != types.Uint8 {
			continue
		}
		used := false
		ast.Inspect(f.Body, func(x ast.Node) bool {
			switch y := x.(type) {
			case *ast.IndexExpr:
				if kit.ObjOf(f.Info(), y.X) == p {
					used = true
				}
			case *ast.SliceExpr:
				if kit.ObjOf(f.Info(), y.X) == p {
					used = true
				}
			}
			return !used
		})
		if used {
			out = append(out, &c12Consumer{f: f, x: p})
		}
	}
	return out
}

// c12SiteKey names an index site by role: the index/bounds text without the
// variable name, with an ordinal for repeats inside the function.
func c12SiteKeys(f *kit.Func, role string, sites []*kit.LenSite) map[*kit.LenSite]string {
	keys := map[*kit.LenSite]string{}
	seen := map[string]int{}
	sorted := append([]*kit.LenSite(nil), sites...)
	sort.Slice(sorted, func(i, j int) bool { return sorted[i].Expr.Pos() < sorted[j].Expr.Pos() })
	for _, st := range sorted {
		var k string
		// symbolic bounds (L = length) are independent of local variable names
		los, his := map[string]bool{}, map[string]bool{}
		for _, b := range st.Bounds {
			los[b.Lo], his[b.Hi] = true, true
		}
		join := func(m map[string]bool) string {
			var v []string
			for x := range m {
				v = append(v, x)
			}
			sort.Strings(v)
			if len(v) == 1 {
				return v[0]
			}
			return "{" + strings.Join(v, ",") + "}"
		}
		sym := len(st.Bounds) > 0 && !los["?"] && !his["?"]
		switch x := st.Expr.(type) {
		case *ast.IndexExpr:
			if sym {
				k = fmt.Sprintf("%s [%s]", role, join(los))
			} else {
				k = fmt.Sprintf("%s [%s]", role, f.Str(x.Index))
			}
		case *ast.SliceExpr:
			if sym {
				k = fmt.Sprintf("%s [%s:%s]", role, join(los), join(his))
			} else {
				lo, hi := "", ""
				if x.Low != nil {
					lo = f.Str(x.Low)
				}
				if x.High != nil {
					hi = f.Str(x.High)
				}
				k = fmt.Sprintf("%s [%s:%s]", role, lo, hi)
			}
		}
		seen[k]++
		if n := seen[k]; n > 1 {
			k = fmt.Sprintf("%s #%d", k, n)
		}
		keys[st] = k
	}
	return keys
}

func c12RunBounds(c *kit.Ctx, r *kit.Rule, cons *c12Consumer, role string) {
	f := cons.f
	c.Analysed(f)
	const obl = "the index is within the length on every path that reaches it"
	if cons.direct != nil {
		o := r.Ob(f, cons.direct, role+" (direct index of the split result)", obl)
		if k, ok := kit.ConstInt(f.Info(), cons.direct.Index); ok && k >= 0 && k < cons.minLen {
			o.OK("segment %d always exists", k)
		} else if ok {
			o.Violation("%s indexes the split result without any length guard; a subject with %d segment(s) panics", f.Str(cons.direct), cons.minLen)
		} else {
			o.Undecided("non-constant direct index of a split result")
		}
		return
	}
	if cons.odd != nil {
		r.Ob(f, cons.odd, role+" (split result)", obl).Undecided("the split result is neither bound to a variable, indexed nor ranged over")
		return
	}
	lf := &kit.LenFlow{F: f, X: cons.x, Def: cons.def, MinLen: cons.minLen, Src: cons.src}
	lf.Run()
	keys := c12SiteKeys(f, role, lf.Sites)
	// bounds that come from a search over the input (bytes.IndexByte …): the
	// length engine cannot express them, the search clause decides them
	searched, extra := c12SearchBounds(cons, lf)
	report := func(o *kit.Ob, v *c12SVerdict) {
		switch v.status {
		case "ok":
			o.OK("%s", v.msg)
		case "violation":
			o.Violation("%s", v.msg)
		default:
			o.Undecided("%s", v.msg)
		}
	}
	seen := map[string]int{}
	for _, e := range extra {
		k := fmt.Sprintf("%s (derived value) %s", role, f.Str(e))
		seen[k]++
		if n := seen[k]; n > 1 {
			k = fmt.Sprintf("%s #%d", k, n)
		}
		report(r.Ob(f, e, k, obl), searched[e])
	}
	if len(lf.Sites) == 0 {
		// a split result that is only measured or ranged over has no obligation
		c.Note("R3: %s.%s binds %s but never indexes it", f.PkgRel(), f.Name, cons.x.Name())
		return
	}
	for _, st := range lf.Sites {
		o := r.Ob(f, st.Expr, keys[st], obl)
		if v := searched[st.Expr]; v != nil {
			report(o, v)
			continue
		}
		switch st.Verdict {
		case "ok":
			o.OK("%s: %s", f.Str(st.Expr), st.By)
		case "violation":
			o.Violation("%s", st.Msg)
		default:
			o.Undecided("%s", st.Msg)
		}
	}
}

// ===========================================================================
// R4

// c12MsgTypes returns the message types that take part in a codec pair.
func c12MsgTypes(codecs map[types.Object]*c12Codec) map[*types.TypeName]bool {
	out := map[*types.TypeName]bool{}
	for _, cd := range codecs {
		out[cd.M.Obj()] = true
	}
	return out
}

// c12Contains reports whether message type t is, or transitively holds, one
// of the codec message types.
func c12Contains(t types.Type, set map[*types.TypeName]bool, seen map[*types.TypeName]bool) bool {
	for {
		switch u := t.(type) {
		case *types.Pointer:
			t = u.Elem()
			continue
		case *types.Slice:
			t = u.Elem()
			continue
		}
		break
	}
	n, ok := types.Unalias(t).(*types.Named)
	if !ok {
		return false
	}
	if set[n.Obj()] {
		return true
	}
	if seen[n.Obj()] || n.Obj().Pkg() == nil || n.Obj().Pkg().Path() != c12PbPkg {
		return false
	}
	seen[n.Obj()] = true
	st, ok := n.Underlying().(*types.Struct)
	if !ok {
		return false
	}
	for i := 0; i < st.NumFields(); i++ {
		if st.Field(i).Exported() && c12Contains(st.Field(i).Type(), set, seen) {
			return true
		}
	}
	return false
}

func c12UnmarshalRule(c *kit.Ctx, r, r5 *kit.Rule, codecs map[types.Object]*c12Codec) {
	msgs := c12MsgTypes(codecs)
	other := 0
	for _, rel := range c12Rels(c) {
		if kit.ModPath+"/"+rel == c12PbPkg {
			continue
		}
		for _, f := range c.P.Funcs(rel) {
			if f.Body == nil {
				continue
			}
			for _, call := range f.AllCalls(false) {
				if !kit.CallIs(f.Info(), call, c12Unmarshal...) || len(call.Args) != 2 {
					continue
				}
				if !c12Contains(f.Info().TypeOf(call.Args[1]), msgs, map[*types.TypeName]bool{}) {
					other++
					c.Note("R4: proto.Unmarshal into %s at %s is outside the point/node message family of C12 (not an obligation)", f.Info().TypeOf(call.Args[1]), f.At(call))
					continue
				}
				c12CheckUnmarshal(c, r, f, call)
				c12CheckFresh(c, r5, f, call)
			}
		}
	}
}

func c12CheckUnmarshal(c *kit.Ctx, r *kit.Rule, f *kit.Func, call *ast.CallExpr) {
	info := f.Info()
	c.Analysed(f)
	mt := kit.NamedStructOf(info.TypeOf(call.Args[1]))
	mname := "message"
	if mt != nil {
		mname = "pb." + mt.Obj().Name()
	}
	o := r.Ob(f, call, "Unmarshal into "+mname, "every path on which Unmarshal failed, or its error was not examined, leaves the function with a non-nil error")
	sig := f.Signature()
	hasErr := false
	if sig != nil && sig.Results().Len() > 0 {
		hasErr = types.Identical(sig.Results().At(sig.Results().Len()-1).Type(), types.Universe.Lookup("error").Type())
	}
	m := kit.ObjOf(info, call.Args[1])
	if u, ok := ast.Unparen(call.Args[1]).(*ast.UnaryExpr); ok && u.Op == token.AND {
		m = kit.ObjOf(info, u.X)
	}
	if m == nil {
		o.Undecided("the message argument %s is not a variable", f.Str(call.Args[1]))
		return
	}
	readsM := func(n ast.Node) ast.Node {
		var hit ast.Node
		ast.Inspect(n, func(x ast.Node) bool {
			if x == ast.Node(call) {
				return false
			}
			if id, ok := x.(*ast.Ident); ok && hit == nil && kit.ObjOf(info, id) == m {
				hit = id
			}
			return hit == nil
		})
		return hit
	}
	g := c.P.Graph(f)
	st := &kit.Std{F: f}
	st.ErrTag = func(cl *ast.CallExpr, s kit.S) string {
		if cl == call {
			return "unm"
		}
		return ""
	}
	st.OnCall = func(cl *ast.CallExpr, n ast.Node, s kit.S) []kit.S {
		if cl == call {
			return []kit.S{s.Set("st", "pending").Del("a:unmerr")}
		}
		return nil
	}
	st.OnErrEdge = func(tag string, isErr bool, s kit.S) (kit.S, bool) {
		if tag != "unm" || s.Get("st") == "" {
			return s, true
		}
		if isErr {
			return s.Set("st", "failed"), true
		}
		return s.Set("st", "checked"), true
	}
	// `err != nil` as part of a larger condition: keep the valuation
	var errObj types.Object
	if as, ok := c.P.Parent(f.File, call).(*ast.AssignStmt); ok && len(as.Lhs) == 1 {
		errObj = kit.ObjOf(info, as.Lhs[0])
	}
	st.Eval.Atom = func(e ast.Expr) (string, bool, bool) {
		if x, trueIsErr, ok := kit.ErrCheck(info, e); ok && errObj != nil && kit.ObjOf(info, x) == errObj {
			return "unmerr", !trueIsErr, true
		}
		return "", false, false
	}
	type bad struct {
		node ast.Node
		msg  string
	}
	var bads []bad
	phase := func(s kit.S) string {
		p := s.Get("st")
		if p == "pending" {
			switch s.Get("a:unmerr") {
			case "T":
				return "failed"
			case "F":
				return "checked"
			}
		}
		return p
	}
	check := func(n ast.Node, s kit.S) {
		if hasErr {
			return
		}
		if p := phase(s); p == "pending" || p == "failed" {
			if hit := readsM(n); hit != nil {
				what := "before the error of Unmarshal is examined"
				if p == "failed" {
					what = "on the path where Unmarshal failed"
				}
				bads = append(bads, bad{hit, fmt.Sprintf("the message is read %s (the function has no error result to reject it)", what)})
			}
		}
	}
	st.OnNode = func(n ast.Node, s kit.S) []kit.S {
		contains := false
		ast.Inspect(n, func(x ast.Node) bool {
			if x == ast.Node(call) {
				contains = true
			}
			return !contains
		})
		if !contains {
			// make the outcome of a compound test sticky before the
			// error variable can be reused
			if s.Get("st") == "pending" && s.Has("a:unmerr") {
				s = s.Set("st", phase(s)).Del("a:unmerr")
			}
			check(n, s)
			if as, ok := n.(*ast.AssignStmt); ok && errObj != nil {
				for _, l := range as.Lhs {
					if kit.ObjOf(info, l) == errObj {
						s = s.Del("a:unmerr")
					}
				}
			}
		}
		return []kit.S{s}
	}
	st.Fold = func(e ast.Expr, s kit.S) (bool, bool) {
		check(e, s)
		return false, false
	}
	res := g.Run(kit.NewS(), st.Client())
	if res.Overflow {
		o.Undecided("state space overflow")
		return
	}
	reached := false
	undec := ""
	for _, e := range res.Exits {
		p := phase(e.State)
		if p == "" {
			continue
		}
		reached = true
		if !hasErr || p == "checked" {
			continue
		}
		if e.Return == nil {
			continue // panic / no-return call
		}
		if len(e.Return.Results) == 0 {
			undec = "naked return at " + f.At(e.Return)
			continue
		}
		last := ast.Unparen(e.Return.Results[len(e.Return.Results)-1])
		if p == "pending" {
			// returning the unexamined error itself is a rejection
			if ro := kit.ObjOf(info, last); ro != nil && e.State.Get("ev:"+kit.VarID(ro)) == "unm" {
				continue
			}
			bads = append(bads, bad{e.Return, fmt.Sprintf("`%s` is reached without the error of Unmarshal having been examined; malformed bytes yield a value instead of an error", f.Str(e.Return))})
			continue
		}
		switch st.ReturnsNil(e.Return, e.State) {
		case "nonnil":
		case "nil":
			bads = append(bads, bad{e.Return, fmt.Sprintf("`%s` returns a nil error on the path where Unmarshal failed", f.Str(e.Return))})
		default:
			// the error variable of Unmarshal itself, known non-nil on this edge
			if ro := kit.ObjOf(info, last); ro != nil && e.State.Get("ev:"+kit.VarID(ro)) == "unm" {
				continue
			}
			undec = fmt.Sprintf("`%s` returns an error of unknown nil-ness on the failure path", f.Str(e.Return))
		}
	}
	switch {
	case len(bads) > 0:
		o.Violation("%s (at %s)", bads[0].msg, f.At(bads[0].node))
	case !reached:
		o.Undecided("no exit is reachable after the Unmarshal call")
	case undec != "":
		o.Undecided("%s", undec)
	case hasErr:
		o.OK("every exit after a failed or unexamined Unmarshal returns a non-nil error")
	default:
		o.OK("the message is only read after the error was examined and found nil")
	}
}

// ===========================================================================
// R2

// c12NilSafeLib tables library callees that accept a nil message pointer in
// the given position (-1 = receiver).
var c12NilSafeLib = map[string]int{
	"github.com/golang/protobuf/ptypes.Timestamp":                                  0,
	"google.golang.org/protobuf/types/known/timestamppb.(*Timestamp).AsTime":       -1,
	"google.golang.org/protobuf/types/known/timestamppb.(*Timestamp).CheckValid":   -1,
	"google.golang.org/protobuf/types/known/timestamppb.(*Timestamp).IsValid":      -1,
	"google.golang.org/protobuf/types/known/timestamppb.(*Timestamp).GetSeconds":   -1,
	"google.golang.org/protobuf/types/known/timestamppb.(*Timestamp).GetNanos":     -1,
	"github.com/golang/protobuf/ptypes.TimestampString":                            0,
	"google.golang.org/protobuf/proto.Marshal":                                     0,
	"google.golang.org/protobuf/proto.Size":                                        0,
	"google.golang.org/protobuf/proto.Clone":                                       0,
	"google.golang.org/protobuf/proto.Equal":                                       0,
	"google.golang.org/protobuf/encoding/protojson.Marshal":                        0,
	"google.golang.org/protobuf/encoding/protojson.Format":                         0,
	"google.golang.org/protobuf/types/known/timestamppb.(*Timestamp).String":       -1,
	"google.golang.org/protobuf/types/known/timestamppb.(*Timestamp).ProtoReflect": -1,
}

type c12NilFinding struct {
	unsafe    []string
	undecided []string
	safeBy    []string
}

type c12NilCtx struct {
	c    *kit.Ctx
	memo map[string]*c12NilFinding
}

// nilSafe analyses function f for dereferences of the tracked pointer value
// (expressions accepted by match) that are not dominated by a non-nil fact.
// base is the variable whose reassignment invalidates the facts.
func (nc *c12NilCtx) nilSafe(f *kit.Func, match func(ast.Expr) bool, base types.Object, depth int) *c12NilFinding {
	out := &c12NilFinding{}
	info := f.Info()
	if depth > 4 {
		out.undecided = append(out.undecided, "call chain deeper than 4 in "+f.Name)
		return out
	}
	// base must not be reassigned (keeps the facts simple and sound)
	reassigned := false
	ast.Inspect(f.Body, func(x ast.Node) bool {
		switch y := x.(type) {
		case *ast.AssignStmt:
			if y.Tok == token.DEFINE {
				return true
			}
			for _, l := range y.Lhs {
				if kit.ObjOf(info, l) == base {
					if _, isIdent := ast.Unparen(l).(*ast.Ident); isIdent {
						reassigned = true
					}
				}
				if match(l) {
					reassigned = true
				}
			}
		case *ast.UnaryExpr:
			if y.Op == token.AND && (match(y.X) || kit.ObjOf(info, y.X) == base) {
				if _, isIdent := ast.Unparen(y.X).(*ast.Ident); isIdent || match(y.X) {
					reassigned = true
				}
			}
		}
		return true
	})
	if reassigned {
		out.undecided = append(out.undecided, fmt.Sprintf("%s reassigns or takes the address of the tracked pointer", f.Name))
		return out
	}
	seen := map[string]bool{}
	add := func(list *[]string, s string) {
		if !seen[s] {
			seen[s] = true
			*list = append(*list, s)
		}
	}
	// inspect one node under state s
	var inspect func(n ast.Node, s kit.S)
	inspect = func(n ast.Node, s kit.S) {
		nonNil := s.Get("a:niltrk") == "F"
		ast.Inspect(n, func(x ast.Node) bool {
			switch y := x.(type) {
			case *ast.FuncLit:
				// a use inside a nested literal runs later: facts do not carry over
				ast.Inspect(y.Body, func(z ast.Node) bool {
					if e, ok := z.(ast.Expr); ok && match(e) {
						add(&out.undecided, fmt.Sprintf("%s uses the pointer inside a nested function literal at %s", f.Name, f.At(e)))
					}
					return true
				})
				return false
			case *ast.SelectorExpr:
				if !match(y.X) {
					return true
				}
				sel, ok := info.Selections[y]
				if !ok {
					return true
				}
				if sel.Kind() == types.FieldVal {
					if !nonNil {
						add(&out.unsafe, fmt.Sprintf("%s dereferences it (%s) at %s without a dominating nil check", f.Name, f.Str(y), f.At(y)))
					}
					return false
				}
				return false // method values/calls are handled at the call
			case *ast.StarExpr:
				if match(y.X) && !nonNil {
					add(&out.unsafe, fmt.Sprintf("%s dereferences it (%s) at %s without a dominating nil check", f.Name, f.Str(y), f.At(y)))
				}
			case *ast.CallExpr:
				if nonNil {
					return true
				}
				callee := kit.Callee(info, y)
				q := kit.QualName(callee)
				pos := -2
				if sel, ok := ast.Unparen(y.Fun).(*ast.SelectorExpr); ok && match(sel.X) {
					if s2, ok := info.Selections[sel]; ok && s2.Kind() == types.MethodVal {
						pos = -1
					}
				}
				for i, a := range y.Args {
					if match(a) {
						pos = i
					}
				}
				if pos == -2 {
					return true
				}
				if want, ok := c12NilSafeLib[q]; ok && want == pos {
					add(&out.safeBy, q+" accepts nil")
					return true
				}
				cf := f.CalleeFunc(y)
				if cf == nil || cf.Body == nil || cf.Decl == nil {
					add(&out.undecided, fmt.Sprintf("%s passes it to %s, which is not known to accept nil (at %s)", f.Name, q, f.At(y)))
					return true
				}
				var pobj types.Object
				if pos == -1 {
					if cf.Decl.Recv != nil && len(cf.Decl.Recv.List) == 1 && len(cf.Decl.Recv.List[0].Names) == 1 {
						pobj = cf.Info().Defs[cf.Decl.Recv.List[0].Names[0]]
					}
				} else if ps := cf.Params(); pos < len(ps) {
					if sg := cf.Signature(); sg != nil && !sg.Variadic() {
						pobj = ps[pos]
					}
				}
				if pobj == nil {
					add(&out.undecided, fmt.Sprintf("cannot bind the argument to a parameter of %s", q))
					return true
				}
				if _, isPtr := pobj.Type().Underlying().(*types.Pointer); !isPtr {
					add(&out.undecided, fmt.Sprintf("parameter of %s is not a pointer", q))
					return true
				}
				key := fmt.Sprintf("%s|%d", q, pos)
				sub := nc.memo[key]
				if sub == nil {
					sub = &c12NilFinding{} // recursion guard
					nc.memo[key] = sub
					po := pobj
					*sub = *nc.nilSafe(cf, func(e ast.Expr) bool {
						id, ok := ast.Unparen(e).(*ast.Ident)
						return ok && kit.ObjOf(cf.Info(), id) == po
					}, po, depth+1)
				}
				nc.c.Analysed(cf)
				for _, u := range sub.unsafe {
					add(&out.unsafe, fmt.Sprintf("%s passes it to %s at %s; %s", f.Name, cf.Name, f.At(y), u))
				}
				for _, u := range sub.undecided {
					add(&out.undecided, u)
				}
				if len(sub.unsafe) == 0 && len(sub.undecided) == 0 {
					add(&out.safeBy, fmt.Sprintf("%s nil-checks its parameter before every dereference", cf.Name))
				}
			}
			return true
		})
	}
	g := nc.c.P.Graph(f)
	st := &kit.Std{F: f}
	st.Eval.Atom = func(e ast.Expr) (string, bool, bool) {
		a, b, op, ok := kit.CmpAtom(e)
		if !ok || (op != token.EQL && op != token.NEQ) {
			return "", false, false
		}
		if kit.IsNilIdent(info, a) {
			a, b = b, a
		}
		if !kit.IsNilIdent(info, b) || !match(a) {
			return "", false, false
		}
		return "niltrk", op == token.NEQ, true
	}
	st.OnNode = func(n ast.Node, s kit.S) []kit.S {
		inspect(n, s)
		return []kit.S{s}
	}
	st.Fold = func(e ast.Expr, s kit.S) (bool, bool) {
		// a nil comparison itself is no dereference
		if a, b, op, ok := kit.CmpAtom(e); ok && (op == token.EQL || op == token.NEQ) {
			if (kit.IsNilIdent(info, a) && match(b)) || (kit.IsNilIdent(info, b) && match(a)) {
				return false, false
			}
		}
		inspect(e, s)
		return false, false
	}
	st.OnBranch = func(br kit.Branch, s kit.S) (t, fl []kit.S, handled bool) {
		if br.Kind == kit.BrCase && br.Case != nil {
			inspect(br.Case, s)
		}
		return nil, nil, false
	}
	res := g.Run(kit.NewS(), st.Client())
	if res.Overflow {
		out.undecided = append(out.undecided, "state space overflow in "+f.Name)
	}
	return out
}

type c12NilSite struct {
	f     *kit.Func
	p     types.Object
	fld   types.Object // field, or niladic accessor method
	first ast.Expr
}

func c12NilRule(c *kit.Ctx, r *kit.Rule) {
	nc := &c12NilCtx{c: c, memo: map[string]*c12NilFinding{}}
	isPbPtr := func(t types.Type) bool {
		n := kit.NamedStructOf(t)
		return n != nil && n.Obj().Pkg() != nil && n.Obj().Pkg().Path() == c12PbPkg
	}
	for _, rel := range c12Rels(c) {
		if kit.ModPath+"/"+rel == c12PbPkg {
			continue // generated accessors
		}
		for _, f := range c.P.Funcs(rel) {
			if f.Body == nil {
				continue
			}
			info := f.Info()
			// decoded message variables of f: parameters of a pb message type,
			// Unmarshal targets, range values over their repeated fields
			decoded := map[types.Object]bool{}
			for _, p := range f.Params() {
				if isPbPtr(p.Type()) {
					decoded[p] = true
				}
			}
			for _, call := range f.AllCalls(false) {
				if kit.CallIs(info, call, c12Unmarshal...) && len(call.Args) == 2 {
					if o := kit.ObjOf(info, call.Args[1]); o != nil {
						decoded[o] = true
					}
				}
			}
			for round := 0; round < 2; round++ {
				ast.Inspect(f.Body, func(x ast.Node) bool {
					if _, ok := x.(*ast.FuncLit); ok {
						return false
					}
					if rs, ok := x.(*ast.RangeStmt); ok && rs.Value != nil {
						if sel, ok := ast.Unparen(rs.X).(*ast.SelectorExpr); ok && decoded[kit.ObjOf(info, sel.X)] {
							if o := kit.ObjOf(info, rs.Value); o != nil && isPbPtr(o.Type()) {
								decoded[o] = true
							}
						}
					}
					return true
				})
			}
			if len(decoded) == 0 {
				continue
			}
			// reads P.F of a pointer-to-message field, or P.GetF() through a
			// niladic method of the message type that returns such a pointer
			var sites []*c12NilSite
			idx := map[string]*c12NilSite{}
			isMsgPtr := func(t types.Type) bool {
				_, isPtr := t.Underlying().(*types.Pointer)
				return isPtr && kit.NamedStructOf(t) != nil
			}
			readOf := func(e ast.Expr) (types.Object, types.Object) {
				e = ast.Unparen(e)
				var sel *ast.SelectorExpr
				isCall := false
				switch y := e.(type) {
				case *ast.SelectorExpr:
					sel = y
				case *ast.CallExpr:
					if len(y.Args) != 0 {
						return nil, nil
					}
					sel, _ = ast.Unparen(y.Fun).(*ast.SelectorExpr)
					isCall = true
				}
				if sel == nil {
					return nil, nil
				}
				if _, isIdent := ast.Unparen(sel.X).(*ast.Ident); !isIdent {
					return nil, nil
				}
				p := kit.ObjOf(info, sel.X)
				s2, ok := info.Selections[sel]
				if !ok || p == nil {
					return nil, nil
				}
				switch {
				case !isCall && s2.Kind() == types.FieldVal:
					if isMsgPtr(s2.Obj().Type()) {
						return p, s2.Obj()
					}
				case isCall && s2.Kind() == types.MethodVal:
					fn, _ := s2.Obj().(*types.Func)
					if fn == nil || fn.Pkg() == nil || fn.Pkg().Path() != c12PbPkg {
						return nil, nil
					}
					sg := fn.Type().(*types.Signature)
					if sg.Results().Len() == 1 && isMsgPtr(sg.Results().At(0).Type()) {
						return p, fn
					}
				}
				return nil, nil
			}
			ast.Inspect(f.Body, func(x ast.Node) bool {
				if _, ok := x.(*ast.FuncLit); ok {
					return false
				}
				e, ok := x.(ast.Expr)
				if !ok {
					return true
				}
				p, member := readOf(e)
				if p == nil || !decoded[p] {
					return true
				}
				// a field selector that is the Fun of a getter call is visited as part of the call
				// writes are not reads
				if as, ok := c.P.Parent(f.File, e).(*ast.AssignStmt); ok {
					for _, l := range as.Lhs {
						if l == e {
							return true
						}
					}
				}
				key := kit.VarID(p) + "." + member.Name()
				if idx[key] == nil {
					idx[key] = &c12NilSite{f: f, p: p, fld: member, first: e}
					sites = append(sites, idx[key])
				}
				return true
			})
			for _, s := range sites {
				s := s
				owner := "message"
				if n := kit.NamedStructOf(s.p.Type()); n != nil {
					owner = "pb." + n.Obj().Name()
				}
				o := r.Ob(f, s.first, fmt.Sprintf("%s.%s read from a decoded message", owner, s.fld.Name()),
					"the nested message pointer is nil-checked, or only handed to callees that accept nil, before any dereference")
				// local copies of the field value
				alias := map[types.Object]bool{}
				ast.Inspect(f.Body, func(x ast.Node) bool {
					as, ok := x.(*ast.AssignStmt)
					if !ok || len(as.Lhs) != len(as.Rhs) {
						return true
					}
					for i, rr := range as.Rhs {
						if p, member := readOf(rr); p == s.p && member == s.fld {
							if v := kit.ObjOf(info, as.Lhs[i]); v != nil && c12SingleDef(f, v) != nil {
								alias[v] = true
							}
						}
					}
					return true
				})
				match := func(e ast.Expr) bool {
					e = ast.Unparen(e)
					if id, ok := e.(*ast.Ident); ok {
						return alias[kit.ObjOf(info, id)]
					}
					p, member := readOf(e)
					return p != nil && p == s.p && member == s.fld
				}
				fd := nc.nilSafe(f, match, s.p, 0)
				switch {
				case len(fd.unsafe) > 0:
					o.Violation("%s may be nil after decoding (the field is optional on the wire), and %s", f.Str(s.first), strings.Join(fd.unsafe, "; "))
				case len(fd.undecided) > 0:
					o.Undecided("%s", strings.Join(fd.undecided, "; "))
				case len(fd.safeBy) > 0:
					o.OK("%s", strings.Join(fd.safeBy, "; "))
				default:
					o.OK("never dereferenced in %s (only copied or compared)", f.Name)
				}
			}
		}
	}
}

// ---------------------------------------------------------------------------
// R3: split results returned by a helper

// c12ReturnedSlicePos returns the result position in which the consumer's
// function returns the split result or a slice expression of it (directly or
// through a single-definition local), or -1.
func c12ReturnedSlicePos(cons *c12Consumer) int {
	f := cons.f
	info := f.Info()
	pos := -1
	ast.Inspect(f.Body, func(x ast.Node) bool {
		switch y := x.(type) {
		case *ast.FuncLit:
			return false
		case *ast.ReturnStmt:
			for i, r := range y.Results {
				if c12IsSliceOf(f, info, r, cons.x) && pos < 0 {
					pos = i
				}
			}
		}
		return true
	})
	return pos
}

func c12IsSliceOf(f *kit.Func, info *types.Info, e ast.Expr, x types.Object) bool {
	e = ast.Unparen(e)
	if se, ok := e.(*ast.SliceExpr); ok {
		return kit.ObjOf(info, se.X) == x
	}
	if id, ok := e.(*ast.Ident); ok {
		o := kit.ObjOf(info, id)
		if o == x {
			return true
		}
		if o != nil {
			if def := c12SingleDef(f, o); def != nil && def != e {
				if se, ok := ast.Unparen(def).(*ast.SliceExpr); ok {
					return kit.ObjOf(info, se.X) == x
				}
			}
		}
	}
	return false
}

// c12RunDerived checks every call site of the helper: the helper is analysed
// with the call's constant integer arguments bound to its parameters, the
// lengths of the returned slice on its nil-error and error exits are computed,
// and the caller's indices into the returned slice are decided against them.
// It returns the number of call sites.
func c12RunDerived(c *kit.Ctx, r *kit.Rule, cons *c12Consumer, pos int) int {
	h := cons.f
	hsig := h.Signature()
	if h.Decl == nil || hsig == nil {
		return 0
	}
	nres := hsig.Results().Len()
	hasErr := nres > 1 && types.Identical(hsig.Results().At(nres-1).Type(), types.Universe.Lookup("error").Type())
	const obl = "the index into the slice returned by the subject-splitting helper is within its length on every path"
	n := 0
	for _, rel := range c12Rels(c) {
		for _, f := range c.P.Funcs(rel) {
			if f.Body == nil {
				continue
			}
			for _, call := range f.AllCalls(false) {
				if f.CalleeFunc(call) != h {
					continue
				}
				n++
				c.Analysed(f, h)
				info := f.Info()
				role := "subject segment via " + h.Name
				fail := func(msg string, a ...any) {
					r.Ob(f, call, role+" (call)", obl).Undecided(msg, a...)
				}
				// bind constant integer arguments
				init := kit.NewS()
				hp := h.Params()
				var bound []string
				if !hsig.Variadic() && len(hp) == len(call.Args) {
					for i, p := range hp {
						if b, ok := p.Type().Underlying().(*types.Basic); ok && b.Info()&types.IsInteger != 0 {
							if k, ok := kit.ConstInt(info, call.Args[i]); ok {
								init = init.Set("n:"+kit.VarID(p), fmt.Sprintf("c:%d", k))
								bound = append(bound, fmt.Sprintf("%s=%d", p.Name(), k))
							}
						}
					}
				}
				lh := &kit.LenFlow{F: h, X: cons.x, Def: cons.def, MinLen: cons.minLen, Src: cons.src, Init: init}
				lh.Run()
				if lh.Problem != "" || lh.Result == nil || lh.Result.Overflow {
					fail("helper %s cannot be summarised: %s", h.Name, lh.Problem)
					continue
				}
				domOK, domErr := "", ""
				exact := true
				var off int64
				offSet, offRel := false, true
				why := ""
				for _, e := range lh.Result.Exits {
					if e.Return == nil {
						continue // panic / no-return call
					}
					if len(e.Return.Results) != nres {
						exact, why = false, "return with implicit results"
						continue
					}
					set, o2, rel, ex, ok := lh.ResultLen(e.Return.Results[pos], e.State)
					if !ok {
						// is this exit feasible at all?
						if _, _, _, reach := lh.ValueSet(e.State); reach {
							exact, why = false, fmt.Sprintf("`%s` returns something else than a slice of the split result", h.Str(e.Return))
						}
						continue
					}
					if !ex {
						exact, why = false, "a condition of the helper that depends on the subject length is not interpreted for this call"
					}
					kind := "ok"
					if hasErr {
						last := ast.Unparen(e.Return.Results[nres-1])
						switch {
						case kit.IsNilIdent(h.Info(), last):
						case func() bool {
							cl, isCall := last.(*ast.CallExpr)
							return isCall && kit.CallIs(h.Info(), cl, "errors.New", "fmt.Errorf")
						}():
							kind = "err"
						default:
							kind = "both"
							exact, why = false, fmt.Sprintf("`%s` returns an error of unknown nil-ness", h.Str(e.Return))
						}
					}
					if kind != "err" {
						domOK = kit.LenDomUnion(domOK, set)
						if rel {
							if offSet && off != o2 {
								offRel = false
							}
							off, offSet = o2, true
						} else {
							offRel = false
						}
					}
					if kind != "ok" {
						domErr = kit.LenDomUnion(domErr, set)
					}
				}
				if domOK == "" {
					fail("helper %s has no successful exit for this call (%s)", h.Name, strings.Join(bound, ", "))
					continue
				}
				// the caller's variable
				par := c.P.Parent(f.File, call)
				as, _ := par.(*ast.AssignStmt)
				if as == nil || len(as.Rhs) != 1 || len(as.Lhs) != nres {
					fail("the results of %s are not assigned to variables here", h.Name)
					continue
				}
				x := kit.ObjOf(info, as.Lhs[pos])
				if x == nil {
					r.Ob(f, call, role+" (call)", obl).OK("the returned slice is discarded")
					continue
				}
				lf := &kit.LenFlow{F: f, X: x, Def: as, DefDom: kit.LenDomUnion(domOK, domErr), Init: kit.NewS()}
				if hasErr {
					ev := kit.ObjOf(info, as.Lhs[nres-1])
					cnt := 0
					if ev != nil {
						ast.Inspect(f.Root().Body, func(z ast.Node) bool {
							if a2, ok := z.(*ast.AssignStmt); ok {
								for _, l := range a2.Lhs {
									if kit.ObjOf(info, l) == ev {
										cnt++
									}
								}
							}
							return true
						})
					}
					if ev != nil && cnt == 1 {
						lf.ErrVar, lf.DomOK, lf.DomErr = ev, domOK, domErr
						if domErr == "" {
							lf.DomErr = "0:0" // unreachable error edge
						}
					} else {
						exact, why = false, "the error result of the helper is discarded or its variable is reused"
					}
				}
				if !exact {
					lf.Init = lf.Init.Set("u", "1")
				}
				if offSet && offRel {
					o := off
					lf.Describe = func(l int64) string {
						return fmt.Sprintf(" (the slice returned by %s(%s) for a subject with %d token(s))", h.Name, strings.Join(bound, ", "), l-o)
					}
				}
				lf.Run()
				keys := c12SiteKeys(f, role, lf.Sites)
				if len(lf.Sites) == 0 {
					r.Ob(f, call, role+" (call)", obl).OK("the returned slice is never indexed in %s", f.Name)
					continue
				}
				for _, st := range lf.Sites {
					o := r.Ob(f, st.Expr, keys[st], obl)
					switch st.Verdict {
					case "ok":
						o.OK("%s: %s; helper %s(%s) returns lengths {%s} with a nil error", f.Str(st.Expr), st.By, h.Name, strings.Join(bound, ", "), domOK)
					case "violation":
						o.Violation("call %s at %s: helper %s returns a slice of length {%s} with a nil error, and %s", f.Str(call), f.At(call), h.Name, domOK, st.Msg)
					default:
						msg := st.Msg
						if !exact {
							msg += " (" + why + ")"
						}
						o.Undecided("%s", msg)
					}
				}
			}
		}
	}
	return n
}
