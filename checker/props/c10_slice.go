package props

import (
	"fmt"
	"go/ast"
	"go/token"
	"go/types"
	"reflect"
	"sort"
	"strconv"
	"strings"

	"golang.org/x/tools/go/cfg"

	"siotcheck/kit"
)

// C10/R9 (differ, slice-typed field): a change of length always shows in the
// diff.
//
// Merge applies a diff to the decoded `before`; whatever the diff does not
// mention stays as it was.  So for a slice field whose length differs between
// `before` and `after` the differ must emit a live point for every index that
// exists only in `after` and a tombstone for every index that exists only in
// `before` — whatever else holds for the two values.  In particular the two
// slices may share their backing array (`after := before; after.S =
// after.S[:1]`, or an append within spare capacity): identity of the storage
// (Value.Pointer / UnsafePointer) says nothing about the length, and the
// common prefix being equal element by element says nothing about the rest.
//
// Decided by scenario evaluation (K4) of the body of the differ's loop over
// the fields: the field is a point field of kind Slice, the lengths are small
// concrete numbers, the common elements are equal, and the two slices either
// share their backing array or do not.  Integers, kinds, lengths, element
// comparisons and storage identity have definite values in the scenario; every
// path must emit the points of the length difference or return an error.  A
// path that emits too little and depends on something the scenario does not
// determine, or that runs through a helper this evaluation cannot follow, is
// "undecided".

type c10SliceScenario struct {
	bLen, aLen int64
	aliased    bool
}

func (sc c10SliceScenario) String() string {
	how := "separate backing arrays"
	if sc.aliased {
		how = "shared backing array"
	}
	return fmt.Sprintf("len(before)=%d, len(after)=%d, %s", sc.bLen, sc.aLen, how)
}

var c10SliceScenarios = []c10SliceScenario{
	{2, 1, true}, {1, 0, true}, {1, 2, true},
	{2, 1, false}, {1, 0, false}, {1, 2, false}, {0, 1, false},
}

type c10Def struct {
	rhs ast.Expr // nil: not an expression (range variable, …)
	idx int      // result index when rhs is a call with several results
	n   int      // number of variables defined from rhs
}

type c10SliceEval struct {
	c      *kit.Ctx
	m      *c10Model
	f      *kit.Func
	info   *types.Info
	region ast.Node // body of the loop over the struct's fields, or the whole function body
	loop   ast.Stmt // that loop (nil: the differ is entered per field)
	roots  map[types.Object]string
	defs   map[types.Object][]c10Def
	sc     c10SliceScenario
	depth  int // > 0: the frame of a helper evaluated in line

	panicked bool // the expression just evaluated indexes outside the slice
}

func c10IsErrorT(t types.Type) bool {
	return t != nil && types.Identical(t, types.Universe.Lookup("error").Type())
}

func c10IsPointT(t types.Type) bool {
	if t == nil {
		return false
	}
	if _, isPtr := t.(*types.Pointer); isPtr {
		return false
	}
	return kit.IsNamedType(t, kit.ModPath+"/data", "Point")
}

func newC10SliceEval(c *kit.Ctx, m *c10Model) (*c10SliceEval, string) {
	f := m.differ.f
	ev := &c10SliceEval{c: c, m: m, f: f, info: f.Info(), roots: map[types.Object]string{}, defs: map[types.Object][]c10Def{}}
	// the loop over the fields: innermost loop around the differ's kind switch
	ev.region = f.Body
	for p := f.Prog.Parent(f.File, m.differ.sw); p != nil && p != ast.Node(f.Body); p = f.Prog.Parent(f.File, p) {
		switch x := p.(type) {
		case *ast.ForStmt:
			ev.loop, ev.region = x, x.Body
		case *ast.RangeStmt:
			ev.loop, ev.region = x, x.Body
		case *ast.FuncLit:
			return nil, "the differ's kind switch sits in a function literal"
		}
		if ev.loop != nil {
			break
		}
	}
	// before and after: the first two parameters of one and the same type
	ps := f.Params()
	for i := 0; i+1 < len(ps) && len(ev.roots) == 0; i++ {
		if types.Identical(ps[i].Type(), ps[i+1].Type()) {
			switch ps[i].Type().Underlying().(type) {
			case *types.Basic, *types.Slice, *types.Map:
				continue
			}
			ev.roots[ps[i]], ev.roots[ps[i+1]] = "B", "A"
		}
	}
	if len(ev.roots) != 2 {
		return nil, fmt.Sprintf("%s has no pair of parameters of one type that could be `before` and `after`", f.Name)
	}
	for o, r := range ev.roots {
		if kit.RType(o.Type()) == "Value" {
			ev.roots[o] = r + "1" // the differ is handed the two field values
		} else {
			ev.roots[o] = r + "0"
		}
	}
	ev.collectDefs()
	return ev, ""
}

func (ev *c10SliceEval) collectDefs() {
	f := ev.f
	add := func(l ast.Expr, d c10Def) {
		if o := kit.ObjOf(ev.info, l); o != nil {
			if _, isId := ast.Unparen(l).(*ast.Ident); isId {
				ev.defs[o] = append(ev.defs[o], d)
			}
		}
	}
	ast.Inspect(f.Body, func(n ast.Node) bool {
		switch x := n.(type) {
		case *ast.AssignStmt:
			switch {
			case x.Tok != token.ASSIGN && x.Tok != token.DEFINE:
				for _, l := range x.Lhs {
					add(l, c10Def{})
				}
			case len(x.Lhs) == len(x.Rhs):
				for i, l := range x.Lhs {
					add(l, c10Def{rhs: x.Rhs[i], n: 1})
				}
			case len(x.Rhs) == 1:
				for i, l := range x.Lhs {
					add(l, c10Def{rhs: x.Rhs[0], idx: i, n: len(x.Lhs)})
				}
			}
		case *ast.ValueSpec:
			for i, nm := range x.Names {
				switch {
				case len(x.Values) == len(x.Names):
					add(nm, c10Def{rhs: x.Values[i], n: 1})
				case len(x.Values) == 1:
					add(nm, c10Def{rhs: x.Values[0], idx: i, n: len(x.Names)})
				}
			}
		case *ast.RangeStmt:
			if x.Key != nil {
				add(x.Key, c10Def{})
			}
			if x.Value != nil {
				add(x.Value, c10Def{})
			}
		}
		return true
	})
}

// ent says which of the two compared values a reflect.Value expression is
// taken from and how many Field steps below the root: "B0" is the `before`
// struct, "A1" a field of `after`.  "" = neither / cannot tell.
func (ev *c10SliceEval) ent(e ast.Expr) string {
	r := ev.ent0(e, map[types.Object]bool{})
	if r == "~" {
		return ""
	}
	return r
}

func c10Deeper(ent string) string {
	if len(ent) != 2 || ent == "~" {
		return ""
	}
	return ent[:1] + string(ent[1]+1)
}

func (ev *c10SliceEval) ent0(e ast.Expr, busy map[types.Object]bool) string {
	info := ev.info
	switch x := ast.Unparen(e).(type) {
	case *ast.Ident:
		o := kit.ObjOf(info, x)
		if o == nil {
			return ""
		}
		if r, ok := ev.roots[o]; ok {
			return r
		}
		if busy[o] {
			return "~"
		}
		busy[o] = true
		defer delete(busy, o)
		res := ""
		for _, d := range ev.defs[o] {
			r := ""
			switch {
			case d.rhs == nil:
			case d.n == 1:
				r = ev.ent0(d.rhs, busy)
			case d.idx == 0:
				if call, ok := ast.Unparen(d.rhs).(*ast.CallExpr); ok {
					r = ev.ent0(call, busy)
				}
			}
			switch {
			case r == "~": // defined from itself (v = v.Elem())
			case r == "" || res != "" && res != r:
				return ""
			default:
				res = r
			}
		}
		return res
	case *ast.CallExpr:
		if tv, ok := info.Types[x.Fun]; ok && tv.IsType() && len(x.Args) == 1 {
			return ev.ent0(x.Args[0], busy)
		}
		switch kit.RCallName(info, x) {
		case "Value.Field", "Value.FieldByName", "Value.FieldByIndex":
			r := ev.ent0(x.Fun.(*ast.SelectorExpr).X, busy)
			if r == "~" {
				return r
			}
			return c10Deeper(r)
		case "Value.Elem":
			return ev.ent0(x.Fun.(*ast.SelectorExpr).X, busy)
		case "reflect.Indirect", "reflect.ValueOf":
			if len(x.Args) == 1 {
				return ev.ent0(x.Args[0], busy)
			}
		case "":
			// a helper of the package that wraps its argument in a reflect.Value
			g := ev.f.CalleeFunc(x)
			if g == nil || g.Pkg != ev.f.Pkg {
				return ""
			}
			if g.Obj == nil {
				return ""
			}
			if sig, ok := g.Obj.Type().(*types.Signature); !ok || sig.Results().Len() == 0 || kit.RType(sig.Results().At(0).Type()) != "Value" {
				return ""
			}
			res := ""
			for _, a := range x.Args {
				if r := ev.ent0(a, busy); r != "" && r != "~" {
					if res != "" {
						return ""
					}
					res = r
				}
			}
			return res
		}
	}
	return ""
}

// tent says which level of the compared values a reflect.Type or
// reflect.StructField expression describes: "0" the struct, "1" one of its
// fields (both values have the same type).  "" = cannot tell.
func (ev *c10SliceEval) tent(e ast.Expr, busy map[types.Object]bool) string {
	info := ev.info
	depth := func(ent string) string {
		if len(ent) == 2 {
			return ent[1:]
		}
		return ent // "" or "~"
	}
	switch x := ast.Unparen(e).(type) {
	case *ast.Ident:
		o := kit.ObjOf(info, x)
		if o == nil {
			return ""
		}
		if busy[o] {
			return "~"
		}
		busy[o] = true
		defer delete(busy, o)
		res := ""
		for _, d := range ev.defs[o] {
			r := ""
			switch {
			case d.rhs == nil:
			case d.n == 1:
				r = ev.tent(d.rhs, busy)
			default:
				// t of `v, t, k := helper(before)`: the type of the value the helper wraps
				call, ok := ast.Unparen(d.rhs).(*ast.CallExpr)
				if !ok {
					break
				}
				g := ev.f.CalleeFunc(call)
				if g == nil || g.Pkg != ev.f.Pkg || !c10IsPlainHelper(ev.f, g) || kit.RType(info.TypeOf(x)) != "Type" {
					break
				}
				for _, a := range call.Args {
					if en := ev.ent(a); en != "" {
						if r != "" {
							r = ""
							break
						}
						r = depth(en)
					}
				}
			}
			switch {
			case r == "~": // t = t.Elem()
			case r == "" || res != "" && res != r:
				return ""
			default:
				res = r
			}
		}
		return res
	case *ast.SelectorExpr:
		if kit.RType(info.TypeOf(x.X)) == "StructField" && x.Sel.Name == "Type" {
			if sel := info.Selections[x]; sel != nil && sel.Kind() == types.FieldVal {
				return ev.tent(x.X, busy)
			}
		}
	case *ast.CallExpr:
		switch kit.RCallName(info, x) {
		case "Value.Type":
			return depth(ev.ent0(x.Fun.(*ast.SelectorExpr).X, map[types.Object]bool{}))
		case "reflect.TypeOf":
			return depth(ev.ent0(x.Args[0], map[types.Object]bool{}))
		case "Type.Field":
			r := ev.tent(x.Fun.(*ast.SelectorExpr).X, busy)
			if len(r) == 1 && r != "~" {
				return string(r[0] + 1)
			}
			return r
		case "Type.Elem":
			// only as a redefinition of the variable itself (pointer to struct, not taken for a slice field)
			if r := ev.tent(x.Fun.(*ast.SelectorExpr).X, busy); r == "~" {
				return r
			}
		}
	}
	return ""
}

func (ev *c10SliceEval) lenOf(ent string) (int64, bool) {
	switch ent {
	case "B1":
		return ev.sc.bLen, true
	case "A1":
		return ev.sc.aLen, true
	}
	return 0, false
}

func c10IsInt(v string) (int64, bool) {
	if v == "" || strings.HasPrefix(v, "@") || strings.HasPrefix(v, `"`) {
		return 0, false
	}
	n, err := strconv.ParseInt(v, 10, 64)
	return n, err == nil
}

func (ev *c10SliceEval) bindKey(e ast.Expr) string {
	if _, isId := ast.Unparen(e).(*ast.Ident); !isId {
		return ""
	}
	o := kit.ObjOf(ev.info, e)
	if o == nil {
		return ""
	}
	if v, ok := o.(*types.Var); !ok || v.IsField() || v.Pkg() == nil || v.Parent() == v.Pkg().Scope() {
		return ""
	}
	return "x:" + kit.VarID(o)
}

// val is the value of e in the scenario: a decimal integer, true/false, a
// quoted string, "S+" (some non-empty string), "N+" (some positive number),
// "@B1"/"@A1" (the two field values), "@elB:i" (element i), "@ptr:…" (storage
// identity), "@if:…" (a value boxed by Interface()), or "" (not determined).
func (ev *c10SliceEval) val(e ast.Expr, s kit.S) string {
	info := ev.info
	e = ast.Unparen(e)
	if tv, ok := info.Types[e]; ok && tv.Value != nil {
		return tv.Value.ExactString()
	}
	switch x := e.(type) {
	case *ast.Ident:
		if k := ev.bindKey(x); k != "" && s.Has(k) {
			return s.Get(k)
		}
		if kit.RType(info.TypeOf(x)) == "Value" {
			if r := ev.ent(x); r != "" {
				return "@" + r
			}
		}
	case *ast.SelectorExpr:
		if c10IsPointT(info.TypeOf(x.X)) {
			if k := ev.bindKey(x.X); k != "" {
				return s.Get(k + "." + x.Sel.Name)
			}
		}
	case *ast.UnaryExpr:
		switch x.Op {
		case token.SUB:
			if n, ok := c10IsInt(ev.val(x.X, s)); ok {
				return strconv.FormatInt(-n, 10)
			}
		case token.NOT:
			switch ev.val(x.X, s) {
			case "true":
				return "false"
			case "false":
				return "true"
			}
		}
	case *ast.BinaryExpr:
		switch x.Op {
		case token.ADD, token.SUB, token.MUL:
			a, oka := c10IsInt(ev.val(x.X, s))
			b, okb := c10IsInt(ev.val(x.Y, s))
			if oka && okb {
				switch x.Op {
				case token.ADD:
					return strconv.FormatInt(a+b, 10)
				case token.SUB:
					return strconv.FormatInt(a-b, 10)
				default:
					return strconv.FormatInt(a*b, 10)
				}
			}
		case token.EQL, token.NEQ, token.LSS, token.LEQ, token.GTR, token.GEQ:
			if v, ok := ev.compare(x.Op, ev.val(x.X, s), ev.val(x.Y, s)); ok {
				return strconv.FormatBool(v)
			}
		}
	case *ast.CallExpr:
		return ev.callVal(x, s)
	}
	return ""
}

func (ev *c10SliceEval) compare(op token.Token, a, b string) (bool, bool) {
	if a == "" || b == "" {
		return false, false
	}
	if x, ok := c10IsInt(a); ok {
		if y, ok := c10IsInt(b); ok {
			switch op {
			case token.EQL:
				return x == y, true
			case token.NEQ:
				return x != y, true
			case token.LSS:
				return x < y, true
			case token.LEQ:
				return x <= y, true
			case token.GTR:
				return x > y, true
			case token.GEQ:
				return x >= y, true
			}
		}
	}
	// some positive number against a constant below one
	if a == "N+" || b == "N+" {
		o, n := b, op
		if b == "N+" {
			o = a
			n = map[token.Token]token.Token{token.LSS: token.GTR, token.GTR: token.LSS, token.LEQ: token.GEQ, token.GEQ: token.LEQ, token.EQL: token.EQL, token.NEQ: token.NEQ}[op]
		}
		if y, ok := c10IsInt(o); ok {
			switch {
			case y <= 0 && (n == token.GTR || n == token.NEQ || n == token.GEQ):
				return true, true
			case y <= 0 && (n == token.EQL || n == token.LSS || n == token.LEQ):
				return false, true
			case y == 1 && n == token.GEQ:
				return true, true
			case y == 1 && n == token.LSS:
				return false, true
			}
		}
		return false, false
	}
	if op != token.EQL && op != token.NEQ {
		return false, false
	}
	str := func(v string) bool { return v == "S+" || strings.HasPrefix(v, `"`) }
	switch {
	case str(a) && str(b):
		if a == "S+" && b == "S+" {
			return false, false
		}
		if a == "S+" || b == "S+" {
			if a == `""` || b == `""` {
				return op == token.NEQ, true
			}
			return false, false
		}
		return (a == b) == (op == token.EQL), true
	case strings.HasPrefix(a, "@ptr:") && strings.HasPrefix(b, "@ptr:"):
		return (a == b) == (op == token.EQL), true
	case strings.HasPrefix(a, "@if:@el") && strings.HasPrefix(b, "@if:@el"):
		// boxed elements: the common elements are equal in the scenario
		if a[len("@if:@elX"):] == b[len("@if:@elX"):] {
			return op == token.EQL, true
		}
	case a == "true" || a == "false":
		if b == "true" || b == "false" {
			return (a == b) == (op == token.EQL), true
		}
	}
	return false, false
}

func (ev *c10SliceEval) callVal(x *ast.CallExpr, s kit.S) string {
	info := ev.info
	if r := s.Get("done:" + strconv.Itoa(int(x.Pos()))); r != "" {
		// a helper evaluated in line: the call stands for its error result
		if sig, ok := info.TypeOf(x.Fun).(*types.Signature); ok && sig.Results().Len() > 0 && c10IsErrorT(sig.Results().At(sig.Results().Len()-1).Type()) {
			return r
		}
		return ""
	}
	if tv, ok := info.Types[x.Fun]; ok && tv.IsType() && len(x.Args) == 1 {
		if bt, ok := tv.Type.Underlying().(*types.Basic); ok && bt.Info()&types.IsInteger != 0 {
			if _, isInt := c10IsInt(ev.val(x.Args[0], s)); isInt {
				return ev.val(x.Args[0], s)
			}
		}
		return ""
	}
	recv := func() ast.Expr { return x.Fun.(*ast.SelectorExpr).X }
	// kind of the value a reflect.Type expression describes
	typeEnt := func(e ast.Expr) string {
		if d := ev.tent(e, map[types.Object]bool{}); d != "" && d != "~" {
			return "T" + d
		}
		return ""
	}
	kindOf := func(ent string) string {
		switch {
		case ent == "":
			return ""
		case ent[1] == '0':
			return strconv.Itoa(int(reflect.Struct))
		case ent[1] == '1':
			return strconv.Itoa(int(reflect.Slice))
		}
		return ""
	}
	switch kit.RCallName(info, x) {
	case "Value.Len":
		if n, ok := ev.lenOf(ev.ent(recv())); ok {
			return strconv.FormatInt(n, 10)
		}
	case "Value.Cap":
		if _, ok := ev.lenOf(ev.ent(recv())); ok && ev.sc.aliased {
			n := ev.sc.aLen
			if ev.sc.bLen > n {
				n = ev.sc.bLen
			}
			return strconv.FormatInt(n, 10)
		}
	case "Value.Kind":
		return kindOf(ev.ent(recv()))
	case "Type.Kind":
		return kindOf(typeEnt(recv()))
	case "Value.IsValid":
		if ev.ent(recv()) != "" {
			return "true"
		}
	case "Value.IsNil", "Value.IsZero":
		ent := ev.ent(recv())
		if n, ok := ev.lenOf(ent); ok {
			if n > 0 {
				return "false"
			}
			switch s.Get("nil:" + ent) {
			case "T":
				return "true"
			case "F":
				return "false"
			}
		}
	case "Value.Pointer", "Value.UnsafePointer":
		ent := ev.ent(recv())
		if _, ok := ev.lenOf(ent); ok {
			if ev.sc.aliased {
				return "@ptr:shared"
			}
			return "@ptr:" + ent
		}
	case "Value.Index":
		ent := ev.ent(recv())
		n, ok := ev.lenOf(ent)
		i, isInt := c10IsInt(ev.val(x.Args[0], s))
		if ok && isInt {
			if i < 0 || i >= n {
				ev.panicked = true
				return ""
			}
			return fmt.Sprintf("@el%s:%d", ent[:1], i)
		}
	case "Value.Interface":
		if v := ev.val(recv(), s); strings.HasPrefix(v, "@") {
			return "@if:" + v
		}
	case "Value.Equal":
		a, b := ev.val(recv(), s), ev.val(x.Args[0], s)
		if strings.HasPrefix(a, "@el") && strings.HasPrefix(b, "@el") && a[3] != b[3] && a[4:] == b[4:] {
			return "true" // a common element
		}
	case "reflect.DeepEqual":
		a, b := ev.val(x.Args[0], s), ev.val(x.Args[1], s)
		if v, ok := ev.compare(token.EQL, a, b); ok && strings.HasPrefix(a, "@if:@el") {
			return strconv.FormatBool(v)
		}
		if (a == "@if:@A1" && b == "@if:@B1") || (a == "@if:@B1" && b == "@if:@A1") {
			return "false" // the lengths differ
		}
	case "StructTag.Get":
		if k, ok := kit.ConstString(info, x.Args[0]); ok {
			if k == "point" {
				return "S+"
			}
			return `""`
		}
	}
	switch q := kit.QualName(kit.Callee(info, x)); q {
	case "strconv.Itoa", "fmt.Sprint":
		if len(x.Args) == 1 {
			if n, ok := c10IsInt(ev.val(x.Args[0], s)); ok {
				return strconv.Quote(strconv.FormatInt(n, 10))
			}
		}
	case "strconv.FormatInt":
		n, ok := c10IsInt(ev.val(x.Args[0], s))
		if base, okb := c10IsInt(ev.val(x.Args[1], s)); ok && okb && base == 10 {
			return strconv.Quote(strconv.FormatInt(n, 10))
		}
	case "fmt.Sprintf":
		if fm, ok := kit.ConstString(info, x.Args[0]); ok && (fm == "%d" || fm == "%v") && len(x.Args) == 2 {
			if n, ok := c10IsInt(ev.val(x.Args[1], s)); ok {
				return strconv.Quote(strconv.FormatInt(n, 10))
			}
		}
	}
	if b, ok := kit.Callee(info, x).(*types.Builtin); ok && b.Name() == "len" && len(x.Args) == 1 {
		switch v := ev.val(x.Args[0], s); {
		case v == "S+":
			return "N+"
		case strings.HasPrefix(v, `"`):
			if u, err := strconv.Unquote(v); err == nil {
				return strconv.Itoa(len(u))
			}
		}
	}
	return ""
}

// pointOf evaluates a Point-typed expression to its key (a quoted string, or
// "?") and whether it is a tombstone ("0"/"1"/"?").
func (ev *c10SliceEval) pointOf(e ast.Expr, s kit.S) (key, tomb string, ok bool) {
	info := ev.info
	e = ast.Unparen(e)
	t := info.TypeOf(e)
	if tup, ok := t.(*types.Tuple); ok && tup.Len() > 0 {
		t = tup.At(0).Type() // p, err := encoder(…)
	}
	if !c10IsPointT(t) {
		return "", "", false
	}
	orq := func(v string) string {
		if v == "" {
			return "?"
		}
		return v
	}
	switch x := e.(type) {
	case *ast.Ident:
		if k := ev.bindKey(x); k != "" && s.Has(k+".Key") {
			return s.Get(k + ".Key"), s.Get(k + ".Tombstone"), true
		}
		return "?", "?", true
	case *ast.CompositeLit:
		key, tomb = `""`, "0"
		for _, el := range x.Elts {
			kv, isKV := el.(*ast.KeyValueExpr)
			if !isKV {
				return "?", "?", true
			}
			switch kit.ExprStr(ev.c.P.Fset, kv.Key) {
			case "Key":
				key = orq(ev.val(kv.Value, s))
			case "Tombstone":
				tomb = "?"
				if n, isInt := c10IsInt(ev.val(kv.Value, s)); isInt {
					tomb = strconv.FormatInt(((n%2)+2)%2, 10)
				}
			}
		}
		return key, tomb, true
	case *ast.CallExpr:
		// the scalar encoder applied to an element of `after`: a live point without key
		if ev.f.CalleeFunc(x) == ev.m.encF && len(x.Args) >= 1 {
			if strings.HasPrefix(ev.val(x.Args[len(x.Args)-1], s), "@elA:") {
				return `""`, "0", true
			}
		}
	}
	return "?", "?", true
}

func c10AddEmit(s kit.S, entry string) kit.S {
	cur := strings.Split(s.Get("emit"), ";")
	if s.Get("emit") == "" {
		cur = nil
	}
	for _, c := range cur {
		if c == entry {
			return s
		}
	}
	cur = append(cur, entry)
	sort.Strings(cur)
	return s.Set("emit", strings.Join(cur, ";"))
}

func (ev *c10SliceEval) emitPoint(s kit.S, key, tomb string) kit.S {
	tag := map[string]string{"0": "L", "1": "T"}[tomb]
	k, err := strconv.Unquote(key)
	n, err2 := strconv.Atoi(k)
	if tag == "" || err != nil || err2 != nil || !strings.HasPrefix(key, `"`) {
		return c10AddEmit(s, "?")
	}
	return c10AddEmit(s, fmt.Sprintf("%s:%d", tag, n))
}

type c10SliceOutcome struct {
	how  string // "next" | "return" | "return-nil" | "panic"
	s    kit.S
	node ast.Node
}

// run walks the region under scenario sc.
func (ev *c10SliceEval) run(sc c10SliceScenario, init kit.S) (outs []c10SliceOutcome, und string) {
	ev.sc = sc
	f, info := ev.f, ev.info
	g := ev.c.P.Graph(f)
	var start *cfg.Block
	idx := 0
	if ev.loop == nil {
		if len(g.G.Blocks) > 0 {
			start = g.G.Blocks[0]
		}
	} else {
		for _, b := range g.G.Blocks {
			if (b.Kind == cfg.KindForBody || b.Kind == cfg.KindRangeBody) && b.Stmt == ast.Node(ev.loop) {
				start = b
			}
		}
	}
	if start == nil {
		return nil, "the loop over the fields is not in the control-flow graph"
	}
	inRegion := func(n ast.Node) bool { return c10Within(n, ev.region) }
	unk := func(s kit.S, what string) kit.S {
		if strings.Contains(s.Get("unk"), what) {
			return s
		}
		return s.Set("unk", strings.TrimSpace(s.Get("unk")+" "+what))
	}
	bind := func(s kit.S, l ast.Expr, v string) kit.S {
		k := ev.bindKey(l)
		if k == "" {
			return s
		}
		if v == "" {
			return s.Del(k)
		}
		return s.Set(k, v)
	}
	bindPoint := func(s kit.S, l ast.Expr, rhs ast.Expr) kit.S {
		k := ev.bindKey(l)
		if k == "" {
			return s
		}
		key, tomb, _ := ev.pointOf(rhs, s)
		return s.Set(k+".Key", key).Set(k+".Tombstone", tomb)
	}
	type sv struct {
		s kit.S
		v bool
	}
	var eval func(e ast.Expr, s kit.S) []sv
	eval = func(e ast.Expr, s kit.S) []sv {
		e = ast.Unparen(e)
		switch x := e.(type) {
		case *ast.UnaryExpr:
			if x.Op == token.NOT {
				rs := eval(x.X, s)
				for i := range rs {
					rs[i].v = !rs[i].v
				}
				return rs
			}
		case *ast.BinaryExpr:
			if x.Op == token.LAND || x.Op == token.LOR {
				var out []sv
				for _, r := range eval(x.X, s) {
					if r.v == (x.Op == token.LOR) {
						out = append(out, r)
					} else {
						out = append(out, eval(x.Y, r.s)...)
					}
				}
				return out
			}
		case *ast.CallExpr:
			// nil-ness of an empty slice is not fixed by the lengths: both are values of the type
			if nm := kit.RCallName(info, x); nm == "Value.IsNil" || nm == "Value.IsZero" {
				ent := ev.ent(x.Fun.(*ast.SelectorExpr).X)
				if n, ok := ev.lenOf(ent); ok && n == 0 && !s.Has("nil:"+ent) {
					return []sv{{s.Set("nil:"+ent, "T"), true}, {s.Set("nil:"+ent, "F"), false}}
				}
			}
		}
		ev.panicked = false
		switch ev.val(e, s) {
		case "true":
			return []sv{{s, true}}
		case "false":
			return []sv{{s, false}}
		}
		if ev.panicked {
			ev.panicked = false
			outs = append(outs, c10SliceOutcome{"panic", s, e})
			return nil
		}
		if x, trueIsErr, isErr := kit.ErrCheck(info, e); isErr {
			switch ev.val(x, s) {
			case "@err":
				return []sv{{s, trueIsErr}}
			case "nil":
				return []sv{{s, !trueIsErr}}
			}
			return []sv{{s, true}, {s, false}} // a failing encoder returns loudly
		}
		u := unk(s, "`"+f.Str(e)+"`")
		// a loop the scenario does not bound is entered twice at most
		if fs, ok := f.Prog.Parent(f.File, e).(*ast.ForStmt); ok && fs.Cond == e {
			k := fmt.Sprintf("it:%d", fs.Pos())
			switch u.Get(k) {
			case "":
				return []sv{{u.Set(k, "1"), true}, {u, false}}
			case "1":
				return []sv{{u.Set(k, "2"), true}, {u, false}}
			}
			return []sv{{u, false}}
		}
		return []sv{{u, true}, {u, false}}
	}
	var node func(n ast.Node, s kit.S) []kit.S
	node = func(n ast.Node, s kit.S) []kit.S {
		if !inRegion(n) {
			outs = append(outs, c10SliceOutcome{"next", s, n})
			return nil
		}
		// emissions and calls that cannot be followed
		for _, call := range kit.CallsIn(n) {
			if s.Has("done:" + strconv.Itoa(int(call.Pos()))) {
				continue // evaluated in line already
			}
			callee := f.CalleeFunc(call)
			if callee == ev.m.encF {
				continue
			}
			if b, ok := kit.Callee(info, call).(*types.Builtin); ok {
				if b.Name() == "append" && len(call.Args) >= 2 && !call.Ellipsis.IsValid() {
					for _, a := range call.Args[1:] {
						if key, tomb, ok := ev.pointOf(a, s); ok {
							s = ev.emitPoint(s, key, tomb)
						}
					}
				}
				continue
			}
			if callee != nil && ev.m.appender != nil && callee == ev.m.appender.f {
				// the whole value is encoded: every element of `after` is emitted live
				whole := false
				for _, a := range call.Args {
					if ev.val(a, s) == "@A1" {
						whole = true
					}
				}
				if whole {
					for i := int64(0); i < sc.aLen; i++ {
						s = c10AddEmit(s, fmt.Sprintf("L:%d", i))
					}
					continue
				}
			}
			emitted := false
			for _, a := range call.Args {
				if key, tomb, ok := ev.pointOf(a, s); ok {
					s = ev.emitPoint(s, key, tomb)
					emitted = true
				}
			}
			if emitted || callee == nil || callee.Pkg != f.Pkg {
				continue
			}
			// a function of the package that is handed one of the two values or
			// the collected points may emit on its own: a plain helper is
			// evaluated in line, anything else is not followed
			handed := false
			for _, a := range call.Args {
				t := info.TypeOf(a)
				if strings.HasPrefix(ev.val(a, s), "@") || kit.IsNamedType(t, kit.ModPath+"/data", "Points") {
					handed = true
				}
			}
			if !handed {
				continue
			}
			if ev.depth < 2 && c10IsPlainHelper(f, callee) && callee != ev.m.appender.f && callee.Decl != nil {
				sub := &c10SliceEval{c: ev.c, m: ev.m, f: callee, info: callee.Info(), region: callee.Body, roots: map[types.Object]string{},
					defs: map[types.Object][]c10Def{}, depth: ev.depth + 1}
				sub.collectDefs()
				in := s
				for i, p := range callee.Params() {
					if i >= len(call.Args) || call.Ellipsis.IsValid() {
						break
					}
					v := ev.val(call.Args[i], s)
					if strings.HasPrefix(v, "@A") || strings.HasPrefix(v, "@B") {
						sub.roots[p] = v[1:]
					} else if v != "" {
						in = in.Set("x:"+kit.VarID(p), v)
					}
				}
				subOuts, und := sub.run(sc, in)
				if und == "" {
					var next []kit.S
					for _, so := range subOuts {
						switch so.how {
						case "panic":
							outs = append(outs, so)
						default:
							// whether the helper failed is known on each of its paths
							ret := "@err"
							if so.how == "return-nil" {
								ret = "nil"
							}
							next = append(next, so.s.Set("done:"+strconv.Itoa(int(call.Pos())), ret))
						}
					}
					// the rest of the statement runs in each state the helper returns in
					var res []kit.S
					for _, s2 := range next {
						for _, s3 := range node(n, s2) {
							res = append(res, s3.Del("done:"+strconv.Itoa(int(call.Pos()))))
						}
					}
					return res
				}
				s = unk(s, "("+callee.Name+": "+und+")")
			}
			s = unk(s, "(call of "+callee.Name+")")
		}
		ev.panicked = false
		defer func() { ev.panicked = false }()
		switch x := n.(type) {
		case *ast.AssignStmt:
			switch {
			case x.Tok != token.ASSIGN && x.Tok != token.DEFINE:
				if len(x.Lhs) == 1 && len(x.Rhs) == 1 {
					op := map[token.Token]token.Token{token.ADD_ASSIGN: token.ADD, token.SUB_ASSIGN: token.SUB, token.MUL_ASSIGN: token.MUL}[x.Tok]
					v := ""
					if op != token.ILLEGAL {
						v = ev.val(&ast.BinaryExpr{X: x.Lhs[0], Op: op, Y: x.Rhs[0]}, s)
					}
					s = bind(s, x.Lhs[0], v)
				}
			case len(x.Lhs) == len(x.Rhs):
				vals := make([]string, len(x.Rhs))
				for i, r := range x.Rhs {
					vals[i] = ev.val(r, s)
				}
				for i, l := range x.Lhs {
					switch lx := ast.Unparen(l).(type) {
					case *ast.Ident:
						if c10IsPointT(info.TypeOf(l)) {
							s = bindPoint(s, l, x.Rhs[i])
						} else {
							s = bind(s, l, vals[i])
						}
					case *ast.SelectorExpr:
						if k := ev.bindKey(lx.X); k != "" && c10IsPointT(info.TypeOf(lx.X)) {
							v := vals[i]
							if lx.Sel.Name == "Tombstone" {
								if n, ok := c10IsInt(v); ok {
									v = strconv.FormatInt(((n%2)+2)%2, 10)
								} else {
									v = "?"
								}
							}
							if v == "" {
								v = "?"
							}
							if lx.Sel.Name == "Key" || lx.Sel.Name == "Tombstone" {
								s = s.Set(k+"."+lx.Sel.Name, v)
							}
						}
					}
				}
			case len(x.Rhs) == 1:
				for i, l := range x.Lhs {
					switch {
					case i == 0 && c10IsPointT(info.TypeOf(l)):
						s = bindPoint(s, l, x.Rhs[0])
					case i == len(x.Lhs)-1 && c10IsErrorT(info.TypeOf(l)):
						s = bind(s, l, ev.val(x.Rhs[0], s)) // the error of a helper evaluated in line
					default:
						s = bind(s, l, "")
					}
				}
			}
		case *ast.IncDecStmt:
			v := ""
			if n, ok := c10IsInt(ev.val(x.X, s)); ok {
				if x.Tok == token.INC {
					n++
				} else {
					n--
				}
				v = strconv.FormatInt(n, 10)
			}
			s = bind(s, x.X, v)
		case *ast.DeclStmt:
			if gd, ok := x.Decl.(*ast.GenDecl); ok {
				for _, sp := range gd.Specs {
					if vs, ok := sp.(*ast.ValueSpec); ok {
						for i, nm := range vs.Names {
							v := ""
							if len(vs.Values) == len(vs.Names) {
								v = ev.val(vs.Values[i], s)
							} else if len(vs.Values) == 0 {
								v = c10ZeroOf(info.TypeOf(nm))
								if v == "nil" || v == "ZS" {
									v = ""
								}
							}
							s = bind(s, nm, v)
						}
					}
				}
			}
		}
		if ev.panicked {
			outs = append(outs, c10SliceOutcome{"panic", s, n})
			return nil
		}
		return []kit.S{s}
	}
	loopCond := func(e ast.Expr) bool {
		if fs, ok := ev.loop.(*ast.ForStmt); ok && fs.Cond != nil {
			return ast.Unparen(fs.Cond) == ast.Unparen(e)
		}
		return false
	}
	cond := func(e ast.Expr, s kit.S) (t, fl []kit.S) {
		if loopCond(e) || !inRegion(e) {
			outs = append(outs, c10SliceOutcome{"next", s, e})
			return nil, nil
		}
		for _, r := range eval(e, s) {
			// remembered for the message: the decision the path took last
			r.s = r.s.Set("last", fmt.Sprintf("`%s` is %v at %s", f.Str(e), r.v, f.At(e)))
			if r.v {
				t = append(t, r.s)
			} else {
				fl = append(fl, r.s)
			}
		}
		return
	}
	other := func(br kit.Branch, s kit.S) (t, fl []kit.S) {
		switch {
		case br.Kind == kit.BrRange && ast.Stmt(br.Range) == ev.loop:
			outs = append(outs, c10SliceOutcome{"next", s, br.Range})
			return nil, nil
		case br.Kind == kit.BrCase && br.Tag != nil:
			if !inRegion(br.Tag) {
				outs = append(outs, c10SliceOutcome{"next", s, br.Tag})
				return nil, nil
			}
			if v, ok := ev.compare(token.EQL, ev.val(br.Tag, s), ev.val(br.Case, s)); ok {
				if v {
					return []kit.S{s}, nil
				}
				return nil, []kit.S{s}
			}
			u := unk(s, "`switch "+f.Str(br.Tag)+"`")
			return []kit.S{u}, []kit.S{u}
		}
		u := unk(s, "(range/select/type switch)")
		return []kit.S{u}, []kit.S{u}
	}
	if sc.aliased {
		init = init.Set("nil:A1", "F").Set("nil:B1", "F")
	}
	res := g.RunFrom(start, idx, init, kit.Client{Node: node, Cond: cond, Other: other, MaxStates: 20000})
	ev.c.AddValuations(1)
	if res.Overflow {
		return nil, "state bound exceeded"
	}
	for _, e := range res.Exits {
		how := "return"
		if e.Return == nil {
			how = "panic"
		} else if n := len(e.Return.Results); n == 0 || kit.IsNilIdent(info, e.Return.Results[n-1]) {
			how = "return-nil"
		}
		var at ast.Node = ev.region
		if e.Return != nil {
			at = e.Return
		}
		outs = append(outs, c10SliceOutcome{how, e.State, at})
	}
	return outs, ""
}

func c10R9(c *kit.Ctx, m *c10Model) {
	r9 := c.Rule("R9", "differ: a slice whose length changed always yields the points of the difference", len(c10SliceScenarios))
	f := m.differ.f
	if m.differ.labels()[reflect.Slice] == nil {
		c.Fatalf("differ %s has no Slice arm", f.Name)
	}
	ev, why := newC10SliceEval(c, m)
	var anchor ast.Node = m.differ.sw
	if ev != nil && ev.loop != nil {
		anchor = ev.loop
	}
	for _, sc := range c10SliceScenarios {
		var wantL, wantT []int64
		for i := sc.bLen; i < sc.aLen; i++ {
			wantL = append(wantL, i)
		}
		for i := sc.aLen; i < sc.bLen; i++ {
			wantT = append(wantT, i)
		}
		what := fmt.Sprintf("a live point for each index in %v", wantL)
		if len(wantT) > 0 {
			what = fmt.Sprintf("a tombstone for each index in %v", wantT)
		}
		o := r9.Ob(f, anchor, "slice field: "+sc.String(), "every path through the field loop emits "+what+" or returns an error")
		if ev == nil {
			o.Undecided("%s", why)
			continue
		}
		outs, und := ev.run(sc, kit.NewS())
		if und != "" {
			o.Undecided("%s", und)
			continue
		}
		if len(outs) == 0 {
			o.Undecided("no path through the field loop found")
			continue
		}
		nOK, done := 0, false
		for _, out := range outs {
			if out.how == "return" || out.how == "panic" {
				nOK++ // the diff fails loudly
				continue
			}
			have := map[string]bool{}
			for _, e := range strings.Split(out.s.Get("emit"), ";") {
				have[e] = true
			}
			var missing []string
			for _, i := range wantL {
				if !have[fmt.Sprintf("L:%d", i)] {
					missing = append(missing, fmt.Sprintf("live point %d", i))
				}
			}
			for _, i := range wantT {
				if !have[fmt.Sprintf("T:%d", i)] {
					missing = append(missing, fmt.Sprintf("tombstone %d", i))
				}
			}
			var wrong []string
			for i := int64(0); i < sc.aLen; i++ {
				if have[fmt.Sprintf("T:%d", i)] && !have[fmt.Sprintf("L:%d", i)] {
					wrong = append(wrong, fmt.Sprintf("tombstone %d", i))
				}
			}
			emitted := out.s.Get("emit")
			if emitted == "" {
				emitted = "nothing"
			}
			switch {
			case len(missing) == 0 && len(wrong) == 0:
				nOK++
				continue
			case out.s.Get("unk") != "":
				o.Undecided("a path that leaves the field at %s having emitted %s depends on what the scenario does not determine: %s", f.At(out.node), emitted, out.s.Get("unk"))
			case have["?"]:
				o.Undecided("a path that leaves the field at %s emits a point whose key or tombstone flag could not be evaluated", f.At(out.node))
			case len(missing) > 0:
				o.Violation("with %s the path that leaves the field at %s (%s) emits %s; missing: %s. "+
					"Merge keeps whatever the diff does not mention, so decode(before)+diff gives the old length — %s. "+
					"Equal storage identity (Pointer) or an equal common prefix does not make two slices of different length equal. Last decision on that path: %s",
					sc, f.At(out.node), f.Str(c10Head(out.node)), emitted, strings.Join(missing, ", "), c10SliceEffect(sc), out.s.Get("last"))
			default:
				o.Violation("with %s the path that leaves the field at %s emits %s: an element that exists in `after` is deleted by Merge", sc, f.At(out.node), strings.Join(wrong, ", "))
			}
			done = true
			break
		}
		if !done {
			o.OK("%d paths: each emits the points of the length difference or returns an error", nOK)
		}
	}
}

// c10Head shortens a statement to its first line for messages.
func c10Head(n ast.Node) ast.Node {
	switch x := n.(type) {
	case *ast.BlockStmt:
		if len(x.List) > 0 {
			return c10Head(x.List[len(x.List)-1])
		}
	case *ast.IfStmt:
		return x.Cond
	case *ast.ForStmt:
		if x.Post != nil {
			return x.Post
		}
	}
	return n
}

func c10SliceEffect(sc c10SliceScenario) string {
	if sc.aLen < sc.bLen {
		return "removed trailing elements come back"
	}
	return "appended elements are lost"
}
