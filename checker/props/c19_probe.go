package props

import (
	"fmt"
	"go/ast"
	"go/token"
	"go/types"
	"strings"

	"siotcheck/kit"
)

// C19/R1, probing: a conversion that is not written in one of the recognised
// spellings is evaluated on inputs with a single bit set.  This determines the
// function completely when it is built only from moves, shifts, bitwise
// or/and, integer conversions and float bit casts (every such function f
// satisfies f(a|b) = f(a)|f(b) and f(0) = 0); anything else in the data path
// leaves the conversion undecided.

// c19Bitwise checks that f's data path uses only operations that commute
// with bitwise or (moves, constant shifts, or, and with a constant, integer
// conversions, float bit casts) and that indices and lengths are free of
// data.  It returns why not, or "".
func c19Bitwise(f *kit.Func) string {
	info := f.Info()
	isConst := func(e ast.Expr) bool {
		tv, ok := info.Types[e]
		return ok && tv.Value != nil
	}
	// single definitions of int locals
	defs := map[types.Object][]ast.Expr{}
	keys := map[types.Object]bool{}
	ast.Inspect(f.Body, func(n ast.Node) bool {
		switch x := n.(type) {
		case *ast.AssignStmt:
			for i, l := range x.Lhs {
				o := kit.ObjOf(info, l)
				if o == nil {
					continue
				}
				if len(x.Lhs) == len(x.Rhs) && (x.Tok == token.DEFINE || x.Tok == token.ASSIGN) {
					defs[o] = append(defs[o], x.Rhs[i])
				} else {
					defs[o] = append(defs[o], nil, nil)
				}
			}
		case *ast.IncDecStmt:
			if o := kit.ObjOf(info, x.X); o != nil {
				defs[o] = append(defs[o], nil, nil)
			}
		case *ast.RangeStmt:
			if x.Key != nil {
				if o := kit.ObjOf(info, x.Key); o != nil {
					keys[o] = true
				}
			}
		case *ast.ForStmt:
			if cl := f.CanonLoop(x); cl != nil && cl.Key != nil {
				if o := kit.ObjOf(info, cl.Key); o != nil {
					keys[o] = true
				}
			}
		}
		return true
	})
	var indexSafe func(e ast.Expr, depth int) bool
	indexSafe = func(e ast.Expr, depth int) bool {
		e = ast.Unparen(e)
		if isConst(e) {
			return true
		}
		switch x := e.(type) {
		case *ast.Ident:
			o := kit.ObjOf(info, x)
			if o == nil {
				return false
			}
			if keys[o] {
				return true
			}
			bt := mbBasicInt(o.Type())
			if bt == nil || bt.Kind() != types.Int || depth > 3 {
				return false
			}
			d := defs[o]
			return len(d) == 1 && d[0] != nil && indexSafe(d[0], depth+1)
		case *ast.BinaryExpr:
			switch x.Op {
			case token.ADD, token.SUB, token.MUL, token.QUO, token.REM:
				return indexSafe(x.X, depth) && indexSafe(x.Y, depth)
			}
		case *ast.CallExpr:
			if bi, ok := kit.Callee(info, x).(*types.Builtin); ok && (bi.Name() == "len" || bi.Name() == "cap") && len(x.Args) == 1 {
				_, isId := ast.Unparen(x.Args[0]).(*ast.Ident)
				return isId
			}
		}
		return false
	}
	why := ""
	fail := func(n ast.Node, what string) {
		if why == "" {
			why = fmt.Sprintf("%s `%s`", what, trunc(f.Str(n), 40))
		}
	}
	var expr func(e ast.Expr)
	expr = func(e ast.Expr) {
		if e == nil || why != "" {
			return
		}
		e = ast.Unparen(e)
		if isConst(e) {
			return
		}
		switch x := e.(type) {
		case *ast.Ident:
		case *ast.IndexExpr:
			if _, isId := ast.Unparen(x.X).(*ast.Ident); !isId {
				fail(x, "indexed operand")
				return
			}
			if !indexSafe(x.Index, 0) {
				fail(x.Index, "index depends on more than the counter:")
			}
		case *ast.BinaryExpr:
			switch x.Op {
			case token.SHL, token.SHR:
				if !isConst(x.Y) {
					fail(x, "variable shift")
				}
				expr(x.X)
			case token.OR:
				expr(x.X)
				expr(x.Y)
			case token.AND:
				if !isConst(x.X) && !isConst(x.Y) {
					fail(x, "and of two variables")
				}
				expr(x.X)
				expr(x.Y)
			default:
				if !indexSafe(x, 0) {
					fail(x, "operator on the data:")
				}
			}
		case *ast.CallExpr:
			if tv, ok := info.Types[x.Fun]; ok && tv.IsType() && len(x.Args) == 1 {
				expr(x.Args[0])
				return
			}
			callee := kit.Callee(info, x)
			switch kit.QualName(callee) {
			case "math.Float32bits", "math.Float32frombits":
				expr(x.Args[0])
				return
			}
			if bi, ok := callee.(*types.Builtin); ok {
				switch bi.Name() {
				case "len", "cap":
					if !indexSafe(x, 0) {
						fail(x, "length of")
					}
					return
				case "make":
					for _, a := range x.Args[1:] {
						if !indexSafe(a, 0) {
							fail(a, "size depends on more than lengths:")
						}
					}
					return
				}
			}
			fail(x, "call is not followed:")
		default:
			fail(e, "expression is not followed:")
		}
	}
	var stmt func(s ast.Stmt)
	stmt = func(s ast.Stmt) {
		if s == nil || why != "" {
			return
		}
		switch x := s.(type) {
		case *ast.BlockStmt:
			for _, y := range x.List {
				stmt(y)
			}
		case *ast.AssignStmt:
			switch x.Tok {
			case token.ASSIGN, token.DEFINE, token.OR_ASSIGN:
			case token.SHL_ASSIGN, token.SHR_ASSIGN, token.AND_ASSIGN:
				if !isConst(x.Rhs[0]) {
					fail(x, "variable operand")
				}
			default:
				fail(x, "assignment operator")
			}
			if len(x.Lhs) != len(x.Rhs) {
				fail(x, "tuple assignment")
			}
			for _, l := range x.Lhs {
				expr(l)
			}
			for _, r := range x.Rhs {
				expr(r)
			}
		case *ast.DeclStmt:
			gd, ok := x.Decl.(*ast.GenDecl)
			if !ok || gd.Tok != token.VAR {
				fail(x, "declaration")
				return
			}
			for _, sp := range gd.Specs {
				for _, v := range sp.(*ast.ValueSpec).Values {
					expr(v)
				}
			}
		case *ast.RangeStmt:
			if _, isId := ast.Unparen(x.X).(*ast.Ident); !isId {
				fail(x.X, "range operand")
			}
			stmt(x.Body)
		case *ast.ForStmt:
			if f.CanonLoop(x) == nil {
				fail(x, "loop")
			}
			stmt(x.Body)
		case *ast.ReturnStmt:
			for _, r := range x.Results {
				if _, isId := ast.Unparen(r).(*ast.Ident); !isId {
					fail(r, "returned expression")
				}
			}
		case *ast.EmptyStmt:
		default:
			fail(s, "statement is not followed:")
		}
	}
	stmt(f.Body)
	return why
}

func c19ProbeConv(c *kit.Ctx, f *kit.Func, decoder bool, T types.Type) (*convModel, string) {
	if why := c19Bitwise(f); why != "" {
		return nil, why
	}
	info := f.Info()
	in := f.Params()[0]
	cm := &convModel{F: f, Decoder: decoder, T: T, probed: true, conv: "bitwise", stride: 2}
	// loop and length shape as for the parsed forms
	var rs *ast.RangeStmt
	n := 0
	ast.Inspect(f.Body, func(x ast.Node) bool {
		switch y := x.(type) {
		case *ast.RangeStmt:
			rs = y
			n++
		case *ast.ForStmt:
			if cl := f.CanonLoop(y); cl != nil {
				rs = cl
				n++
			} else {
				n += 2
			}
		}
		return true
	})
	if n != 1 || rs == nil || rs.Key == nil {
		return nil, "not a single counted loop"
	}
	var ret types.Object
	ast.Inspect(f.Body, func(x ast.Node) bool {
		if r, ok := x.(*ast.ReturnStmt); ok && len(r.Results) == 1 {
			ret = kit.ObjOf(info, r.Results[0])
		}
		return true
	})
	if ret == nil {
		return nil, "the result is not a local"
	}
	// the result is a slice made in this function (unstored elements are zero)
	fresh := false
	nDefs := 0
	ast.Inspect(f.Body, func(x ast.Node) bool {
		as, ok := x.(*ast.AssignStmt)
		if !ok {
			return true
		}
		for i, l := range as.Lhs {
			if kit.ObjOf(info, l) != ret {
				continue
			}
			if _, isId := ast.Unparen(l).(*ast.Ident); !isId {
				continue
			}
			nDefs++
			if len(as.Lhs) == len(as.Rhs) {
				if call, isCall := ast.Unparen(as.Rhs[i]).(*ast.CallExpr); isCall {
					if bi, isB := kit.Callee(info, call).(*types.Builtin); isB && bi.Name() == "make" {
						fresh = true
					}
				}
			}
		}
		return true
	})
	fresh = fresh && nDefs == 1
	cm.lenOK = c19LenShape(f, kit.AnalyseBounds(c.P, f), rs, ret, in, decoder)
	// run evaluates f with the given input elements and returns the elements stored into ret
	nIn, nOut := int64(4), int64(2)
	if !decoder {
		nIn, nOut = 2, 4
	}
	run := func(elems map[int64]int64) (map[int64]int64, bool) {
		ip := &kit.Interp{P: c.P, F: f, MaxSteps: 20000}
		ip.Input = func(key string, t types.Type) (kit.IVal, bool) {
			if strings.HasPrefix(key, "elem:") {
				var idx int64
				fmt.Sscanf(key[strings.LastIndex(key, "[")+1:], "%d", &idx)
				return kit.IVal{K: 'i', I: elems[idx]}, true
			}
			if t != nil {
				if _, isSlice := t.Underlying().(*types.Slice); isSlice {
					return kit.IVal{K: 's', L: nIn, C: nIn, Env: true}, true
				}
			}
			return kit.IVal{}, false
		}
		out := map[int64]int64{}
		okRun := true
		ip.OnStore = func(lhs *ast.IndexExpr, idx, val kit.IVal, tainted bool) {
			if kit.ObjOf(info, lhs.X) != ret {
				return
			}
			if tainted || idx.K != 'i' || val.K != 'i' {
				okRun = false
				return
			}
			out[idx.I] = val.I & 0xffffffff
		}
		res := ip.Run()
		c.AddValuations(1)
		if len(res.Unsupported) > 0 || res.Overflow || len(res.Crashes) > 0 || len(res.Exits) != 1 || res.Exits[0].Tainted || !okRun {
			return nil, false
		}
		for i := int64(0); i < nOut; i++ {
			if _, stored := out[i]; !stored {
				if !fresh {
					return nil, false
				}
				out[i] = 0 // never stored: still the zero value make left there
			}
		}
		return out, true
	}
	// zero in, zero out
	if out, ok := run(map[int64]int64{}); !ok {
		return nil, "the evaluation of the function is not conclusive"
	} else {
		for _, v := range out {
			if v != 0 {
				return nil, "zero input gives a non-zero result"
			}
		}
	}
	onebit := func(v int64) (int, bool) {
		if v == 0 || v&(v-1) != 0 {
			return 0, false
		}
		b := 0
		for v > 1 {
			v >>= 1
			b++
		}
		return b, true
	}
	var maps [2][32]int
	for val := int64(0); val < 2; val++ { // two consecutive values: the stride must be two registers
		for b := 0; b < 32; b++ {
			elems := map[int64]int64{}
			if decoder {
				// register bit b (of this value's pair) set
				elems[2*val+int64(b/16)] = int64(1) << uint(b%16)
			} else {
				elems[val] = int64(1) << uint(b)
			}
			out, ok := run(elems)
			if !ok {
				return nil, "the evaluation of the function is not conclusive"
			}
			hit := -1
			for idx, v := range out {
				if v == 0 {
					continue
				}
				pb, single := onebit(v)
				if !single || hit >= 0 {
					cm.bad = fmt.Sprintf("a single input bit spreads over several output bits (%#x at element %d)", v, idx)
					return cm, ""
				}
				if decoder {
					if idx != val {
						cm.bad = fmt.Sprintf("register pair %d ends up in value %d", val, idx)
						return cm, ""
					}
					hit = pb // value bit
				} else {
					if idx/2 != val {
						cm.bad = fmt.Sprintf("value %d ends up in register %d", val, idx)
						return cm, ""
					}
					if pb > 15 {
						return nil, "a register receives more than 16 bits"
					}
					hit = int(idx%2)*16 + pb // register bit
				}
			}
			if hit < 0 {
				cm.bad = fmt.Sprintf("input bit %d is dropped", b)
				return cm, ""
			}
			if decoder {
				maps[val][hit] = b // value bit hit comes from register bit b
			} else {
				maps[val][b] = hit
			}
		}
	}
	if maps[0] != maps[1] {
		return nil, "consecutive values are converted differently"
	}
	cm.bits = maps[0]
	// a bijection?
	seen := map[int]bool{}
	for _, r := range cm.bits {
		if seen[r] {
			cm.bad = "two value bits share one register bit"
			return cm, ""
		}
		seen[r] = true
	}
	cm.bytePerm()
	return cm, ""
}
