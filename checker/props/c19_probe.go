package props

import (
	"fmt"
	"go/ast"
	"go/token"
	"go/types"
	"strings"

	"siotcheck/kit"
)

// C19/R1, probing: a conversion that is not written in one of the recognised
// spellings is evaluated on inputs with a single bit set.  This determines the
// function completely when it is built only from moves, shifts, bitwise
// or/and, integer conversions and float bit casts (every such function f
// satisfies f(a|b) = f(a)|f(b) and f(0) = 0); anything else in the data path
// leaves the conversion undecided.

// c19Bitwise checks that f's data path uses only bit-preserving operations.
func c19Bitwise(f *kit.Func) string {
	info := f.Info()
	why := ""
	var visit func(n ast.Node, inIndex bool)
	visit = func(n ast.Node, inIndex bool) {
		if n == nil || why != "" {
			return
		}
		switch x := n.(type) {
		case *ast.FuncLit, *ast.GoStmt, *ast.DeferStmt, *ast.SelectStmt, *ast.SwitchStmt, *ast.TypeSwitchStmt:
			why = fmt.Sprintf("`%s` is not followed", trunc(f.Str(n), 40))
			return
		case *ast.IfStmt:
			why = "the result depends on a branch"
			return
		case *ast.IndexExpr:
			visit(x.X, inIndex)
			visit(x.Index, true)
			return
		case *ast.SliceExpr:
			why = "sub-slices are not followed"
			return
		case *ast.BinaryExpr:
			if !inIndex {
				switch x.Op {
				case token.SHL, token.SHR, token.OR, token.AND, token.LSS, token.LEQ, token.GTR, token.GEQ, token.NEQ, token.EQL:
				case token.ADD, token.SUB, token.MUL, token.QUO, token.REM:
					// arithmetic is fine on lengths and counters, not on data
					if bt := mbBasicInt(info.TypeOf(x)); bt == nil || bt.Kind() != types.Int {
						why = fmt.Sprintf("arithmetic `%s` on the data", trunc(f.Str(x), 40))
						return
					}
				default:
					why = fmt.Sprintf("operator %s on the data", x.Op)
					return
				}
			}
		case *ast.CallExpr:
			if tv, ok := info.Types[x.Fun]; ok && tv.IsType() {
				break
			}
			switch q := kit.QualName(kit.Callee(info, x)); q {
			case "math.Float32bits", "math.Float32frombits":
			default:
				if bi, ok := kit.Callee(info, x).(*types.Builtin); ok && (bi.Name() == "len" || bi.Name() == "make") {
					for _, a := range x.Args {
						visit(a, true)
					}
					return
				}
				why = fmt.Sprintf("call `%s` is not followed", trunc(f.Str(x), 40))
				return
			}
		}
		first := true
		ast.Inspect(n, func(ch ast.Node) bool {
			if first {
				first = false
				return true
			}
			if ch != nil {
				visit(ch, inIndex)
			}
			return false
		})
	}
	visit(f.Body, false)
	return why
}

func c19ProbeConv(c *kit.Ctx, f *kit.Func, decoder bool, T types.Type) *convModel {
	if why := c19Bitwise(f); why != "" {
		return nil
	}
	info := f.Info()
	in := f.Params()[0]
	cm := &convModel{F: f, Decoder: decoder, T: T, probed: true, conv: "bitwise", stride: 2}
	// loop and length shape as for the parsed forms
	var rs *ast.RangeStmt
	n := 0
	ast.Inspect(f.Body, func(x ast.Node) bool {
		switch y := x.(type) {
		case *ast.RangeStmt:
			rs = y
			n++
		case *ast.ForStmt:
			if cl := f.CanonLoop(y); cl != nil {
				rs = cl
				n++
			} else {
				n += 2
			}
		}
		return true
	})
	if n != 1 || rs == nil || rs.Key == nil {
		return nil
	}
	var ret types.Object
	ast.Inspect(f.Body, func(x ast.Node) bool {
		if r, ok := x.(*ast.ReturnStmt); ok && len(r.Results) == 1 {
			ret = kit.ObjOf(info, r.Results[0])
		}
		return true
	})
	if ret == nil {
		return nil
	}
	cm.lenOK = c19LenShape(f, kit.AnalyseBounds(c.P, f), rs, ret, in, decoder)
	// run evaluates f with the given input elements and returns the elements stored into ret
	nIn, nOut := int64(4), int64(2)
	if !decoder {
		nIn, nOut = 2, 4
	}
	run := func(elems map[int64]int64) (map[int64]int64, bool) {
		ip := &kit.Interp{P: c.P, F: f, MaxSteps: 20000}
		ip.Input = func(key string, t types.Type) (kit.IVal, bool) {
			if strings.HasPrefix(key, "elem:") {
				var idx int64
				fmt.Sscanf(key[strings.LastIndex(key, "[")+1:], "%d", &idx)
				return kit.IVal{K: 'i', I: elems[idx]}, true
			}
			if t != nil {
				if _, isSlice := t.Underlying().(*types.Slice); isSlice {
					return kit.IVal{K: 's', L: nIn, C: nIn, Env: true}, true
				}
			}
			return kit.IVal{}, false
		}
		out := map[int64]int64{}
		okRun := true
		ip.OnStore = func(lhs *ast.IndexExpr, idx, val kit.IVal, tainted bool) {
			if kit.ObjOf(info, lhs.X) != ret {
				return
			}
			if tainted || idx.K != 'i' || val.K != 'i' {
				okRun = false
				return
			}
			out[idx.I] = val.I & 0xffffffff
		}
		res := ip.Run()
		c.AddValuations(1)
		if len(res.Unsupported) > 0 || res.Overflow || len(res.Crashes) > 0 || len(res.Exits) != 1 || res.Exits[0].Tainted || !okRun {
			return nil, false
		}
		for i := int64(0); i < nOut; i++ {
			if _, stored := out[i]; !stored {
				return nil, false
			}
		}
		return out, true
	}
	// zero in, zero out
	if out, ok := run(map[int64]int64{}); !ok {
		return nil
	} else {
		for _, v := range out {
			if v != 0 {
				return nil
			}
		}
	}
	onebit := func(v int64) (int, bool) {
		if v == 0 || v&(v-1) != 0 {
			return 0, false
		}
		b := 0
		for v > 1 {
			v >>= 1
			b++
		}
		return b, true
	}
	var maps [2][32]int
	for val := int64(0); val < 2; val++ { // two consecutive values: the stride must be two registers
		for b := 0; b < 32; b++ {
			elems := map[int64]int64{}
			if decoder {
				// register bit b (of this value's pair) set
				elems[2*val+int64(b/16)] = int64(1) << uint(b%16)
			} else {
				elems[val] = int64(1) << uint(b)
			}
			out, ok := run(elems)
			if !ok {
				return nil
			}
			hit := -1
			for idx, v := range out {
				if v == 0 {
					continue
				}
				pb, single := onebit(v)
				if !single || hit >= 0 {
					cm.bad = fmt.Sprintf("a single input bit spreads over several output bits (%#x at element %d)", v, idx)
					return cm
				}
				if decoder {
					if idx != val {
						cm.bad = fmt.Sprintf("register pair %d ends up in value %d", val, idx)
						return cm
					}
					hit = pb // value bit
				} else {
					if idx/2 != val {
						cm.bad = fmt.Sprintf("value %d ends up in register %d", val, idx)
						return cm
					}
					if pb > 15 {
						return nil
					}
					hit = int(idx%2)*16 + pb // register bit
				}
			}
			if hit < 0 {
				cm.bad = fmt.Sprintf("input bit %d is dropped", b)
				return cm
			}
			if decoder {
				maps[val][hit] = b // value bit hit comes from register bit b
			} else {
				maps[val][b] = hit
			}
		}
	}
	if maps[0] != maps[1] {
		return nil
	}
	cm.bits = maps[0]
	// a bijection?
	seen := map[int]bool{}
	for _, r := range cm.bits {
		if seen[r] {
			cm.bad = "two value bits share one register bit"
			return cm
		}
		seen[r] = true
	}
	cm.bytePerm()
	return cm
}
